#!/usr/bin/env python3
"""print the markdown table of seeded changes from /verif/seeded/*/meta.json (for DESIGN.md section 10.5)"""
import json, glob, os, re
rows = []
for f in sorted(glob.glob('/verif/seeded/*/meta.json')):
    m = json.load(open(f)); sid = m['id']
    conf = m.get('confirmed_by_coordinator', {})
    res = []
    for cid, c in sorted(m.get('checks_run_against_it', {}).items()):
        if c['fired']: res.append('**caught** by %s: `%s`' % (cid, (c['keys'] or ['?'])[0][:70]))
        else: res.append('missed by %s (quick, seed 1)' % cid)
    note = m.get('note', '')
    title = re.sub(r'^C\d+\s*[—-]\s*', '', m.get('title', ''))[:140]
    ok = 'demo %s/%s, tests %s' % (conf.get('demo_unmodified_rc'), conf.get('demo_modified_rc'), {True: 'pass', False: 'see note', None: 'n/a'}.get(conf.get('baseline_tests_pass')))
    rows.append('| %s | %s | %s | %s%s |' % (sid, title.replace('|', '/'), ok, '; '.join(res), (' — ' + note) if note else ''))
print('| seed | change | confirmation (demo rc unmodified/modified, 75 tests) | result |\n|---|---|---|---|')
print('\n'.join(rows))
