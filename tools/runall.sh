#!/bin/bash
# usage: tools/runall.sh <outdir> <tier> <seed> ID...
out=$1; tier=$2; seed=$3; shift 3
mkdir -p $out
for id in "$@"; do
  s=$(date +%s)
  ./vf check $id --tier $tier --seed $seed > $out/$id.log 2>&1; rc=$?
  e=$(date +%s)
  echo "$id rc=$rc wall=$((e-s))s $(grep -c '^KNOWN-FINDING' $out/$id.log) known, $(grep -c '^VIOLATION' $out/$id.log) violations" | tee -a $out/SUMMARY
done
