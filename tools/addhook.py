#!/usr/bin/env python3
"""addhook.py FILE SITE PATTERN [before|after] [--nth N]  : insert a guarded PARSEC_VERIF_YIELD line
before/after every line containing PATTERN (or only the N-th match). Additive only."""
import sys,re
f,site,pat=sys.argv[1:4]
where=sys.argv[4] if len(sys.argv)>4 and not sys.argv[4].startswith('--') else 'before'
nth=None
if '--nth' in sys.argv: nth=int(sys.argv[sys.argv.index('--nth')+1])
lines=open(f).read().split('\n')
out=[];k=0
for l in lines:
    hit = pat in l
    if hit:
        k+=1
        if nth is not None and k!=nth: hit=False
    ind=re.match(r'\s*',l).group(0)
    block=['#if defined(PARSEC_VERIF)', ind+'PARSEC_VERIF_YIELD(PARSEC_VERIF_SITE_%s);'%site, '#endif']
    if hit and where=='before': out+=block
    out.append(l)
    if hit and where=='after': out+=block
open(f,'w').write('\n'.join(out))
print(f, 'matches', k)
