#!/usr/bin/env python3
"""Regenerate /verif/MANIFEST.json from the check modules present in lib/checks (each declares META).
Properties without a check module are listed under not_applicable with the reason kept in NA below."""
import os, sys, json, importlib, glob
HERE = os.path.dirname(os.path.dirname(os.path.abspath(__file__)))
sys.path.insert(0, os.path.join(HERE, 'lib')); sys.path.insert(0, os.path.join(HERE, 'lib', 'checks'))

NA = {
    'C43': 'anchored code (mca/device/device_gpu.c, transfer_gpu.c) is not compiled in any build possible here (no CUDA/HIP/Level-Zero SDK, no accelerator): no execution to observe; the host-executable part of the protocol (data.c ownership/version) is decided under C26 (DESIGN section 5)',
}
PENDING = 'monitor designed (DESIGN section 4) but not built/soaked in this tree yet; not claimed until it has run silent on the unchanged tree'

props = [json.loads(l) for l in open(os.path.join(HERE, 'properties.jsonl'))]
checks = []; na = []
for p in props:
    pid = p['id']
    modf = os.path.join(HERE, 'lib', 'checks', pid.lower() + '.py')
    if pid in NA and not os.path.exists(modf):
        na.append({'property_id': pid, 'reason': NA[pid]}); continue
    if not os.path.exists(modf):
        na.append({'property_id': pid, 'reason': PENDING}); continue
    mod = importlib.import_module(pid.lower())
    M = getattr(mod, 'META', None)
    if not M or M.get('disabled'):
        na.append({'property_id': pid, 'reason': (M or {}).get('disabled') or PENDING}); continue
    c = {'property_id': pid,
         'quick_cmd': './vf check %s --tier quick' % pid,
         'thorough_cmd': './vf check %s --tier thorough' % pid,
         'evidence_file': '/verif/evidence/%s.json' % pid,
         'replay_cmd_template': './vf replay {path}',
         'engine': M.get('engine', 'direct harness'),
         'level_claimed': {'category': M.get('level', 'exploration'), 'text': M['text'], 'design_ref': M.get('design_ref', 'DESIGN.md section 4, ' + pid)},
         'level_note': M['note'],
         'technique': M['technique']}
    checks.append(c)

man = {
    'version': 1,
    'setup_cmd': './vf setup',
    'hooks': {
        'guard': 'PARSEC_VERIF',
        'enable': 'flavours under /verif/.build are configured with -DCMAKE_C_FLAGS="-DPARSEC_VERIF" (lib/vfbuild.py); harnesses are compiled with -DPARSEC_VERIF',
        'baseline_off_cmd': './vf baseline-off',
        'source_commits': [l.strip() for l in open(os.path.join(HERE, 'hook_commits.txt')) if l.strip() and not l.startswith('#')] if os.path.exists(os.path.join(HERE, 'hook_commits.txt')) else [],
        'add_only': True,
    },
    'engines': [
        {'name': 'vf', 'path': '/verif/vf', 'serves_properties': [c['property_id'] for c in checks],
         'kind_free_text': 'python driver: builds /repo working tree in sanitizer (ASan+UBSan, assertions on) and production flavours with hooks on, runs C harnesses / generated programs, scans sanitizer logs, applies stall rule, matches known findings, writes evidence'},
    ],
    'checks': checks,
    'not_applicable': na,
    'notes': 'Technique family: runtime monitoring and sanitizers only. Every verdict is "held on the executions observed". Known findings: /verif/known_findings.txt. See DESIGN.md.',
}
json.dump(man, open(os.path.join(HERE, 'MANIFEST.json'), 'w'), indent=1)
print('MANIFEST: %d checks, %d not_applicable' % (len(checks), len(na)))
try:
    import jsonschema
    jsonschema.validate(man, json.load(open('/root/.vp/MANIFEST.schema.json')))
    print('schema ok')
except ImportError:
    pass
