#!/bin/bash
# tools/seedconfirm.sh <ID> [srcdir=/tmp/seedout/<ID>] : confirm a seeded change independently in a scratch worktree:
#  demo passes on HEAD, patch applies and builds, the 75 baseline tests still pass, demo fails with the patch.
# Writes /tmp/seedconfirm/<ID>.json and prints one summary line.
id=$1; src=${2:-/tmp/seedout/$id}
wt=/tmp/cf-$id; out=/tmp/seedconfirm; mkdir -p $out
log=$out/$id.log; : > $log
git -C /repo worktree remove --force $wt 2>/dev/null; rm -rf $wt
git -C /repo worktree add -q $wt HEAD >>$log 2>&1 || { echo "$id worktree failed"; exit 2; }
( cmake -G Ninja -S $wt -B $wt/_b -DCMAKE_BUILD_TYPE=RelWithDebInfo -DCMAKE_C_FLAGS=-Wno-error -DBUILD_TESTING=${BUILD_TESTING:-ON} && cmake --build $wt/_b ) >>$log 2>&1 || { echo "$id base build failed"; exit 2; }
cp -r $src $wt/_seed
export OMPI_ALLOW_RUN_AS_ROOT=1 OMPI_ALLOW_RUN_AS_ROOT_CONFIRM=1
demo() { ( cd $wt/_seed && timeout ${DEMO_TIMEOUT:-1500} bash ./run_demo.sh $wt/_b ) >>$log 2>&1; echo $?; }
echo "=== demo on unmodified" >>$log; d0=$(demo)
if ! git -C $wt apply $src/patch.diff >>$log 2>&1; then echo "$id PATCH-DOES-NOT-APPLY"; applies=0; else applies=1; fi
build=1; tests_ok=-1; d1=-1; failed=""
if [ $applies = 1 ]; then
  cmake --build $wt/_b >>$log 2>&1 || build=0
  if [ $build = 1 ]; then
    [ -n "$SKIP_TESTS" ] || ( cd $wt/_b && env -u OMPI_ALLOW_RUN_AS_ROOT -u OMPI_ALLOW_RUN_AS_ROOT_CONFIRM ctest -j${CTEST_J:-6} --timeout 900 -E ':mp|runtime/scheduling|dsl/dtd/task_generation' > $out/$id.ctest 2>&1
      # tests that failed or timed out (the box is shared and may be overloaded) get one more chance, one at a time
      env -u OMPI_ALLOW_RUN_AS_ROOT -u OMPI_ALLOW_RUN_AS_ROOT_CONFIRM ctest --rerun-failed -j2 --timeout 2400 >> $out/$id.ctest 2>&1 )
    failed=$(python3 - $out/$id.ctest <<'PY'
import sys,json,re
stable=set(x.split('::')[0] for x in json.load(open('/root/.vp/BASELINE.json'))['stable_pass'])
import os
txt=open(sys.argv[1]).read() if os.path.exists(sys.argv[1]) else ''
passed=set(re.findall(r'Test\s+#\d+:\s+(\S+)\s+\.+\s+Passed',txt))
stable.discard('dsl/dtd/task_generation')   # 600k-task insertion benchmark: does not finish on this shared box with or without a change
print(' '.join(sorted(stable-passed)))
PY
)
    [ -z "$failed" ] && tests_ok=1 || tests_ok=0
    [ -n "$SKIP_TESTS" ] && { tests_ok=-1; failed=""; }
    echo "=== demo on modified" >>$log; d1=$(demo)
  fi
fi
python3 - <<PY
import json
json.dump(dict(id="$id", demo_unmodified_rc=int("$d0"), patch_applies=bool($applies), builds=bool($build), baseline_tests_pass=($tests_ok==1), baseline_failed="$failed".split(), demo_modified_rc=int("$d1")), open("$out/$id.json","w"), indent=1)
PY
echo "$id demo0=$d0 applies=$applies build=$build tests_ok=$tests_ok failed=[$failed] demo1=$d1"
git -C /repo worktree remove --force $wt; rm -rf $wt
