#!/bin/bash
# tools/seedcheck.sh <ID> <patch.diff> [check-id ...] : apply a seeded change to a scratch worktree of /repo HEAD,
# run the given checks (default: <ID>) quick against it, print the verdicts, remove the worktree.
id=$1; patch=$(readlink -f $2); shift 2
checks=${@:-$id}
wt=/tmp/sc-$id
git -C /repo worktree remove --force $wt 2>/dev/null; rm -rf $wt $wt.build $wt.out
git -C /repo worktree add -q $wt HEAD || exit 2
git -C $wt apply $patch || { echo "PATCH DOES NOT APPLY"; git -C /repo worktree remove --force $wt; exit 2; }
for c in $checks; do
  VERIF_REPO=$wt VERIF_BUILD=$wt.build VERIF_OUT=$wt.out ./vf check $c --tier ${TIER:-quick} --seed ${SEED:-1} > /tmp/sc-$id.$c.log 2>&1
  echo "seed $id check $c rc=$? : $(grep -m3 '^VIOLATION\|^  key' /tmp/sc-$id.$c.log | tr '\n' ' ' | cut -c1-400)"
  tail -1 /tmp/sc-$id.$c.log
done
git -C /repo worktree remove --force $wt; rm -rf $wt.build $wt.out
