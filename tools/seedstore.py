#!/usr/bin/env python3
"""tools/seedstore.py <ID> [check results...]: copy a confirmed seeded change from /tmp/seedout/<ID> into /verif/seeded/<ID>/
(patch.diff, demonstration files, README.md) and write meta.json from /tmp/seedconfirm/<ID>.json and the seedcheck logs."""
import sys, os, json, shutil, re, glob
sid = sys.argv[1]
src = '/tmp/seedout/' + sid; dst = '/verif/seeded/' + sid
os.makedirs(dst, exist_ok=True)
for f in os.listdir(src):
    p = os.path.join(src, f)
    if os.path.isfile(p) and os.path.getsize(p) < 400000 and not f.startswith('.') and not f.endswith(('.log', '.ctest', '.o', '.exe')):
        shutil.copy(p, os.path.join(dst, f))
conf = {}
cf = '/tmp/seedconfirm/%s.json' % sid
if os.path.exists(cf): conf = json.load(open(cf))
readme = open(os.path.join(src, 'README.md')).read() if os.path.exists(os.path.join(src, 'README.md')) else ''
title = (re.search(r'^#\s*(.*)', readme, re.M) or [None, ''])[1]
needs = ''
m = re.search(r'(?is)##\s*What it needs[^\n]*\n(.*?)(?=\n##|\Z)', readme)
if m: needs = ' '.join(m.group(1).split())[:900]
checks = {}
for lf in sorted(glob.glob('/tmp/sc-%s.*.log' % sid)):
    cid = lf.split('.')[-2]
    txt = open(lf, errors='replace').read()
    last = [l for l in txt.splitlines() if '-> exit' in l]
    keys = re.findall(r'^\s+key=(\S+)', txt, re.M)
    checks[cid] = {'verdict_line': last[-1] if last else '(no verdict line)', 'fired': bool(re.search(r'^VIOLATION', txt, re.M)), 'keys': keys[:6]}
meta = {'id': sid, 'breaks_property': sid, 'title': title, 'needs_to_manifest': needs,
        'author': 'independent sub-agent given only the property text and a scratch worktree (tools/agent brief: /tmp/seedbrief.md)',
        'confirmed_by_coordinator': conf,
        'how_confirmed': 'tools/seedconfirm.sh: scratch worktree of /repo HEAD, demo on unmodified build (must exit 0), git apply patch.diff, rebuild, 75 baseline tests (ctest; failures re-run once), demo on modified build (must exit non-zero)',
        'checks_run_against_it': checks,
        'how_checked': 'tools/seedcheck.sh: scratch worktree + VERIF_REPO/VERIF_BUILD/VERIF_OUT, ./vf check <ID> --tier quick --seed 1'}
json.dump(meta, open(os.path.join(dst, 'meta.json'), 'w'), indent=1)
print(sid, 'stored;', {k: v['fired'] for k, v in checks.items()}, conf.get('demo_unmodified_rc'), conf.get('demo_modified_rc'), conf.get('baseline_tests_pass'))
