"""E1 build/run/check plumbing: model -> JDF -> ptgpp -> binary; run one configuration; parse per-rank logs;
apply the event-log oracles (exactly-once, ordering, values, final collection, keys, AGAIN counts)."""
import os, struct, subprocess, hashlib, json, re, shutil
import vfbuild, vfcore
from e1 import *

REC = struct.Struct('<ii4iiiiiQQ8q8qQii56s')
HARN = os.path.join(vfbuild.VERIF, 'harness')


def prog_hash(prog):
    return hashlib.sha1(prog.jdf().encode()).hexdigest()[:12]


import threading
_rt_lock = threading.Lock()


def rt_object(ctx, flavour):
    with _rt_lock:
        return _rt_object(ctx, flavour)


def _rt_object(ctx, flavour):
    ctx.build(flavour)
    out = os.path.join(vfbuild.bdir(flavour), 'harness', 'e1_rt.o')
    src = os.path.join(HARN, 'e1_rt.c')
    os.makedirs(os.path.dirname(out), exist_ok=True)
    lib = os.path.join(vfbuild.bdir(flavour), 'parsec', 'libparsec.so')
    if (not os.path.exists(out)) or os.path.getmtime(out) < max(os.path.getmtime(src), os.path.getmtime(os.path.join(HARN, 'e1_rt.h')), os.path.getmtime(lib)):
        fl = vfbuild.FLAVOURS[flavour]
        cmd = ['mpicc', '-std=gnu11', '-w', '-c'] + fl['cflags'] + vfbuild.inc_flags(flavour) + [src, '-o', out + '.tmp%d' % os.getpid()]
        rc, o = vfbuild._run(cmd)
        if rc != 0: raise vfcore.HarnessError('e1_rt compile failed: ' + o[-3000:])
        os.replace(out + '.tmp%d' % os.getpid(), out)
    return out


marks_events = {}
region_logs = {}      # outdir -> (region records, partition-wise finals) of runs in region mode (C18)


class BuildFailure(Exception):
    def __init__(self, stage, text):
        Exception.__init__(self, stage + ': ' + text[-1500:]); self.stage = stage; self.text = text


def build_program(ctx, flavour, progs, wdir, ptg_flags=(), tag='p'):
    """progs: list of e1.Program (one JDF each, distinct names).  Returns path of the executable."""
    os.makedirs(wdir, exist_ok=True)
    rt = rt_object(ctx, flavour)
    fl = vfbuild.FLAVOURS[flavour]
    objs = []
    for i, p in enumerate(progs):
        jdf = p.jdf(tpidx=i)
        if i == len(progs) - 1: jdf += '\n' + p.glue(progs)
        jf = os.path.join(wdir, p.name + '.jdf')
        open(jf, 'w').write(jdf)
        rc, o = vfbuild._run([vfbuild.ptgpp(flavour), '-E', '-i', p.name + '.jdf', '-o', p.name] + list(ptg_flags), cwd=wdir)
        if rc != 0 or not os.path.exists(os.path.join(wdir, p.name + '.c')):
            raise BuildFailure('ptgpp', o)
        if 'Fatal Error' in o or 'Error' in o:
            # ptgpp's sanity checker objects to the program (it only aborts with -Werror): not a valid program for E1
            raise BuildFailure('ptgpp-diagnostic', o)
    for i, p in enumerate(progs):
        rc, o = vfbuild._run(['mpicc', '-std=gnu11', '-w', '-c'] + fl['cflags'] + vfbuild.inc_flags(flavour) + ['-I' + wdir, p.name + '.c', '-o', p.name + '.o'], cwd=wdir)
        if rc != 0: raise BuildFailure('cc', o)
        objs.append(os.path.join(wdir, p.name + '.o'))
    exe = os.path.join(wdir, tag + '.exe')
    rc, o = vfbuild._run(['mpicc'] + objs + [rt, '-o', exe] + fl['ldflags'] + vfbuild.link_flags(flavour))
    if rc != 0: raise BuildFailure('link', o)
    return exe


def placement_table(nk, world, mode, seed):
    if mode == 'cyclic': return [k % world for k in range(nk)]
    if mode == 'block': return [min(world - 1, k * world // nk) for k in range(nk)]
    if mode == 'rand': return [(mix(k, seed * 31 + 7) & MASK) % world for k in range(nk)]
    if mode == 'pair': return [((k // 2) + seed) % world for k in range(nk)]
    raise ValueError(mode)


class Cfg:
    def __init__(self, **kw):
        self.sched = kw.get('sched', 'lfq'); self.cores = kw.get('cores', 4); self.ranks = kw.get('ranks', 1)
        self.place = kw.get('place', 'cyclic'); self.pseed = kw.get('pseed', 1); self.ts = kw.get('ts', 1)
        self.again = kw.get('again', (0, 1)); self.sleep = kw.get('sleep', (0, 200)); self.seed = kw.get('seed', 1)
        self.mca = dict(kw.get('mca', {})); self.scenario = kw.get('scenario', 'together'); self.yield_ = kw.get('yield_', None)
        self.flavour = kw.get('flavour', 'asan'); self.env = dict(kw.get('env', {})); self.table = kw.get('table'); self.events = kw.get('events', 0); self.vps = kw.get('vps', 1)
        self.mb = kw.get('mb', 0); self.mpimt = kw.get('mpimt', 0)      # region mode (typed programs, C18): tile = mb x mb, ts must be mb*mb

    def ident(self):
        t = (self.flavour, self.sched, self.cores, self.ranks, self.place, self.pseed, self.ts, self.again, self.sleep, self.scenario,
             tuple(sorted(self.mca.items())), self.yield_)
        return t + (('mb', self.mb, 'mpimt', self.mpimt),) if (self.mb or self.mpimt) else t

    def short(self):
        s = '%s sched=%s cores=%d ranks=%d place=%s ts=%d' % (self.flavour, self.sched, self.cores, self.ranks, self.place, self.ts)
        if self.again[0]: s += ' again=%d:%d' % self.again
        if self.sleep[0]: s += ' sleep=%d' % self.sleep[0]
        if self.mca: s += ' mca=' + ','.join('%s=%s' % kv for kv in sorted(self.mca.items()))
        if self.yield_: s += ' yield=' + self.yield_
        if self.scenario != 'together': s += ' scenario=' + self.scenario
        if getattr(self, 'vps', 1) > 1: s += ' vps=%d' % self.vps
        if self.mb: s += ' mb=%d' % self.mb
        if self.mpimt: s += ' mpi-thread-multiple'
        return s


def run_program(ctx, exe, nk, cfg, outdir, tag, timeout=240, stall_s=45):
    os.makedirs(outdir, exist_ok=True)
    table = list(cfg.table) if cfg.table else placement_table(nk, cfg.ranks, cfg.place, cfg.pseed)
    pf = os.path.join(outdir, 'place.txt')
    open(pf, 'w').write(' '.join(str(x) for x in table) + '\n')
    cmd = [exe, '--cores', str(cfg.cores), '--nk', str(nk), '--ts', str(cfg.ts), '--seed', str(cfg.seed), '--again', '%d:%d' % cfg.again,
           '--sleep', '%d:%d' % cfg.sleep, '--out', outdir, '--place', pf, '--scenario', cfg.scenario, '--events', str(cfg.events), '--', '--mca', 'mca_sched', cfg.sched]
    for k, v in sorted(cfg.mca.items()): cmd += ['--mca', k, str(v)]
    if cfg.mb or cfg.mpimt:
        i = cmd.index('--'); cmd[i:i] = ['--mb', str(cfg.mb), '--mpimt', str(cfg.mpimt), '--hblate', '1']
    env = dict(cfg.env)
    if getattr(cfg, 'vps', 1) > 1:
        # several virtual processes: hwloc vpmap (one vp per package) on a synthetic multi-package topology (rr:/file: maps crash)
        per = max(1, (cfg.cores + cfg.vps - 1) // cfg.vps)
        env['HWLOC_SYNTHETIC'] = 'package:%d core:%d pu:1' % (cfg.vps, per); env['PARSEC_MCA_runtime_vpmap'] = 'hwloc'
    if cfg.yield_: env['PARSEC_VERIF_YIELD'] = cfg.yield_
    r = ctx.run(cmd, env=env, timeout=timeout, stall_s=stall_s, mpi=cfg.ranks if cfg.ranks > 1 else 0, tag=tag)
    r.table = table; r.outdir = outdir; r.nranks = cfg.ranks
    return r


def load_logs(outdir, ranks):
    """-> (records, finals{key:(val,bad)}, marks[(rank,kind,a,b,stamp)], complete: bool)"""
    recs = []; finals = {}; marks = []; complete = True
    events = []; regs = []; gfin = {}
    for rk in range(ranks):
        lf = os.path.join(outdir, 'log.%d.bin' % rk); ff = os.path.join(outdir, 'final.%d.txt' % rk)
        if not (os.path.exists(lf) and os.path.exists(ff)):
            complete = False; continue
        b = open(lf, 'rb').read()
        magic, rsz, n, _ = struct.unpack_from('<4Q', b, 0)
        if rsz != REC.size: raise vfcore.HarnessError('record size mismatch %d vs %d' % (rsz, REC.size))
        for t in REC.iter_unpack(b[32:32 + n * rsz]):
            recs.append(dict(tp=t[0], cls=t[1], p=t[2:6], rank=t[6], thread=t[7], inv=t[8], ret=t[9], enter=t[10], exit=t[11],
                             ins=t[12:20], outs=t[20:28], key=t[28], tile_bad=t[29], prio=t[30], keytxt=t[31].split(b'\0')[0].decode(errors='replace')))
        ended = False
        for l in open(ff):
            w = l.split()
            if w[0] == 'F': finals[int(w[1])] = (int(w[2]), int(w[3]))
            elif w[0] == 'M': marks.append((rk, int(w[1]), int(w[2]), int(w[3]), int(w[4])))
            elif w[0] == 'E': events.append(dict(rank=rk, kind=int(w[1]), peer=int(w[2]), root=int(w[3]), cid=int(w[4]), tpid=int(w[5]), cls=w[6],
                                                  l=tuple(int(x) for x in w[7:11]), mask=int(w[11]), stamp=int(w[12])))
            elif w[0] == 'R': regs.append(dict(rank=rk, tp=int(w[1]), cls=int(w[2]), p=tuple(int(x) for x in w[3:7]), flow=int(w[7]), kind=int(w[8]), inv=int(w[9]),
                                               v=(int(w[10]), int(w[12]), int(w[14])), ok=(int(w[11]), int(w[13]), int(w[15])), ptr=int(w[16], 16), stamp=int(w[17])))
            elif w[0] == 'G': gfin[int(w[1])] = ((int(w[2]), int(w[4]), int(w[6])), (int(w[3]), int(w[5]), int(w[7])))
            elif w[0] == 'ROVERFLOW': complete = False
            elif w[0] == 'END': ended = True
        if not ended: complete = False
    marks_events[outdir] = events
    if regs or gfin: region_logs[outdir] = (regs, gfin)
    return recs, finals, marks, complete


def check_logs(refs, recs, finals, table, oracles, cfg, progs):
    """refs: list of e1.Ref (one per taskpool index).  Returns list of (oracle, key_suffix, text)."""
    out = []

    def bad(oracle, feat, text):
        out.append((oracle, feat, text))

    done = {}; allinv = {}
    for r in recs:
        if not (0 <= r['tp'] < len(refs)):
            bad('space', 'unknown-taskpool', 'record with taskpool index %d' % r['tp']); continue
        ref = refs[r['tp']]
        if not (0 <= r['cls'] < len(ref.p.classes)):
            bad('space', 'unknown-class', 'record with class id %d' % r['cls']); continue
        tc = ref.p.classes[r['cls']]
        k = (r['tp'], (r['cls'], tuple(r['p'][:len(tc.pnames)])))
        allinv.setdefault(k, []).append(r)
        if r['ret'] == 0: done.setdefault(k, []).append(r)
    for ti, ref in enumerate(refs):
        feats = lambda k: '+'.join(sorted(ref.p.classes[k[0]].features)) or 'plain'
        # --- exactly once / space / placement
        if 'once' in oracles:
            for k in ref.inst:
                d = done.get((ti, k), [])
                if len(d) == 0:
                    bad('once', 'missing:' + feats(k), 'instance %s never completed (tp %d)' % (ref.name(k), ti)); break
                if len(d) > 1:
                    bad('once', 'duplicate:' + feats(k), 'instance %s completed %d times' % (ref.name(k), len(d))); break
                exp = table[ref.placement(k)]
                if d[0]['rank'] != exp:
                    bad('once', 'wrong-rank:' + feats(k), 'instance %s ran on rank %d, owner of its placement key is %d' % (ref.name(k), d[0]['rank'], exp)); break
            for (t2, k) in done:
                if t2 == ti and k not in ref.idx:
                    bad('once', 'outside-space', 'executed %s%s which is not in the execution space' % (ref.p.classes[k[0]].name, k[1])); break
        # --- ordering and values
        if 'order' in oracles or 'values' in oracles:
            stop = False
            for (s, sf, d, df) in sorted(ref.edges, key=lambda e: (ref.tpos[e[2]], e[3])):
                ds = done.get((ti, d)); ss = done.get((ti, s))
                if not ds or not ss: continue
                rd, rs = ds[0], ss[0]
                if 'order' in oracles and rd['rank'] == rs['rank'] and not (rs['exit'] < rd['enter']):
                    bad('order', 'succ-before-pred:' + feats(d), '%s entered (stamp %d) before its predecessor %s exited (stamp %d) on rank %d' % (
                        ref.name(d), rd['enter'], ref.name(s), rs['exit'], rd['rank'])); stop = True
                if stop: break
            if 'values' in oracles:
                for k in ref.order:
                    ds = done.get((ti, k))
                    if not ds: continue
                    tc = ref.p.classes[k[0]]
                    for fi, fl in enumerate(tc.flows):
                        if fl.mode in ('CTL', 'WRITE'): continue
                        exp = ref.inv[(k, fi)]; got = ds[0]['ins'][fi]
                        if got != exp:
                            src = ref.src[(k, fi)]
                            sdesc = ref.name(src[1]) + '.' + ref.p.classes[src[1][0]].flows[src[2]].name if src[0] == 'task' else str(src)
                            who = _who_has(ref, got)
                            bad('values', 'wrong-input:%s:%s' % (src[0], feats(k)), '%s flow %s read %d, reference %d (source %s)%s' % (
                                ref.name(k), fl.name, got, exp, sdesc, who)); stop = True; break
                        if ds[0]['tile_bad'] & (1 << fi):
                            bad('values', 'torn-tile:' + feats(k), '%s flow %s: tile payload inconsistent with its tag' % (ref.name(k), fl.name)); stop = True; break
                    if stop: break
        # --- AGAIN
        if 'again' in oracles:
            for k in ref.inst:
                inv = sorted(allinv.get((ti, k), []), key=lambda r: r['enter'])
                if not inv: continue
                h = mix(1000003 + ti, k[0])
                for v in k[1]: h = mix(h, v)
                d = mix(h, cfg.seed * 7919 + 13) & MASK
                want = (1 + ((d >> 20) % cfg.again[1])) if (cfg.again[0] > 0 and (d % 1000) < cfg.again[0]) else 0
                rets = [r['ret'] for r in inv]
                if len(inv) != want + 1 or rets != [1] * want + [0] or [r['inv'] for r in inv] != list(range(want + 1)):
                    bad('again', 'invocations:' + feats(k), '%s asked for %d AGAIN returns: observed invocations %s (ret codes %s)' % (
                        ref.name(k), want, [r['inv'] for r in inv], rets)); break
                for a, b in zip(inv, inv[1:]):
                    if not (a['exit'] < b['enter']):
                        bad('again', 'overlap:' + feats(k), '%s re-entered before its previous invocation returned' % ref.name(k)); break
        # --- keys
        if 'keys' in oracles:
            seen = {}
            for (t2, k), ds in done.items():
                if t2 != ti: continue
                r = ds[0]
                kk = (k[0], r['key'])
                if kk in seen and seen[kk] != k:
                    bad('keys', 'collision:' + feats(k), 'make_key gives %#x for both %s and %s' % (r['key'], ref.name(k), ref.name(seen[kk]))); break
                seen[kk] = k
                nums = [int(x) for x in re.findall(r'-?\d+', r['keytxt'])]
                if nums[:len(k[1])] != list(k[1]) and nums[-len(k[1]):] != list(k[1]):
                    bad('keys', 'print:' + feats(k), 'key_print of %s gives "%s"' % (ref.name(k), r['keytxt'])); break
    # --- final collection (all taskpools applied in order)
    if 'final' in oracles:
        store = None
        exp = {}
        for ref in refs:
            for kk, v in ref.final.items():
                if v != 5000 + kk: exp[kk] = v
                else: exp.setdefault(kk, v)
        for kk in sorted(exp):
            if kk not in finals:
                bad('final', 'missing-key', 'no rank reported key %d' % kk); break
            if finals[kk][0] != exp[kk]:
                bad('final', 'wrong-final', 'collection key %d holds %d, reference %d' % (kk, finals[kk][0], exp[kk])); break
            if finals[kk][1]:
                bad('final', 'torn-final', 'collection key %d payload inconsistent' % kk); break
    return out


def _who_has(ref, val):
    for (k, fi), v in ref.outv.items():
        if v == val and ref.p.classes[k[0]].flows[fi].mode in ('RW', 'WRITE'):
            return ' — that value was produced by %s.%s' % (ref.name(k), ref.p.classes[k[0]].flows[fi].name)
    for kk in range(ref.p.nk):
        if val == 5000 + kk: return ' — that is the initial value of collection key %d' % kk
    if val == -1: return ' — NULL pointer'
    return ''
