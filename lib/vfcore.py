"""Driver core: run harnesses, scan sanitizer logs, detect stalls, match known findings,
write evidence and replays.  Verdicts are three-valued internally (held / violated / inconclusive)."""
import os, sys, json, time, subprocess, shutil, re, signal, hashlib, glob, threading
from concurrent.futures import ThreadPoolExecutor

import vfbuild
from vfbuild import VERIF, REPO

# VERIF_OUT redirects everything a run writes (scratch trials against a mutated copy of the repo:
# VERIF_REPO=/tmp/wt VERIF_BUILD=/tmp/wt.build VERIF_OUT=/tmp/wt.out ./vf check Cxx)
OUT = os.environ.get('VERIF_OUT') or VERIF
WORK = os.path.join(OUT, '.work')
REPLAYS = os.path.join(OUT, 'replays')
EVID = os.path.join(OUT, 'evidence')
KNOWN = os.path.join(VERIF, 'known_findings.txt')
UBSAN_SUPP = os.path.join(VERIF, 'ubsan.supp')

MPI_ENV = {'OMPI_ALLOW_RUN_AS_ROOT': '1', 'OMPI_ALLOW_RUN_AS_ROOT_CONFIRM': '1',
           'OMPI_MCA_rmaps_base_oversubscribe': '1', 'OMPI_MCA_hwloc_base_binding_policy': 'none',
           'OMPI_MCA_btl_vader_single_copy_mechanism': 'none', 'OMPI_MCA_mpi_yield_when_idle': '1'}


class HarnessError(Exception):
    """The machinery failed (exit 2), not the code under test."""


class Result:
    def __init__(self):
        self.rc = None; self.signal = None; self.timed_out = False; self.stalled = False
        self.stdout = ''; self.stderr = ''; self.objs = []; self.san = []; self.wall = 0.0
        self.backtraces = ''; self.cmd = None; self.env = {}

    def of(self, typ):
        return [o for o in self.objs if o.get('type') == typ]

    def summary(self):
        s = self.of('summary')
        return s[-1] if s else None

    @property
    def crashed(self):
        return bool(self.san) or self.signal is not None or (self.rc not in (0, 1) and not self.timed_out and not self.stalled)


def _descendants(pid):
    out = []
    try:
        kids = subprocess.run(['pgrep', '-P', str(pid)], stdout=subprocess.PIPE, text=True).stdout.split()
    except Exception:
        kids = []
    for k in kids:
        out.append(int(k)); out += _descendants(int(k))
    return out


def _gdb_bt(pids, exe_hint=None):
    txt = ''
    for p in pids[:8]:
        try:
            exe = os.readlink('/proc/%d/exe' % p)
        except OSError:
            continue
        if exe_hint and os.path.basename(exe) != os.path.basename(exe_hint):
            continue
        try:
            r = subprocess.run(['gdb', '-batch', '-p', str(p), '-ex', 'thread apply all bt 10'],
                               stdout=subprocess.PIPE, stderr=subprocess.DEVNULL, text=True, timeout=60)
            txt += '=== pid %d (%s)\n%s\n' % (p, exe, r.stdout)
        except Exception as e:
            txt += '=== pid %d gdb failed: %s\n' % (p, e)
    return txt


_FRAME = re.compile(r'#\d+\s+0x[0-9a-f]+\s+in\s+(\S+)\s+(\S+)')
_GDBFRAME = re.compile(r'#\d+\s+(?:0x[0-9a-f]+\s+in\s+)?(\S+)\s+\(.*?\)\s+at\s+(\S+)')


def san_key(report):
    """Stable key for a sanitizer report: error class + first frames inside /repo."""
    m = re.search(r'ERROR: AddressSanitizer: (\S+)', report)
    kind = m.group(1) if m else None
    if kind is None:
        m = re.search(r'runtime error: (.*)', report)
        kind = 'ubsan:' + re.sub(r'[^a-z]+', '-', (m.group(1) if m else 'unknown').lower())[:40].strip('-')
        m2 = re.search(r'(\S+\.[ch]):(\d+):\d+: runtime error', report)
        where = os.path.basename(m2.group(1)) if m2 else '?'
        return '%s:%s' % (kind, where)
    funcs = []
    for fm in _FRAME.finditer(report):
        fn, loc = fm.group(1), fm.group(2)
        if '/repo/' in loc or (REPO.rstrip('/') + '/') in loc or '/verif/' in loc or '.work' in loc:
            if fn.startswith('__interceptor') or fn.startswith('__asan'):
                continue
            # functions of generated programs carry the program / class name: normalise so that keys are stable across programs
            funcs.append(re.sub(r'_of_[a-z]+\d+(?:_\d+)?_\w+$', '_of_<generated>', fn))
        if len(funcs) >= 2:
            break
    return 'asan:%s:%s' % (kind, '<'.join(funcs) if funcs else '?')


def assert_key(text):
    m = re.search(r'(\S+?):(\d+): (\S+): Assertion `(.*?)\' failed', text)
    if m:
        return 'assert:%s:%s' % (os.path.basename(m.group(1)), m.group(3))
    return None


def stall_key(bt):
    """Key a stall by the innermost parsec frames of blocked threads."""
    fr = []
    for block in bt.split('\nThread ')[1:]:
        for m in _GDBFRAME.finditer(block):
            fn, loc = m.group(1), m.group(2)
            if '/repo/parsec' in loc or loc.startswith('parsec/') or '/parsec/' in loc:
                if fn not in fr:
                    fr.append(fn)
                break
    fr = sorted(set(fr))[:4]
    return 'stall:' + ('+'.join(fr) if fr else 'unknown')


class Ctx:
    def __init__(self, prop, tier='quick', seed=1, level='exploration'):
        self.prop = prop; self.tier = tier; self.seed = int(seed); self.level = level
        self.t0 = time.time()
        self.work = os.path.join(WORK, '%s.%s.%d' % (prop, tier, os.getpid()))
        shutil.rmtree(self.work, ignore_errors=True)
        os.makedirs(self.work, exist_ok=True)
        self.evaluations = 0; self.distinct = set(); self.nontrivial_extra = 0
        self.inconclusive = 0; self.samples = []; self.cov = {}
        self.violations = []       # (key, text, replay)
        self.known_hits = {}       # key -> text
        self.assumptions = []; self.rule = ''
        self.known = self._load_known()
        self.builds = {}
        self._lock = threading.Lock()
        self.harness_failures = []

    # ---- known findings ----
    def _load_known(self):
        d = {}
        if os.path.exists(KNOWN):
            for l in open(KNOWN):
                l = l.strip()
                m = re.match(r'finding:\s+property=(\S+)\s+key=(\S+)\s+(.*)', l)
                if m and m.group(1) == self.prop:
                    d[m.group(2)] = m.group(3)
        return d

    # ---- builds ----
    def build(self, flavour='asan'):
        if flavour not in self.builds:
            try:
                self.builds[flavour] = vfbuild.build(flavour)
            except vfbuild.BuildError as e:
                raise HarnessError(str(e))
        return self.builds[flavour]

    def harness(self, name, flavour='asan', sources=None, extra_cflags=(), extra_ldflags=(), outname=None):
        self.build(flavour)
        srcs = sources or [os.path.join(VERIF, 'harness', name + '.c')]
        out = os.path.join(vfbuild.bdir(flavour), 'harness', outname or name)
        try:
            return vfbuild.compile_harness(flavour, srcs, out, extra_cflags, extra_ldflags)
        except vfbuild.BuildError as e:
            raise HarnessError(str(e))

    # ---- running ----
    def run(self, cmd, env=None, timeout=300, stall_s=None, mpi=0, tag=None, cwd=None, san=True, stdin=None):
        """Run one process (or an MPI job of `mpi` ranks). Never raises for failures of the code under test."""
        r = Result()
        tag = tag or ('run%d' % int(time.time() * 1e6))
        rd = os.path.join(self.work, tag)
        os.makedirs(rd, exist_ok=True)
        e = dict(os.environ)
        e.update(MPI_ENV)
        if san:
            e['ASAN_OPTIONS'] = 'detect_leaks=0:halt_on_error=1:abort_on_error=1:handle_abort=1:detect_stack_use_after_return=0:log_path=%s/asan' % rd
            e['UBSAN_OPTIONS'] = 'print_stacktrace=1:halt_on_error=0:log_path=%s/ubsan:suppressions=%s' % (rd, UBSAN_SUPP)
        if env:
            e.update({k: str(v) for k, v in env.items()})
        full = list(cmd)
        if mpi and mpi > 0:
            full = ['mpiexec', '--oversubscribe', '--bind-to', 'none', '-n', str(mpi)] + full
        r.cmd = full; r.env = dict(env or {})
        so = open(os.path.join(rd, 'stdout'), 'wb'); se = open(os.path.join(rd, 'stderr'), 'wb')
        t0 = time.time()
        try:
            p = subprocess.Popen(full, stdout=so, stderr=se, env=e, cwd=cwd or rd, stdin=subprocess.DEVNULL,
                                 start_new_session=True)
        except OSError as ex:
            raise HarnessError('cannot start %s: %s' % (full[0], ex))
        last_size = -1; last_change = time.time()
        while True:
            try:
                p.wait(timeout=0.25)
                break
            except subprocess.TimeoutExpired:
                pass
            now = time.time()
            if stall_s:
                try:
                    sz = os.path.getsize(os.path.join(rd, 'stderr')) + os.path.getsize(os.path.join(rd, 'stdout'))
                    # heartbeat lines only count when their value changed
                    if sz != last_size:
                        hb = self._last_hb(os.path.join(rd, 'stderr'))
                        if hb != getattr(self, '_hbv_' + tag, None) or hb is None:
                            setattr(self, '_hbv_' + tag, hb); last_change = now
                        last_size = sz
                except OSError:
                    pass
                if now - last_change > stall_s:
                    r.stalled = True
            if now - t0 > timeout:
                r.timed_out = True
            if r.stalled or r.timed_out:
                try:
                    r.backtraces = _gdb_bt([p.pid] + _descendants(p.pid), exe_hint=cmd[0])
                except Exception:
                    pass
                try:
                    os.killpg(p.pid, signal.SIGKILL)
                except OSError:
                    pass
                p.wait()
                break
        so.close(); se.close()
        r.wall = time.time() - t0
        r.rc = p.returncode
        if r.rc is not None and r.rc < 0 and not (r.stalled or r.timed_out):
            r.signal = -r.rc
        r.stdout = open(os.path.join(rd, 'stdout'), 'r', errors='replace').read()
        r.stderr = open(os.path.join(rd, 'stderr'), 'r', errors='replace').read()
        if mpi and not (r.stalled or r.timed_out):
            m = re.search(r'exited on signal (\d+)', r.stderr)
            if m:
                r.signal = int(m.group(1))
        for l in r.stdout.splitlines():
            i = l.find('VF {')
            if i >= 0:
                try:
                    r.objs.append(json.loads(l[i + 3:]))
                except ValueError:
                    pass
        # Sanitizer reports.  With both ASAN_OPTIONS and UBSAN_OPTIONS carrying a log_path the combined runtime uses
        # ONE of them for everything (and UBSan text may also land on stderr): scan every log file and stderr for
        # both kinds of report.
        texts = []
        for f in sorted(glob.glob(os.path.join(rd, 'asan.*')) + glob.glob(os.path.join(rd, 'ubsan.*'))):
            texts.append(open(f, errors='replace').read())
        texts.append(r.stderr)
        seen_blocks = set()
        for txt in texts:
            if not txt.strip(): continue
            for m in re.finditer(r'(?ms)^(?:=+\n)?==\d+==ERROR: AddressSanitizer.*?(?=^==\d+==ABORTING|\Z)', txt):
                b = m.group(0)
                if b not in seen_blocks: seen_blocks.add(b); r.san.append(b)
            for b in re.split(r'(?m)^(?=\S+:\d+:\d+: runtime error)', txt):
                if re.match(r'\S+:\d+:\d+: runtime error', b):
                    # keep the report line and its stack only
                    lines = b.splitlines()
                    keep = [lines[0]] + [l for l in lines[1:40] if re.match(r'\s+#\d+ ', l)]
                    kb = '\n'.join(keep)
                    first = lines[0]
                    if first not in seen_blocks: seen_blocks.add(first); r.san.append(kb)
        if r.backtraces:
            open(os.path.join(rd, 'gdb.txt'), 'w').write(r.backtraces)
        r.dir = rd
        return r

    @staticmethod
    def _last_hb(path):
        try:
            with open(path, 'rb') as f:
                f.seek(0, 2); n = f.tell(); f.seek(max(0, n - 4096))
                tail = f.read().decode(errors='replace')
            # per-emitter last value: "VFHB <value>" (kit) or "VFHB <rank> <fields...>" (multi-rank harnesses);
            # the ORDER in which ranks print must not matter
            last = {}
            for l in tail.splitlines():
                if not l.startswith('VFHB'): continue
                w = l.split()[1:]
                if len(w) >= 2: last[w[0]] = tuple(w[1:])
                else: last[''] = tuple(w)
            return tuple(sorted(last.items())) if last else None
        except OSError:
            return None

    def pmap(self, fn, items, jobs=8):
        items = list(items)
        if jobs <= 1 or len(items) <= 1:
            return [fn(x) for x in items]
        with ThreadPoolExecutor(max_workers=jobs) as ex:
            return list(ex.map(fn, items))

    # ---- verdict plumbing ----
    def note_case(self, ident=None, nontrivial=True, n=1):
        with self._lock:
            self.evaluations += n
            if nontrivial and ident is not None:
                self.distinct.add(ident if isinstance(ident, (str, int, tuple)) else json.dumps(ident, sort_keys=True))

    def sample(self, obj, cap=5):
        with self._lock:
            if len(self.samples) < cap:
                self.samples.append(obj)

    def add_cov(self, key, n=1):
        with self._lock:
            self.cov[key] = self.cov.get(key, 0) + n

    def max_cov(self, key, v):
        with self._lock:
            self.cov[key] = max(self.cov.get(key, 0), v)

    def inconclusive_case(self, why):
        with self._lock:
            self.inconclusive += 1
            self.cov.setdefault('inconclusive_reasons', [])
            if len(self.cov['inconclusive_reasons']) < 10:
                self.cov['inconclusive_reasons'].append(why)

    def violation(self, key, text, result=None, files=None):
        """Route one violation through known-findings matching."""
        with self._lock:
            if key in self.known:
                if key not in self.known_hits:
                    self.known_hits[key] = self.known[key]
                    print('KNOWN-FINDING: property=%s %s [key=%s] observed: %s' % (self.prop, self.known[key], key, text[:300]))
                    sys.stdout.flush()
                return False
            if any(v[0] == key for v in self.violations):
                return True
            rp = os.path.join(REPLAYS, '%s-%s-seed%d-%s' % (self.prop, self.tier, self.seed, re.sub(r'[^A-Za-z0-9_.+-]+', '_', key)[:80]))
            shutil.rmtree(rp, ignore_errors=True)
            os.makedirs(rp, exist_ok=True)
            with open(os.path.join(rp, 'verdict.txt'), 'w') as f:
                f.write('property=%s\nkey=%s\n%s\n' % (self.prop, key, text))
            case = {'property': self.prop, 'tier': self.tier, 'seed': self.seed, 'key': key}
            if result is not None:
                case['cmd'] = result.cmd; case['env'] = result.env
                for name in ('stdout', 'stderr', 'gdb.txt'):
                    src = os.path.join(getattr(result, 'dir', ''), name)
                    if os.path.exists(src):
                        shutil.copy(src, os.path.join(rp, name))
                for i, s in enumerate(result.san[:5]):
                    open(os.path.join(rp, 'sanitizer.%d.txt' % i), 'w').write(s)
                with open(os.path.join(rp, 'run.sh'), 'w') as f:
                    f.write('#!/bin/sh\n' + ' '.join('%s=%s' % (k, _shq(str(v))) for k, v in (result.env or {}).items()) +
                            ' ' + ' '.join(_shq(c) for c in (result.cmd or [])) + '\n')
            for name, content in (files or {}).items():
                dst = os.path.join(rp, name)
                if isinstance(content, str) and os.path.exists(content) and len(content) < 4096 and '\n' not in content:
                    if os.path.isdir(content):
                        shutil.copytree(content, dst, dirs_exist_ok=True)
                    else:
                        shutil.copy(content, dst)
                else:
                    with open(dst, 'w') as f:
                        f.write(content if isinstance(content, str) else json.dumps(content, indent=1))
            json.dump(case, open(os.path.join(rp, 'case.json'), 'w'), indent=1)
            self.violations.append((key, text, rp))
            print('VIOLATION property=%s replay=%s' % (self.prop, rp))
            print('  key=%s %s' % (key, text[:500]))
            sys.stdout.flush()
            return True

    def absorb(self, r, what='', feature=None, expect_objs=True, files=None):
        """Standard triage of one run result: harness-reported violations, sanitizer reports, aborts, stalls.
        Returns 'ok' | 'violation' | 'inconclusive'."""
        status = 'ok'
        pre = (feature + ':') if feature else ''
        for v in r.of('violation'):
            if self.violation(pre + v.get('key', 'oracle'), '%s %s' % (what, v.get('text', '')), r, files):
                status = 'violation'
        for s in r.san:
            k = san_key(s)
            head = s.strip().splitlines()[0] if s.strip() else ''
            if self.violation(pre + k, '%s sanitizer report: %s' % (what, head[:300]), r, files):
                status = 'violation'
        if r.stalled or r.timed_out:
            return 'stalled'
        if not r.san and (r.signal is not None or r.rc not in (0, 1)):
            ak = assert_key(r.stderr) or assert_key(r.stdout)
            if ak:
                if self.violation(pre + ak, '%s assertion failed: %s' % (what, _grep(r.stderr + r.stdout, 'Assertion')), r, files):
                    status = 'violation'
            elif r.signal is not None:
                if self.violation(pre + 'signal:%d' % r.signal, '%s died with signal %d; stderr tail: %s' % (what, r.signal, r.stderr[-400:]), r, files):
                    status = 'violation'
            else:
                # non-zero exit without a report: harness trouble unless it says otherwise
                self.harness_failures.append('%s rc=%s stderr=%s' % (what, r.rc, r.stderr[-600:]))
                status = 'inconclusive'
        if status == 'ok' and expect_objs and r.summary() is None:
            self.harness_failures.append('%s produced no summary (rc=%s) stderr=%s' % (what, r.rc, r.stderr[-600:]))
            status = 'inconclusive'
        return status

    def run_with_stall_rule(self, runner, what, feature=None, files=None):
        """runner() -> Result.  A stalled run is re-run once with the same input: two stalls = violation
        'no progress' keyed by blocked frames; one = inconclusive."""
        r = runner()
        st = self.absorb(r, what, feature, files=files)
        if st != 'stalled':
            return r, st
        r2 = runner()
        st2 = self.absorb(r2, what, feature, files=files)
        if st2 != 'stalled':
            self.inconclusive_case('%s stalled once (not reproduced)' % what)
            return r2, st2
        key = ((feature + ':') if feature else '') + stall_key(r2.backtraces or r.backtraces)
        if self.violation(key, '%s made no progress twice (stalled %s)' % (what, 'by heartbeat' if r2.stalled else 'by time-out'), r2, files):
            return r2, 'violation'
        return r2, 'known'

    # ---- evidence ----
    def finish(self, min_evals=1, min_distinct=2):
        wall = time.time() - self.t0
        cov = dict(self.cov)
        nd = len(self.distinct) + self.nontrivial_extra
        cov.update({'evaluations': self.evaluations, 'distinct_nontrivial': nd, 'rule': self.rule,
                    'samples': self.samples if self.samples else [], 'inconclusive': self.inconclusive,
                    'known_finding_hits': sorted(self.known_hits.keys())})
        ev = {'property_id': self.prop, 'tier': self.tier, 'seed': self.seed, 'level': self.level,
              'coverage': cov, 'assumptions': self.assumptions, 'wall_s': round(wall, 2),
              'violations': len(self.violations)}
        os.makedirs(EVID, exist_ok=True)
        rc = 0
        if self.violations:
            rc = 1
        elif self.harness_failures and self.evaluations < min_evals:
            rc = 2
        elif self.evaluations < min_evals or nd < min_distinct or not self.samples:
            self.harness_failures.append('observed too little: evaluations=%d distinct=%d samples=%d' % (self.evaluations, nd, len(self.samples)))
            rc = 2
        if self.harness_failures:
            cov['harness_failures'] = self.harness_failures[:10]
            if rc == 0 and len(self.harness_failures) > max(3, self.evaluations // 5):
                rc = 2
        if rc != 2:
            json.dump(ev, open(os.path.join(EVID, self.prop + '.json'), 'w'), indent=1, default=str)
        print('%s %s seed=%d: evaluations=%d distinct_nontrivial=%d inconclusive=%d violations=%d known=%d wall=%.1fs -> exit %d'
              % (self.prop, self.tier, self.seed, self.evaluations, nd, self.inconclusive, len(self.violations), len(self.known_hits), wall, rc))
        for h in self.harness_failures[:10]:
            print('  harness: ' + h[:800])
        shutil.rmtree(self.work, ignore_errors=True)
        return rc


def _shq(s):
    return "'" + s.replace("'", "'\\''") + "'"


def _grep(text, pat):
    for l in text.splitlines():
        if pat in l:
            return l.strip()[:400]
    return ''
