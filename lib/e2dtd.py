"""E2 — DTD script generator, python sequential oracle, runner and verdict routing (C03, C04, C17).

A script is a text file interpreted by harness/c03_dtd.c (no per-script compilation).  The generator only emits
legal client behaviour:
  * every rank executes the same script (DTD requirement); placement by PARSEC_AFFINITY on a parameter or by
    explicit rank;
  * a parsec_dtd_tile_new tile is first written (OUTPUT), flushed exactly once and never used afterwards;
  * a flushed collection tile is only used again after the taskpool wait that follows the flush;
  * taskpools own disjoint collections; a task only uses tiles of its taskpool;
  * tasks inserted by a task (single rank only) use tiles that the main thread leaves alone from the insertion
    of the inserting task until the next wait of that taskpool, so the per-tile insertion order is defined;
  * PARSEC_DONT_TRACK parameters are read-only, single rank, never on a tile the same task also tracks, and are
    outside every oracle;
  * nobody waits on a taskpool from inside a task.
The python oracle below re-computes the check-point values independently of the C oracle; the harness refuses to
run (exit 2) when the two disagree.
"""
import hashlib, os, random, re, json
import vfcore

M64 = (1 << 64) - 1
R, W, RW = 0, 1, 2
MNAME = {0: 'R', 1: 'W', 2: 'RW'}
SCHEDS = ['lfq', 'ltq', 'ap', 'lhq', 'gd', 'pbq', 'ip', 'rnd', 'spq', 'll', 'llp']


def mix(a, b):
    a &= M64; b &= M64
    x = ((a * 0x9E3779B97F4A7C15) & M64) ^ ((b + 0x7F4A7C15 + ((a << 6) & M64) + (a >> 2)) & M64)
    x ^= x >> 29; x = (x * 0xBF58476D1CE4E5B9) & M64; x ^= x >> 32
    return x


def s64(x):
    return x - (1 << 64) if x >> 63 else x


class Script:
    def __init__(self, world, nb=4, ntp=1):
        self.world = world; self.nb = nb; self.ntp = ntp
        self.tiles = []      # (tp, kind, owner)
        self.ops = []        # ('task', dict) | ('flush', g) | ('flushall', tp) | ('wait', tp) | ('check', [g...])
        self.ntasks = 0
        self.feat = {}

    def add_tile(self, tp, kind, owner):
        self.tiles.append((tp, kind, owner)); return len(self.tiles) - 1

    def add_task(self, tp, params, place=-1, prio=0, sleep_us=0, nchild=0):
        t = dict(id=self.ntasks, tp=tp, prio=prio, place=place, sleep=sleep_us, nchild=nchild, params=list(params))
        self.ntasks += 1; self.ops.append(('task', t)); return t

    # ---- python oracle: check-point values
    def oracle(self):
        model = {}
        for g, (tp, kind, owner) in enumerate(self.tiles):
            model[g] = mix(0x5eed, g + 1000) if kind == 0 else None
        checks = []
        for op in self.ops:
            if op[0] == 'task':
                t = op[1]; acc = t['id']
                for (g, m, fl) in t['params']:
                    if fl & 1 or m == W: continue
                    assert model[g] is not None, 'read of unwritten new tile'
                    acc = mix(acc, model[g])
                for k, (g, m, fl) in enumerate(t['params']):
                    if fl & 1 or m == R: continue
                    model[g] = mix(acc, k)
            elif op[0] == 'check':
                checks.append([(g, model[g]) for g in op[1]])
        return checks

    def text(self):
        out = ['E2 1', 'world %d' % self.world, 'nb %d' % self.nb, 'tps %d' % self.ntp]
        for g, (tp, kind, owner) in enumerate(self.tiles):
            out.append('tile %d %d %d %d' % (g, tp, kind, owner))
        chk = iter(self.oracle())
        for op in self.ops:
            if op[0] == 'task':
                t = op[1]
                out.append('task %d %d %d %d %d %d %d ' % (t['id'], t['tp'], t['prio'], t['place'], t['sleep'], t['nchild'], len(t['params'])) +
                           ' '.join('%d %d %d' % p for p in t['params']))
            elif op[0] == 'check':
                vals = next(chk)
                out.append('check %d ' % len(vals) + ' '.join('%d %d' % (g, s64(v)) for g, v in vals))
            else:
                out.append('%s %d' % (op[0], op[1]))
        out.append('end')
        return '\n'.join(out) + '\n'

    # ---- structure measures (Appendix B: non-trivial = >=1 write-after-read and >=1 read-after-write on one tile)
    def measures(self):
        seq = {}
        rep = 0; nested = 0; dont = 0; xrank_lw = 0
        for op in self.ops:
            if op[0] != 'task': continue
            t = op[1]
            tl = [g for (g, m, fl) in t['params'] if not fl & 1]
            if len(set(tl)) < len(tl): rep += 1
            nested += t['nchild']
            dont += sum(1 for p in t['params'] if p[2] & 1)
            for g in set(tl):
                wr = any(m != R for (gg, m, fl) in t['params'] if gg == g and not fl & 1)
                seq.setdefault(g, []).append('W' if wr else 'R')
        pure_r = sum(1 for op in self.ops if op[0] == 'task' for (g, mm, fl) in op[1]['params'] if mm == R and not fl & 1)
        raw = war = 0; groups = 0
        for g, s in seq.items():
            st = ''.join(s)
            raw += len(re.findall('WR', st)); war += len(re.findall('RW', st)); groups += len(re.findall('RR+W', st))
        return dict(tasks=self.ntasks, tiles=len(self.tiles), raw=raw, war=war, reader_groups_then_writer=groups, repeated_tile_tasks=rep,
                    nested_tasks=nested, dont_track_params=dont, pure_reader_params=pure_r, nontrivial=bool(raw and war))

    def task_writes(self, tid):
        for op in self.ops:
            if op[0] == 'task' and op[1]['id'] == tid:
                return any(m != R and not fl & 1 for (g, m, fl) in op[1]['params'])
        return False

    def digest(self):
        return hashlib.sha1(self.text().encode()).hexdigest()[:16]


# ------------------------------------------------------------------------------------------------ generators
def _exec_rank(s, t):
    if t['place'] >= 0: return t['place'] % s.world
    return s.tiles[t['params'][-1 - t['place']][0]][2] % s.world


def gen(seed, world=1, profile='c03', ntasks=None, rep_pct=0, nested=False, dont_track=False, ntp=1, rounds=None, new_tiles=None, max_np=3, read_pct=None):
    """Seeded random script.  profile: 'c03' mixed modes with many alternations; 'c04' long reader groups then a writer on
    few tiles with sleeping readers; 'c17' remote last writers, partial flushes, several rounds."""
    rng = random.Random(seed * 1000003 + {'c03': 1, 'c04': 2, 'c17': 3}[profile])
    s = Script(world, nb=rng.choice([1, 4, 4, 8]), ntp=ntp)
    if ntasks is None: ntasks = rng.randint(20, 150)
    ncoll = rng.randint(1, 3) if profile == 'c04' else rng.randint(1, 8)
    ncoll = max(ncoll, ntp)
    if new_tiles is None: new_tiles = rng.choice([0, 0, 1, 2]) if profile != 'c04' else 0
    per_tp = [[] for _ in range(ntp)]; cidx = [0] * ntp
    for i in range(ncoll):
        tp = i % ntp
        per_tp[tp].append(s.add_tile(tp, 0, cidx[tp] % world)); cidx[tp] += 1
    newt = []
    for i in range(new_tiles):
        tp = rng.randrange(ntp); g = s.add_tile(tp, 1, rng.randrange(world)); per_tp[tp].append(g); newt.append(g)
    nstate = {g: 'fresh' for g in newt}        # fresh -> live -> dead
    if rounds is None: rounds = rng.choice([1, 1, 2, 3]) if profile != 'c04' else rng.choice([1, 2])
    s.feat = dict(profile=profile, world=world, ntp=ntp, rounds=rounds, rep_pct=rep_pct, nested=nested, dont_track=dont_track, read_pct=read_pct)
    rounds_extra = []
    left = ntasks

    def usable(tp, exclude=()):
        return [g for g in per_tp[tp] if nstate.get(g) != 'dead' and g not in exclude]

    def pick_mode(g, bias_read):
        if nstate.get(g) == 'fresh': return W
        if bias_read: return R
        if read_pct is not None:
            return R if rng.randrange(100) < read_pct else rng.choice([W, RW, RW])
        return rng.choice([R, R, W, RW, RW]) if profile != 'c17' else rng.choice([R, W, RW, RW])

    def make_task(tp, pool, bias_read=False, sleep=0, allow_rep=True, np_=None):
        pool = [g for g in pool]
        if not pool: return None
        np_ = np_ or rng.randint(1, min(max_np, 4))
        params = []
        for k in range(np_):
            if k > 0 and allow_rep and rep_pct and rng.randrange(100) < rep_pct and any(nstate.get(p[0]) != 'fresh' for p in params):
                g = rng.choice([p[0] for p in params])
            else:
                cand = [g for g in pool if g not in [p[0] for p in params]]
                if not cand: break
                g = rng.choice(cand)
            m = pick_mode(g, bias_read)
            if nstate.get(g) == 'fresh':
                if g in [p[0] for p in params]: continue
                nstate[g] = 'live'
            params.append((g, m, 0))
        if not params: return None
        if dont_track and world == 1 and rng.randrange(100) < 15 and len(params) < 4:
            cand = [g for g in per_tp[tp] if s.tiles[g][1] == 0 and g not in [p[0] for p in params]]
            if cand: params.append((rng.choice(cand), R, 1))
        if world == 1: place = rng.choice([-1, -1, 0])
        else:
            tracked = [k for k, p in enumerate(params) if not p[2] & 1]
            place = rng.randrange(world) if rng.randrange(100) < (70 if profile == 'c17' else 35) else -1 - rng.choice(tracked)
        prio = rng.choice([0, 0, 0, 1, 3, 7])
        return s.add_task(tp, params, place=place, prio=prio, sleep_us=sleep)

    for rd in range(rounds):
        quota = left if rd == rounds - 1 else max(1, left // (rounds - rd) + rng.randint(-3, 3))
        quota = max(1, min(quota, left)); left -= quota
        reserved = set(); nest_tp = None; nest_at = None; nest_n = 0
        if nested and world == 1 and quota >= 8:
            nest_tp = rng.randrange(ntp)
            cand = [g for g in usable(nest_tp) if s.tiles[g][1] == 0]
            if len(cand) >= 2:
                reserved = set(rng.sample(cand, rng.randint(1, max(1, len(cand) // 2))))
                nest_n = rng.randint(2, min(8, quota // 2)); nest_at = rng.randint(0, quota - nest_n - 1)
            else:
                nest_tp = None
        i = 0; nest_active = False
        while i < quota:
            if nest_tp is not None and i == nest_at and not nest_active:
                par = make_task(nest_tp, usable(nest_tp), allow_rep=False)
                if par is None: nest_tp = None; continue
                nest_active = True; i += 1; nch = 0
                for _ in range(nest_n):
                    c = make_task(nest_tp, list(reserved), allow_rep=False, sleep=rng.choice([0, 0, 50]))
                    if c is None: break
                    c['place'] = rng.choice([-1, 0]); nch += 1; i += 1
                par['nchild'] = nch
                continue
            tp = rng.randrange(ntp)
            pool = usable(tp, exclude=reserved if nest_active else ())
            if profile == 'c04':
                # reader group on one tile, then a writer of that tile
                hot = [g for g in pool if nstate.get(g) != 'fresh']
                if not hot: hot = pool
                g = rng.choice(hot)
                nr = rng.randint(2, 8)
                for _ in range(nr):
                    if i >= quota: break
                    s.add_task(tp, [(g, R if nstate.get(g) != 'fresh' else W, 0)],
                               place=(-1 if world == 1 or rng.randrange(2) else rng.randrange(world)), prio=rng.choice([0, 0, 5]),
                               sleep_us=rng.choice([100, 300, 800, 2000]))
                    if nstate.get(g) == 'fresh': nstate[g] = 'live'
                    i += 1
                if i < quota:
                    extra = [x for x in pool if x != g and nstate.get(x) != 'fresh']
                    params = [(g, rng.choice([W, RW, RW]), 0)]
                    if extra and rng.randrange(3) == 0: params.append((rng.choice(extra), rng.choice([R, RW]), 0))
                    rng.shuffle(params)
                    s.add_task(tp, params, place=(-1 if world == 1 or rng.randrange(2) else rng.randrange(world)), prio=rng.choice([0, 9]), sleep_us=rng.choice([0, 0, 100]))
                    i += 1
                continue
            t = make_task(tp, pool, sleep=(rng.choice([0] * 8 + [50, 200])))
            if t is None: break
            i += 1
        if profile == 'c17' and world > 1:
            # C17: for a seeded majority of tiles the last inserted writer runs on a rank that does not own the tile
            for tp in range(ntp):
                for g in usable(tp):
                    if nstate.get(g) == 'fresh' or rng.randrange(100) >= 70: continue
                    away = [q for q in range(world) if q != s.tiles[g][2] % world]
                    s.add_task(tp, [(g, rng.choice([W, RW, RW]), 0)], place=rng.choice(away), prio=rng.choice([0, 3]))
                    if read_pct and rng.randrange(100) < read_pct:
                        s.add_task(tp, [(g, R, 0)], place=rng.randrange(world))       # a reader after the last writer
        # ---- end of round: flushes, waits, check
        if profile == 'c17' and rng.randrange(2):
            s.ops.append(('pause', rng.choice([20, 50, 150])))      # let the inserted tasks finish first: the flush then meets completed last users
        last = rd == rounds - 1
        flushed = []
        for tp in range(ntp):
            live = [g for g in per_tp[tp] if nstate.get(g) != 'dead']
            if nest_active and tp == nest_tp:
                # the inserting task may still be inserting: a flush of this taskpool's tiles would race with it.
                # Only wait here; the tiles are flushed in a later round (an extra flush-only round at the end).
                if last: rounds_extra.append(tp)
                continue
            if last or rng.randrange(3) == 0:
                s.ops.append(('flushall', tp)); flushed += [g for g in live if s.tiles[g][1] == 0]
                for g in live:
                    if s.tiles[g][1] == 1:
                        if nstate[g] == 'fresh':      # never used: write it once so that the flush has something to bring home
                            s.add_task(tp, [(g, W, 0)], place=(-1 if world == 1 else rng.randrange(world))); nstate[g] = 'live'
                        if last or rng.randrange(2):
                            s.ops.append(('flush', g)); nstate[g] = 'dead'; flushed.append(g)
            else:
                sub = [g for g in live if rng.randrange(2) and nstate.get(g) != 'fresh']
                for g in sub:
                    s.ops.append(('flush', g)); flushed.append(g)
                    if s.tiles[g][1] == 1: nstate[g] = 'dead'
        for tp in range(ntp): s.ops.append(('wait', tp))
        s.ops.append(('check', sorted(set(flushed))))
    for tp in rounds_extra:
        flushed = []
        s.ops.append(('flushall', tp))
        for g in per_tp[tp]:
            if s.tiles[g][1] == 0: flushed.append(g)
            elif nstate.get(g) != 'dead':
                if nstate[g] == 'fresh': s.add_task(tp, [(g, W, 0)], place=-1); nstate[g] = 'live'
                s.ops.append(('flush', g)); nstate[g] = 'dead'; flushed.append(g)
        s.ops.append(('wait', tp)); s.ops.append(('check', sorted(set(flushed))))
    return s


def gen_pattern(modes, world=1, sleep_first=0):
    """The three-task probe of DESIGN 6.7: W(t0); X(t0 used len(modes) times); R(t0)."""
    s = Script(world, nb=4, ntp=1)
    g = s.add_tile(0, 0, 0)
    s.add_task(0, [(g, RW, 0)], sleep_us=sleep_first)
    s.add_task(0, [(g, m, 0) for m in modes])
    s.add_task(0, [(g, R, 0)])
    s.ops += [('flushall', 0), ('wait', 0), ('check', [g])]
    s.feat = dict(profile='pattern', modes=','.join(MNAME[m] for m in modes), world=world)
    return s


def pattern_class(modes):
    return '(W|RW,*)' if modes[0] != R else '(R,*)'


# ------------------------------------------------------------------------------------------------ running
OWN = {'C03': ('read-', 'final-', 'same-tile-in-task', 'task-', 'null-parameter'),
       'C04': ('overlap:', 'order:'),
       'C17': ('flush-',)}


def run_script(ctx, exe, script, cfg, tag, timeout=240, stall_s=30):
    """cfg: ranks, cores, sched, window, threshold, late, yield (permille), yield_us."""
    d = os.path.join(ctx.work, 'scripts'); os.makedirs(d, exist_ok=True)
    path = os.path.join(d, tag + '.txt')
    txt = script if isinstance(script, str) else script.text()
    with open(path, 'w') as f: f.write(txt)
    env = {'PARSEC_MCA_dtd_tile_hash_size': 64}      # the default (104729 buckets) only costs start-up time for <= 10 tiles
    if cfg.get('ranks', 1) > 1: env.update(vfcore.MPI_ENV)      # recorded so that run.sh of a replay works on its own
    if cfg.get('sched'): env['PARSEC_MCA_mca_sched'] = cfg['sched']
    if cfg.get('window'): env['PARSEC_MCA_dtd_window_size'] = cfg['window']
    if cfg.get('threshold'): env['PARSEC_MCA_dtd_threshold_size'] = cfg['threshold']
    cmd = [exe, '--script', path, '--cores', str(cfg.get('cores', 4)), '--late-start', str(int(bool(cfg.get('late')))),
           '--seed', str(cfg.get('yseed', 1)), '--yield', str(cfg.get('yield', 0)), '--yield-us', str(cfg.get('yield_us', 0))]
    ranks = cfg.get('ranks', 1)
    return ctx.run(cmd, env=env, timeout=timeout, stall_s=stall_s, mpi=(ranks if ranks > 1 else 0), tag=tag), txt


def cfg_str(cfg):
    return ' '.join('%s=%s' % (k, cfg[k]) for k in sorted(cfg))


def stall_class(bt, stuck=(), script=None, cfg=None):
    """Stable key of a stall: built from the harness's own stuck reports (which tasks keep getting AGAIN) and from the
    feature class of the input (ranks, pure readers, rounds, nesting + window) — not from gdb, which may be unavailable
    on a loaded machine.  The blocked frames seen by gdb are returned separately for the text."""
    cfg = cfg or {}
    retry = set(i for o in stuck for i in (o.get('retrying_prepare_input') or []))
    if retry:
        # which tasks keep getting AGAIN from prepare_input?  -1 = runtime-inserted task (flush / first-out, both INOUT)
        readers = [i for i in retry if i >= 0 and script is not None and not script.task_writes(i)]
        if readers: return 'dtd:stall:reader-gets-again-for-ever'
        if cfg.get('sched') in ('ll', 'llp', 'ip'): return 'dtd:stall:writer-again-livelock:lifo-or-inverse-priority-scheduler'
        return 'dtd:stall:writer-again-never-satisfied'
    m = script.measures() if script is not None else {}
    if m.get('nested_tasks') and (cfg.get('window') or cfg.get('threshold')): return 'dtd:stall:inserting-task-blocked-by-window'
    if cfg.get('ranks', 1) > 1:
        k = 'dtd:stall:multi-rank:' + ('reader-chains' if m.get('pure_reader_params') else 'writers-only')
        if (script.feat.get('rounds') or 1) > 1: k += ':second-round'
        elif m.get('pure_reader_params'):
            # the recorded reader-chain stall (DESIGN 6.8) is recognised by its blocked frame; any other blocked state is a different failure;
            # without a backtrace the stall cannot be attributed and stays inconclusive (None)
            if not re.search(r'#\d+\s', bt or ''): return None
            k += ':spinning-in-made_sure_nextinline_is_null' if re.search(r'\bmade_sure_nextinline_is_null\b', bt) else ':no-thread-in-made_sure_nextinline_is_null'
        return k
    return 'dtd:stall:single-rank'


def blocked_frames(bt):
    bt = bt or ''
    names = ('made_sure_nextinline_is_null', 'release_ownership_of_data', 'parsec_execute_and_come_back', 'parsec_taskpool_wait', 'parsec_context_wait',
             'parsec_insert_dtd_task', 'parsec_insert_dtd_flush_task', 'remote_dep_dequeue_main')
    f = [n for n in names if re.search(r'\b%s\b' % n, bt)]
    return '+'.join(f) if f else 'no backtrace'


def persist_script(r, txt):
    """Replays must outlive ctx.work: park the script next to the replays and point the recorded command at it."""
    try:
        d = os.path.join(vfcore.REPLAYS, '_e2_scripts'); os.makedirs(d, exist_ok=True)
        path = os.path.join(d, hashlib.sha1(txt.encode()).hexdigest()[:16] + '.txt')
        if not os.path.exists(path):
            with open(path, 'w') as f: f.write(txt)
        if r.cmd and '--script' in r.cmd:
            i = r.cmd.index('--script'); r.cmd = list(r.cmd); r.cmd[i + 1] = path
    except (OSError, ValueError):
        pass


def judge(ctx, prop, r, txt, what, feature=None):
    """Route one run.  Violations of the other two E2 oracles are noted (and make the case inconclusive for this
    property) but never reported under this property's id.  Returns status and the summary dict (or None)."""
    own = OWN[prop]; foreign = []
    if r.of('violation') or r.san or r.signal is not None or r.rc not in (0,):
        persist_script(r, txt)
    keep = []
    for o in r.objs:
        if o.get('type') == 'violation' and not o.get('key', '').startswith(own):
            foreign.append(o)
        else:
            keep.append(o)
    if feature:
        for o in keep:      # harness keys of repeated-tile tasks already carry the feature prefix
            if o.get('type') == 'violation' and o.get('key', '').startswith(feature + ':'): o['key'] = o['key'][len(feature) + 1:]
    r.objs = keep
    # a failed assert shows up as an ASan "ABRT" report (handle_abort=1): key it by the assertion, not by ASan's frames
    if any('AddressSanitizer: ABRT' in b for b in r.san) and (vfcore.assert_key(r.stderr) or vfcore.assert_key(r.stdout)):
        r.san = [b for b in r.san if 'AddressSanitizer: ABRT' not in b]
        if r.rc in (0, 1) and r.signal is None: r.signal = 6
    if r.signal in (9, 15) and not r.san and not (vfcore.assert_key(r.stderr) or vfcore.assert_key(r.stdout)) and not any(o.get('type') == 'violation' for o in r.objs):
        ctx.inconclusive_case('%s was killed from outside (signal %d); the runtime never raises it itself' % (what, r.signal))
        return 'inconclusive', None
    aborted = any('AddressSanitizer' in b for b in r.san) or bool(vfcore.assert_key(r.stderr) or vfcore.assert_key(r.stdout))
    st = ctx.absorb(r, what, feature, expect_objs=not aborted, files={'script.txt': txt})
    if aborted and st == 'ok': st = 'known'      # the abort was routed to a listed finding; there is no summary to expect
    if foreign:
        ctx.add_cov('foreign_oracle_hits', len(foreign))
        try:        # keep the witness for the owner of the other property
            d = os.path.join(vfcore.REPLAYS, '%s-foreign-%s' % (prop, re.sub(r'[^A-Za-z0-9_.+-]+', '_', foreign[0].get('key', 'x'))[:60]))
            os.makedirs(d, exist_ok=True)
            open(os.path.join(d, 'script.txt'), 'w').write(txt)
            open(os.path.join(d, 'verdict.txt'), 'w').write(what + '\n' + '\n'.join(json.dumps(o) for o in foreign) + '\ncmd: %s\nenv: %s\n' % (r.cmd, r.env))
        except OSError:
            pass
        ks = sorted(set(o.get('key', '?') for o in foreign))
        print('NOTE %s: oracle(s) of another E2 property fired in this run (%s): %s — see the check of that property' % (prop, what, ', '.join(ks)[:300]))
        if st == 'ok': st = 'foreign'
    return st, r.summary()


class Campaign:
    """Runs (script, cfg) cases for one property, applies the E2 stall rule, routes verdicts, accumulates evidence."""

    def __init__(self, ctx, prop, flavour='asan'):
        self.ctx = ctx; self.prop = prop; self.flavour = flavour
        self.exe = ctx.harness('c03_dtd', flavour)
        self.n = 0
        self.sums = []          # (script, cfg, summary) of judged cases

    def _one(self, job):
        ctx = self.ctx
        s, cfg = job['script'], job['cfg']
        if len(ctx.violations) >= 3:          # the verdict is settled (exit 1): do not spend the budget on more witnesses
            job['status'] = 'skipped'; return job
        self.n += 1
        tag = '%s%04d' % (job.get('kind', 'c'), job['idx'])
        ranks = cfg.get('ranks', 1)
        to = job.get('timeout', 900 if getattr(ctx, 'tier', 'quick') == 'thorough' else 300); stall = job.get('stall_s', 60 if ranks == 1 else 90)   # quick tier: a job that needs > 5 min is inconclusive
        attempt = [0]

        def runner():
            attempt[0] += 1
            return run_script(ctx, self.exe, s, cfg, '%s_%d' % (tag, attempt[0]), timeout=to, stall_s=stall)[0]
        txt = s.text()
        what = '%s[%s] %s' % (job.get('kind', 'script'), s.digest(), cfg_str(cfg))
        m = s.measures()
        feature = 'same-tile-in-task' if m['repeated_tile_tasks'] else None
        r = runner()
        if r.stalled:
            r2 = runner()
            if r2.stalled:
                cls = stall_class((r2.backtraces or '') + (r.backtraces or ''), r2.of('stuck') + r.of('stuck'), s, cfg)
                persist_script(r2, txt)
                if cls is None:
                    ctx.inconclusive_case('%s stalled twice but no backtrace could be taken: the stall cannot be attributed' % what)
                    print('INCONCLUSIVE %s: stalled twice, gdb gave no backtrace' % what)
                    job['status'] = 'inconclusive'; job['result'] = r2
                    return job
                if feature: cls = cls.replace('dtd:stall', 'stall')
                key = (feature + ':' if feature else '') + (job.get('stall_key') or cls)
                v = ctx.violation(key, '%s made no progress twice (no task executed during the stall window); blocked in: %s; %s'
                                  % (what, blocked_frames((r2.backtraces or '') + (r.backtraces or '')), _stuck_lines(r2)), r2, {'script.txt': txt})
                job['status'] = 'violation' if v else 'known'; job['result'] = r2
                return job
            ctx.inconclusive_case('%s stalled once (not reproduced)' % what)
            print('INCONCLUSIVE %s: stalled once, not reproduced' % what)
            r = r2
        if r.timed_out:
            # oracle verdicts already printed by the harness stay valid even if start-up / tear-down then ran into the overall time-out
            st = 'inconclusive'
            if r.of('violation') or r.san:
                st, _ = judge(ctx, self.prop, r, txt, what, feature)
            if st in ('stalled', 'ok', 'inconclusive'):
                st = 'inconclusive'
                ctx.inconclusive_case('%s hit the overall time-out outside the monitored phase (start-up or tear-down; not a verdict)' % what)
                print('INCONCLUSIVE %s: overall time-out; %s' % (what, _stuck_lines(r)[:300]))
            job['status'] = st; job['result'] = r
            return job
        st, summ = judge(ctx, self.prop, r, txt, what, feature)
        job['status'] = st; job['result'] = r; job['summary'] = summ
        ctx.add_cov('wall_s_%s' % job.get('kind', 'x'), round(r.wall, 1))
        return job

    def run(self, jobs, width):
        """jobs: list of dict(script, cfg, kind).  width: max CPU threads used at once."""
        for i, j in enumerate(jobs): j['idx'] = i
        # farm out: group by cost so that at most `width` threads are busy
        cheap = [j for j in jobs if j['cfg'].get('ranks', 1) * j['cfg'].get('cores', 4) <= 4]
        heavy = [j for j in jobs if j not in cheap]
        out = self.ctx.pmap(self._one, cheap, jobs=max(1, width // 4))
        out += self.ctx.pmap(self._one, heavy, jobs=max(1, width // 12))
        return out


def _stuck_lines(r):
    o = [json.dumps(x) for x in r.of('stuck')][-3:]
    return 'last stuck reports: ' + ' '.join(o) if o else ''


def pick_cfg(rng, ranks=1, thorough=False, nested=False):
    """One configuration: threads, scheduler, window/threshold, start mode, yield injection."""
    cores = rng.choice([1, 2, 4, 4, 8, 16]) if ranks == 1 else rng.choice([1, 2, 2, 4])
    cfg = dict(ranks=ranks, cores=cores, sched=rng.choice(SCHEDS))
    w = rng.choice([None, None, 1, 2, 8]); t = rng.choice([None, None, 1, 2])
    if w: cfg['window'] = w
    if t: cfg['threshold'] = t
    if not w and ranks == 1 and rng.randrange(4) == 0: cfg['late'] = 1     # insert everything of the first round before context_start
    if cores <= 2 and cfg['sched'] in ('ip', 'll', 'llp'):
        cfg['sched'] = rng.choice(['lfq', 'ap', 'gd', 'pbq', 'spq'])      # known finding dtd:stall:writer-again-livelock: kept as a separate low-weight probe
    if nested:
        cfg.pop('window', None); cfg.pop('threshold', None)               # known finding dtd:stall:inserting-task-blocked-by-window: separate probe
    y = rng.choice([0, 0, 100, 300])
    if y: cfg.update({'yield': y, 'yield_us': rng.choice([0, 20, 100]), 'yseed': rng.randrange(1 << 20)})
    return cfg


def stalled_twice(ctx, prop, runner, what, txt, key_fn):
    """Stall rule with an E2-specific key: runner() -> Result.  Returns (result, status)."""
    r = runner()
    if not (r.stalled or r.timed_out): return r, None
    r2 = runner()
    if not (r2.stalled or r2.timed_out):
        ctx.inconclusive_case('%s stalled once (not reproduced)' % what); return r2, None
    key = key_fn(r2.backtraces or r.backtraces)
    v = ctx.violation(key, '%s made no progress twice (no task executed for the stall window); blocked frames class %s' % (what, key), r2, {'script.txt': txt})
    return r2, ('violation' if v else 'known')
