"""Build flavours of /repo's current working tree (hooks on) and harness binaries."""
import os, subprocess, fcntl, sys, time, hashlib, shlex

VERIF = os.path.dirname(os.path.dirname(os.path.abspath(__file__)))
REPO = os.environ.get('VERIF_REPO', '/repo')
BUILD = os.environ.get('VERIF_BUILD') or os.path.join(VERIF, '.build')
GUARD = 'PARSEC_VERIF'

SAN = '-fsanitize=address;-fsanitize=undefined;-fno-omit-frame-pointer'
FLAVOURS = {
    # verdict build: ASan fatal + UBSan logged, assertions ON (no NDEBUG)
    'asan': dict(
        cmake=['-DCMAKE_BUILD_TYPE=RelWithDebInfo',
               '-DCMAKE_C_FLAGS=-Wno-error -D%s' % GUARD,
               '-DCMAKE_C_FLAGS_RELWITHDEBINFO=-O1 -g',
               '-DPARSEC_DEBUG_MEM_ADDR=ON',
               '-DPARSEC_SANITIZE_COMPILE_OPTIONS=' + SAN,
               '-DPARSEC_SANITIZE_LINK_OPTIONS=-fsanitize=address;-fsanitize=undefined',
               '-DMPI_HWLOC_COMPAT_CHECK=OFF'],
        cflags=['-O1', '-g', '-fno-omit-frame-pointer', '-fsanitize=address', '-fsanitize=undefined'],
        ldflags=['-fsanitize=address', '-fsanitize=undefined']),
    # production-like build: same as the baseline + hooks
    'rel': dict(
        cmake=['-DCMAKE_BUILD_TYPE=RelWithDebInfo',
               '-DCMAKE_C_FLAGS=-Wno-error -D%s' % GUARD,
               '-DCMAKE_C_FLAGS_RELWITHDEBINFO=-O2 -g -DNDEBUG'],
        cflags=['-O2', '-g'], ldflags=[]),
    # profiling build for C42
    'prof': dict(
        cmake=['-DCMAKE_BUILD_TYPE=RelWithDebInfo',
               '-DCMAKE_C_FLAGS=-Wno-error -D%s' % GUARD,
               '-DCMAKE_C_FLAGS_RELWITHDEBINFO=-O1 -g',
               '-DPARSEC_PROF_TRACE=ON', '-DCMAKE_DISABLE_FIND_PACKAGE_SDE=ON',
               '-DCMAKE_DISABLE_FIND_PACKAGE_PAPI=ON'],
        cflags=['-O1', '-g'], ldflags=[]),
}
COMMON = ['-G', 'Ninja', '-DBUILD_TESTING=OFF', '-DBUILD_TOOLS=ON', '-DSUPPORT_FORTRAN=OFF',
          '-DPARSEC_GPU_WITH_CUDA=OFF', '-DPARSEC_GPU_WITH_HIP=OFF', '-DPARSEC_GPU_WITH_LEVEL_ZERO=OFF',
          '-DCMAKE_DISABLE_FIND_PACKAGE_Cython=ON']


class BuildError(Exception):
    pass


def bdir(flavour):
    return os.path.join(BUILD, flavour)


def _run(cmd, cwd=None, log=None):
    p = subprocess.run(cmd, cwd=cwd, stdout=subprocess.PIPE, stderr=subprocess.STDOUT, text=True)
    if log:
        with open(log, 'a') as f:
            f.write('$ ' + ' '.join(cmd) + '\n' + p.stdout + '\n')
    return p.returncode, p.stdout


def build(flavour, quiet=True):
    """(Re)build the flavour from /repo's working tree. Returns the build dir."""
    if flavour not in FLAVOURS:
        raise BuildError('unknown flavour ' + flavour)
    d = bdir(flavour)
    os.makedirs(d, exist_ok=True)
    lockf = open(os.path.join(BUILD, flavour + '.lock'), 'w')
    fcntl.flock(lockf, fcntl.LOCK_EX)
    try:
        log = os.path.join(BUILD, flavour + '.log')
        open(log, 'w').close()
        if not os.path.exists(os.path.join(d, 'build.ninja')):
            rc, out = _run(['cmake', '-S', REPO, '-B', d] + COMMON + FLAVOURS[flavour]['cmake'], log=log)
            if rc != 0:
                raise BuildError('cmake failed for %s (see %s)\n%s' % (flavour, log, out[-3000:]))
        env_targets = ['parsec', 'parsec-ptgpp']
        if flavour == 'prof':
            env_targets = ['parsec', 'parsec-ptgpp']
        rc, out = _run(['ninja', '-C', d] + env_targets, log=log)
        if rc != 0:
            raise BuildError('ninja failed for %s (see %s)\n%s' % (flavour, log, out[-4000:]))
        return d
    finally:
        fcntl.flock(lockf, fcntl.LOCK_UN)
        lockf.close()


def inc_flags(flavour):
    d = bdir(flavour)
    return ['-I' + REPO, '-I' + REPO + '/parsec/include', '-I' + d, '-I' + d + '/parsec/include',
            '-I' + os.path.join(VERIF, 'harness'), '-D' + GUARD]


def link_flags(flavour):
    d = bdir(flavour)
    return ['-L' + d + '/parsec', '-lparsec', '-Wl,-rpath,' + d + '/parsec', '-lpthread', '-lm', '-ldl']


def ptgpp(flavour):
    return os.path.join(bdir(flavour), 'parsec/interfaces/ptg/ptg-compiler/parsec-ptgpp')


def _newest(paths):
    m = 0
    for p in paths:
        try:
            m = max(m, os.path.getmtime(p))
        except OSError:
            pass
    return m


def compile_harness(flavour, sources, out, extra_cflags=(), extra_ldflags=(), deps=()):
    """Compile C sources against the flavour's libparsec. Always recompiles when the library,
    any listed source/dep or any parsec header is newer than the binary."""
    d = bdir(flavour)
    lib = os.path.join(d, 'parsec', 'libparsec.so')
    os.makedirs(os.path.dirname(out), exist_ok=True)
    stamp = _newest(list(sources) + list(deps) + [lib, os.path.join(VERIF, 'harness', 'kit.h')])
    # headers under /repo/parsec (cheap scan)
    hdr = 0
    for root, _, files in os.walk(os.path.join(REPO, 'parsec')):
        for f in files:
            if f.endswith('.h'):
                try:
                    hdr = max(hdr, os.path.getmtime(os.path.join(root, f)))
                except OSError:
                    pass
    stamp = max(stamp, hdr)
    key = hashlib.sha1((' '.join(extra_cflags) + '|' + ' '.join(extra_ldflags)).encode()).hexdigest()[:8]
    keyf = out + '.key'
    if os.path.exists(out) and os.path.getmtime(out) >= stamp and os.path.exists(keyf) and open(keyf).read() == key:
        return out
    fl = FLAVOURS[flavour]
    cmd = (['mpicc', '-std=gnu11', '-Wno-error', '-w'] + fl['cflags'] + list(extra_cflags) + inc_flags(flavour) +
           list(sources) + ['-o', out] + fl['ldflags'] + list(extra_ldflags) + link_flags(flavour))
    rc, o = _run(cmd)
    if rc != 0:
        raise BuildError('harness compile failed: %s\n%s' % (' '.join(cmd), o[-6000:]))
    open(keyf, 'w').write(key)
    return out
