"""E1 — PTG program model, reference interpreter and JDF printer (see DESIGN.md section 3, E1).

A program is built as a *model* (task classes with parameter ranges, flows and dependencies whose guards and
index expressions are small ASTs evaluable in python with C semantics and printable as JDF), then
 * enumerated forward (output deps) and backward (input deps): both edge sets must agree (generator self-check),
 * checked against the validity rules of PTG programs (anti-dependency rule, collection access rule),
 * evaluated in topological order with the same mixing function the generated bodies use (reference values),
 * printed as JDF + glue for harness/e1_rt.c.
"""
import itertools

MASK = (1 << 64) - 1


def s64(x):
    x &= MASK
    return x - (1 << 64) if x >> 63 else x


def mix(a, b):
    a &= MASK; b &= MASK
    x = ((a * 0x9E3779B97F4A7C15) & MASK) ^ ((b + 0x7F4A7C15 + ((a << 6) & MASK) + (a >> 2)) & MASK)
    x ^= x >> 29; x = (x * 0xBF58476D1CE4E5B9) & MASK; x ^= x >> 32
    return s64(x)


class ModelError(Exception):
    """The generated model is not a valid PTG program (generator mistake): discarded, never an alarm."""


# ------------------------------------------------------------------ expressions
class X:
    __slots__ = ('op', 'a', 'inl')

    def __init__(self, op, *a):
        self.op = op; self.a = a; self.inl = False

    # builders
    def _b(self, op, o):
        return X(op, self, E(o))

    def __add__(s, o): return s._b('+', o)
    def __radd__(s, o): return E(o)._b('+', s)
    def __sub__(s, o): return s._b('-', o)
    def __rsub__(s, o): return E(o)._b('-', s)
    def __mul__(s, o): return s._b('*', o)
    def __rmul__(s, o): return E(o)._b('*', s)
    def __floordiv__(s, o): return s._b('/', o)
    def __mod__(s, o): return s._b('%', o)
    def __lshift__(s, o): return s._b('<<', o)
    def __rshift__(s, o): return s._b('>>', o)
    def __rlshift__(s, o): return E(o)._b('<<', s)
    def eq(s, o): return s._b('==', o)
    def ne(s, o): return s._b('!=', o)
    def lt(s, o): return s._b('<', o)
    def le(s, o): return s._b('<=', o)
    def gt(s, o): return s._b('>', o)
    def ge(s, o): return s._b('>=', o)
    def and_(s, o): return s._b('&&', o)
    def or_(s, o): return s._b('||', o)
    def not_(s): return X('!', s)

    def inline(self):
        """Render this (sub)expression as inline C: %{ return e; %}"""
        r = X(self.op, *self.a); r.inl = True
        return r

    def ev(self, env):
        op, a = self.op, self.a
        if op == 'k': return a[0]
        if op == 'v':
            return env[a[0]]
        if op == '!': return 0 if a[0].ev(env) else 1
        if op == '?': return a[1].ev(env) if a[0].ev(env) else a[2].ev(env)
        if op == '&&': return 1 if (a[0].ev(env) and a[1].ev(env)) else 0
        if op == '||': return 1 if (a[0].ev(env) or a[1].ev(env)) else 0
        x = a[0].ev(env); y = a[1].ev(env)
        if op == '+': return x + y
        if op == '-': return x - y
        if op == '*': return x * y
        if op == '/':
            if y == 0: raise ModelError('division by zero')
            q = abs(x) // abs(y)
            return q if (x >= 0) == (y >= 0) else -q
        if op == '%':
            if y == 0: raise ModelError('mod by zero')
            r = abs(x) % abs(y)
            return r if x >= 0 else -r
        if op == '<<': return x << y
        if op == '>>': return x >> y
        if op == '==': return int(x == y)
        if op == '!=': return int(x != y)
        if op == '<': return int(x < y)
        if op == '<=': return int(x <= y)
        if op == '>': return int(x > y)
        if op == '>=': return int(x >= y)
        raise ValueError(op)

    def _c(self):
        op, a = self.op, self.a
        if op == 'k': return str(a[0]) if a[0] >= 0 else '(%d)' % a[0]
        if op == 'v': return a[0]
        if op == '!': return '(!%s)' % a[0]._c()
        if op == '?': return '(%s ? %s : %s)' % (a[0]._c(), a[1]._c(), a[2]._c())
        return '(%s %s %s)' % (a[0]._c(), op, a[1]._c())

    def c(self):
        if self.inl:
            return '%%{ return %s; %%}' % self._c()
        op, a = self.op, self.a
        if op in ('k', 'v'): return self._c()
        if op == '!': return '(!%s)' % a[0].c()
        if op == '?': return '(%s ? %s : %s)' % (a[0].c(), a[1].c(), a[2].c())
        return '(%s %s %s)' % (a[0].c(), op, a[1].c())

    def vars(self):
        if self.op == 'v': return {self.a[0]}
        s = set()
        for x in self.a:
            if isinstance(x, X): s |= x.vars()
        return s

    def __repr__(self): return self.c()


def E(o):
    if isinstance(o, X): return o
    if isinstance(o, bool): return X('k', int(o))
    if isinstance(o, int): return X('k', o)
    if isinstance(o, str): return X('v', o)
    raise TypeError(o)


def V(n): return X('v', n)
def K(c): return X('k', int(c))
def T(c, a, b): return X('?', E(c), E(a), E(b))


# ------------------------------------------------------------------ model
class Rng:
    """lo .. hi .. step (inclusive); step may be negative"""
    def __init__(self, lo, hi, step=None):
        self.lo = E(lo); self.hi = E(hi); self.step = None if step is None else E(step)

    def values(self, env):
        lo = self.lo.ev(env); hi = self.hi.ev(env); st = 1 if self.step is None else self.step.ev(env)
        if st == 0: raise ModelError('zero step')
        if st > 0: return list(range(lo, hi + 1, st))
        return list(range(lo, hi - 1, st))

    def c(self):
        s = '%s .. %s' % (self.lo.c(), self.hi.c())
        if self.step is not None: s += ' .. %s' % self.step.c()
        return s


class Param:
    """kind: 'range' (rng), 'lidx' (local index: name t over rng, value expr), 'derived' (expr; not a parameter)"""
    def __init__(self, name, kind, rng=None, expr=None, tvar=None):
        self.name = name; self.kind = kind; self.rng = rng; self.expr = None if expr is None else E(expr); self.tvar = tvar

    def c(self):
        if self.kind == 'range': return '%s = %s' % (self.name, self.rng.c())
        if self.kind == 'lidx': return '%s = [ %s = %s ] %s' % (self.name, self.tvar, self.rng.c(), self.expr.c())
        return '%s = %s' % (self.name, self.expr.c())


class Tgt:
    """kind: 'task' (cls, flow, args: list of X or Rng), 'mem' (key X), 'new', 'null'"""
    def __init__(self, kind, cls=None, flow=None, args=None, key=None):
        self.kind = kind; self.cls = cls; self.flow = flow; self.args = args or []; self.key = None if key is None else E(key)

    def c(self, myflow_is_ctl=False):
        if self.kind == 'new': return 'NEW'
        if self.kind == 'null': return 'NULL'
        if self.kind == 'mem': return 'D( %s )' % self.key.c()
        return '%s %s( %s )' % (self.flow, self.cls, ', '.join(a.c() for a in self.args))


def TT(cls, flow, *args): return Tgt('task', cls, flow, [a if isinstance(a, Rng) else E(a) for a in args])
def MEM(key): return Tgt('mem', key=key)
NEW = Tgt('new')
NULLT = Tgt('null')


class Dep:
    def __init__(self, d, t, guard=None, f=None, props=None):
        self.d = d            # 'in' | 'out'
        self.guard = None if guard is None else E(guard)
        self.t = t; self.f = f
        self.props = props or ''

    def c(self):
        arrow = '<-' if self.d == 'in' else '->'
        if self.guard is None: s = self.t.c()
        elif self.f is None: s = '%s ? %s' % (self.guard.c(), self.t.c())
        else: s = '%s ? %s : %s' % (self.guard.c(), self.t.c(), self.f.c())
        if self.props: s += ' ' + self.props
        return '%s %s' % (arrow, s)

    def select(self, env):
        """-> Tgt or None"""
        if self.guard is None: return self.t
        return self.t if self.guard.ev(env) else self.f


class Flow:
    def __init__(self, name, mode, deps):
        self.name = name; self.mode = mode; self.deps = deps   # mode: READ RW WRITE CTL

    @property
    def ins(self): return [d for d in self.deps if d.d == 'in']
    @property
    def outs(self): return [d for d in self.deps if d.d == 'out']


class TaskClass:
    def __init__(self, name, params, place, flows, prio=None, features=()):
        self.name = name; self.params = params; self.place = E(place); self.flows = flows
        self.prio = None if prio is None else E(prio); self.features = set(features); self.cid = None; self.body_extra = ''

    @property
    def pnames(self): return [p.name for p in self.params if p.kind != 'derived']

    def flow(self, name):
        for f in self.flows:
            if f.name == name: return f
        raise KeyError(name)

    def fidx(self, name):
        return [f.name for f in self.flows].index(name)

    def enumerate(self, genv):
        """all instances as (param tuple, env) in the order ptgpp's nested loops would produce"""
        out = []

        def rec(i, env):
            if i == len(self.params):
                out.append((tuple(env[n] for n in self.pnames), dict(env))); return
            p = self.params[i]
            if p.kind == 'range':
                for v in p.rng.values(env):
                    e2 = dict(env); e2[p.name] = v; rec(i + 1, e2)
            elif p.kind == 'lidx':
                for t in p.rng.values(env):
                    e2 = dict(env); e2[p.tvar] = t; v = p.expr.ev(e2); del e2[p.tvar]; e2[p.name] = v; rec(i + 1, e2)
            else:
                e2 = dict(env); e2[p.name] = p.expr.ev(env); rec(i + 1, e2)
        rec(0, dict(genv))
        return out


class Program:
    def __init__(self, name, nk=64):
        self.name = name; self.classes = []; self.globals = []   # [(name, value)]
        self.nk = nk; self.features = set(); self.notes = []
        self.ro_keys = set(); self.next_key = 0; self.options = []

    def add_global(self, name, value):
        self.globals.append((name, int(value))); return V(name)

    def add(self, tc):
        tc.cid = len(self.classes); self.classes.append(tc); self.features |= tc.features; return tc

    def cls(self, name):
        for c in self.classes:
            if c.name == name: return c
        raise KeyError(name)

    def alloc_keys(self, n):
        b = self.next_key; self.next_key += n
        if self.next_key > self.nk: raise ModelError('out of keys')
        return b

    # ---------------------------------------------------------------- JDF
    def jdf(self, tpidx=0, body_extra=''):
        # typed programs (C18; attribute `typed`): region-aware reads (harness logs the three partitions of every tile, no whole-tile verdict)
        rd = (lambda fl, i: 'vf_e1_read_reg(%s, vr, %d, 0)' % (fl, i)) if getattr(self, 'typed', False) else (lambda fl, i: 'vf_e1_read(%s, vr, %d)' % (fl, i))
        L = []
        L.append('extern "C" %{\n#include "parsec.h"\n#include "e1_rt.h"\n%}\n')
        for o in self.options: L.append(o)
        L.append('D  [ type="parsec_data_collection_t*" ]')
        for n, v in self.globals:
            L.append('%s [ type="int" ]' % n)
        L.append('')
        for tc in self.classes:
            L.append('%s(%s)' % (tc.name, ', '.join(tc.pnames)))
            for p in tc.params:
                L.append('  ' + p.c())
            L.append('  : D( %s )' % tc.place.c())
            for fl in tc.flows:
                pre = '  %-5s %s ' % (fl.mode, fl.name)
                pad = ' ' * len(pre)
                for i, d in enumerate(fl.deps):
                    L.append((pre if i == 0 else pad) + d.c())
                if not fl.deps:
                    L.append(pre)
            if tc.prio is not None:
                L.append('  ; %s' % tc.prio.c())
            L.append('BODY\n{')
            pn = tc.pnames + ['0'] * (4 - len(tc.pnames))
            L.append('    vf_rec_t *vr = vf_e1_enter(es, (parsec_task_t*)this_task, %d, %d, %d, %s);' % (tpidx, tc.cid, len(tc.pnames), ', '.join(pn[:4])))
            L.append('    if( NULL == vr ) return PARSEC_HOOK_RETURN_AGAIN;')
            L.append('    int64_t vacc = %d;' % (1000 + tc.cid))
            for n in tc.pnames:
                L.append('    vacc = vf_e1_mix(vacc, %s);' % n)
            for i, fl in enumerate(tc.flows):
                if fl.mode == 'CTL': continue
                if fl.mode == 'WRITE':
                    L.append('    vr->in[%d] = 0;' % i); continue
                newg = [d for d in fl.ins if d.t.kind == 'new' or (d.f is not None and d.f.kind == 'new')]
                if newg:
                    L.append('    vr->in[%d] = ( %s ) ? 0 : %s;' % (i, self._new_cond(fl), rd(fl.name, i)))
                else:
                    L.append('    vr->in[%d] = %s;' % (i, rd(fl.name, i)))
                L.append('    vacc = vf_e1_mix(vacc, vr->in[%d]);' % i)
            L.append('    vf_e1_maybe_sleep(vr);')
            for i, fl in enumerate(tc.flows):
                if fl.mode == 'CTL': continue
                if fl.mode in ('RW', 'WRITE'):
                    L.append('    if( NULL != %s ) { vr->out[%d] = vf_e1_mix(vacc, %d); vf_e1_write(%s, vr->out[%d]); } else vr->out[%d] = -1;' % (fl.name, i, 77 + i, fl.name, i, i))
                    if getattr(self, 'typed', False):
                        L.append('    (void)vf_e1_read_reg(%s, vr, %d, 1);' % (fl.name, i))
                else:
                    L.append('    vr->out[%d] = vr->in[%d];' % (i, i))
            if body_extra: L.append(body_extra)
            L.append('    vf_e1_exit(vr);')
            if tc.body_extra: L.append(tc.body_extra)
            L.append('}\nEND\n')
        return '\n'.join(L)

    def _new_cond(self, fl):
        """C condition (over the task's locals) under which the input of flow fl is NEW"""
        conds = []; prev = []
        for d in fl.ins:
            g = d.guard
            here = None
            if d.t.kind == 'new': here = g if g is not None else K(1)
            elif d.f is not None and d.f.kind == 'new': here = g.not_()
            if here is not None:
                c = here
                for p in prev: c = p.not_().and_(c)
                conds.append(c)
            # this dep catches everything if it has no guard or has an else branch
            prev.append(K(1) if (g is None or d.f is not None) else g)
        c = conds[0]
        for x in conds[1:]: c = c.or_(x)
        return c._c()

    def glue(self, progs=None):
        """C glue appended to the LAST jdf of a scenario: vf_prog_count/new/free for the list of programs"""
        progs = progs or [self]
        L = ['extern "C" %{']
        if any(getattr(p, 'arenas', None) for p in progs): L.append('#include "parsec/data_dist/matrix/matrix.h"')
        for i, p in enumerate(progs):
            if p is not self:
                L.append('#include "%s.h"' % p.name)
        L.append('int vf_prog_count(void) { return %d; }' % len(progs))
        L.append('parsec_taskpool_t *vf_prog_new(int i, parsec_data_collection_t *D) {')
        L.append('  switch(i) {')
        for i, p in enumerate(progs):
            args = ', '.join(['D'] + [str(v) for _, v in p.globals])
            L.append('  case %d: { parsec_%s_taskpool_t *tp = parsec_%s_new(%s);' % (i, p.name, p.name, args))
            L.append('    parsec_arena_datatype_set_type(&tp->arenas_datatypes[PARSEC_%s_DEFAULT_ADT_IDX], sizeof(int64_t)*vf_ts, PARSEC_ARENA_ALIGNMENT_SSE, vf_tile_dtt);' % p.name)
            # extra arenas of typed programs (C18): attribute `arenas` = {name: 'lower' | 'upper' | 'rect'}; tiles are vf_mb x vf_mb int64
            for an, kind in sorted(getattr(p, 'arenas', {}).items()):
                a = '&tp->arenas_datatypes[PARSEC_%s_%s_ADT_IDX]' % (p.name, an)
                if kind == 'rect': L.append('    parsec_matrix_adt_define_rect(%s, parsec_datatype_int64_t, vf_mb, vf_mb, vf_mb);' % a)
                else: L.append('    parsec_matrix_adt_define_%s(%s, parsec_datatype_int64_t, 1, vf_mb);' % (kind, a))
            L.append('    return (parsec_taskpool_t*)tp; }')
        L.append('  }\n  return NULL;\n}')
        L.append('void vf_prog_free(int i, parsec_taskpool_t *tp) {')
        L.append('  switch(i) {')
        for i, p in enumerate(progs):
            ex = ''.join(' parsec_matrix_arena_datatype_destruct_free_type(&((parsec_%s_taskpool_t*)tp)->arenas_datatypes[PARSEC_%s_%s_ADT_IDX]);' % (p.name, p.name, an)
                         for an in sorted(getattr(p, 'arenas', {})))
            L.append('  case %d:%s PARSEC_OBJ_DESTRUCT(&((parsec_%s_taskpool_t*)tp)->arenas_datatypes[PARSEC_%s_DEFAULT_ADT_IDX]); break;' % (i, ex, p.name, p.name))
        L.append('  }\n  parsec_taskpool_free(tp);\n}')
        L.append('%}')
        return '\n'.join(L)


# ------------------------------------------------------------------ reference interpreter
class Ref:
    """Execution space, DAG and reference values of a Program."""

    def __init__(self, prog, check_rules=True):
        self.p = prog
        genv = dict(prog.globals)
        self.genv = genv
        self.inst = []            # list of (cid, params)
        self.env = {}             # (cid, params) -> env
        self.idx = {}
        for tc in prog.classes:
            seen = set()
            for params, env in tc.enumerate(genv):
                if len(params) > 4: raise ModelError('more than 4 parameters')
                key = (tc.cid, params)
                if key in seen: raise ModelError('duplicate instance %s%s' % (tc.name, params))
                seen.add(key)
                self.idx[key] = len(self.inst); self.inst.append(key); self.env[key] = env
        self._edges()
        self._topo()
        if check_rules: self._rules()
        self._values()

    def name(self, key):
        return '%s(%s)' % (self.p.classes[key[0]].name, ', '.join(str(x) for x in key[1]))

    def _expand(self, tgt, env):
        tc = self.p.cls(tgt.cls)
        lists = []
        for a in tgt.args:
            lists.append(a.values(env) if isinstance(a, Rng) else [a.ev(env)])
        if len(lists) != len(tc.pnames): raise ModelError('arity mismatch calling %s' % tgt.cls)
        return [(tc.cid, tuple(c)) for c in itertools.product(*lists)]

    def _edges(self):
        P = self.p
        fwd = set(); bwd = set()
        self.vacuous = []   # instances whose active range-gather input expanded to nothing
        self.src = {}     # (inst, fidx) -> ('task', srcinst, srcfidx) | ('mem', key) | ('new',) | ('null',) | ('none',) ; CTL: list of task sources
        self.memout = {}  # (inst, fidx) -> [keys]
        for key in self.inst:
            tc = P.classes[key[0]]; env = self.env[key]
            pk = tc.place.ev(env)
            if not (0 <= pk < P.nk): raise ModelError('placement key out of range in %s' % self.name(key))
            for fi, fl in enumerate(tc.flows):
                # outputs
                for d in fl.outs:
                    t = d.select(env)
                    if t is None: continue
                    if t.kind == 'mem':
                        k = t.key.ev(env)
                        if not (0 <= k < P.nk): raise ModelError('memory key out of range')
                        self.memout.setdefault((key, fi), []).append(k)
                    elif t.kind == 'task':
                        dcls = P.cls(t.cls)
                        for dst in self._expand(t, env):
                            if dst not in self.idx: raise ModelError('dangling output %s.%s -> %s' % (self.name(key), fl.name, self.name(dst)))
                            e = (key, fi, dst, dcls.fidx(t.flow))
                            if e in fwd: raise ModelError('duplicate output edge %s' % (e,))
                            fwd.add(e)
                    else:
                        raise ModelError('NEW/NULL as output')
                # inputs
                if fl.mode == 'CTL':
                    srcs = []
                    for d in fl.ins:
                        t = d.select(env)
                        if t is None: continue
                        if t.kind != 'task': raise ModelError('CTL from non-task')
                        scls = P.cls(t.cls)
                        if any(isinstance(a, Rng) for a in t.args) and not self._expand(t, env): self.vacuous.append(key)
                        for s in self._expand(t, env):
                            if s not in self.idx: raise ModelError('dangling CTL input %s <- %s' % (self.name(key), self.name(s)))
                            e = (s, scls.fidx(t.flow), key, fi)
                            if e in bwd: raise ModelError('duplicate input edge')
                            bwd.add(e); srcs.append((s, scls.fidx(t.flow)))
                    self.src[(key, fi)] = ('ctl', srcs)
                else:
                    chosen = None
                    for d in fl.ins:
                        t = d.select(env)
                        if t is not None:
                            chosen = t; break
                    if fl.mode == 'WRITE':
                        if chosen is not None and chosen.kind != 'new': raise ModelError('WRITE flow with input')
                        self.src[(key, fi)] = ('write',)
                    elif chosen is None:
                        raise ModelError('data flow %s.%s has no active input' % (self.name(key), fl.name))
                    elif chosen.kind == 'task':
                        ss = self._expand(chosen, env)
                        if len(ss) != 1: raise ModelError('range as data input')
                        s = ss[0]
                        if s not in self.idx: raise ModelError('dangling input %s.%s <- %s' % (self.name(key), fl.name, self.name(s)))
                        sf = P.cls(chosen.cls).fidx(chosen.flow)
                        bwd.add((s, sf, key, fi)); self.src[(key, fi)] = ('task', s, sf)
                    elif chosen.kind == 'mem':
                        k = chosen.key.ev(env)
                        if not (0 <= k < P.nk): raise ModelError('memory key out of range')
                        self.src[(key, fi)] = ('mem', k)
                    elif chosen.kind == 'new':
                        if fl.mode != 'RW': raise ModelError('NEW on a non-RW flow')
                        self.src[(key, fi)] = ('new',)
                    else:
                        if fl.mode != 'READ': raise ModelError('NULL on a non-READ flow')
                        self.src[(key, fi)] = ('null',)
        if fwd != bwd:
            a = sorted(fwd - bwd)[:3]; b = sorted(bwd - fwd)[:3]
            raise ModelError('forward/backward edge sets differ: only-forward %s only-backward %s' % (
                [(self.name(e[0]), e[1], self.name(e[2]), e[3]) for e in a], [(self.name(e[0]), e[1], self.name(e[2]), e[3]) for e in b]))
        self.edges = fwd
        self.succ = {}; self.pred = {}
        for (s, sf, d, df) in fwd:
            self.succ.setdefault(s, []).append((sf, d, df)); self.pred.setdefault(d, []).append((s, sf, df))

    def _topo(self):
        indeg = {k: 0 for k in self.inst}
        for (s, sf, d, df) in self.edges: indeg[d] += 1
        order = [k for k in self.inst if indeg[k] == 0]
        self.startup = set(order)
        i = 0
        while i < len(order):
            k = order[i]; i += 1
            for (sf, d, df) in self.succ.get(k, []):
                indeg[d] -= 1
                if indeg[d] == 0: order.append(d)
        if len(order) != len(self.inst): raise ModelError('dependency cycle')
        self.order = order
        self.tpos = {k: i for i, k in enumerate(order)}
        # ancestor bitsets
        anc = {}
        for k in order:
            b = 0
            for (s, sf, df) in self.pred.get(k, []):
                b |= anc[s] | (1 << self.tpos[s])
            anc[k] = b
        self.anc = anc

    def is_anc(self, a, b):
        """a is a strict ancestor of b"""
        return bool((self.anc[b] >> self.tpos[a]) & 1)

    def _rules(self):
        """validity rules of PTG programs (DESIGN E1): (1) anti-dependency rule for shared versions,
        (2) collection access rule, (3) memory accesses are local to the task's placement rank for every placement
        (we demand the same key as the placement key or a key with the same owner in every table: here the same key
        or a read-only key marked co-located)."""
        P = self.p
        # version origin of each (inst, flow) input and who holds it
        origin = {}    # (inst, fi) -> origin id
        holders = {}   # origin -> list of (inst, fi, mode)
        for k in self.order:
            tc = P.classes[k[0]]
            for fi, fl in enumerate(tc.flows):
                if fl.mode == 'CTL': continue
                s = self.src[(k, fi)]
                if s[0] == 'task':
                    sfl = P.classes[s[1][0]].flows[s[2]]
                    o = ('out', s[1], s[2]) if sfl.mode in ('RW', 'WRITE') else origin[(s[1], s[2])]
                elif s[0] == 'mem': o = ('mem', s[1])
                else: o = ('fresh', k, fi)
                origin[(k, fi)] = o
                holders.setdefault(o, []).append((k, fi, fl.mode))
        for o, hs in holders.items():
            for (k, fi, mode) in hs:
                if mode != 'RW': continue
                if o[0] == 'mem' and self.src[(k, fi)][0] != 'mem': raise ModelError('collection version mutated by a task that did not read it from the collection')
                for (k2, fi2, m2) in hs:
                    if (k2, fi2) == (k, fi): continue
                    if k2 == k: raise ModelError('one version on two flows of a mutating task')
                    if not self.is_anc(k2, k):
                        raise ModelError('anti-dependency rule: %s mutates a version also held by unordered %s' % (self.name(k), self.name(k2)))
        # collection rule: all accesses (reads from D, in-place RW, write-backs) of a key that is ever written are totally ordered
        acc = {}
        for (k, fi), s in self.src.items():
            if s[0] == 'mem':
                mode = P.classes[k[0]].flows[fi].mode
                acc.setdefault(s[1], []).append((k, 'w' if mode == 'RW' else 'r'))
        for (k, fi), keys in self.memout.items():
            for kk in keys: acc.setdefault(kk, []).append((k, 'b'))
        # a version living in collection memory and mutated downstream of the reader (RW chain through the store) is
        # covered by the anti-dependency rule above (origin ('mem', key)).
        for kk, lst in acc.items():
            if not any(m != 'r' for _, m in lst): continue
            ks = sorted(set(k for k, _ in lst), key=lambda k: self.tpos[k])
            for a, b in zip(ks, ks[1:]):
                if not self.is_anc(a, b): raise ModelError('collection rule: key %d accessed by unordered %s and %s' % (kk, self.name(a), self.name(b)))
            # allowed shapes: r* wb   |   r* rw-in [same task or later: wb as the very last access]
            seq = sorted(lst, key=lambda x: (self.tpos[x[0]], {'r': 0, 'w': 1, 'b': 2}[x[1]]))
            modes = ''.join(m for _, m in seq)
            i = 0
            while i < len(modes) and modes[i] == 'r': i += 1
            rest = modes[i:]
            if rest not in ('b', 'wb'): raise ModelError('collection rule: key %d access pattern %s not of the form r*[w]b' % (kk, modes))
        # locality: memory accessed by a task must be the placement key (same owner under every table)
        for (k, fi), s in self.src.items():
            if s[0] == 'mem':
                pk = P.classes[k[0]].place.ev(self.env[k])
                if s[1] != pk and not P.colocated(s[1], pk): raise ModelError('non-local memory read')
        for (k, fi), keys in self.memout.items():
            pk = P.classes[k[0]].place.ev(self.env[k])
            for kk in keys:
                if kk != pk and not P.colocated(kk, pk): raise ModelError('non-local memory write')

    def _values(self):
        P = self.p
        store = {k: 5000 + k for k in range(P.nk)}
        self.inv = {}; self.outv = {}
        for k in self.order:
            tc = P.classes[k[0]]
            acc = 1000 + tc.cid
            for v in k[1]: acc = mix(acc, v)
            ins = []
            for fi, fl in enumerate(tc.flows):
                if fl.mode == 'CTL': ins.append(None); continue
                s = self.src[(k, fi)]
                if s[0] == 'write': v = 0
                elif s[0] == 'task': v = self.outv[(s[1], s[2])]
                elif s[0] == 'mem': v = store[s[1]]
                elif s[0] == 'new': v = 0
                else: v = -1
                ins.append(v)
                if fl.mode != 'WRITE': acc = mix(acc, v)
            for fi, fl in enumerate(tc.flows):
                if fl.mode == 'CTL': continue
                self.inv[(k, fi)] = ins[fi]
                if fl.mode in ('RW', 'WRITE'):
                    o = mix(acc, 77 + fi)
                    self.outv[(k, fi)] = o
                    if self.src[(k, fi)][0] == 'mem': store[self.src[(k, fi)][1]] = o   # in place
                else:
                    self.outv[(k, fi)] = ins[fi]
                for kk in self.memout.get((k, fi), []): store[kk] = self.outv[(k, fi)]
        self.final = store

    def placement(self, k):
        return self.p.classes[k[0]].place.ev(self.env[k])


Program.colocated = lambda self, a, b: False
