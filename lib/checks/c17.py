"""C17 — DTD data flush returns the last written value to the owner (E2 scripts on several ranks, owner memory read after flush + wait)."""
import os, random
import e2dtd

META = dict(
    level='exploration', engine='E2 DTD script interpreter harness on 1..4 MPI ranks: owner-copy check points after flush + wait',
    technique='runtime monitoring: after parsec_dtd_data_flush / parsec_dtd_data_flush_all and parsec_taskpool_wait the owner rank reads its copy of every flushed tile; it must '
              'equal the value actually produced by the last inserted writer of that tile (recorded in the writer body on whichever rank ran it and gathered with MPI_Allreduce), '
              'or the previous owner value when nobody wrote; the same value is also compared with the sequential interpreter; ASan+UBSan',
    text='Random insertion scripts on 2..4 ranks in which the last writer of most tiles runs on a rank that does not own the tile (explicit-rank and affinity placement), '
         'collection tiles and parsec_dtd_tile_new tiles, flush of single tiles and of the whole collection, plus single-rank scripts with several flush/wait rounds: every flushed '
         'owner copy held the last written value. Held on the executions observed.',
    note='Multi-rank scripts use one flush/wait round and few pure readers (a second round after a wait and reader chains on several ranks are recorded stalls, kept as probes); '
         'trusts MPI_Allreduce for gathering produced values and the sequential interpreters.')

RULE = ('one case = one script x ranks/configuration; non-trivial = every task ran, >=1 flushed tile was compared and (on several ranks) for >=1 compared tile the last writer '
        'ran on a rank other than the owner; distinct = distinct (script digest, configuration)')

FLOORS = (6, 4)


def prebuild(ctx):
    ctx.harness('c03_dtd', 'asan')


def cfg17(rng, ranks):
    cfg = dict(ranks=ranks, cores=rng.choice([1, 2, 2, 4]) if ranks > 1 else rng.choice([2, 4, 8]), sched=rng.choice(['lfq', 'ltq', 'ap', 'lhq', 'gd', 'pbq', 'rnd', 'spq']))
    if rng.randrange(3) == 0: cfg['window'] = rng.choice([2, 8])
    if rng.randrange(4) == 0: cfg['threshold'] = rng.choice([1, 2])
    return cfg


def run(ctx):
    thorough = ctx.tier == 'thorough'
    sc = lambda n: max(1, int(round(n * float(os.environ.get('VERIF_E2_SCALE', '1')))))    # scratch trials only
    ctx.rule = RULE
    ctx.assumptions = ['value produced by a writer = what its body stored (gathered after the run)', 'sequential interpreters (C and python) agree on every check point',
                       'only legal scripts (lib/e2dtd.py header): a flushed tile is re-used only after the wait', 'MPI per-pair FIFO delivery']
    rng = random.Random(ctx.seed * 15485863 + 17)
    camp = e2dtd.Campaign(ctx, 'C17', 'asan')
    jobs = []
    nmp = sc(150 if thorough else 8)
    for i in range(nmp):
        for ranks in ((2, 3, 4) if thorough and i % 3 == 0 else (2, 3)):
            s = e2dtd.gen(ctx.seed * 100000 + i * 10 + ranks, world=ranks, profile='c17', ntasks=rng.randint(15, 120 if thorough else 50), rounds=1,
                          read_pct=rng.choice([0, 0, 10]), new_tiles=rng.choice([0, 1, 2]), max_np=3)
            jobs.append(dict(script=s, cfg=cfg17(rng, ranks), kind='mp'))
    if not thorough:
        s = e2dtd.gen(ctx.seed * 100000 + 7004, world=4, profile='c17', ntasks=30, rounds=1, read_pct=0, max_np=2)
        jobs.append(dict(script=s, cfg=dict(ranks=4, cores=1, sched='lfq'), kind='mp'))
    # several flush/wait rounds (a second round after more insertions is compared again): single rank
    for i in range(sc(40 if thorough else 4)):
        s = e2dtd.gen(ctx.seed * 100000 + 30000 + i, world=1, profile='c17', ntasks=rng.randint(30, 150), rounds=rng.choice([2, 3, 4]), new_tiles=rng.choice([0, 1, 2]))
        jobs.append(dict(script=s, cfg=cfg17(rng, 1), kind='rounds'))
    # low-weight probes of recorded findings: second round after a wait on two ranks; reader chains on three ranks
    s = e2dtd.gen(ctx.seed * 100000 + 50001, world=2, profile='c17', ntasks=40, rounds=2, read_pct=0)
    jobs.append(dict(script=s, cfg=dict(ranks=2, cores=2), kind='mp2rounds', stall_s=45))
    if thorough:
        for i in range(3):
            s = e2dtd.gen(ctx.seed * 100000 + 60000 + i, world=3, profile='c17', ntasks=50, rounds=1, read_pct=40)
            jobs.append(dict(script=s, cfg=dict(ranks=3, cores=2), kind='mp3readers', stall_s=45))
    done = camp.run(jobs, width=16)
    for j in done:
        summ = j.get('summary'); st = j.get('status'); s = j['script']
        ctx.add_cov('runs_%s' % j['kind'], 1); ctx.add_cov('status_%s' % st, 1)
        if st == 'ok' and summ:
            ok = summ['ran'] == summ['tasks'] and summ['flush_compared'] > 0 and (summ['ranks'] == 1 or summ['xrank_flush'] > 0)
            ctx.note_case((s.digest(), e2dtd.cfg_str(j['cfg'])), nontrivial=ok)
            for k in ('tasks', 'flush_compared', 'xrank_flush', 'finals_compared', 'checks', 'flushes', 'waits', 'xrank_reads'):
                ctx.add_cov(k, summ.get(k, 0))
            cov = ctx.cov.setdefault('configs_seen', {})
            for k in ('ranks', 'cores', 'sched', 'window', 'threshold'):
                cov.setdefault(k, [])
                if summ.get(k) not in cov[k]: cov[k].append(summ.get(k))
            nt = sum(1 for t in s.tiles if t[1] == 1)
            ctx.add_cov('new_tiles_flushed', nt)
            if ok:
                ctx.sample(dict(script_head=s.text()[:600], digest=s.digest(), features=s.feat, config=j['cfg'],
                                observed={k: summ.get(k) for k in ('ranks', 'ran', 'flush_compared', 'xrank_flush', 'checks', 'flushes')}))
        elif st in ('foreign', 'stalled'):
            ctx.inconclusive_case('%s %s' % (j['kind'], st))
