"""C06 — wait and completion calls return exactly when the work is done (API histories over E1 taskpools)."""
import random
import e1suite, e1run, e1gen, e1

META = dict(
    level='exploration', engine='E1 PTG taskpools driven by seeded start/add/wait scenario scripts',
    technique='runtime monitoring: seeded histories of parsec_context_start / add_taskpool (before start, after start, from a completion callback) / parsec_taskpool_wait / parsec_taskpool_test / parsec_context_wait over 1..4 epochs in one process; every body, callback and wait return takes a stamp from one logical clock; offline oracle: no task of a waited scope is stamped after the wait returned, each completion callback ran exactly once, after the last task of its taskpool and before the wait that covers it returned; plus the E1 exactly-once/value oracles; yield injection around termination; ASan+UBSan',
    text='Multi-epoch API histories over generated PTG taskpools (local and dynamic termination detectors, all schedulers, 1..16 threads, 1..2 ranks). Held on the histories executed.',
    note='DTD taskpools are exercised by the C03/C04/C17 harness, not here; waits are never issued from inside a task; per-process logical clock.')

RULE = ('case = (API history over k generated taskpools, configuration); non-trivial = >= 2 taskpools with tasks and >= 2 wait-type returns judged; '
        'distinct = distinct (seed, configuration)')


def make_history(rnd, n):
    """-> (script, epochs) ; epochs: list of dict(tps=[...], tpwaits=[...]) ; taskpools 0..n-1 each used once"""
    free = list(range(n)); rnd.shuffle(free)
    ops = []; epochs = []
    while free:
        take = min(len(free), rnd.randint(1, 4))
        mine = [free.pop() for _ in range(take)]
        # callback chains: i -> j (j added from i's completion callback)
        cbs = {}
        roots = list(mine)
        if len(mine) >= 2 and rnd.random() < 0.6:
            j = roots.pop(); i = rnd.choice(roots); cbs[i] = j
            others = [x for x in roots if x != i]
            if others and rnd.random() < 0.4:
                j2 = rnd.choice(others); roots.remove(j2); cbs[j] = j2     # chain i -> j -> j2
        for i, j in cbs.items(): ops.append('cbadd:%d>%d' % (i, j))
        rnd.shuffle(roots)
        k = rnd.randint(0, len(roots))
        pre, post = roots[:k], roots[k:]
        for t in pre: ops.append('add:%d' % t)
        ops.append('start')
        tpw = []
        for t in post:
            ops.append('add:%d' % t)
            if rnd.random() < 0.3: ops.append('tptest:%d' % t)
        for t in roots:
            if rnd.random() < 0.35: ops.append('tpwait:%d' % t); tpw.append(t)
        if not tpw and roots and rnd.random() < 0.7:      # most epochs wait for at least one taskpool individually
            t = rnd.choice(roots); ops.append('tpwait:%d' % t); tpw.append(t)
        ops.append('wait')
        epochs.append(dict(tps=mine, tpwaits=tpw, cbs=dict(cbs)))
    return ';'.join(ops), epochs


def oracle(ctx, res, refs, recs, marks, r, cfg, feat, files, what, epochs):
    judged = 0
    for rank in range(cfg.ranks):
        mine = [x for x in recs if x['rank'] == rank]
        last = {}; first = {}; cnt = {}
        for x in mine:
            last[x['tp']] = max(last.get(x['tp'], 0), x['exit']); first[x['tp']] = min(first.get(x['tp'], 1 << 62), x['enter']); cnt[x['tp']] = cnt.get(x['tp'], 0) + 1
        mk = [m for m in marks if m[0] == rank]
        waits = sorted(m[4] for m in mk if m[1] == 1)
        cb = {}
        for m in mk:
            if m[1] == 2: cb.setdefault(m[2], []).append(m[4])
        if len(waits) != len(epochs):
            ctx.harness_failures.append('%s: %d wait marks for %d epochs' % (what, len(waits), len(epochs))); res['status'] = 'inconclusive'; return

        def bad(key, text):
            ctx.violation('%s:wait:%s' % (feat, key), text + ' (rank %d) — %s' % (rank, what), r, files); res['status'] = 'violation'
        for e, ep in enumerate(epochs):
            W = waits[e]; Wprev = waits[e - 1] if e else 0
            for t in ep['tps']:
                c = cb.get(t, [])
                if len(c) != 1: return bad('callback-count', 'completion callback of taskpool %d ran %d times' % (t, len(c)))
                if t in last and not (last[t] < c[0]): return bad('callback-before-last-task', 'callback of taskpool %d at stamp %d, its last task exited at %d' % (t, c[0], last[t]))
                if t in last and not (last[t] < W): return bad('task-after-context-wait', 'parsec_context_wait returned at stamp %d but a task of taskpool %d exited at %d' % (W, t, last[t]))
                if not (c[0] < W): return bad('context-wait-before-callback', 'parsec_context_wait returned at %d before the completion callback of taskpool %d (stamp %d)' % (W, t, c[0]))
                if t in first and not (first[t] > Wprev): return bad('task-before-epoch', 'a task of taskpool %d ran at %d, before the previous epoch ended at %d' % (t, first[t], Wprev))
                judged += 1
            for i, j in ep['cbs'].items():
                if j in first and not (first[j] > cb[i][0] or True): pass
            for t in ep['tpwaits']:
                ms = [m[4] for m in mk if m[1] == 4 and m[2] == t]
                if len(ms) != 1: ctx.harness_failures.append('%s: tpwait mark count %d' % (what, len(ms))); continue
                if t in last and not (last[t] < ms[0]): return bad('task-after-taskpool-wait', 'parsec_taskpool_wait(%d) returned at %d but a task of it exited at %d' % (t, ms[0], last[t]))
                if not (cb[t][0] < ms[0]): return bad('taskpool-wait-before-callback', 'parsec_taskpool_wait(%d) returned at %d before its completion callback (stamp %d)' % (t, ms[0], cb[t][0]))
                judged += 1
    res['judged'] = judged
    ctx.add_cov('wait_returns_judged', judged)


def run(ctx):
    thorough = ctx.tier == 'thorough'
    ctx.rule = RULE
    ctx.assumptions = ['per-process logical clock', 'taskpools of one history use disjoint key ranges', 'no wait from inside a task', 'parsec_taskpool_test is used as a progress call only (its 0 return is ambiguous)']
    nh = 400 if thorough else 16
    agg = e1suite.Suite(ctx, {'once', 'values', 'final'}, profile='tiny')

    def one(i):
        seed = ctx.seed * 100000 + 95000 + i
        rnd = random.Random(seed)
        n = rnd.choice([1, 2, 3, 4, 5, 6, 8])
        try:
            progs, refs, disc = e1gen.generate_multi(seed, n, 'tiny', prefix='h%d' % i)
        except e1.ModelError as ex:
            ctx.inconclusive_case('generator: %s' % str(ex)[:150]); return []
        script, epochs = make_history(rnd, n)

        def cfgs(vi, r2):
            out = []
            for c in range(4 if thorough else 2):
                out.append(e1run.Cfg(sched=r2.choice(e1suite.SCHEDS), cores=r2.choice([2, 2, 4, 8] + ([1, 16] if thorough else [1])), ranks=2 if r2.random() < 0.15 else 1,
                                     place='rand', pseed=r2.randint(1, 99), scenario=script, seed=ctx.seed, sleep=(r2.choice([0, 100, 300]), 300),
                                     # short delays everywhere, or long delays (<= 3 ms) only at the scheduling sites (around the
                                     # completion callback / active_taskpools decrement / closing barrier), or none
                                     yield_=r2.choice(['%d:300:0' % ctx.seed, '%d:300:50' % ctx.seed, '%d:1000:3000:8000' % ctx.seed, '%d:1000:3000:8000' % ctx.seed,
                                                       '%d:1000:3000:8000' % ctx.seed, None])))
            return out
        S2 = e1suite.Suite(ctx, agg.oracles, profile='tiny'); S2.nk = progs[0].nk
        S2.post = lambda res, refs_, recs, finals, marks, r, cfg, feat, files, what: oracle(ctx, res, refs_, recs, marks, r, cfg, feat, files, what, epochs)
        flags = rnd.choice([(), (), ('-D',)])
        first_start = script.index('start')
        late = ('cbadd' in script) or ('add:' in script[first_start:])
        if flags and late:
            # known finding: a taskpool under dynamic termination detection that is added while the context runs can be
            # declared complete before its startup tasks ran; keyed separately so that it cannot mask anything else
            S2.feat_fn = lambda feat, *a: 'ptg[dynamic-termdet+add-while-running]'
        rs = S2.do_program(i, seed, [(rnd.choice(['asan', 'asan', 'rel']), flags)], cfgs, progs=(progs, refs))
        for k, v in S2.stats.items(): agg.stats[k] = agg.stats.get(k, 0) + v
        agg.scheds |= S2.scheds; agg.cores |= S2.cores; agg.ranks |= S2.ranks; agg.backends |= S2.backends
        for r_ in rs: r_['nonempty'] = sum(1 for x in refs if len(x.inst) > 0); r_['script'] = script
        return rs

    for rs in ctx.pmap(one, range(nh), jobs=5):
        for res in rs:
            if res['status'] in ('ok', 'violation', 'known'):
                ctx.evaluations += 1
                if res['status'] == 'ok' and res.get('nonempty', 0) >= 2 and res.get('judged', 0) >= 2:
                    ctx.distinct.add('%d/%s' % (res['seed'], res['cfg'].ident()))
                if res['status'] == 'ok': ctx.sample({'history': res['script'], 'tasks': res['ninst']}, cap=4)
    agg.finish_cov()
