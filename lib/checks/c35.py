"""C35 — task buffers and heaps keep every task and prefer the best (sequential model harnesses for hbbuffer chains and
the scheduler max-heap with a full structure scan after every operation; concurrent conservation / single-ownership
stress of the hbbuffer with yield injection)."""

META = dict(
    level='exploration', engine='sequential model harness (structure scan after every operation) + E4 concurrent conservation harness',
    technique='runtime monitoring: the real parsec_hbbuffer_* and heap_* functions are driven with generated histories; after every operation '
              'a monitor scans all buffers / walks all heaps (conservation, exactly-once, heap order, complete shape, top = maximum, quiescent '
              'pop_best = maximum, parent ring well formed); concurrent pushers/poppers/stealers with an atomic owner word per task and delay '
              'injection at the hbbuffer CAS sites; ASan+UBSan build',
    text='Seeded histories on chains of 1..3 hierarchical bounded buffers (sizes 1..8, rings of 1..16 tasks, distances 0..2, push_all and '
         'push_all_by_priority with sorted and unsorted rings, pop_best) and on max-heaps of 1..64 tasks (insert, heap_remove, '
         'heap_split_and_steal repeatedly, inserts after cuts) are executed on the library code with all oracles after each operation; 2..16 '
         'threads push, pop and steal on leaf / shared / root stores under injected delays and the final accounting must hold every task exactly '
         'once. Held on the histories executed; interleavings are sampled.',
    note='Trusts the models in harness/c35_hbb.c. Tasks are fabricated parsec_task_t in type-stable memory (as the runtime\'s mempools); '
         'push_all_by_priority is only issued by the owner of a leaf buffer (pbq discipline). The ltq combination (heaps stored in hbbuffers, cut and '
         'freed by heap_remove) is driven for conservation in the production flavour; under ASan it shows the recorded finding (pop_best reads a freed heap). '
         'maxheap itself has no internal concurrency.')

RULE = ('one case = one operation history on fresh buffers / heaps with the full scan after every operation (concurrent: one stress run); '
        'non-trivial = at least 3 operations; distinct = distinct hashes of (buffer geometry, operation sequence with priorities); concurrent runs '
        'count as distinct non-trivial when pops by non-owners (steals) and root-store traffic were both observed')
FLOORS = (200, 100)


def prebuild(ctx):
    for f in ('asan', 'rel'):
        ctx.harness('c35_hbb', f)


def run(ctx):
    thorough = ctx.tier == 'thorough'
    ctx.rule = RULE
    ctx.assumptions = ['priority comparison is the signed int field (HIGHER_IS_BETTER); ties may be served in any order',
                       'a push at distance 0 may hand tasks to the parent only when the buffer is full afterwards (sequential histories); which tasks are '
                       'evicted by push_all_by_priority is not judged',
                       'overflow handed to a parent buffer carries distance-1 and so travels on to the root store: observed, not judged',
                       'tasks are never freed while reachable (type-stable pool), so optimistic priority reads of popped tasks are legal']
    exe = {f: ctx.harness('c35_hbb', f) for f in ('asan', 'rel')}
    S = ctx.seed
    if thorough:
        seq = [('asan', 16, 6000), ('rel', 16, 60000)]
        conc_rounds = {'asan': 400000, 'rel': 3000000}
    else:
        seq = [('asan', 4, 700), ('rel', 4, 4000)]
        conc_rounds = {'asan': 30000, 'rel': 150000}
    jobs = []
    for fl, n, h in seq:
        for k in range(n):
            sd = S * 100003 + k * 17 + (fl == 'rel') * 7919
            jobs.append(dict(kind='heap', fl=fl, args=['--mode', 'heap', '--histories', h, '--seed', sd]))
            jobs.append(dict(kind='hbb', fl=fl, args=['--mode', 'hbb', '--histories', h, '--seed', sd, '--maxlen', 60 if k % 2 == 0 else 300]))
    # concurrent: (threads, leaf, mid, groups, prio_leaves, per_thread, yield permille, yield us)
    shapes = [(2, 1, 1, 1, 0, 6, 200, 0), (4, 2, 2, 2, 1, 8, 150, 20), (8, 4, 4, 2, 0, 12, 100, 0), (8, 3, 2, 3, 1, 10, 0, 0), (16, 8, 8, 4, 0, 16, 50, 0), (6, 1, 8, 1, 1, 4, 300, 50)]
    for fl in ('asan', 'rel'):
        for i, (t, leaf, mid, g, pl, per, y, yus) in enumerate(shapes):
            jobs.append(dict(kind='conc', fl=fl, args=['--mode', 'conc', '--threads', t, '--leaf', leaf, '--mid', mid, '--groups', g, '--prio-leaves', pl, '--per-thread', per,
                                                       '--rounds', conc_rounds[fl], '--yield', y, '--yield-us', yus, '--seed', S * 131 + i]))

    # ltq discipline (heaps kept in the buffers): conservation in the production flavour, one sanitizer probe
    for i, (t, leaf, per) in enumerate([(2, 1, 8), (4, 4, 16), (8, 2, 12)]):
        jobs.append(dict(kind='ltq', fl='rel', args=['--mode', 'ltq', '--threads', t, '--leaf', leaf, '--per-thread', per, '--rounds', conc_rounds['rel'] * 2, '--seed', S * 71 + i]))
    for i, (t, leaf, y) in enumerate([(4, 4, 0), (6, 2, 100), (3, 1, 0)]):      # the finding is timing dependent: three short attempts
        jobs.append(dict(kind='ltqprobe', fl='asan', args=['--mode', 'ltq', '--threads', t, '--leaf', leaf, '--per-thread', 16, '--rounds', max(100000, conc_rounds['asan']), '--yield', y, '--seed', S * 71 + 9 + i]))

    def one(j):
        cmd = [exe[j['fl']]] + [str(a) for a in j['args']]
        return j, ctx.run(cmd, timeout=7200 if thorough else 900, stall_s=120, tag='%s-%s-%d' % (j['kind'], j['fl'], id(j)))

    res = ctx.pmap(one, [j for j in jobs if j['kind'] in ('heap', 'hbb')], jobs=8) + ctx.pmap(one, [j for j in jobs if j['kind'] not in ('heap', 'hbb')], jobs=2)
    for j, r in res:
        what = '%s %s' % (j['fl'], ' '.join(str(a) for a in j['args']))
        hist = r.of('history')
        if j['kind'] == 'ltqprobe':
            ctx.add_cov('ltq_sanitizer_probes', 1)
            uaf = [x for x in r.san if 'heap-use-after-free' in x and 'parsec_hbbuffer_pop_best' in x and 'heap_destroy' in x]
            if uaf:      # keyed by the mechanism, not by harness frame names
                ctx.violation('ltq:pop_best-reads-freed-heap', '%s: ASan heap-use-after-free: parsec_hbbuffer_pop_best (hbbuffer.c) reads the priority of a heap that '
                              'another thread emptied and freed in heap_remove/heap_destroy (maxheap.c)' % what, r)
                ctx.note_case(('ltqprobe-uaf', tuple(j['args'][2:])), nontrivial=False)
                continue
        st = ctx.absorb(r, what, files={'history.json': [h for h in hist if h.get('why') == 'violation']} if hist else None)
        if st == 'stalled':
            ctx.inconclusive_case('stalled/timed out: ' + what); continue
        s = r.summary()
        if not s:
            continue
        if j['kind'] in ('ltq', 'ltqprobe'):
            ctx.note_case(('ltq', j['fl'], tuple(j['args'][2:]), s['removes'], s['splits'], s['steals']), nontrivial=s['steals'] > 0 and s['splits'] > 0)
            for k in ('ops', 'heaps_built', 'removes', 'splits', 'steals'):
                ctx.add_cov('ltq_' + k, s[k])
            continue
        if j['kind'] == 'conc':
            nontriv = s['steals'] > 0 and s['root_in'] > 0 and s['pops'] > 0
            ctx.note_case(('conc', j['fl'], tuple(j['args'][2:]), s['pops'], s['steals'], s['root_in']), nontrivial=nontriv)
            for k in ('ops', 'pushes', 'pops', 'steals', 'pop_null', 'root_in', 'root_out', 'yield_hits'):
                ctx.add_cov('conc_' + k, s[k])
            ctx.max_cov('conc_max_threads', s['threads'])
            if len([x for x in ctx.samples if x.get('mode') == 'conc']) < 2:
                ctx.sample({'mode': 'conc', 'flavour': j['fl'], 'threads': s['threads'], 'prio_leaves': s['prio_leaves'], 'who_got_the_tasks': {'pops': s['pops'], 'of which steals': s['steals'], 'via root store': s['root_out']}}, cap=6)
            continue
        ctx.evaluations += s['histories']; ctx.nontrivial_extra += s['distinct']
        pre = j['kind'] + '_'
        for k, v in s.items():
            if k in ('type', 'mode', 'histories', 'nontrivial', 'distinct'):
                continue
            if k.startswith('max_'):
                ctx.max_cov(pre + k, v)
            else:
                ctx.add_cov(pre + k, v)
        for h in hist:
            if h.get('why') == 'sample' and len([x for x in ctx.samples if x.get('mode') == j['kind']]) < 2:
                ctx.sample({'mode': j['kind'], 'flavour': j['fl'], 'history': h['ops'][:700]}, cap=6)
    ctx.cov['flavours'] = ['asan', 'rel']
