"""C01 — every PTG task instance runs exactly once (E1: generated programs, reference execution space, event log)."""
import random
import e1suite, e1run, e1gen, e1

META = dict(
    level='exploration', engine='E1 PTG program generator + reference interpreter + event-log checker',
    technique='runtime monitoring: generated PTG programs compiled by the real parsec-ptgpp and run on the real runtime; per-instance body log checked offline for exactly-once against a reference enumeration of the execution space; stall rule for non-termination; ASan+UBSan',
    text='Seeded PTG programs (chains with positive/strided/negative steps, triangular and local-index spaces, fan-out over ranges, ternary routing, control gathers, reduction trees, wavefronts) are compiled with both dependency back-ends and the dynamic-termination option and run under all 11 schedulers, 1..16 threads and small startup chunks; every body invocation is logged and the completed multiset must equal the reference execution space (per rank), the run must terminate. Held on the programs and configurations executed.',
    note='Trusts the python reference interpreter (forward/backward edge self-check discards inconsistent models), the body log (per-thread buffers) and the generator validity rules; programs outside the generator grammar are not covered.')

RULE = ('case = (generated program, ptgpp options, run configuration); non-trivial = >=20 task instances and the run completed and was judged; '
        'distinct = distinct (program seed, configuration) pairs')

CHUNKS = [1, 2, 3, 7, 256]
ITERS = [1, 2, 3, 64]


def cfg_sampler(ctx, thorough, extra=None, n_override=None):
    def cfgs(vi, rnd):
        n = n_override or (15 if thorough else 3)
        out = []
        scheds = list(e1suite.SCHEDS); rnd.shuffle(scheds)
        for i in range(n):
            mca = {}
            if rnd.random() < 0.6:
                mca['task_startup_chunk'] = rnd.choice(CHUNKS); mca['task_startup_iter'] = rnd.choice(ITERS)
            if rnd.random() < 0.3: mca['runtime_keep_highest_priority_task'] = rnd.choice([0, 1])
            c = e1run.Cfg(sched=scheds[i % len(scheds)], cores=rnd.choice([1, 2, 3, 4, 4, 8] + ([16] if thorough else [])), mca=mca, seed=ctx.seed,
                          sleep=(rnd.choice([0, 0, 100]), 300))
            # several virtual processes (synthetic multi-package topology + hwloc vpmap) in a third of the runs
            if c.cores >= 2 and rnd.random() < 0.35: c.vps = rnd.choice([2, 2, 3, 4]); c.vps = min(c.vps, c.cores)
            if extra: extra(c, rnd)
            out.append(c)
        return out
    return cfgs


def variants_for(i, rnd, probe=None):
    base = [('asan', ())]
    second = rnd.choice([('asan', ('-M', 'index-array')), ('rel', ()), ('rel', ('-M', 'index-array')), ('asan', ('-D',)), ('rel', ('-D',))])
    if probe == 'lidx-param': second = ('asan', ('-M', 'index-array'))
    return base + [second]


def run(ctx):
    thorough = ctx.tier == 'thorough'
    ctx.rule = RULE
    ctx.assumptions = ['reference interpreter and generator validity rules (anti-dependency rule, collection access rule, local memory accesses)',
                       'AGAIN re-entries are tagged in the log and not counted as executions', 'stalled twice with the same input = no progress']
    S = e1suite.Suite(ctx, {'once'}, profile='enum')
    nprog = 300 if thorough else 16
    jobs = []
    for i in range(nprog):
        seed = ctx.seed * 100000 + i
        rnd = random.Random(seed)
        probe = None
        # known-finding probes at low weight: one negative-step program, one local-index program on the index-array back-end
        if i % 100 == 0: probe = 'neg-step'
        elif i % 100 == 1: probe = 'lidx-param'
        elif i % 100 == 2: probe = 'empty-gather'
        jobs.append((i, seed, variants_for(i, rnd, probe), probe))

    def one(j):
        i, seed, variants, probe = j
        if probe in ('neg-step', 'empty-gather'): variants = variants[:1] if probe == 'neg-step' else variants
        # a known-finding probe costs a stall time-out per run: one configuration per variant is enough to keep it observed
        return S.do_program(i, seed, variants, cfg_sampler(ctx, thorough, n_override=(1 if probe else None)), allow=((probe,) if probe else ()))

    allres = ctx.pmap(one, jobs, jobs=6)
    for rs in allres: S.account(rs)
    for i in range(3):
        try:
            P, ref, _ = e1gen.generate(ctx.seed * 100000 + 2 + i, 'enum', name='p%d' % i)
            ctx.sample(e1suite.sample_of(P, ref))
        except e1.ModelError:
            pass
    S.finish_cov()
