"""C33 — the runtime read-write lock excludes correctly and makes progress (occupancy monitor inside the
critical sections of the real lock under stress + injected delays; progress by quota completion / stall rule)."""

META = dict(
    level='exploration', engine='E4 direct-drive concurrency harness (occupancy monitor)',
    technique='runtime monitoring: atomic occupancy word and a lock-protected datum checked inside every critical section of the real '
              'parsec_atomic_rwlock under multi-threaded stress with injected delays between ticket acquisition and spin; progress by '
              'quota completion under continuous opposing traffic (stall rule); ASan+UBSan',
    text='2..16 threads acquire the configured (phase-fair ticket) lock millions of times as readers and writers in phases of different '
         'mixes (writer-only, reader-only, mixed), critical sections of different lengths, both build flavours, with delays injected at '
         'the yield sites of parsec_rwlock.c and with the reader ticket counters driven across their sign change and wrap-around. Every '
         'entry is judged: no writer together with a writer or a reader; readers are seen sharing; every thread completes its quota, '
         'also a writer against continuously re-acquiring readers and readers against continuously re-acquiring writers. Held on the '
         'schedules observed; interleavings are sampled, not enumerated (the bounded "all interleavings of a model" part of the '
         'quantifier is outside this technique).',
    note='Trusts the harness occupancy word (incremented after acquire, decremented before release) and the heartbeat-based stall rule; '
         'fairness figures (max_overtaken) are advisory.')

RULE = ('episodes: one case = one short bounded run (2..4 threads x 1..4 lock cycles each, random reader/writer roles) on a freshly '
        'initialised lock aged by 0..3 write and 0..2 read cycles; non-trivial = two conflicting acquisitions of different threads were '
        'pending at the same time (one had to wait); distinct = distinct (ageing, entry order of (thread, role)) signatures. stress: '
        'one case = one phase of one run (threads x writer-permille x critical-section length x yield setting x flavour x prewarm) in '
        'which every acquisition was judged by the occupancy oracle; non-trivial = at least two threads and a conflict was really '
        'exercised (an acquisition found the lock held by a conflicting class when it was invoked, or readers were inside together); '
        'distinct = distinct phase configurations')

FLOORS = (100, 20)


def exe(ctx, flavour):
    return ctx.harness('c33_rwlock', flavour)


def prebuild(ctx):
    for f in ('asan', 'rel'):
        exe(ctx, f)


def run(ctx):
    thorough = ctx.tier == 'thorough'
    ctx.rule = RULE
    ctx.assumptions = ['occupancy word updated after acquire / before release: a conflicting non-zero half on entry is a real overlap',
                       'a run that stalls twice (no acquisition by the waiting class for 25 s) is "no progress"; one stall is inconclusive',
                       'PARSEC_RWLOCK_IMPL is the ticket implementation configured in parsec_rwlock.h; other branches are not compiled',
                       'prewarm performs real uncontended read cycles to age the ticket counters (no field is poked)']
    q = 10000 if thorough else 1500
    jobs = []
    n = 0
    for flavour in ('rel', 'asan'):
        e = exe(ctx, flavour)
        for threads in (2, 3, 4, 8, 16):
            for cs, y in ((0, (0, 0)), (300, (150, 0)), (3000, (300, 20)), (800, (0, 0))):
                if not thorough and flavour == 'asan' and threads in (3, 16) and cs in (0, 800):
                    continue
                n += 1
                quota = max(200, q * 4 // threads)
                if y[1]:
                    quota = max(100, quota // 4)
                mix = '1000,0,500,100,900,20,300' if cs != 800 else '0,50,500,5'
                jobs.append(dict(kind='excl', flavour=flavour, threads=threads, cs=cs, y=y, prewarm=0, tag='x%d' % n,
                                 cmd=[e, '--mode', 'excl', '--threads', threads, '--quota', quota, '--cs', cs, '--mix', mix,
                                      '--seed', ctx.seed * 100 + n, '--yield', y[0], '--yield-us', y[1]]))
        # aged ticket counters: cross the sign change (2^23 reads) and the wrap-around (2^24 reads) under contention
        for pw, threads in ((8388608 - 3000, 4), (16777216 - 3000, 8)):
            n += 1
            jobs.append(dict(kind='excl', flavour=flavour, threads=threads, cs=200, y=(100, 0), prewarm=pw, tag='x%d' % n,
                             cmd=[e, '--mode', 'excl', '--threads', threads, '--quota', max(400, q // 2), '--cs', 200, '--mix', '100,500,20,0,300',
                                  '--seed', ctx.seed * 100 + n, '--yield', 100, '--prewarm', pw]))
        for threads in (2, 3, 4):
            for y in ((0, 0), (400, 0), (600, 10)):
                n += 1
                jobs.append(dict(kind='ep', flavour=flavour, threads=threads, cs=100, y=y, prewarm=0, tag='e%d' % n,
                                 cmd=[e, '--mode', 'episodes', '--threads', threads, '--cycles', 4, '--episodes', (60000 if thorough else 1500) // (3 if y[1] else 1),
                                      '--seed', ctx.seed * 100 + n, '--yield', y[0], '--yield-us', y[1]]))
        # episodes on a lock whose reader counters are a handful of acquisitions away from the sign change (2^23) or the wrap
        # (2^24): the first episodes straddle the boundary with readers inside while a writer arrives
        for k in range(40 if thorough else 12):
            for boundary in ((8388608, 16777216) if k % 4 == 0 else (8388608,)):
                n += 1
                jobs.append(dict(kind='ep', flavour=flavour, threads=3 + k % 2, cs=100, y=(300, 0), prewarm=boundary, tag='b%d' % n,
                                 cmd=[e, '--mode', 'episodes', '--threads', 3 + k % 2, '--cycles', 3, '--episodes', 8, '--ep-keep', 1, '--prewarm', boundary - 1 - (k * 3) % 7, '--cs', 4000,
                                      '--seed', ctx.seed * 100 + n, '--yield', 300, '--yield-us', 0]))
        # staged exclusion across the counter boundaries: readers inside, then a writer asks; walks the reader counters
        # across 2^23 (sign change) and 2^24 (wrap) R acquisitions at a time
        for boundary in (8388608, 16777216):
            for R in (1, 2, 3):
                n += 1
                jobs.append(dict(kind='staged', flavour=flavour, threads=R + 1, cs=0, y=(0, 0), prewarm=boundary, tag='g%d' % n,
                                 cmd=[e, '--mode', 'staged', '--readers', R, '--rounds', 8, '--prewarm', boundary - 2 * R - 1, '--seed', ctx.seed * 100 + n]))
        for victim, nv, na, y in (('writer', 1, 6, 0), ('writer', 2, 10, 150), ('reader', 2, 6, 0), ('reader', 4, 8, 150), ('writer', 1, 15, 0)):
            n += 1
            jobs.append(dict(kind='starve', flavour=flavour, threads=nv + na, cs=300, y=(y, 0), prewarm=0, victim=victim, tag='s%d' % n,
                             cmd=[e, '--mode', 'starve', '--victim', victim, '--victims', nv, '--aggressors', na,
                                  '--quota', (4000 if thorough else 400), '--seed', ctx.seed * 100 + n, '--yield', y]))

    def one(j):
        cmd = [str(c) for c in j['cmd']]
        if ctx.violations:
            return j, None, 'skipped'      # a witness exists: do not spend the stall budget of the remaining runs
        what = '%s %s' % (j['flavour'], ' '.join(cmd[1:]))
        r, st = ctx.run_with_stall_rule(lambda: ctx.run(cmd, timeout=7200 if thorough else 900, stall_s=25, tag=j['tag']), what)
        return j, r, st

    # runs use up to 16 spinning threads each: two at a time at most
    res = ctx.pmap(one, [j for j in jobs if j['threads'] <= 4], jobs=3) + ctx.pmap(one, [j for j in jobs if j['threads'] > 4], jobs=2)
    tot_shared = 0
    for j, r, st in res:
        if st in ('stalled', 'skipped') or r is None:
            continue
        s = r.summary()
        if not s:
            continue
        ycfg = '%d/%d' % j['y']
        if j['kind'] == 'excl':
            for ph in r.of('phase'):
                nontrivial = j['threads'] >= 2 and (ph['rcont'] + ph['wcont'] + ph['shared']) > 0
                ctx.note_case(('excl', j['flavour'], j['threads'], ph['mix'], j['cs'], ycfg, j['prewarm']), nontrivial)
                ctx.add_cov('read_acquisitions', ph['racq']); ctx.add_cov('write_acquisitions', ph['wacq'])
                ctx.add_cov('reader_entries_with_other_readers_inside', ph['shared'])
                ctx.add_cov('acquisitions_invoked_while_conflicting_holder_inside', ph['rcont'] + ph['wcont'])
                ctx.max_cov('max_readers_inside_together', ph['max_readers'])
                tot_shared += ph['shared']
                if ph['shared'] and ph['wacq'] and j['threads'] >= 4:
                    ctx.sample(dict(ph, flavour=j['flavour'], cs=j['cs'], yield_cfg=ycfg, prewarm=j['prewarm']), cap=5)
            if j['prewarm']:
                ctx.add_cov('runs_with_aged_ticket_counters', 1)
                ctx.cov.setdefault('rin_after_aged_runs', []).append(s['rin'])
        elif j['kind'] == 'ep':
            ctx.evaluations += s['episodes']; ctx.nontrivial_extra += s['distinct']
            ctx.add_cov('episodes', s['episodes']); ctx.add_cov('episodes_with_contention', s['nontrivial'])
            ctx.add_cov('read_acquisitions', s['racq']); ctx.add_cov('write_acquisitions', s['wacq'])
            for ep in r.of('episode')[:1]:
                ctx.sample(dict(threads=s['threads'], flavour=j['flavour'], yield_cfg=ycfg, episode=ep['events'][:500]), cap=3)
        elif j['kind'] == 'staged':
            ctx.note_case(('staged', j['flavour'], j['prewarm'], s['readers']), True, n=s['rounds'])
            ctx.add_cov('staged_rounds_across_counter_boundaries', s['rounds'])
        else:
            nontrivial = s['vict_acq'] > 0 and s['aggr_acq'] > 0
            ctx.note_case(('starve', j['flavour'], j['victim'], s['victims'], s['aggressors'], ycfg), nontrivial)
            ctx.add_cov('starve_victim_acquisitions', s['vict_acq']); ctx.add_cov('starve_aggressor_acquisitions', s['aggr_acq'])
            ctx.max_cov('advisory_max_aggressor_acquisitions_while_a_victim_waited', s['max_overtaken'])
            if s['victim'] == 'writer':
                ctx.add_cov('write_acquisitions', s['vict_acq']); ctx.add_cov('read_acquisitions', s['aggr_acq'])
            else:
                ctx.add_cov('read_acquisitions', s['vict_acq']); ctx.add_cov('write_acquisitions', s['aggr_acq'])
            ctx.sample(dict(s, flavour=j['flavour']), cap=6)
        ctx.add_cov('yield_hits', s['yield_hits'])
    if ctx.evaluations and tot_shared == 0:
        ctx.harness_failures.append('no reader sharing was observed in any phase: the runs did not exercise sharing')
        ctx.evaluations = 0
    ctx.cov['flavours'] = ['asan', 'rel']
    ctx.cov['implementation'] = 'PARSEC_RWLOCK_IMPL_TICKET (libparsec as built from the tree)'
