"""C27 — arenas and thread memory pools never hand out a block twice (ownership tags, limits, conservation)."""

import vfcore

META = dict(
    level='exploration', engine='E4 direct-drive concurrency harness (ownership tags + shadow counters), parts of E3',
    technique='runtime monitoring: ownership tags written into every block, harness-owned allocator callbacks as ground truth '
              'for the number of cached chunks, shadow live counter kept in the permissive direction, conservation walk of the '
              'per-thread LIFOs at quiescence, yield injection in arena.c and lifo.h, ASan+UBSan',
    text='Real arenas (parsec_arena_construct_ex with random element size, alignment 8/16/64, allocation limits 1/2/5/n/unlimited and '
         'cache limits 0/1/2/5/large/unlimited given in bytes) are driven by 1..16 threads through parsec_arena_get_new_copy / '
         'PARSEC_DATA_COPY_RELEASE with counts 1..4; thread mempools are driven with owner-thread allocation and frees from any '
         'thread. Alignment, size, single ownership, the allocation limit and the cache limit at quiescence are checked on every '
         'operation / quiescent point. Held on the histories observed.',
    note='Trusts the tag protocol of the harness and the allocator callbacks installed in arena->data_malloc/data_free. A refusal below '
         'the allocation limit is counted, not judged (the property only forbids exceeding the limit).',
    design_ref='DESIGN.md 4/C27, 6.5')

RULE = ('one case = one arena (or mempool) configuration driven for several rounds; concurrent cases are non-trivial when operations of '
        'different threads overlapped in stamp time (mempool: and an element was freed by a non-owner thread and recycled), sequential '
        'cases when >=3 allocations happened and the cache or the limit was hit; distinct = hash of configuration and outcome counters')

FLOORS = (20, 8)
KNOWN_KEY = 'arena:cache-limit:concurrent-release'


def _external_kill(r):
    """SIGKILL cannot come from the code under test (no OOM here): another job on the shared box killed the process."""
    return r.signal == 9 and not r.san and not r.of('violation') and not (r.stalled or r.timed_out)


def _retry_killed(ctx, runner):
    r = runner()
    if _external_kill(r):
        ctx.add_cov('rerun_after_external_sigkill', 1)
        r = runner()
        if _external_kill(r):          # twice: machinery trouble, never a verdict
            r.signal = None; r.rc = 2
    return r


def _exe(ctx, flavour):
    return ctx.harness('c27_arena', flavour)


def prebuild(ctx):
    for f in ('asan', 'rel'):
        _exe(ctx, f)


def run(ctx):
    thorough = ctx.tier == 'thorough'
    ctx.rule = RULE
    ctx.assumptions = ['blocks are written only by their owner (harness discipline); a thread mempool is allocated from by its owner thread only',
                       'limits handed to parsec_arena_construct_ex are bytes and mean floor(bytes/elem_size) elements',
                       'shadow live counter: raised after a successful allocation, lowered before the release call',
                       'cached chunks = allocator-callback mallocs - frees - live, exact at quiescence']
    seed = ctx.seed
    k = 5 if thorough else 1
    jobs = []
    for flavour in ('asan', 'rel'):
        exe = _exe(ctx, flavour)
        heavy = flavour == 'rel'
        # sequential (exact cache-limit check after every operation)
        for i in range(k):
            jobs.append(dict(kind='arena', flavour=flavour, par=3, cmd=[exe, '--mode', 'arena', '--threads', 1, '--cases', 40 if thorough else 30, '--rounds', 6, '--ops', 300 if heavy else 150,
                                                                       '--seed', seed * 1009 + i]))
        # concurrent: one process per thread count, the cases cycle through no delays / yields / yields+sleeps.
        # Known findings are kept at low weight in quick: tight cache limits (6.5) in 15% of the cases, and the chunks the
        # arena frees go through a quarantine except in the one --real-free job below.
        for ti, t in enumerate((2, 4, 8, 16)):
            for rep in range(k):
                jobs.append(dict(kind='arena', flavour=flavour, par=1 if t >= 8 else 3,
                                 cmd=[exe, '--mode', 'arena', '--threads', t, '--cases', (9, 9, 6, 6)[ti] * (2 if thorough else 1), '--rounds', 6, '--ops', 200 if heavy else 100,
                                      '--seed', seed * 7001 + ti * 100 + rep * 1000, '--yield-cycle', '--tightcache', 300 if thorough else 150]))
        for rep in range(k if thorough else (1 if flavour == "asan" else 0)):
            jobs.append(dict(kind='arena', flavour=flavour, par=3, realfree=True,
                             cmd=[exe, '--mode', 'arena', '--threads', 4, '--cases', 6, '--rounds', 6, '--ops', 100, '--seed', seed * 911 + rep,
                                  '--yield', 300, '--yield-us', 20, '--tightcache', 1000, '--real-free', 1]))
        for ti, t in enumerate((2, 4, 8, 16)):
            for rep in range(k):
                jobs.append(dict(kind='mempool', flavour=flavour, par=1 if t >= 8 else 3,
                                 cmd=[exe, '--mode', 'mempool', '--threads', t, '--cases', 6, '--rounds', 6, '--ops', 500 if heavy else 250,
                                      '--seed', seed * 5003 + ti * 10 + rep * 100, '--yield-cycle']))

    def one(j):
        what = '%s/%s %s' % (j['flavour'], j['kind'], ' '.join(str(c) for c in j['cmd'][1:]))
        runner = lambda: _retry_killed(ctx, lambda: ctx.run([str(c) for c in j['cmd']], timeout=3600 if thorough else 900, stall_s=180, tag='%s-%s-%d' % (j['kind'], j['flavour'], id(j))))
        if j.get('realfree'):      # usually dies of the known ASan finding: no summary expected
            r = runner()
            return j, r, ctx.absorb(r, what, expect_objs=False)
        r, st = ctx.run_with_stall_rule(runner, what)      # stalled twice = violation keyed by the blocked frames
        return j, r, st

    res = []
    for par in (3, 1):
        res += ctx.pmap(one, [j for j in jobs if j['par'] == par], jobs=par)
    for j, r, st in res:
        if st == 'stalled':
            ctx.inconclusive_case('stalled: %s [%s]' % (' '.join(str(c) for c in j['cmd'][1:]), vfcore.stall_key(r.backtraces)))
            continue
        s = r.summary()
        if not s:
            continue
        ctx.evaluations += s['cases']
        ctx.nontrivial_extra += s['distinct']
        if j['kind'] == 'arena':
            pre = 'arena_seq_' if s['threads'] == 1 else 'arena_conc_'
            for key in ('ops', 'allocs', 'fresh', 'from_cache', 'refusals', 'multi', 'quiescent_checks', 'overlapped_rounds', 'cases'):
                ctx.add_cov(pre + key, s[key])
            ctx.add_cov('arena_seq_refusals_below_limit_informative', s['refusals_below_limit_sequential'])
            ctx.add_cov('arena_tight_cache_cases', s['tight_cases']); ctx.add_cov('arena_cache_overshoot_cases', s['cache_overshoot_cases'])
            ctx.max_cov('arena_cache_overshoot_max_blocks', s['cache_overshoot_max'])
            ctx.add_cov('yield_hits_arena', s['yield_arena']); ctx.add_cov('yield_hits_lifo', s['yield_lifo'])
            ctx.max_cov('arena_max_threads', s['threads'])
        else:
            for key in ('allocs', 'fresh', 'recycled', 'frees_local', 'frees_remote', 'handed_over', 'overlapped_rounds', 'walks', 'cases'):
                ctx.add_cov('mempool_' + key, s[key])
            ctx.add_cov('yield_hits_lifo', s['yield_lifo'])
        for smp in r.of('sample')[:1]:
            kind = 'mempool' if j['kind'] == 'mempool' else ('seq' if s['threads'] == 1 else 'conc')
            if len([x for x in ctx.samples if x.get('kind') == kind]) < 2:
                d = dict(smp); d.pop('type', None); d['kind'] = kind; d['flavour'] = j['flavour']
                ctx.sample(d, cap=6)
    ctx.cov['flavours'] = ['asan', 'rel']
