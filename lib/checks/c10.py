"""C10 — local termination detection is exact (mca/termdet/local): direct concurrent drive of the real module on a real
taskpool object with legal histories, shadow of unannounced work, observer thread, yield injection at the module's atomic steps."""

META = dict(
    level='exploration', engine='E4 direct-drive concurrency harness (real termdet "local" module, threads)',
    technique='runtime monitoring: online oracle inside the termination callback and in an observer thread against a shadow '
              'counter of unannounced work, exactly-once callback counter, quiescence check for liveness; injected delays at the '
              'module\'s atomic steps; ASan+UBSan with assertions on',
    text='1..16 worker threads perform legal histories on a taskpool monitored by the local detector: task and action units are '
         'added only by threads that hold a unit, completed by any thread once published, counters cross zero many times, '
         'ready is issued once by main (before / after everything) or by a worker right around its own last release, '
         'set_nb_tasks/set_runtime_actions are mixed in where they are legal. The callback must run exactly once, with both '
         'counters zero, ready invoked and no unannounced work; the observer must never read TERMINATED earlier; once every '
         'call has returned the taskpool must be TERMINATED. Held on the histories observed; interleavings are sampled.',
    note='Trusts the harness discipline (adds only under a held unit; completion only after the add returned) and the shadow '
         'rule "increment before the adding call, decrement before the completing call"; the harness keeps its own references '
         'on the taskpool so the retain-after-CAS window in taskpool_ready cannot free it.')

RULE = ('one case = one history (one taskpool from monitor to unmonitor) driven by W workers + observer; judged: callback count, '
        'values seen inside the callback, observer samples, TERMINATED at quiescence. non-trivial = module calls of different '
        'threads overlapped in stamp time; distinct = distinct sequences (by invocation stamp) of (thread, operation, value, '
        'which call ran the callback).')

FLOORS = (200, 50)


def prebuild(ctx):
    for f in ('asan', 'rel'):
        ctx.harness('c10_termdet', f)


def run(ctx):
    thorough = ctx.tier == 'thorough'
    ctx.rule = RULE
    ctx.assumptions = ['legal client discipline: nb_tasks / nb_pending_actions are only raised by a thread that holds a unit of work (or single-threaded before the round)',
                       'a unit is completed only after the call that added it has returned',
                       'taskpool_ready is called exactly once per history',
                       'set_nb_tasks mid-run only by the single thread using nb_tasks in that history; set_runtime_actions only in the single-threaded set-up']
    #        workers, yield permille, yield us, tight permille, rounds(quick), flavour
    plan = [(2, 300, 0, 600, 350, 'asan'), (3, 200, 20, 400, 300, 'rel'), (4, 300, 0, 500, 350, 'asan'), (8, 200, 0, 500, 300, 'rel'),
            (8, 400, 0, 700, 250, 'asan'), (16, 100, 0, 500, 150, 'rel'), (1, 0, 0, 300, 150, 'asan'), (4, 0, 0, 500, 300, 'rel'),
            (6, 500, 10, 800, 200, 'rel')]
    mult = 50 if thorough else 1
    jobs = []
    for i, (w, y, yus, tight, rounds, fl) in enumerate(plan):
        exe = ctx.harness('c10_termdet', fl)
        jobs.append((i, fl, w, [exe, '--workers', w, '--rounds', rounds * mult, '--yield', y, '--yield-us', yus, '--tight', tight, '--seed', ctx.seed * 100 + i]))

    def one(j):
        i, fl, w, cmd = j
        cmd = [str(c) for c in cmd]
        what = '%s %s' % (fl, ' '.join(cmd[1:]))
        r, st = ctx.run_with_stall_rule(lambda: ctx.run(cmd, timeout=7200 if thorough else 900, stall_s=300, tag='t%d' % i), what)
        return j, r, st

    res = ctx.pmap(one, jobs, jobs=3)
    for (i, fl, w, cmd), r, st in res:
        if st == 'stalled':
            ctx.inconclusive_case('stalled: ' + ' '.join(str(c) for c in cmd[1:]))
            continue
        s = r.summary()
        if not s:
            continue
        ctx.evaluations += s['histories']
        ctx.nontrivial_extra += s['distinct_overlapped']
        for k in ('overlapped', 'ops', 'cb_in_ready', 'cb_in_addto_nb_tasks', 'cb_in_addto_runtime_actions', 'cb_in_set_nb_tasks',
                  'cb_in_set_runtime_actions', 'ready_by_main_first', 'ready_by_main_last', 'ready_by_worker', 'private_set_rounds',
                  'tight_rounds', 'nb_tasks_zero_crossings', 'observer_polls', 'observer_not_ready', 'observer_busy', 'observer_terminated', 'yield_hits'):
            ctx.add_cov(k, s[k])
        ctx.max_cov('max_workers', s['workers'])
        for h in r.of('history')[:1]:
            ctx.sample({'flavour': fl, 'workers': h['workers'], 'history': h['ops'][:900]})
    ctx.cov['flavours'] = ['asan', 'rel']
