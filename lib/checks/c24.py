"""C24 — the PTG compiler accepts only programs it can compile (grammar-based generator, one ptgpp process per input)."""
import os, sys, re, hashlib

sys.path.insert(0, os.path.join(os.path.dirname(os.path.dirname(os.path.dirname(os.path.abspath(__file__)))), 'harness'))
import c24_jdfgen
import vfbuild

META = dict(
    level='exploration', engine='E7 grammar-based JDF generator (harness/c24_jdfgen.py), one parsec-ptgpp process per input, C compiler as second oracle',
    technique='runtime monitoring of the compiler: exit status, diagnostics, output files and sanitizer logs of the ASan/UBSan build of parsec-ptgpp on generated valid, limit-probing and mutated JDF inputs; every accepted output is compiled with the C compiler against the build headers; every input is compiled twice for byte-identical output',
    text='Structurally valid programs (1..5 task classes, 1..3 parameters, ranges with steps, dependent ranges, local definitions, local-index ranges, inline C expressions, RW/READ/WRITE/CTL flows, guarded / ternary / broadcast / gather dependencies, NEW/NULL, priorities, properties), limit probes at limit-1..limit+2 for flows (READ, WRITE, mixed), input and output dependencies and locals, 18 structural mutants (deleted / duplicated / one-sided dependencies, mismatched flow or class names, wrong arity, unbound names, READ without input, duplicated parameters / globals / classes / flows, changed flow kinds, ...) and text mutants outside the opaque C regions (truncation, token deletion / duplication / replacement, junk, huge tokens, swapped lines) are fed to ptgpp in its default mode and in the strict mode (--Werror). Oracle: non-zero exit => a diagnostic and no crash; zero exit => the output compiles; over-limit => rejected; two runs => identical bytes; no sanitizer report. Held on the inputs generated.',
    note='The generator is not an oracle: only the exact counts of the limit probes are trusted. Compile errors located in the user C regions of the .jdf (bodies, inline C; reported through #line) are not attributed to the compiler and discard the case. Semantic correctness of accepted programs is out of scope (C01/C02).',
    design_ref='DESIGN.md §4 C24, §3 E7, §6.12')

RULE = ('one case = one generated input x one compiler mode (default | strict) judged by exit status, diagnostics, sanitizer logs, C compilation of the output and a second run; '
        'non-trivial = the input reached the parser past the prologue (>= 1 task class in the source text); distinct = distinct hashes of (input text, mode); '
        'accepted and rejected inputs are counted separately and both must be non-zero')

FLOORS = (60, 40)
FATAL_RE = re.compile(r'Fatal Error on |has too many \(')


def cc_class(msg):
    m = re.search(r'error: (.*)', msg)
    t = (m.group(1) if m else msg).strip()
    t = re.sub(r'[‘\'`"][^’\'`"]*[’\'`"]', 'X', t); t = re.sub(r'\d+', 'N', t)
    t = re.sub(r'[^A-Za-z#N X]+', ' ', t).lower().split()
    return '-'.join(t[:6]) or 'unknown'


def input_feature(text):
    """A feature of the *input* that names the defect class better than the first C error does (keeps keys stable):
    a dependency or partitioning that refers to memory through a name that is not a declared global."""
    body = text.split('%}', 1)[-1]
    for a, b in sorted(c24_jdfgen.Gen.opaque_spans(body), reverse=True):
        if not re.match(r'[A-Za-z_]\w*[ \t]+\[', body[a:b]):          # keep the global declarations, drop C regions and comments
            body = body[:a] + ' ' + body[b:]
    globals_ = set(re.findall(r'(?m)^([A-Za-z_]\w*)[ \t]+\[', body))
    refs = set(re.findall(r'(?:<-|->|\?|:)\s*(?:\[[^\]]*\]\s*)?([A-Za-z_]\w*)\s*\(', body))
    if refs - globals_ - {'NEW', 'NULL'}:
        return 'reference-to-undeclared-collection'
    return None


def asan_key(block):
    """same shape as vfcore.san_key, but frames are recognised by the compiler's directory (works for scratch copies of the repo too)"""
    m = re.search(r'ERROR: AddressSanitizer: (\S+)', block)
    fr = [f for f, loc in re.findall(r'#\d+\s+0x[0-9a-f]+\s+in\s+(\S+)\s+(\S+)', block) if '/ptg-compiler/' in loc and not f.startswith('__')]
    return 'asan:%s:%s' % (m.group(1) if m else 'unknown', '<'.join(fr[:2]) or '?')


def build_ptgpp_asan(ctx):
    """The build tree's parsec-ptgpp is a host tool and is NOT compiled with the sanitizer options of the asan flavour (those
    are applied to libparsec only), so oracle (e) needs its own instrumented compiler: the same five translation units
    (main.c comes in through parsec.l), the same defines and include path, plus -fsanitize=address,undefined."""
    import subprocess, vfcore
    b = ctx.build('asan')
    src = os.path.join(vfbuild.REPO, 'parsec/interfaces/ptg/ptg-compiler'); gen = os.path.join(b, 'parsec/interfaces/ptg/ptg-compiler')
    files = [os.path.join(src, f) for f in ('jdf.c', 'jdf2c.c', 'jdf_unparse.c')] + [os.path.join(gen, f) for f in ('parsec.y.c', 'parsec.l.c')]
    deps = files + [os.path.join(src, f) for f in os.listdir(src) if f.endswith(('.h', '.c'))] + [os.path.join(b, 'parsec/libparsec-base.a'), os.path.join(gen, 'parsec.y.h')]
    out = os.path.join(b, 'harness', 'c24_ptgpp_asan'); os.makedirs(os.path.dirname(out), exist_ok=True)
    newest = max(os.path.getmtime(f) for f in deps if os.path.exists(f))
    if os.path.exists(out) and os.path.getmtime(out) >= newest:
        return out
    cmd = ['gcc', '-std=gnu11', '-O1', '-g', '-w', '-fno-omit-frame-pointer', '-fsanitize=address', '-fsanitize=undefined', '-mcx16', '-DBUILDING_PARSEC', '-D_GNU_SOURCE', '-D' + vfbuild.GUARD,
           '-I' + src, '-I' + os.path.join(b, 'parsec/include'), '-I' + b, '-I' + os.path.join(vfbuild.REPO, 'parsec/include'), '-I' + vfbuild.REPO, '-I' + gen] + files + \
          [os.path.join(b, 'parsec/libparsec-base.a'), '-lm', '-o', out + '.tmp%d' % os.getpid()]
    p = subprocess.run(cmd, stdout=subprocess.PIPE, stderr=subprocess.STDOUT, text=True)
    if p.returncode != 0:
        raise vfcore.HarnessError('cannot build the instrumented parsec-ptgpp: %s\n%s' % (' '.join(cmd), p.stdout[-3000:]))
    os.replace(out + '.tmp%d' % os.getpid(), out)
    return out


def run(ctx):
    thorough = ctx.tier == 'thorough'
    ctx.rule = RULE
    ctx.assumptions = ['limits of this build: MAX_PARAM_COUNT=20 (flows of a task class), MAX_DEP_IN_COUNT=10, MAX_DEP_OUT_COUNT=10, MAX_LOCAL_COUNT=20 (checked against the build header)',
                       'the C compiler (mpicc -c -O0 against the build headers) decides "compiles"; errors located in .jdf lines (user C code) are not attributed to ptgpp',
                       'text mutations never touch prologue/epilogue, inline C, bodies or comments',
                       'strict mode = --Werror --Wmasked --Wmutexin --Wremoteref; default mode = no warning option',
                       'parsec-ptgpp is rebuilt by this check with -fsanitize=address,undefined (the asan flavour does not instrument the host tool); ASan fatal, UBSan logged through the reviewed suppression list']
    ptgpp = build_ptgpp_asan(ctx)
    inc = [f for f in vfbuild.inc_flags('asan') if not f.startswith('-D')]
    # the limits the generator assumes must be those of the build
    opt = open(os.path.join(vfbuild.bdir('asan'), 'parsec/include/parsec/parsec_options.h')).read()
    for k, v in c24_jdfgen.LIMITS.items():
        m = re.search(r'#define\s+%s\s+(\d+)' % k, opt)
        if not m or int(m.group(1)) != v:
            import vfcore
            raise vfcore.HarnessError('generator limit %s=%d differs from the build (%s)' % (k, v, m.group(1) if m else 'undefined'))
    n = int(os.environ.get('VF_C24_N', 1500 if thorough else 100))      # VF_C24_N: scratch trials only
    cases = []
    for i in range(n):
        seed = ctx.seed * 100003 + i
        c = c24_jdfgen.Gen(seed).case()
        c['seed'] = seed; c['id'] = 'i%05d' % i
        # default mode for every input; strict mode in addition for every other input
        c['modes'] = ['default', 'strict'] if i % 2 == 0 else ['default']
        if i % 7 == 3: c['modes'] = ['strict']
        c['extra'] = [[], ['-M', 'index-array'], ['-D'], []][i % 4]
        cases.append(c)

    def judge(c):
        out = []
        for mode in c['modes']:
            d = os.path.join(ctx.work, c['id'] + '-' + mode); os.makedirs(os.path.join(d, 'a'), exist_ok=True); os.makedirs(os.path.join(d, 'b'), exist_ok=True)
            for sub in ('a', 'b'):
                with open(os.path.join(d, sub, 'x.jdf'), 'w', encoding='latin-1') as f: f.write(c['text'])
            flags = ['--line'] + c['extra'] + (['--Werror', '--Wmasked', '--Wmutexin', '--Wremoteref'] if mode == 'strict' else [])
            cmd = [ptgpp] + flags + ['-E', '-i', 'x.jdf', '-o', 'x']
            r = ctx.run(cmd, timeout=300, tag=c['id'] + '-' + mode + '-a', cwd=os.path.join(d, 'a'))
            if r.timed_out:
                r = ctx.run(cmd, timeout=600, tag=c['id'] + '-' + mode + '-a2', cwd=os.path.join(d, 'a'))
            res = dict(mode=mode, r=r, dir=d, cc=None, r2=None, same=None)
            if not r.timed_out and r.rc == 0 and not any('AddressSanitizer' in x for x in r.san):
                r2 = ctx.run(cmd, timeout=600, tag=c['id'] + '-' + mode + '-b', cwd=os.path.join(d, 'b'))
                res['r2'] = r2
                same = True
                for fn in ('x.c', 'x.h'):
                    pa, pb = os.path.join(d, 'a', fn), os.path.join(d, 'b', fn)
                    if not (os.path.exists(pa) and os.path.exists(pb)) or open(pa, 'rb').read() != open(pb, 'rb').read(): same = False
                res['same'] = same
                if os.path.exists(os.path.join(d, 'a', 'x.c')):
                    res['cc'] = ctx.run(['mpicc', '-c', '-O0', '-w', '-std=gnu11'] + inc + ['x.c', '-o', 'x.o'], timeout=900, tag=c['id'] + '-' + mode + '-cc', cwd=os.path.join(d, 'a'), san=False)
            out.append(res)
        return c, out

    results = ctx.pmap(judge, cases, jobs=10)
    acc = rej = 0
    for c, outs in results:
        for res in outs:
            r = res['r']; mode = res['mode']
            what = 'input %s (%s; %s) mode=%s%s' % (c['id'], c['kind'], '; '.join(c['notes'])[:160] or 'valid program', mode, (' ' + ' '.join(c['extra'])) if c['extra'] else '')
            files = {'input.jdf': c['text'], 'generator.txt': 'seed=%d kind=%s notes=%s over_limit=%s' % (c['seed'], c['kind'], c['notes'], c['over_limit'])}
            diag = (r.stdout or '') + (r.stderr or '')
            fatal_diag = bool(FATAL_RE.search(diag))
            pre = 'after-fatal-diagnostic:' if fatal_diag else ''
            ident = hashlib.sha1((c['text'] + '|' + mode + '|' + ' '.join(c['extra'])).encode('latin-1', 'replace')).hexdigest()[:16]
            nontrivial = bool(re.search(r'(?m)^[A-Za-z_]\w*\s*\(', c['text'].split('%}', 1)[-1]))
            ctx.add_cov('kind_' + c['kind']); ctx.add_cov('mode_' + mode)
            if r.timed_out:
                ctx.violation('hang', '%s: the compiler did not finish twice (600 s)' % what, r, files); ctx.note_case(ident, nontrivial); continue
            # (e) sanitizer reports and crashes of the compiler itself
            import vfcore
            asan_blocks = [x for x in r.san if 'AddressSanitizer' in x]
            for u in ([] if asan_blocks else [x for x in r.san if x not in asan_blocks]):     # before a fatal ASan report the UBSan lines describe the same event
                # UBSan is in recover mode: the report is a violation of (e) on its own, the run is judged further below
                ctx.violation(pre + vfcore.san_key(u), '%s: undefined behaviour inside the compiler: %s' % (what, u.strip().splitlines()[0][:220]), r, files)
                ctx.add_cov('ubsan_reports')
            if asan_blocks or r.signal is not None:
                if asan_blocks:
                    key = asan_key(asan_blocks[0]); head = [l for l in asan_blocks[0].strip().splitlines() if 'ERROR' in l][:1]
                    head = (head[0] if head else asan_blocks[0].strip().splitlines()[0])[:200]
                else:
                    key = vfcore.assert_key(diag) or 'signal:%s' % r.signal; head = vfcore._grep(diag, 'Assertion') or 'signal %s' % r.signal
                if 'ABRT' in key and vfcore.assert_key(diag): key = vfcore.assert_key(diag)
                ctx.violation('after-fatal-diagnostic:crash' if fatal_diag else 'crash:' + key, '%s: the compiler crashed: %s' % (what, head), r, files)
                ctx.note_case(ident, nontrivial); ctx.add_cov('compiler_crashes'); continue
            if r.rc != 0:
                rej += 1; ctx.add_cov('rejected_' + mode)
                # (a) a rejection carries a diagnostic
                if not diag.strip():
                    ctx.violation('rejected-without-diagnostic', '%s: exit status %s and no message' % (what, r.rc), r, files)
                if c['kind'] in ('valid', 'odd'): ctx.add_cov('valid_programs_rejected_' + mode)
                ctx.note_case(ident, nontrivial); continue
            # ---- accepted
            acc += 1; ctx.add_cov('accepted_' + mode)
            if c['kind'] in ('valid', 'odd'): ctx.add_cov('valid_programs_accepted_' + mode)
            cc = res['cc']
            if cc is None:
                ctx.violation(pre + 'accepted:no-output-file', '%s: exit status 0 but no x.c was written' % what, r, files); ctx.note_case(ident, nontrivial); continue
            # (c) limits
            if c['over_limit']:
                lim, have, mx = c['over_limit']
                ctx.violation(pre + 'accepted:over-limit:%s' % lim, '%s: %d > %s = %d but the compiler exits with 0%s' % (what, have, lim, mx, ' (after printing its own limit diagnostic)' if fatal_diag else ' without any diagnostic'), r, files)
            # (b) the output compiles
            if cc.rc != 0:
                errs = [l for l in (cc.stderr or '').splitlines() if ' error: ' in l or 'fatal error:' in l]
                in_user_code = [l for l in errs if re.match(r'[^:]*\.jdf:\d+', l)]
                if errs and len(in_user_code) == len(errs):
                    ctx.add_cov('discarded_error_in_user_code'); ctx.inconclusive_case('compile error inside user C code: ' + what[:120]); continue
                gen_errs = [l for l in errs if l not in in_user_code] or errs or [(cc.stderr or '')[-200:]]
                if not c['over_limit'] or not gen_errs[0].count('#error'):
                    ctx.violation(pre + 'accepted:output-does-not-compile' + ('' if fatal_diag else ':' + (input_feature(c['text']) or cc_class(gen_errs[0]))),
                                  '%s: exit status 0 but the C compiler rejects the output: %s%s' % (what, gen_errs[0][:240], (' | compiler diagnostics before: ' + ' / '.join(l for l in diag.splitlines() if 'Fatal' in l or 'too many' in l)[:200]) if fatal_diag else ''),
                                  r, dict(files, **{'cc_errors.txt': '\n'.join((cc.stderr or '').splitlines()[:60])}))
                ctx.add_cov('accepted_but_not_compilable')
            else:
                ctx.add_cov('accepted_and_compiled')
            # (d) determinism
            if res['same'] is False:
                ctx.violation('nondeterministic-output', '%s: two runs on the same input produced different x.c / x.h' % what, r, files)
            elif res['same']:
                ctx.add_cov('double_runs_identical')
            ctx.note_case(ident, nontrivial)
            if cc.rc == 0 and len(ctx.samples) < 5 and c['kind'] in ('valid', 'odd', 'limit')[:1 + len(ctx.samples) % 3]:
                ctx.sample({'kind': c['kind'], 'mode': mode, 'flags': c['extra'], 'classes': c['classes'], 'flows': c['flows'], 'dependencies': c['deps'],
                            'jdf_head': c['text'].split('%}', 1)[-1].strip()[:700]})
    ctx.cov['accepted'] = acc; ctx.cov['rejected'] = rej
    va, vr = ctx.cov.get('valid_programs_accepted_default', 0), ctx.cov.get('valid_programs_rejected_default', 0)
    if not ctx.violations:
        import vfcore
        if acc == 0 or rej == 0:
            raise vfcore.HarnessError('accepted=%d rejected=%d: both must be non-zero' % (acc, rej))
        if va < 0.3 * max(1, va + vr):
            raise vfcore.HarnessError('generator too weak: only %d of %d intended-valid programs accepted in default mode' % (va, va + vr))


def prebuild(ctx):
    build_ptgpp_asan(ctx)
