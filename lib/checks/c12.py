"""C12 — user-triggered termination reaches every process exactly once (E5: simulated ranks around the real
mca/termdet/user_trigger module) + real-MPI runs of generated user-triggered PTG programs (E1 `utt` profile)."""
import os, array, random

META = dict(
    level='exploration', engine='E5 simulated ranks around the real user_trigger module',
    technique='runtime monitoring: the (sender, receiver) pairs produced by the real parsec_termdet_signal_termination through an '
              'interposed send_am are recorded for every communicator size N<=64 (thorough: N<=512) with every root and for sampled '
              'N up to 4096, notifications delivered in random order incl. late-ready/unregistered ranks and ranks holding pending '
              'actions; receivers and callbacks compared with the exactly-once oracle; ASan+UBSan',
    text='For each (N, root) executed, the receivers of the termination notification were exactly all other ranks, each once, all '
         'destinations in range, and every rank ran its termination callback once. Exhaustive for the stated box of N and roots; '
         'N above the box is sampled (16 roots each), not all of 1..4096.',
    note='Trusts the harness bookkeeping of deliveries; ranks are simulated in one process (tp_id translated per destination); '
         'the MPI transport itself is not exercised here.',
    design_ref='DESIGN.md §3 E5, §4 C12')

RULE = ('one evaluation = one broadcast for a (communicator size N, triggering rank, delivery order/late-rank pattern); non-trivial = at '
        'least one notification forwarded by a non-root rank (N >= 4); distinct = distinct hashes of (N, root, delivery/ready/release order)')
FLOORS = (2000, 500)


def prebuild(ctx):
    for f in ('asan', 'rel'):
        ctx.harness('c12_usertrigger', f)


def run(ctx):
    thorough = ctx.tier == 'thorough'
    ctx.rule = RULE
    ctx.assumptions = ['exactly one rank calls set_nb_tasks(0) (the module\'s contract); every rank is monitored before any message can reach it',
                       'a notification reaching an already notified rank or the root fails the case at once and is not dispatched',
                       'pending actions other than "the tasks" are released only after the rank is ready']
    exe = {f: ctx.harness('c12_usertrigger', f) for f in ('asan', 'rel')}
    S = ctx.seed * 7919
    jobs = []   # (flavour, args)
    if thorough:
        for lo, hi in ((1, 224), (225, 282), (283, 323), (324, 355), (356, 383), (384, 407), (408, 428), (429, 448), (449, 466), (467, 482), (483, 498), (499, 512)):
            jobs.append(('rel', ['--nlo', lo, '--nhi', hi, '--reps', 1, '--seed', S + lo]))
        jobs.append(('rel', ['--nlo', 1, '--nhi', 64, '--reps', 4, '--seed', S + 3]))
        jobs.append(('asan', ['--nlo', 1, '--nhi', 96, '--reps', 1, '--seed', S + 5]))
        for i in range(16):
            jobs.append(('rel', ['--sampled', 250, '--roots', 16, '--seed', S + 100 + i]))
        for i in range(2):
            jobs.append(('asan', ['--sampled', 60, '--roots', 16, '--seed', S + 200 + i]))
        box = 512
    else:
        jobs.append(('rel', ['--nlo', 1, '--nhi', 64, '--reps', 2, '--seed', S + 1]))
        jobs.append(('asan', ['--nlo', 1, '--nhi', 64, '--reps', 1, '--seed', S + 2]))
        for i in range(2):
            jobs.append(('rel', ['--sampled', 24, '--roots', 16, '--seed', S + 100 + i]))
        jobs.append(('asan', ['--sampled', 12, '--roots', 16, '--seed', S + 200]))
        box = 64

    def one(ja):
        i, (flavour, args) = ja
        hf = os.path.join(ctx.work, 'hashes.%d' % i)
        r = ctx.run([exe[flavour]] + [str(a) for a in args] + ['--hashfile', hf], timeout=7200 if thorough else 900, stall_s=180, tag='ut-%d' % i)
        return flavour, args, hf, r

    hashes = set()
    for flavour, args, hf, r in ctx.pmap(one, list(enumerate(jobs)), jobs=6):
        what = 'user_trigger simulation %s %s' % (flavour, ' '.join(str(a) for a in args))
        st = ctx.absorb(r, what)
        if st == 'stalled':
            ctx.inconclusive_case('stalled: ' + what)
            continue
        s = r.summary()
        if not s:
            continue
        ctx.evaluations += s['cases']
        if os.path.exists(hf):
            a = array.array('Q')
            with open(hf, 'rb') as f:
                a.frombytes(f.read())
            hashes.update(a)
        for k in ('exhaustive_cases', 'sampled_cases', 'notifications', 'forwarded_by_non_root', 'delayed_not_ready', 'delayed_unregistered',
                  'deferred_by_pending_actions', 'extra_pending_actions', 'cases_N_le_64', 'cases_N_gt_64'):
            ctx.add_cov(k, s[k])
        ctx.max_cov('max_N', s['maxN'])
        for smp in r.of('sample'):
            ctx.sample(smp)
    ctx.distinct.update(hashes)
    mpi_part(ctx, thorough)
    ctx.cov['exhaustive_box'] = 'every N in 1..%d with every root' % box
    ctx.cov['sampled'] = 'N uniform in 65..4096 plus powers of two +-1, roots 0, N-1 and 14 random'
    ctx.cov['flavours'] = ['asan', 'rel']


def mpi_part(ctx, thorough):
    """real MPI: generated reduction trees compiled with `%option termdet = "user-triggered"`; a CTL-only END task on the rank
    that owns its placement key calls taskpool_set_nb_tasks(0); every rank must run all its instances once and terminate
    (completion callback once per rank, parsec_context_wait returns on every rank: stall rule otherwise)."""
    import e1suite, e1run, e1gen, e1
    S = e1suite.Suite(ctx, {'once', 'values', 'final'}, profile='utt')
    nprog = 40 if thorough else 4
    ranks = [1, 2, 3, 4, 5, 8] if thorough else [2, 3, 4]

    def post(res, refs, recs, finals, marks, r, cfg, feat, files, what):
        for rk in range(cfg.ranks):
            n = sum(1 for m in marks if m[0] == rk and m[1] == 2)
            if n != 1:
                ctx.violation('mpi:callback-count', 'rank %d ran the termination callback %d times — %s' % (rk, n, what), r, files); res['status'] = 'violation'; return
        ctx.add_cov('mpi_runs_judged'); ctx.max_cov('mpi_max_ranks', cfg.ranks)
    S.post = post

    def one(i):
        seed = ctx.seed * 100000 + 97000 + i
        rnd = random.Random(seed)

        def cfgs(vi, r2):
            return [e1run.Cfg(sched=r2.choice(['lfq', 'ap', 'll']), cores=r2.choice([1, 2]), ranks=r2.choice(ranks), place='rand', pseed=r2.randint(1, 10 ** 6),
                              seed=ctx.seed, mca={'runtime_comm_coll_bcast': 0}) for _ in range(6 if thorough else 3)]
        return S.do_program(i, seed, [(rnd.choice(['asan', 'rel']), ())], cfgs, gen_kw=dict(min_tasks=2))
    for rs in ctx.pmap(one, range(nprog), jobs=3):
        for res in rs:
            if res['status'] in ('ok', 'violation', 'known'):
                ctx.evaluations += 1
                if res['status'] == 'ok': ctx.distinct.add('mpi/%d/%s' % (res['seed'], res['cfg'].ident()))
    for k, v in S.stats.items(): ctx.cov['mpi_' + k] = v
