"""C22 — matrix operators visit each tile once (parsec_apply, parsec_map_operator); row/column reductions."""
import re

META = dict(
    level='exploration', engine='MPI harness driving the real parsec_apply / parsec_map_operator_New / parsec_reduce_{row,col}_New with a recording operator',
    technique='runtime monitoring: the test-owned operator logs every invocation (tile coordinates, tile pointers, thread) in per-tile atomic counters and increments a counter stored inside the tile; after each run every rank compares the log with the set of tiles of the requested region it owns (exactly once, right pointer, nothing else, nothing on a non-owner) and the ranks add up their visits; reductions are judged by operator invocations and by an injective encoding of the sequential fold; stalls by the stalled-twice rule; ASan+UBSan in the verdict build, same monitor on the production build',
    text='Random shapes (1..25 x 1..25 tiles, partial last tiles), uplo full/upper/lower, 2D block-cyclic, k-cyclic and symmetric distributions with grid offsets, on 1..4 MPI ranks with 1..8 threads: parsec_apply must hand every tile of the region exactly once to the operator on its owner with the pointer of that tile; parsec_map_operator the same for the whole source (with and without a destination collection). Held on the cases explored. The row/column reduction taskpools and the map operator on a rank that owns no tile are recorded findings (probed in every run).',
    note='Trusts the harness bookkeeping (owner table from rank_of, tile pointers from data_of before the run) and MPI_Allreduce. Schedules are sampled (thread counts, ranks), not enumerated. nb_vp is 1.',
    design_ref='DESIGN.md §4 C22')

RULE = ('one case = one operator run (apply or map) on one generated matrix shape/distribution/uplo on one (ranks, threads) configuration, judged on every rank; '
        'non-trivial = region of >= 6 tiles on a grid of >= 2x2 tiles; distinct = distinct (operator, uplo, distribution, shape, tile sizes, grid, offsets, ranks, threads) tuples; '
        'reduction and empty-rank probes are counted as evaluations but never as non-trivial')

FLOORS = (30, 15)

QUICK = [('asan', 1, 1, 8), ('asan', 1, 4, 8), ('asan', 1, 8, 8), ('asan', 2, 2, 8), ('asan', 3, 2, 8), ('asan', 4, 2, 8), ('rel', 3, 4, 12)]
THOROUGH = [('asan', 1, 1, 100), ('asan', 1, 2, 100), ('asan', 1, 4, 100), ('asan', 1, 8, 80), ('asan', 2, 1, 80), ('asan', 2, 2, 80), ('asan', 2, 4, 60),
            ('asan', 3, 1, 60), ('asan', 3, 2, 60), ('asan', 4, 1, 50), ('asan', 4, 2, 50), ('asan', 4, 3, 40),
            ('rel', 1, 8, 150), ('rel', 1, 3, 120), ('rel', 2, 4, 120), ('rel', 3, 3, 100), ('rel', 4, 2, 100), ('rel', 4, 4, 80)]
COV = ('region_tiles', 'visits', 'multi_thread_cases', 'multi_owner_cases', 'apply', 'map', 'reduce_row', 'reduce_col', 'uplo_full', 'uplo_upper', 'uplo_lower',
       'apply_uplo_argument_unexpected')


def prebuild(ctx):
    for f in ('asan', 'rel'):
        ctx.harness('c22_ops', f)


def _last_at(r):
    k = None; d = ''
    for l in r.stderr.splitlines():
        m = re.match(r'VFAT (\d+) (.*)', l)
        if m:
            k = int(m.group(1)); d = m.group(2)
    return k, d


def _run(ctx, exe, ranks, threads, args, tag, stall_s=200, timeout=3600):
    return ctx.run([exe, '--threads', str(threads)] + [str(a) for a in args], timeout=timeout, stall_s=stall_s, mpi=ranks, tag=tag)


def _take(ctx, r, fl):
    s = r.summary()
    if not s:
        return 0
    ctx.evaluations += s['cases']
    ctx.nontrivial_extra += s['distinct_nontrivial']
    for k in COV:
        ctx.add_cov(k, s[k])
    ctx.add_cov('cases_%s_%dranks' % (fl, s['ranks']), s['cases'])
    ctx.max_cov('max_threads', s['threads'])
    for smp in r.of('sample')[:1]:
        smp = dict(smp); smp.pop('type', None); ctx.sample(smp)
    return s['cases']


def _bulk(ctx, exe, fl, ranks, threads, cases, seed, mode='ops'):
    """One (ranks, threads) configuration; restart behind a case that stalled twice or ended the process."""
    start = 0; guard = 0
    while start < cases and guard < 6:
        guard += 1
        tag = '%s-%s-%dx%d-%d' % (mode, fl, ranks, threads, start)
        r = _run(ctx, exe, ranks, threads, ['--mode', mode, '--cases', cases, '--start', start, '--seed', seed], tag)
        what = '%s %s ranks=%d threads=%d cases %d..%d seed %d' % (fl, mode, ranks, threads, start, cases, seed)
        st = ctx.absorb(r, what, expect_objs=False)
        if r.summary() is not None:
            _take(ctx, r, fl)
            return
        at, desc = _last_at(r)
        if at is None:
            ctx.harness_failures.append('%s: no case reached; stderr=%s' % (what, r.stderr[-300:]))
            return
        if st == 'stalled':
            # stall rule: the same case alone, once more
            r2 = _run(ctx, exe, ranks, threads, ['--mode', mode, '--cases', at + 1, '--start', at, '--seed', seed], tag + '-again')
            st2 = ctx.absorb(r2, what + ' (case %d alone)' % at, expect_objs=False)
            if st2 == 'stalled':
                op = (re.search(r'op=(\w+)', desc) or [None, 'op'])[1]
                ctx.violation('%s:stall:no-progress' % op, 'no progress twice on case: %s' % desc, r2)
            else:
                ctx.inconclusive_case('stalled once: ' + desc)
                _take(ctx, r2, fl)
        ctx.evaluations += max(0, at - start)
        ctx.add_cov('process_restarts', 1)
        start = at + 1


def _probe(ctx, exe, ranks, threads, mode, extra, key_on_stall, what):
    k = [0]

    def once():
        k[0] += 1
        return _run(ctx, exe, ranks, threads, ['--mode', mode, '--cases', 1, '--seed', ctx.seed] + extra, 'probe-%s-%d-%s-%d' % (mode, ranks, '_'.join(str(x).strip('-') for x in extra), k[0]), stall_s=150, timeout=900)
    r = once(); st = ctx.absorb(r, what, expect_objs=False)
    if st == 'stalled':
        r2 = once(); st2 = ctx.absorb(r2, what, expect_objs=False)
        if st2 == 'stalled':
            at, desc = _last_at(r2)
            ctx.violation(key_on_stall, '%s: no progress twice (%s)' % (what, desc), r2)
        else:
            ctx.inconclusive_case('stalled once: ' + what)
    ctx.evaluations += 1
    ctx.add_cov('probes', 1)


def run(ctx):
    thorough = ctx.tier == 'thorough'
    ctx.rule = RULE
    ctx.assumptions = ['the operator is the only observer: an invocation that the runtime makes is logged, a tile the runtime touches without calling the operator is not seen',
                       'every rank generates the same case list from the seed; owners come from the collection\'s own rank_of (C20 checks that function)',
                       'symmetric distributions are only driven with the matching uplo; tiles outside the stored triangle are never queried',
                       'the uplo argument handed to the operator (uplo on diagonal tiles, full elsewhere) is counted, not judged',
                       'a map taskpool that is created with no task but a pending action is reported from its state and not enqueued (it could never complete); nine bulk map cases of ten give every rank a source tile, a probe drives the empty-rank shape']
    exes = {f: ctx.harness('c22_ops', f) for f in ('asan', 'rel')}
    plan = THOROUGH if thorough else QUICK

    jobs = [('bulk',) + p for p in plan]
    # contention workload for the hand-written column hand-over of the map operator (short columns, many threads)
    jobs += [('race', 'asan', 1, 8, 10 if not thorough else 150), ('race', 'rel', 1, 8, 40 if not thorough else 1500), ('race', 'rel', 2, 6, 20 if not thorough else 600)]
    # probes for the recorded findings (one process each)
    jobs += [('probe', 2, 2, 'map_empty_rank', [], 'map:stall:rank-without-source-tiles', 'map operator, 1 source tile on 2 ranks'),
             ('probe', 1, 2, 'reduce_row', ['--mt', 1, '--nt', 1], 'reduce_row:stall:no-progress', 'reduce_row on 1x1 tiles'),
             ('probe', 1, 2, 'reduce_row', ['--mt', 2, '--nt', 2], 'reduce_row:stall:no-progress', 'reduce_row on 2x2 tiles'),
             ('probe', 1, 2, 'reduce_col', ['--mt', 1, '--nt', 1], 'reduce_col:stall:no-progress', 'reduce_col on 1x1 tiles')]
    if thorough:
        jobs += [('probe', 3, 1, 'map_empty_rank', [], 'map:stall:rank-without-source-tiles', 'map operator, 1 source tile on 3 ranks'),
                 ('probe', 2, 2, 'reduce_col', ['--mt', 3, '--nt', 2], 'reduce_col:stall:no-progress', 'reduce_col on 3x2 tiles, 2 ranks'),
                 ('probe', 2, 2, 'reduce_row', ['--mt', 4, '--nt', 1], 'reduce_row:stall:no-progress', 'reduce_row on 4x1 tiles, 2 ranks')]

    def one(j):
        if j[0] == 'bulk':
            _, fl, ranks, threads, n = j
            _bulk(ctx, exes[fl], fl, ranks, threads, n, ctx.seed * 100 + ranks * 10 + threads)
        elif j[0] == 'race':
            _, fl, ranks, threads, n = j
            _bulk(ctx, exes[fl], fl, ranks, threads, n, ctx.seed * 100 + 7, mode='map_race')
        else:
            _, ranks, threads, mode, extra, key, what = j
            _probe(ctx, exes['asan'], ranks, threads, mode, extra, key, what)
    ctx.pmap(one, jobs, jobs=4)
    ctx.cov['configurations'] = ['%s:%dranks x %dthreads' % (fl, r, t) for fl, r, t, n in plan]
