"""C08 — schedulers never lose or duplicate a ready task: direct schedule/select on the real execution streams created by
parsec_init, all 11 modules, 1..16 streams, rings of 1..64 tasks, distances, foreign producers on stream 0 and an emulated
communication thread; per-task state monitor + quiescent sweep at the end of every round."""
import re

MODULES = ['ap', 'gd', 'ip', 'lfq', 'lhq', 'll', 'llp', 'ltq', 'pbq', 'rnd', 'spq']

META = dict(
    level='exploration', engine='E4 direct-drive concurrency harness on adopted execution streams (all 11 sched modules)',
    technique='runtime monitoring: per-task in-scheduler state word (set before schedule, CAS on select) detecting duplicates '
              'online, conservation by a quiescent sweep of all streams at the end of every round, injected delays in hbbuffer/lifo; '
              'ASan+UBSan with assertions on',
    text='For each of the 11 scheduler modules, harness threads adopt the 1..16 execution streams that parsec_init created '
         '(flow_init done by the real start-up) and call the module\'s schedule/select the way the runtime does: own stream with '
         'distance 0..k, stream 0 as shared target from foreign threads, and a stream-less thread emulating the communication '
         'thread; rings of 1..64 tasks (sorted as the runtime builds them, and unsorted), priorities random / equal / increasing / '
         'many ties, bounded buffers overflowing into the system queue, ltq heaps splitting. No task may come out twice between two '
         'schedules, nothing that was not scheduled may come out, and after every round a sweep of all streams without concurrency '
         'must return every task still inside (bounded drain: at most (#left+1) x #streams selects). Held on the rounds observed.',
    note='Only one virtual process can be configured in this sandbox (vpmap rr:/file: crash, DESIGN 6.9), so the "same virtual '
         'process" clause is trivially true here and is not exercised. Tasks are fabricated (valid task_class, id in locals[0]) '
         'and live in a type-stable pool. ltq with >= 2 streams is run in the production flavour because of a recorded finding '
         '(heap freed under a concurrent pop_best); one small sanitizer run keeps the trigger.')

RULE = ('one case = one round of concurrent schedule/select on S streams followed by a concurrent drain and a quiescent sweep; '
        'judged: no task selected twice / never scheduled, every scheduled task retrieved. non-trivial = tasks were selected by a '
        'stream other than the one whose thread scheduled them (S>=2) or >= 3 structure-changing operations (S=1); distinct = '
        'distinct (module, streams, shape, round seed, per-stream selected counts).')

FLOORS = (100, 30)

#         streams, comm, prio, foreign, dist, unsorted, yield, maxring, flavour
SHAPES = [(1, 1, 0, 0, 150, 100, 0, 64, 'asan'),
          (2, 1, 3, 200, 150, 100, 200, 64, 'rel'),
          (4, 1, 0, 300, 150, 100, 100, 64, 'asan'),
          (8, 0, 1, 150, 300, 0, 0, 64, 'rel'),
          (16, 1, 2, 150, 100, 500, 50, 64, 'rel'),
          (3, 1, 0, 150, 500, 100, 300, 8, 'asan')]

LTQ_KEY = 'ltq:heap-use-after-free:pop_best-vs-heap_destroy'


def prebuild(ctx):
    for f in ('asan', 'rel'):
        ctx.harness('c08_sched', f)


def _ltq_known(ctx, r, what):
    """The recorded ltq defect gets its own stable key (frames differ between /repo and scratch copies)."""
    keep = []
    for s in r.san:
        if 'heap-use-after-free' in s and 'parsec_hbbuffer_pop_best' in s and 'heap_destroy' in s:
            ctx.violation(LTQ_KEY, '%s: AddressSanitizer heap-use-after-free: parsec_hbbuffer_pop_best reads the priority of a heap '
                          'that another stream emptied and freed (heap_destroy via heap_split_and_steal/heap_remove)' % what, r)
        else:
            keep.append(s)
    hit = len(keep) != len(r.san)
    r.san = keep
    return hit


def run(ctx):
    thorough = ctx.tier == 'thorough'
    ctx.rule = RULE
    ctx.assumptions = ['legal client behaviour: select only by the thread that adopted the stream; schedule on the own stream or on stream 0 of the vp',
                       'a single virtual process (the only configuration reachable here): the same-vp clause is trivially true',
                       'a NULL from select is conclusive only in the quiescent sweep (no concurrent call anywhere)',
                       'fabricated tasks: valid task_class, identity in locals[0]; priorities may be rewritten by the module (rnd)']
    import random
    rng = random.Random(ctx.seed * 104729 + 8)
    shapes = list(SHAPES)
    per_shape_tasks = 12000
    if thorough:
        per_shape_tasks = 100000
        for _ in range(34):
            shapes.append((rng.choice([1, 2, 3, 4, 5, 6, 8, 12, 16]), rng.choice([0, 1, 1]), rng.choice([0, 0, 1, 2, 3]), rng.choice([0, 100, 300, 600]),
                           rng.choice([0, 100, 300, 600]), rng.choice([0, 100, 500]), rng.choice([0, 50, 100, 300]), rng.choice([1, 4, 16, 64, 64]),
                           rng.choice(['asan', 'rel'])))
    jobs = []
    n = 0
    for mod in MODULES:
        for si, (S, comm, prio, foreign, dist, unsorted, y, maxring, fl) in enumerate(shapes):
            trigger = False
            if mod == 'ltq' and fl == 'asan' and S >= 2:
                # known finding: keep the two quick sanitizer shapes as low-weight triggers, everything else in the production flavour
                if si in (2, 5):
                    trigger = True
                else:
                    fl = 'rel'
            rounds = max(3, per_shape_tasks // (S * 550))
            if trigger:
                rounds = min(rounds, 9)
            exe = ctx.harness('c08_sched', fl)
            cmd = [exe, '--mode', 'conserve', '--sched', mod, '--streams', S, '--rounds', rounds, '--tasks-per-thread', 150, '--ops', 300,
                   '--comm', comm, '--prio', prio, '--foreign', foreign, '--dist', dist, '--unsorted', unsorted, '--yield', y, '--maxring', maxring,
                   '--seed', ctx.seed * 10000 + n]
            jobs.append((n, mod, fl, S, trigger, [str(c) for c in cmd]))
            n += 1

    def one(j):
        n, mod, fl, S, trigger, cmd = j
        what = '%s %s' % (fl, ' '.join(cmd[1:]))
        tmo = 7200 if thorough else 900
        r = ctx.run(cmd, timeout=tmo, stall_s=300, tag='s%d' % n)
        hit = _ltq_known(ctx, r, what) if mod == 'ltq' else False
        if hit:
            return j, r, 'known'
        st = ctx.absorb(r, what)
        if st == 'stalled':      # stall rule: once more with the same input
            r2 = ctx.run(cmd, timeout=tmo, stall_s=300, tag='s%dr' % n)
            if mod == 'ltq' and _ltq_known(ctx, r2, what):
                return j, r2, 'known'
            st2 = ctx.absorb(r2, what)
            if st2 == 'stalled':
                import vfcore
                ctx.violation('%s:%s' % (mod, vfcore.stall_key(r2.backtraces or r.backtraces)), '%s made no progress twice' % what, r2)
                return j, r2, 'violation'
            ctx.inconclusive_case('%s stalled once (not reproduced)' % what)
            return j, r2, st2
        return j, r, st

    heavy = [j for j in jobs if j[3] >= 8]
    light = [j for j in jobs if j[3] < 8]
    res = ctx.pmap(one, light, jobs=4) + ctx.pmap(one, heavy, jobs=2)
    mods = {}
    for (n, mod, fl, S, trigger, cmd), r, st in res:
        s = r.summary()
        if st == 'known':
            ctx.add_cov('ltq_sanitizer_trigger_runs_hit', 1)
        if not s:
            continue
        ctx.evaluations += s['rounds']
        ctx.nontrivial_extra += s['distinct_rounds']
        for k in ('schedule_calls', 'tasks_scheduled', 'tasks_selected', 'select_null', 'cross_stream_selects', 'foreign_schedules', 'comm_schedules',
                  'distance_schedules', 'select_distance_positive', 'left_after_concurrent_drain', 'sweep_selects', 'sweep_found', 'yield_hits'):
            ctx.add_cov(k, s[k])
        ctx.max_cov('max_ring', s['max_ring']); ctx.max_cov('max_streams', s['streams']); ctx.max_cov('max_select_distance', s['max_select_distance'])
        ctx.max_cov('virtual_processes', s['vps'])
        m = mods.setdefault(mod, {'rounds': 0, 'tasks': 0, 'streams': set()})
        m['rounds'] += s['rounds']; m['tasks'] += s['tasks_scheduled']; m['streams'].add(s['streams'])
        if len(ctx.samples) < 5 and s['streams'] >= 2 and mod in ('lfq', 'llp', 'ltq', 'pbq', 'spq') and not any(x.get('sched') == mod for x in ctx.samples):
            ctx.sample({k: s[k] for k in ('sched', 'streams', 'comm_thread', 'rounds', 'tasks_scheduled', 'tasks_selected', 'cross_stream_selects',
                                          'foreign_schedules', 'comm_schedules', 'distance_schedules', 'max_ring', 'left_after_concurrent_drain', 'sweep_found')})
    ctx.cov['per_module'] = {k: {'rounds': v['rounds'], 'tasks': v['tasks'], 'streams': sorted(v['streams'])} for k, v in sorted(mods.items())}
    ctx.cov['modules_observed'] = sorted(mods.keys())
    ctx.cov['same_vp_clause'] = 'trivially true: exactly one virtual process can be configured in this sandbox (vpmap rr:/file: crash)'
    ctx.cov['flavours'] = ['asan', 'rel']
    missing = [m for m in MODULES if m not in mods]
    if missing:
        ctx.harness_failures.append('no conclusive round for module(s): ' + ','.join(missing))
