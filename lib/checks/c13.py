"""C13 — collective activations reach each destination exactly once (E1 broadcast programs on MPI + activation events)."""
import random
import e1suite, e1run, e1gen, e1
import c05

META = dict(
    level='exploration', engine='E1 broadcast programs on MPI + ACT_SEND/ACT_RECV event hooks',
    technique='runtime monitoring: generated PTG producers with 1..3 outputs whose remote destination sets (equal, nested, disjoint, overlapping, random; realised through a test-owned placement table) differ, run on 2..8 MPI ranks under star/chain/binomial broadcast; hooked activation events (sender, receiver, root task, output mask) are checked offline: each destination gets each output bit at most once, exactly the destination ranks are reached, the forwarding pairs form a tree rooted at the producer, every send is matched by one receive; consumer bodies must read the reference value exactly once; ASan+UBSan',
    text='Every root rank, 1..3 output flows per producer with independently drawn destination sets, three topologies, 2..4 ranks in the quick tier and 2..8 in the thorough tier; the real send/relay path is exercised end to end. Held on the sampled set families.',
    note='The exhaustive enumeration of all set families named in the quantifier is an enumeration technique and is not attempted: the families are sampled. Trusts the event hooks (after pack / after unpack) and the reference interpreter.')

RULE = ('case = (broadcast program, placement table realising a destination-set family, topology, ranks); non-trivial = some producer has >= 2 outputs with '
        'different non-empty remote destination sets and >= 1 activation event was observed; distinct = distinct (program seed, table, configuration)')

FAMILIES = ['equal', 'nested', 'disjoint', 'overlap', 'random']


def build_table(prog, ranks, rnd, family):
    table = [0] * prog.nk
    desc = []
    for b in prog.bcast:
        for k in range(b['NP']):
            root = (k + rnd.randint(0, ranks - 1)) % ranks
            table[b['pkeys'] + k] = root
            allr = list(range(ranks)); rnd.shuffle(allr)
            base = allr[:rnd.randint(1, ranks)]
            sets = []
            for i, c in enumerate(b['consumers']):
                if family == 'equal': s = list(base)
                elif family == 'nested': s = base[:max(1, len(base) - i)]
                elif family == 'disjoint':
                    chunk = max(1, len(allr) // len(b['consumers'])); s = allr[i * chunk:(i + 1) * chunk] or [allr[-1]]
                elif family == 'overlap': s = allr[i:i + max(2, ranks // 2)] or [allr[0]]
                else: s = rnd.sample(allr, rnd.randint(1, ranks))
                sets.append(sorted(set(s)))
                for j in range(c['n']):
                    table[c['base'] + k * c['n'] + j] = s[j % len(s)]
            desc.append((root, sets))
    return table, desc


def oracle(S, res, refs, recs, finals, marks, r, cfg, feat, files, what):
    ctx = S.ctx
    ev = res.get('events', [])
    ref = refs[0]; table = r.table
    names = {c.name: c for c in ref.p.classes}
    cid2name = {}
    for e in ev:
        if e['cls'] != '?': cid2name[(e['tpid'], e['cid'])] = e['cls']
    sends = {}; recvs = {}
    for e in ev:
        nm = cid2name.get((e['tpid'], e['cid']))
        if nm not in names: continue
        tc = names[nm]
        t = (tc.cid, tuple(e['l'][:len(tc.pnames)]))
        if e['kind'] == 1: sends.setdefault(t, []).append((e['rank'], e['peer'], e['mask']))
        else: recvs.setdefault(t, []).append((e['peer'], e['rank'], e['mask']))   # (src, me, mask)

    def bad(key, text):
        ctx.violation('%s:bcast:%s' % (feat, key), text + ' — ' + what, r, files); res['status'] = 'violation'
    judged = 0
    for t in ref.inst:
        root = table[ref.placement(t)]
        dests = set()
        for (sf, d, df) in ref.succ.get(t, []):
            rk = table[ref.placement(d)]
            if rk != root: dests.add(rk)
        rv = recvs.get(t, []); sd = sends.get(t, [])
        if not dests:
            if rv or sd: return bad('unexpected-activation', 'task %s has no remote consumer but activations were sent/received: sends %s recvs %s' % (ref.name(t), sd[:3], rv[:3]))
            continue
        got = {}
        for (src, me, mask) in rv: got.setdefault(me, []).append((src, mask))
        for me, lst in got.items():
            if me not in dests: return bad('reached-non-destination', 'rank %d received an activation of %s (root rank %d) but hosts none of its consumers (destinations %s)' % (me, ref.name(t), root, sorted(dests)))
            seen = 0
            for (src, mask) in lst:
                if seen & mask: return bad('output-received-twice', 'rank %d received output bits %#x of %s twice (messages %s)' % (me, seen & mask, ref.name(t), lst))
                seen |= mask
        for d in dests:
            if d not in got: return bad('destination-not-reached', 'rank %d hosts consumers of %s (root rank %d) but recorded no activation (destinations %s, reached %s)' % (d, ref.name(t), root, sorted(dests), sorted(got)))
        # forwarding pairs: every receive has a matching send, parents form a tree rooted at root
        for (src, me, mask) in rv:
            if not any(s == src and p == me for (s, p, m) in sd): return bad('receive-without-send', 'rank %d received %s from rank %d which recorded no such send' % (me, ref.name(t), src))
        for (s, p, m) in sd:
            if not any(src == s and me == p for (src, me, mask) in rv): return bad('send-without-receive', 'rank %d sent an activation of %s to rank %d which never recorded it' % (s, ref.name(t), p))
        for me in got:
            seen = {me}; cur = me; ok = False
            for _ in range(len(table) + 2):
                par = got[cur][0][0]
                if par == root: ok = True; break
                if par in seen or par not in got: break
                seen.add(par); cur = par
            if not ok: return bad('forwarding-not-a-tree', 'following the senders from rank %d for %s does not reach the root rank %d (receives %s)' % (me, ref.name(t), root, rv))
        judged += 1
    res['bcasts_judged'] = judged
    ctx.add_cov('broadcasts_judged', judged); ctx.add_cov('activation_events', len(ev))


def run(ctx):
    thorough = ctx.tier == 'thorough'
    ctx.rule = RULE
    ctx.assumptions = ['one activation message per (task, destination rank) may carry several output bits; a relay rank is itself a destination',
                       'MPI per-pair FIFO', 'destination-set families are sampled, not enumerated']
    agg = e1suite.Suite(ctx, {'once', 'values'}, profile='bcast')
    nprog = 150 if thorough else 10
    rank_choices = [2, 3, 4, 5, 6, 8] if thorough else [3, 4]
    topo = {0: 'star', 1: 'chain', 2: 'binomial'}
    treeshapes = set()

    def one(i):
        seed = ctx.seed * 100000 + 85000 + i
        rnd = random.Random(seed)
        try:
            P, ref, disc = e1gen.generate(seed, 'bcast', name='b%d' % i, nk=512, min_tasks=4)
        except e1.ModelError as ex:
            ctx.inconclusive_case('generator: %s' % str(ex)[:150]); return []

        def cfgs(vi, r2):
            out = []
            for t in (0, 1, 2):
                for rep in range(2 if thorough else 1):
                    ranks = r2.choice(rank_choices); fam = r2.choice(FAMILIES)
                    table, desc = build_table(P, ranks, r2, fam)
                    mca = {'runtime_comm_coll_bcast': t}
                    if r2.random() < 0.3: mca['runtime_comm_short_limit'] = 0
                    c = e1run.Cfg(sched=r2.choice(['lfq', 'ap', 'gd', 'll']), cores=r2.choice([1, 2]), ranks=ranks, table=table, events=1, mca=mca, seed=ctx.seed,
                                  ts=r2.choice([1, 8, 600]), place='table:%s:%d' % (fam, r2.randint(0, 10 ** 6)))
                    c.family = fam
                    out.append(c)
            return out
        S2 = e1suite.Suite(ctx, agg.oracles, profile='bcast'); S2.nk = P.nk
        S2.feat_fn = c05.feat_fn
        S2.post = lambda res, refs_, recs, finals, marks, r, cfg, feat, files, what: oracle(S2, res, refs_, recs, finals, marks, r, cfg, feat, files, what)
        rs = S2.do_program(i, seed, [(rnd.choice(['asan', 'asan', 'rel']), ())], cfgs, progs=([P], [ref]))
        for k, v in S2.stats.items(): agg.stats[k] = agg.stats.get(k, 0) + v
        agg.scheds |= S2.scheds; agg.cores |= S2.cores; agg.ranks |= S2.ranks
        for r_ in rs:
            r_['diff'] = e1suite.differing_dest_sets(ref, r_['cfg'].table); r_['topo'] = topo[r_['cfg'].mca['runtime_comm_coll_bcast']]
        return rs

    for rs in ctx.pmap(one, range(nprog), jobs=3):
        for res in rs:
            if res['status'] in ('ok', 'violation', 'known'):
                ctx.evaluations += 1
                ctx.add_cov('runs_' + res['topo'])
                if res['diff']: ctx.add_cov('runs_with_differing_destination_sets')
                if res['status'] == 'ok' and res['diff'] and res.get('bcasts_judged', 0) > 0:
                    ctx.distinct.add('%d/%s' % (res['seed'], res['cfg'].ident()))
                if res['status'] == 'ok': ctx.sample({'ranks': res['cfg'].ranks, 'topology': res['topo'], 'family': res['cfg'].family, 'broadcasts': res.get('bcasts_judged', 0)}, cap=5)
    agg.finish_cov()
