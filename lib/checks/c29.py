"""C29 — futures complete once and deliver one value (base, countable, data-copy futures under racing threads)."""

import vfcore

META = dict(
    level='exploration', engine='E4 direct-drive concurrency harness with stamped per-future records',
    technique='runtime monitoring: every set/get/is_ready/get_or_trigger on real futures is recorded with logical stamps and judged at the '
              'quiescent point after each batch (one value for all readers, readiness only after the n-th set, callback/fulfilment/cleanup '
              'invocation counters per future and per requested shape), arrival gates + yield injection at the sites in parsec_future.c '
              'and parsec_datacopy_future.c, ASan+UBSan',
    text='Base futures with 1..3 racing setters, blocking getters and pollers; countable futures with the sets spread over several threads; '
         'data-copy futures requested by 1..16 threads with 1..4 shapes (test-owned match and nested set-up callbacks, fulfilment inside the '
         'trigger or deferred to the triggering thread), released afterwards so that cleanup callbacks are counted. Held on the futures and '
         'interleavings observed.',
    note='Trusts the stamp counter and the per-future records of the harness. Several setters on one base future are treated as legal '
         '(the code answers the losers with a warning). Data-copy futures are fulfilled exactly once by the harness, as the API demands.',
    design_ref='DESIGN.md 4/C29')

RULE = ('one case = one future with its set/get/poll/request operations by up to 16 threads; non-trivial = operations of different threads '
        'overlapped in stamp time; distinct = hash of roles, requested shapes, response order and who completed/triggered it')

FLOORS = (500, 100)


def _external_kill(r):
    """SIGKILL cannot come from the code under test (no OOM here): another job on the shared box killed the process."""
    return r.signal == 9 and not r.san and not r.of('violation') and not (r.stalled or r.timed_out)


def _retry_killed(ctx, runner):
    r = runner()
    if _external_kill(r):
        ctx.add_cov('rerun_after_external_sigkill', 1)
        r = runner()
        if _external_kill(r):          # twice: machinery trouble, never a verdict
            r.signal = None; r.rc = 2
    return r


def _exe(ctx, flavour):
    return ctx.harness('c29_future', flavour)


def prebuild(ctx):
    for f in ('asan', 'rel'):
        _exe(ctx, f)


def run(ctx):
    thorough = ctx.tier == 'thorough'
    ctx.rule = RULE
    ctx.assumptions = ['a losing set on a base future may return before the winner has published readiness (only the winner\'s return implies ready)',
                       'NULL from get_or_trigger means "not fulfilled yet": requesters retry',
                       'the data-copy future is set exactly once by the party that ran its trigger callback (API contract)',
                       'nested data-copy futures are destroyed through the parent (manual destructor call in parsec_datacopy_future_cleanup_nested)']
    seed = ctx.seed
    nf = 2000 if thorough else 600
    reps = 1
    ys = ((0, 0), (200, 0), (300, 20))
    jobs = []
    for flavour in ('asan', 'rel'):
        exe = _exe(ctx, flavour)
        tcs = (1, 2, 4, 8, 16) if (thorough or flavour == 'asan') else (2, 8)
        for ki, kind in enumerate(('base', 'countable', 'datacopy')):
            for ti, t in enumerate(tcs):
                for rep in range(reps):
                    yset = ys if thorough else (ys[(ti + ki + 1) % 3],)
                    for y, us in yset:
                        n = nf // 4 if t == 1 else nf // 2 if t >= 8 else (nf * 2 if flavour == 'rel' else nf)
                        jobs.append(dict(flavour=flavour, kind=kind, t=t, par=1 if t >= 8 else 3,
                                         cmd=[exe, '--kind', kind, '--threads', t, '--futures', n, '--seed', seed * 4001 + ki * 100 + ti * 10 + rep * 1000 + (y > 0),
                                              '--yield', y, '--yield-us', us]))

    def one(j):
        what = '%s/%s' % (j['flavour'], ' '.join(str(c) for c in j['cmd'][1:]))
        r, st = ctx.run_with_stall_rule(lambda: _retry_killed(ctx, lambda: ctx.run([str(c) for c in j['cmd']], timeout=7200 if thorough else 900, stall_s=180,
                                                        tag='%s-%s-%d-%d' % (j['kind'], j['flavour'], j['t'], id(j)))), what)
        return j, r, st

    res = ctx.pmap(one, [j for j in jobs if j['par'] == 3], jobs=3) + ctx.pmap(one, [j for j in jobs if j['par'] == 1], jobs=1)
    for j, r, st in res:
        if st == 'stalled':
            ctx.inconclusive_case('stalled: %s [%s]' % (' '.join(str(c) for c in j['cmd'][1:]), vfcore.stall_key(r.backtraces)))
            continue
        s = r.summary()
        if not s:
            continue
        k = s['kind']
        ctx.evaluations += s['futures']
        ctx.nontrivial_extra += s['distinct_overlapped']
        ctx.add_cov(k + '_futures', s['futures']); ctx.add_cov(k + '_ops', s['ops']); ctx.add_cov(k + '_overlapped', s['overlapped'])
        ctx.add_cov('yield_hits', s['yield_hits'])
        if k == 'base':
            ctx.add_cov('base_multi_setter_futures', s['multi_setter'])
        if k != 'datacopy':
            ctx.add_cov(k + '_callbacks_counted', s['callbacks']); ctx.add_cov(k + '_polls_not_ready', s['polls_false']); ctx.add_cov(k + '_polls_ready', s['polls_true'])
        else:
            ctx.add_cov('datacopy_fulfilments', s['triggers']); ctx.add_cov('datacopy_nested_created', s['nested_created'])
            ctx.add_cov('datacopy_null_retries', s['null_retries']); ctx.add_cov('datacopy_deferred_sets', s['deferred_sets'])
        ctx.max_cov('max_threads', s['threads'])
        if s['threads'] in (4, 8):
            ctx.cov.setdefault('who_completed_distribution', {})['%s/%s/%dthreads' % (j['flavour'], k, s['threads'])] = s['winners']
        for smp in r.of('sample')[:1]:
            if s['threads'] >= 2 and len([x for x in ctx.samples if x.get('kind') == k]) < 2:
                ctx.sample({'kind': k, 'threads': smp['threads'], 'flavour': j['flavour'], 'ops': smp['ops'][:700]}, cap=6)
    ctx.cov['flavours'] = ['asan', 'rel']
