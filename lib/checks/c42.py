"""C42 — profiling traces read back exactly as written.

A writer harness (harness/c42_prof_writer.c) drives the parsec_profiling_* API with seeded random dictionaries, global
and per-stream infos, 1..8 threads each owning a stream and random events with random info payloads, in a profiling
build, with small buffers so that streams span many buffers; a reader harness (harness/c42_prof_reader.c) opens the
trace files through /repo/tools/profiling/dbpreader.c and compares, per file and per stream, everything the reader API
returns with what the writer recorded."""
import os, random, hashlib, json

META = dict(
    level='exploration', engine='process-level round trip: profiling writer harness -> trace files -> dbpreader-based comparing reader',
    technique='runtime monitoring: the writer records every traced event / dictionary entry / info it handed to the profiling API, the reader '
              'harness decodes the binary trace with the real dbpreader.c and compares per stream (order, key, ids, flags, info length and '
              'bytes); ASan+UBSan on profiling.c and dbpreader.c compiled into the harnesses; all four buffer back-ends (mmap/write x helper '
              'thread on/off) of the writer and both of the reader',
    text='Random traces (1..40 keys with info sizes 0..buffer limit, names/convertors of random length, 1..3 trace files per job, 1..8 '
         'writer threads + a main-thread stream + an idle stream, 10..10^5 events per stream, 1..4-page buffers so that streams span up to '
         'thousands of buffers, events ending exactly on and one byte past a buffer end, global infos spanning buffers) were read back by '
         'dbpreader with the same dictionary, infos, per-stream event order and payload bytes; held on the traces observed.',
    note='Timestamps are only required to be non-decreasing per stream (the reader asserts it).  Strings are kept within the lengths the '
         'format stores (63 / 127 characters); dictionary attributes are compared on the last 6 characters the reader keeps.  Thread infos and '
         'convertors stay far below one buffer (larger ones make dump_thread loop forever / dump_dictionary write past the buffer: robustness '
         'limits outside the statement).  The back-ends other than mmap+helper are exercised by compiling /repo/parsec/profiling.c into the '
         'writer with the corresponding compile-time switches.',
    design_ref='DESIGN.md §4 C42')

RULE = ('one evaluation = one job (1..3 trace files written by one writer back-end) decoded and compared by one reader back-end; non-trivial = '
        '>= 2 streams with events, >= 1 stream spanning several buffers, >= 1 event with an info payload; distinct = distinct (writer back-end, '
        'reader back-end, buffer pages, per-stream event-count shape) tuples')

FLOORS = (6, 4)

SAN = ['-fsanitize=address', '-fsanitize=undefined', '-fno-sanitize=alignment', '-fno-omit-frame-pointer']
WRITERS = ['lib', 'm1h1', 'm1h0', 'm0h1', 'm0h0']


def _bins(ctx):
    b = {'w:lib': ctx.harness('c42_prof_writer', 'prof', outname='c42_writer_lib')}
    for m in (0, 1):
        b['r:m%d' % m] = ctx.harness('c42_prof_reader', 'prof', extra_cflags=['-DVF_PROF_INLINE_CFG', '-DVF_PROF_MMAP=%d' % m] + SAN,
                                     outname='c42_reader_m%d' % m)
        for h in (0, 1):
            b['w:m%dh%d' % (m, h)] = ctx.harness('c42_prof_writer', 'prof', outname='c42_writer_m%dh%d' % (m, h),
                                                 extra_cflags=['-DVF_PROF_INLINE', '-DVF_PROF_MMAP=%d' % m, '-DVF_PROF_HELPER=%d' % h] + SAN)
    return b


def prebuild(ctx):
    _bins(ctx)


def _jobs(ctx):
    thorough = ctx.tier == 'thorough'
    rnd = random.Random(ctx.seed * 104729 + (7 if thorough else 0))
    n = 300 if thorough else 12
    jobs = []
    for i in range(n):
        w = WRITERS[i % len(WRITERS)]
        c = rnd.random()
        if thorough:
            events = 100000 if c < 0.02 else 20000 if c < 0.1 else rnd.choice([10, 100, 400, 1500, 5000])
        else:
            events = 8000 if i == 3 else rnd.choice([10, 100, 400, 1500, 3000])
        j = dict(id=i, writer=w, ranks=rnd.choice([1, 1, 2, 3]), threads=rnd.choice([1, 2, 3, 4, 6, 8]), events=events,
                 keys=rnd.choice([1, 2, 6, 12, 25, 40]), pages=rnd.choice([1, 1, 1, 2, 4]), resize=rnd.choice([1, 1, 2, 5]),
                 seed=ctx.seed * 1000003 + i, edge=w in ('lib', 'm1h1', 'm1h0') and rnd.random() < 0.5)
        cap = 600000 if thorough else 40000          # events of one job (the writer draws up to 1.5x per stream)
        while j['events'] * j['threads'] * j['ranks'] > cap and j['ranks'] > 1:
            j['ranks'] -= 1
        while j['events'] * j['threads'] * j['ranks'] > cap and j['threads'] > 1:
            j['threads'] -= 1
        jobs.append(j)
    # low-weight trigger of the recorded finding format:max-length-string-unterminated (non-mmap back-end, one file)
    jobs.append(dict(id=n, writer='m0h0', ranks=1, threads=2, events=200, keys=12, pages=1, resize=1, seed=ctx.seed * 1000003 + n, edge=True))
    return jobs


def run(ctx):
    thorough = ctx.tier == 'thorough'
    ctx.rule = RULE
    ctx.assumptions = [
        'the writer harness log (what was handed to the API) is the reference; payload bytes are PRNG streams regenerated by the reader harness',
        'one stream is written by one thread at a time (the API is not thread-safe per stream); dictionary keys are added while no thread traces',
        'info payloads are shorter than one buffer minus the event header (the writer asserts it); strings within the stored lengths',
        'thread infos / convertor strings far smaller than a buffer (bigger ones hang dump_thread or overflow dump_dictionary: outside the statement)',
        'timestamps: non-decreasing per stream only',
        'UBSan alignment reports are disabled for these harnesses: the trace format is byte-packed by design',
    ]
    bins = _bins(ctx)
    jobs = _jobs(ctx)
    tmo = 3600 if thorough else 900

    def one(j):
        d = os.path.join(ctx.work, 'job%d' % j['id'])
        os.makedirs(d, exist_ok=True)
        env = {'PARSEC_MCA_profile_buffer_pages': j['pages'], 'PARSEC_MCA_profile_file_resize': j['resize']}
        wres = []
        for rk in range(j['ranks']):
            cmd = [bins['w:' + j['writer']], '--seed', j['seed'], '--dict-seed', j['seed'], '--rank', rk, '--threads', j['threads'], '--events', j['events'],
                   '--keys', j['keys'], '--pages', j['pages'], '--base', os.path.join(d, 'vf'), '--expected', os.path.join(d, 'exp-%d.txt' % rk)]
            if j['edge']:
                cmd.append('--edge-names')
            wres.append(ctx.run([str(c) for c in cmd], env=env, timeout=tmo, stall_s=120, tag='c42-w-%d-%d' % (j['id'], rk), cwd=d))
        rres = []
        if all(r.summary() for r in wres):
            args = [str(j['ranks'])] + [os.path.join(d, 'exp-%d.txt' % rk) for rk in range(j['ranks'])] + [os.path.join(d, 'vf-%d.prof' % rk) for rk in range(j['ranks'])]
            for rd in ('m1', 'm0'):
                rres.append((rd, ctx.run([bins['r:' + rd]] + args, timeout=tmo, stall_s=120, tag='c42-r-%d-%s' % (j['id'], rd), cwd=d)))
        return j, wres, rres, d

    res = ctx.pmap(one, jobs, jobs=4)
    for j, wres, rres, d in res:
        what = 'job %d: writer %s, %d file(s), %d threads, ~%d events/stream, %d keys, %d-page buffers, file_resize %d%s' % (
            j['id'], j['writer'], j['ranks'], j['threads'], j['events'], j['keys'], j['pages'], j['resize'], ', maximal-length strings' if j['edge'] else '')
        ok = True
        for rk, r in enumerate(wres):
            st = ctx.absorb(r, what + ' [writer rank %d]' % rk, files={'expected-%d.txt' % rk: os.path.join(d, 'exp-%d.txt' % rk)})
            if st != 'ok':
                ok = False
                if st in ('stalled', 'inconclusive'):
                    ctx.inconclusive_case(what + ': writer ' + st)
        if not ok:
            continue
        wsum = [r.summary() for r in wres]
        for rd, r in rres:
            files = {'trace-%d.prof' % rk: os.path.join(d, 'vf-%d.prof' % rk) for rk in range(j['ranks']) if os.path.getsize(os.path.join(d, 'vf-%d.prof' % rk)) < 8 << 20}
            files.update({'expected-%d.txt' % rk: os.path.join(d, 'exp-%d.txt' % rk) for rk in range(j['ranks']) if os.path.getsize(os.path.join(d, 'exp-%d.txt' % rk)) < 8 << 20})
            st = ctx.absorb(r, what + ' [reader %s]' % rd, files=files)
            if st in ('stalled', 'inconclusive'):
                ctx.inconclusive_case(what + ': reader ' + st)
                continue
            sm = r.summary()
            if not sm:
                continue
            nontrivial = sm['streams'] >= 2 and sm['events_with_info'] >= 1 and sum(w['buffer_switches'] for w in wsum) >= 1
            ident = hashlib.sha1(json.dumps([j['writer'], rd, j['pages'], j['ranks'], sm['shape']]).encode()).hexdigest()[:16]
            ctx.note_case(ident, nontrivial)
            for k in ('files', 'streams', 'events', 'events_with_info', 'info_bytes', 'dictionary_entries', 'global_infos', 'stream_infos'):
                ctx.add_cov('read_' + k, sm[k])
            ctx.add_cov('jobs_writer_' + j['writer'] + '_reader_' + rd)
            if rd == 'm1':
                ctx.add_cov('buffer_switches', sum(w['buffer_switches'] for w in wsum))
                ctx.add_cov('events_ending_exactly_on_buffer_end', sum(w['exact_fits'] for w in wsum))
                ctx.max_cov('max_events_in_one_file', max(w['events'] for w in wsum))
                ctx.max_cov('max_info_bytes', max(w['max_info'] for w in wsum))
                ctx.max_cov('max_threads', j['threads'])
                ctx.max_cov('max_keys', max(w['keys'] for w in wsum))
                ctx.add_cov('jobs_pages_%d' % j['pages'])
                ctx.add_cov('jobs_files_%d' % j['ranks'])
                if j['edge']:
                    ctx.add_cov('jobs_with_maximal_length_strings')
                ctx.sample({'what': what, 'per_file': [{k: w[k] for k in ('rank', 'streams', 'events', 'keys', 'max_info', 'buffer_switches', 'exact_fits', 'global_infos')} for w in wsum],
                            'read_back': {k: sm[k] for k in ('files', 'streams', 'events', 'events_with_info', 'info_bytes', 'dictionary_entries')}})
    ctx.cov['writer_back_ends'] = {'lib': 'libparsec prof flavour (mmap + helper thread)', 'm1h1': 'inline mmap + helper', 'm1h0': 'inline mmap, no helper',
                                   'm0h1': 'inline malloc/write + helper', 'm0h0': 'inline malloc/write, no helper'}
    ctx.cov['reader_back_ends'] = ['m1 (mmap)', 'm0 (read)']
