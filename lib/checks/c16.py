"""C16 — deferred tasks (PARSEC_HOOK_RETURN_AGAIN, chunked startup) are re-run, never lost or duplicated (E1)."""
import random
import e1suite, e1run, e1gen, e1
import c01

META = dict(
    level='exploration', engine='E1 PTG program generator + reference interpreter + event-log checker',
    technique='runtime monitoring: bodies of generated PTG programs return PARSEC_HOOK_RETURN_AGAIN a seeded number of times; every invocation is logged and checked offline: invocations == k+1 with the last one DONE, no overlapping re-entry, successors observe the reference value exactly once, startup set == reference under startup chunk/iter values 1..7; ASan+UBSan',
    text='A seeded 5-50% of the instances (startup and non-startup, with and without priorities) of generated programs ask to be re-run 1..5 times under all schedulers, 1..16 threads and task_startup_chunk/_iter in {1,2,3,7,..}; the log must show exactly k+1 invocations per instance, the completed multiset must equal the reference execution space and all inputs/final values the reference. Held on the executions observed.',
    note='Trusts the reference interpreter and the per-process instance table that counts invocations (atomic counters); ASYNC returns (device path) are out of reach.')

RULE = ('case = (generated program, run configuration with AGAIN injection); non-trivial = >=20 instances and >=1 AGAIN re-entry observed in the log; '
        'distinct = distinct (program seed, configuration) pairs')


def run(ctx):
    thorough = ctx.tier == 'thorough'
    ctx.rule = RULE
    ctx.assumptions = ['reference interpreter; the AGAIN decision is a pure function of (instance, seed) so python recomputes the expected count']
    S = e1suite.Suite(ctx, {'again', 'once', 'values', 'final'}, profile='mixed')
    nprog = 240 if thorough else 14

    def extra(c, rnd):
        c.again = (rnd.choice([50, 200, 500]), rnd.choice([1, 2, 5]))
        c.mca['task_startup_chunk'] = rnd.choice([1, 2, 5, 256]); c.mca['task_startup_iter'] = rnd.choice([1, 2, 3, 64])
        if rnd.random() < 0.4: c.yield_ = '%d:%d:%d' % (ctx.seed, 200, rnd.choice([0, 20]))

    def one(i):
        seed = ctx.seed * 100000 + 60000 + i
        rnd = random.Random(seed)
        return S.do_program(i, seed, c01.variants_for(i, rnd), c01.cfg_sampler(ctx, thorough, extra))

    for rs in ctx.pmap(one, range(nprog), jobs=6): S.account(rs, nontrivial=lambda res: res.get('again', 0) > 0)
    for i in range(3):
        try:
            P, ref, _ = e1gen.generate(ctx.seed * 100000 + 60000 + i, 'mixed', name='p%d' % i)
            ctx.sample(e1suite.sample_of(P, ref))
        except e1.ModelError:
            pass
    S.finish_cov()
