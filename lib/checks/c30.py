"""C30 — the lock-free LIFO is a linearizable stack (E3: history recorder + WGL checker; conservation stress)."""
import json

META = dict(
    level='exploration', engine='E3 history recorder + WGL linearizability checker',
    technique='runtime monitoring: recorded concurrent histories checked for linearizability against a sequential stack (WGL), conservation/ownership monitor under stress with injected delays, ASan+UBSan',
    text='Thousands of short concurrent push/chain/pop/try_pop histories on the real LIFO (inline and library builds, sanitizer and production flavours, yield injection between head read and CAS) are recorded at the client boundary and searched for a linearization; long stress runs check conservation and single ownership. Held on the histories observed; interleavings are sampled, not enumerated.',
    note='Trusts the sequential stack model, the stamp counter (one atomic) and the WGL checker in the harness; histories over the node budget are inconclusive.')

RULE = ('short concurrent histories (2..6 threads, <=36 ops, unique element ids, elements recycled) checked with a '
        'WGL search against a sequential stack; non-trivial = operations of different threads overlapped in stamp time; '
        'distinct = distinct interleaving signatures (sequence of per-thread invocation/response events)')


def builds(ctx, flavour):
    return [('inline', ctx.harness('c30_lifo', flavour, extra_cflags=['-DVF_LIFO_INLINE', '-mcx16'], outname='c30_lifo_inline')),
            ('external', ctx.harness('c30_lifo', flavour, extra_cflags=['-mcx16'], outname='c30_lifo_ext'))]


def prebuild(ctx):
    for f in ('asan', 'rel'):
        builds(ctx, f)


def run(ctx):
    thorough = ctx.tier == 'thorough'
    ctx.rule = RULE
    ctx.assumptions = ['sequential stack model; chain(ring) = push of the ring with its first element on top',
                       'try_pop may return NULL spuriously only when it overlaps another operation',
                       'histories above the WGL node budget are inconclusive, not violations',
                       'elements live in a type-stable pool (never freed) so optimistic reads of recycled items are legal']
    nh = 60000 if thorough else 700
    stress_rounds = 6000000 if thorough else 150000
    shapes = [(2, 10), (3, 8), (4, 8), (6, 6)]
    jobs = []
    for flavour in ('asan', 'rel'):
        for bname, exe in builds(ctx, flavour):
            for i, (t, ops) in enumerate(shapes):
                for y in ((0, 0), (200, 0), (300, 30)):
                    seed = ctx.seed * 1000 + i * 10 + (1 if y[0] else 0) + (2 if y[1] else 0)
                    n = nh if flavour == 'rel' else max(50, nh // 4)
                    jobs.append(dict(kind='hist', flavour=flavour, build=bname, cmd=[exe, '--mode', 'hist', '--threads', t, '--ops', ops, '--histories', n,
                                     '--seed', seed, '--yield', y[0], '--yield-us', y[1], '--vary']))
            for t, ne, y in ((8, 16, 0), (16, 4, 0), (4, 2, 100), (8, 16, 150)):
                jobs.append(dict(kind='stress', flavour=flavour, build=bname, cmd=[exe, '--mode', 'stress', '--threads', t, '--elements', ne,
                                 '--rounds', stress_rounds if flavour == 'rel' else stress_rounds // 5, '--seed', ctx.seed * 77 + t, '--yield', y]))

    def one(j):
        r = ctx.run([str(c) for c in j['cmd']], timeout=1800 if thorough else 300, stall_s=60, tag='%s-%s-%d' % (j['kind'], j['build'], id(j)))
        return j, r

    # histories need real overlap: run 3 at a time (<= 18 threads); stress uses up to 16 threads: serial
    res = ctx.pmap(one, [j for j in jobs if j['kind'] == 'hist'], jobs=3) + ctx.pmap(one, [j for j in jobs if j['kind'] == 'stress'], jobs=2)
    for j, r in res:
        what = '%s/%s %s' % (j['flavour'], j['build'], ' '.join(str(c) for c in j['cmd'][1:]))
        st = ctx.absorb(r, what)
        if st == 'stalled':
            ctx.inconclusive_case('stalled: ' + what)
            continue
        s = r.summary()
        if not s:
            continue
        if j['kind'] == 'hist':
            ctx.evaluations += s['histories']
            ctx.nontrivial_extra += s['distinct_overlapped']
            ctx.inconclusive += s['inconclusive']
            for k in ('linearizable', 'overlapped', 'ops', 'trypop_null'):
                ctx.add_cov('hist_' + k, s[k])
            ctx.add_cov('yield_hits', s['yield_hits'])
            ctx.max_cov('max_wgl_nodes', s['max_wgl_nodes'])
            for h in r.of('history')[:1]:
                ctx.sample({'build': j['build'], 'threads': s['threads'], 'history': h['ops'][:600]})
        else:
            ctx.evaluations += 1
            ctx.add_cov('stress_ops', s['ops']); ctx.add_cov('stress_chains', s['chains']); ctx.add_cov('yield_hits', s['yield_hits'])
    ctx.cov['builds'] = ['inline header (BUILDING_PARSEC)', 'external functions (libparsec)']
    ctx.cov['flavours'] = ['asan', 'rel']
