"""C38 — runtime (MCA) parameters resolve by the documented precedence (E7: one process per source configuration)."""
import os, random, hashlib, itertools, string

META = dict(
    level='exploration', engine='E7 one process per source configuration + python precedence model',
    technique='runtime monitoring: the values and sources returned by the real parsec_mca_param_lookup_* / lookup_source calls of a one-shot process are compared with a python precedence model; the full matrix of source combinations is enumerated, values are fuzzed in the thorough tier; ASan+UBSan on the parameter code',
    text='For int, size_t and string parameters every combination of {override, PARSEC_MCA_ environment variable, --mca option, parameter file} present/absent is crossed with the synonym configurations (none, one, two, value given under the first / second synonym, deprecated synonym) and with single / repeated --mca options, through parsec_init(argc, argv) and through the lower-level parsec_mca_cmd_line_* functions; each process reports the value at registration, after synonym registration, after set, after unset and on a repeated lookup, plus lookup_source and the source file. exhaustive for that matrix; fuzzed values (radix prefixes, signs, overflow, junk suffixes, commas, quotes, empty strings, "~/" expansion, long strings) are sampled.',
    note='Trusts the python model in lib/checks/c38.py (strtol emulation, "~/" expansion, comma join). Where the property does not order two sources of the same level (environment variable vs --mca, primary name vs synonym inside one source) either value is accepted and the observed winner is recorded in the evidence.',
    design_ref='DESIGN.md §4 C38, §3 E7')

RULE = ('one evaluation = one parameter (int, size_t or string) of one process = one source configuration judged at its lookup stages; '
        'non-trivial = at least two of {override, environment, --mca, file} present, so that a precedence decision was made; '
        'distinct = distinct (type, sources present, names used, synonym configuration, repetition, path, values) tuples')

FLOORS = (200, 100)
TYPES = ('int', 'sz', 'str')
PRIMARY = {'int': 'vf_pint', 'sz': 'vf_psz', 'str': 'vf_pstr'}
SRC_NAME = {0: 'default', 1: 'environment', 2: 'file', 3: 'override'}


def synname(t, k):
    return 'vfs_p%s_syn%d' % (t, k)


# ---------------------------------------------------------------- C conversions
def c_strtol(s):
    i, n = 0, len(s)
    while i < n and s[i] in ' \t\n\v\f\r':
        i += 1
    neg = False
    if i < n and s[i] in '+-':
        neg = s[i] == '-'; i += 1
    base = 10
    if i < n and s[i] == '0':
        if i + 2 < n and s[i + 1] in 'xX' and s[i + 2] in string.hexdigits:
            base = 16; i += 2
        else:
            base = 8
    v = 0
    while i < n:
        c = s[i].lower()
        d = ord(c) - 48 if c.isdigit() and c in '0123456789' else (ord(c) - 87 if 'a' <= c <= 'f' else 99)
        if d >= base:
            break
        v = v * base + d; i += 1
    if neg:
        v = -v
    return max(-2 ** 63, min(2 ** 63 - 1, v))


def conv(t, s):
    """value a parameter of type t takes from the text s (environment / file); None = NULL string"""
    if t == 'str':
        return s
    if s is None:
        return 0
    v = c_strtol(s)
    if t == 'int':
        v &= 0xffffffff
        return v - 2 ** 32 if v >= 2 ** 31 else v
    return v % 2 ** 64


def expand_home(s, home):
    if s is None:
        return None
    if s.startswith('~/'):
        rest = s[2:]
        s = home + ('' if rest.startswith('/') else '/') + rest
    while ':~/' in s:
        i = s.index(':~/')
        s = s[:i] + ':' + home + s[i + 2:]
    return s


def unhex(h):
    return None if h is None else bytes.fromhex(h).decode('latin-1')


# ---------------------------------------------------------------- case construction
class Case:
    def __init__(self, cid, path, present, nsyn, names, repeat, values, syndep=0, argv0='none', spell='--mca', regval=1, nfiles=1, fuzz=False):
        self.cid = cid; self.path = path; self.present = present      # dict O,E,C,F -> bool
        self.nsyn = nsyn; self.names = names                          # dict E,C,F -> 'p' | 's1' | 's2'
        self.repeat = repeat; self.values = values                   # values[t] = dict D,O,E,C (list),F
        self.syndep = syndep; self.argv0 = argv0; self.spell = spell; self.regval = regval; self.nfiles = nfiles; self.fuzz = fuzz

    def name(self, t, src):
        n = self.names[src]
        return PRIMARY[t] if n == 'p' else synname(t, int(n[1]))

    def ident(self, t):
        p = ''.join(k for k in 'OECF' if self.present[k])
        v = self.values[t]
        return hashlib.sha1(repr((t, p, sorted(self.names.items()), self.nsyn, self.repeat, self.path, self.syndep, self.spell, self.argv0, self.nfiles,
                                  sorted((k, str(x)) for k, x in v.items()))).encode()).hexdigest()[:16]

    def describe(self, t):
        v = self.values[t]
        d = {'type': t, 'path': self.path, 'synonyms': self.nsyn, 'deprecated_synonym': self.syndep, 'default': v['D']}
        if self.present['O']: d['override'] = v['O']
        if self.present['E']: d['env'] = '%s=%s' % (self.name(t, 'E'), v['E'])
        if self.present['C']: d['cmdline'] = ['%s %s %s' % (self.spell, self.name(t, 'C'), x) for x in v['C'][:self.repeat]]
        if self.present['F']: d['file'] = '%s = %s' % (self.name(t, 'F'), v['F'])
        for k in d:
            if isinstance(d[k], str) and len(d[k]) > 120: d[k] = d[k][:120] + '...(%d chars)' % len(d[k])
        return d


def base_values():
    return {'int': dict(D='11', O='55', E='33', C=['44', '45'], F='22'),
            'sz': dict(D='1011', O='1055', E='1033', C=['1044', '1045'], F='1022'),
            'str': dict(D='dflt', O='ovr', E='envval', C=['cmdval', 'cmdval2'], F='fileval')}


def matrix_cases(full_init=True):
    """the exhaustive box: 2^4 source combinations x synonym configurations x {once, repeated} x {init, low}.
    full_init=False (quick tier): the parsec_init path, which differs from the low path only in how the arguments reach the
    command-line functions, runs the slice {all 16 source combinations} x {no synonym, value under synonym} x {once, repeated}."""
    out = []
    synmodes = [(0, 'p', 0), (1, 'p', 0), (2, 'p', 0), (1, 's1', 0), (2, 's2', 0), (1, 's1', 1)]   # (nsyn, name used by the named sources, deprecated)
    n = 0
    for bits in itertools.product((0, 1), repeat=4):
        present = dict(zip('OECF', map(bool, bits)))
        for nsyn, nm, dep in synmodes:
            for repeat in ((1, 2) if present['C'] else (1,)):
                for path in ('low', 'init'):
                    if path == 'init' and not present['C'] and (nsyn, nm, dep) != (0, 'p', 0) and not (nm != 'p' and present['F'] and present['E']):
                        continue        # without --mca both paths run the same code: keep a thin slice on the (slow) init path
                    if path == 'init' and not full_init and (nsyn, nm, dep) not in ((0, 'p', 0), (1, 's1', 0)):
                        continue
                    n += 1
                    out.append(Case('m%03d' % n, path, present, nsyn, dict(E=nm, C=nm, F=nm), repeat, base_values(), syndep=dep,
                                    argv0=('none', 'prog', 'dashdash')[n % 3], spell=('--mca', '-mca', '--gmca')[(n // 3) % 3], regval=n % 2))
    return out


INT_FUZZ = ['0', '-1', '2147483647', '-2147483648', '2147483648', '4294967296', '0x7f', '0X10', '077', '08', '12abc', '', '  42', '+5', '-0x10',
            '99999999999999999999', '-99999999999999999999', 'abc', '1e3', '0x', '1,2', '7 8', '0b11', '9223372036854775807', '18446744073709551615']
STR_FUZZ = ['', 'a,b', '"quoted"', "'q'", '~/x/y', 'a:~/b:~/c', '~', '~/', 'with space', '=', 'k=v', 'a:b', '~x/y', ':~/only', 'x~/y', '%s%n', '\\n', 'tab\tin', '--mca', '-', '~//abs']


def fuzz_cases(rng, count):
    out = []
    for n in range(count):
        present = dict((k, rng.random() < 0.55) for k in 'OECF')
        nsyn = rng.choice((0, 1, 2, 2))
        avail = ['p'] + ['s%d' % k for k in range(1, nsyn + 1)]
        names = dict((k, rng.choice(avail)) for k in 'ECF')
        vals = {}
        for t in TYPES:
            pool = STR_FUZZ if t == 'str' else INT_FUZZ

            def pick(filesafe=False, cmd=False):
                for _ in range(50):
                    v = rng.choice(pool)
                    if t == 'str' and rng.random() < 0.06:
                        v = rng.choice(('', '~/')) + ''.join(rng.choice('abc/.-_') for _ in range(rng.choice((200, 1023, 1024, 3000))))
                    if filesafe and (v != v.strip() or '#' in v or '\t' in v or '\n' in v or v == ''):
                        continue
                    return v
                return '5'
            d = pick()
            if t != 'str':
                d = str(conv('int' if t == 'int' else 'sz', d))     # defaults / overrides are C values, not text
            elif rng.random() < 0.15:
                d = None                                            # NULL default string
            o = pick()
            if t != 'str':
                o = str(conv(t, o))
            vals[t] = dict(D=d, O=o, E=pick(), C=[pick(cmd=True), pick(cmd=True)], F=pick(filesafe=True))
        out.append(Case('f%04d' % n, rng.choice(('low', 'low', 'init')), present, nsyn, names, rng.choice((1, 1, 2)), vals, syndep=rng.choice((0, 0, 1)),
                        argv0=rng.choice(('none', 'prog', 'dashdash')), spell=rng.choice(('--mca', '-mca', '--gmca')), regval=rng.choice((0, 1)),
                        nfiles=rng.choice((1, 1, 2)), fuzz=True))
    return out


# ---------------------------------------------------------------- the model
def expected(case, t, home):
    """returns dict stage -> (set of acceptable values, source) ; values already converted to what the lookup returns"""
    v = case.values[t]
    fin = (lambda x: expand_home(x, home)) if t == 'str' else (lambda x: x)
    default = fin(v['D']) if t == 'str' else int(v['D'])
    env_cands = []
    if case.present['E']:
        env_cands.append(('E', fin(conv(t, v['E']))))
    if case.present['C']:
        env_cands.append(('C', fin(conv(t, ','.join(v['C'][:case.repeat])))))
    if env_cands:
        l1 = (set(x for _, x in env_cands), 1)
    elif case.present['F']:
        l1 = ({fin(conv(t, v['F']))}, 2)
        if case.nfiles == 2:        # the order between files is not part of the property: either file's value, but value and reported file must agree
            l1[0].add(fin(conv(t, 'shadowed9' if t == 'str' else '9')))
    else:
        l1 = ({default}, 0)
    exp = {'l1': l1, 'l4': l1}
    if case.present['O']:
        exp['l2'] = ({fin(v['O']) if t == 'str' else int(v['O'])}, 3)
        exp['l3'] = l1
    # registration: synonyms are not registered yet; only sources under the primary name can be seen
    vis_env = [x for k, x in env_cands if case.names[k] == 'p']
    if vis_env:
        exp['reg'] = (set(vis_env), None)
    elif case.present['F'] and case.names['F'] == 'p':
        exp['reg'] = (set(l1[0]) if not env_cands else {fin(conv(t, v['F'])), fin(conv(t, 'shadowed9' if t == 'str' else '9'))} if case.nfiles == 2 else {fin(conv(t, v['F']))}, None)
    else:
        exp['reg'] = ({default}, None)
    return exp, dict(env_cands)



def run(ctx):
    thorough = ctx.tier == 'thorough'
    ctx.rule = RULE
    ctx.assumptions = ['python model: override > environment (PARSEC_MCA_<name> or --mca/-mca/--gmca, primary name or any registered synonym) > parameter file > default; repeated --mca joined with commas',
                       'numeric text converted as strtol/strtoll(base 0) then cast to int / size_t; "~/" and ":~/" expanded with $HOME in string values',
                       'environment variable vs --mca for the same parameter, and primary name vs synonym inside one source, are not ordered by the property: either value accepted, winner recorded',
                       'at registration time synonyms are unknown, so only sources under the primary name are expected to be visible',
                       'parameter files contain only values the key=value grammar can express (no #, no leading/trailing blanks)']
    rng = random.Random(ctx.seed * 7919 + 38)
    # model self-check: the strtol emulation must agree with the C library on every numeric text used
    import ctypes, vfcore
    libc = ctypes.CDLL(None); libc.strtol.restype = ctypes.c_long; libc.strtol.argtypes = [ctypes.c_char_p, ctypes.c_void_p, ctypes.c_int]
    for txt in INT_FUZZ + ['44,45', '1044,1045', '9', '0x-1', ' -0X1f ', '00']:
        if libc.strtol(txt.encode(), None, 0) != c_strtol(txt):
            raise vfcore.HarnessError('model self-check: strtol emulation differs from libc on %r' % txt)
    exe = {'init': ctx.harness('c38_mca', 'asan'), 'low': ctx.harness('c38_mca', 'asan')}
    home = os.path.join(ctx.work, 'home'); os.makedirs(home, exist_ok=True)
    cases = matrix_cases(full_init=thorough)
    nmatrix = len(cases)
    cases += fuzz_cases(rng, 800 if thorough else 40)

    def prepare(c):
        d = os.path.join(ctx.work, 'case-' + c.cid); os.makedirs(d, exist_ok=True)
        env = {'HOME': home, 'VF_PATH': c.path, 'VF_NSYN': c.nsyn, 'VF_SYNDEP': c.syndep, 'VF_OVR': int(c.present['O']), 'VF_REGVAL': c.regval}
        args = []
        if c.argv0 == 'prog' and c.path == 'init': args.append('progname')
        if c.argv0 == 'dashdash' and c.path == 'init': args.append('--')
        files = [os.path.join(d, 'params%d.conf' % i) for i in range(c.nfiles)]
        lines = [[] for _ in files]
        for t in TYPES:
            v = c.values[t]
            if v['D'] is not None:
                env['VF_DEF_' + t.upper()] = v['D']
            env['VF_OVR_' + t.upper()] = v['O']
            if c.present['E']:
                env['PARSEC_MCA_' + c.name(t, 'E')] = v['E']
            if c.present['F']:
                lines[0].append('%s = %s' % (c.name(t, 'F'), v['F']))
                if c.nfiles == 2:       # the same key in a later file of the list: the leftmost file has precedence
                    lines[1].append('%s=%s' % (c.name(t, 'F'), 'shadowed9' if t == 'str' else '9'))
        if c.nfiles == 2:
            lines[1].append('vf_unrelated = 1')
        for t in TYPES:                 # --mca options interleaved per repetition so that repeated options are not adjacent
            pass
        # decoy options whose names are prefix-related to the probed ones (unregistered parameters: they must only be exported
        # to the context environment): one case in three gives the LONGER name first, one in three the longer name last
        import zlib
        c.decoy = zlib.crc32(c.cid.encode()) % 3 if c.present['C'] else 0
        if c.decoy == 1:
            for t in TYPES: args += [c.spell, c.name(t, 'C') + '_extra', 'decoy']
        for r in range(c.repeat):
            for t in TYPES:
                if c.present['C']:
                    args += [c.spell, c.name(t, 'C'), c.values[t]['C'][r]]
        if c.decoy == 2:
            for t in TYPES: args += [c.spell, c.name(t, 'C') + '_extra', 'decoy']
        for f, l in zip(files, lines):
            with open(f, 'w') as fh:
                fh.write('# C38 case %s\n' % c.cid + '\n'.join(l) + '\n')
        env['PARSEC_MCA_mca_param_files'] = ':'.join(files)
        return env, args, files

    def one(c):
        env, args, files = prepare(c)
        r = ctx.run([exe[c.path]] + args, env=env, timeout=600, tag='c38-' + c.cid)
        return c, r, files

    winners = {}
    done_matrix = 0
    results = ctx.pmap(one, cases, jobs=12)
    for c, r, files in results:
        what = 'case %s path=%s sources=%s syn=%d names=%s repeat=%d' % (c.cid, c.path, ''.join(k for k in 'OECF' if c.present[k]) or '-', c.nsyn,
                                                                      ''.join(c.names[k] for k in 'ECF'), c.repeat)
        feature = 'fuzz' if c.fuzz else None
        st = ctx.absorb(r, what, feature=feature)
        if st == 'stalled':
            ctx.inconclusive_case('timed out: ' + what); continue
        if st != 'ok' or not r.summary() or not r.summary().get('ok'):
            if st == 'ok':
                ctx.harness_failures.append('%s: %s' % (what, r.stdout[-300:]))
            continue
        stages = dict((s['stage'], s) for s in r.of('stage'))
        tix = {'int': 0, 'sz': 1, 'str': 2}
        for t in TYPES:
            exp, cand = expected(c, t, home)
            bad = False
            for sname, (vals, src) in sorted(exp.items()):
                s = stages.get(sname)
                if s is None:
                    ctx.harness_failures.append('%s: stage %s missing' % (what, sname)); bad = True; continue
                got = s['int'] if t == 'int' else int(s['sz']) if t == 'sz' else unhex(s['str'])
                if sname == 'reg' and t == 'str' and not c.regval:
                    continue
                if got not in vals:
                    pres = ''.join(k for k in 'OECF' if c.present[k]) or 'none'
                    key = '%s:value:%s:sources=%s:names=%s' % (sname if sname in ('reg', 'l2') else 'lookup', t, pres, 'primary' if set(c.names[k] for k in 'ECF' if c.present[k]) <= {'p'} else 'synonym')
                    ctx.violation((feature + ':' if feature else '') + key,
                                  '%s: %s parameter at stage %s is %r, precedence model allows %s (%s)' % (what, t, sname, got, sorted(map(repr, vals))[:4], c.describe(t)), r,
                                  files={'case.txt': repr(c.describe(t))})
                    bad = True
                elif src is not None:
                    gs = s['src'][tix[t]]
                    if gs != src:
                        ctx.violation((feature + ':' if feature else '') + 'lookup_source:%s:reported=%s:expected=%s' % (t, SRC_NAME.get(gs, gs), SRC_NAME[src]),
                                      '%s: %s parameter stage %s: source reported %s, model %s' % (what, t, sname, SRC_NAME.get(gs, gs), SRC_NAME[src]), r)
                        bad = True
                    gf = unhex(s['file'][tix[t]]) if s['file'][tix[t]] is not None else None
                    if src == 2:
                        fromfile = files[0] if got == (expand_home(conv(t, c.values[t]['F']), home) if t == 'str' else conv(t, c.values[t]['F'])) else files[-1]
                        if gf != fromfile:
                            ctx.violation((feature + ':' if feature else '') + 'lookup_source:file-name:%s' % t, '%s: source file reported %r, value comes from %r' % (what, gf, fromfile), r)
                            bad = True
                        if c.nfiles == 2:
                            winners['file_order:%s' % ('leftmost' if fromfile == files[0] else 'rightmost')] = winners.get('file_order:%s' % ('leftmost' if fromfile == files[0] else 'rightmost'), 0) + 1
                    if src != 2 and gf is not None:
                        ctx.violation((feature + ':' if feature else '') + 'lookup_source:file-name-without-file-source:%s' % t, '%s: source file %r reported for a %s value' % (what, gf, SRC_NAME[src]), r)
                        bad = True
                if sname == 'l1' and len(cand) == 2 and len(set(cand.values())) == 2 and got in vals:
                    w = [k for k, x in cand.items() if x == got][0]
                    same = c.names['E'] == c.names['C']
                    k2 = 'same_level_winner:%s:%s' % ('same-name' if same else 'env=%s,cmd=%s' % (c.names['E'], c.names['C']), 'cmdline' if w == 'C' else 'environment')
                    winners[k2] = winners.get(k2, 0) + 1
            npresent = sum(c.present.values())
            ctx.note_case(c.ident(t), nontrivial=npresent >= 2)
            ctx.add_cov('params_%s' % t); ctx.add_cov('path_%s' % c.path)
            ctx.add_cov('sources_present_%d' % npresent)
            if c.fuzz: ctx.add_cov('fuzzed_params')
            if c.nsyn and any(c.names[k] != 'p' and c.present[k] for k in 'ECF'): ctx.add_cov('value_given_under_synonym')
            if c.present['C'] and c.repeat == 2: ctx.add_cov('repeated_mca_option')
            if not bad and len(ctx.samples) < 5 and npresent >= 3 and t == ('int', 'sz', 'str')[len(ctx.samples) % 3]:
                d = c.describe(t); d['observed'] = dict((sn, (stages[sn]['int'] if t == 'int' else stages[sn]['sz'] if t == 'sz' else unhex(stages[sn]['str']))) for sn in sorted(exp))
                d['observed_source_l1'] = SRC_NAME.get(stages['l1']['src'][tix[t]])
                ctx.sample(d)
        # the --mca -> environment translation seen directly on the low path
        if c.path == 'low':
            ent = sorted(unhex(e['entry']) for e in r.of('ctxenv'))
            want = sorted(['PARSEC_MCA_%s=%s' % (c.name(t, 'C'), ','.join(c.values[t]['C'][:c.repeat])) for t in TYPES] +
                          (['PARSEC_MCA_%s_extra=decoy' % c.name(t, 'C') for t in TYPES] if getattr(c, 'decoy', 0) else [])) if (c.present['C'] and c.spell != '--gmca') else []
            if ent != want:
                ctx.violation(('fuzz:' if c.fuzz else '') + 'mca_cmd_line_process_args:context-env', '%s: --mca options produced %r, expected %r' % (what, ent[:4], want[:4]), r)
            ctx.add_cov('ctxenv_entries_checked', len(want))
        en = r.of('envname')
        if en and (unhex(en[0]['name']) != 'PARSEC_MCA_vf_pint' or en[0]['find'] != stages['reg']['idx']):
            ctx.violation('env_var_name_or_find', '%s: env_var/find returned %r' % (what, en[0]), r)
        if not c.fuzz:
            done_matrix += 1
    # ---- probe kept at weight one: a "~/" string value longer than MAXPATHLEN (the expansion helper returns NULL)
    longv = '~/' + 'a' * 5000
    pr = ctx.run([exe['low']], env={'HOME': home, 'VF_PATH': 'low', 'PARSEC_MCA_mca_param_files': os.path.join(ctx.work, 'none.conf'), 'VF_REGVAL': 0,
                                    'PARSEC_MCA_vf_pstr': longv}, timeout=600, tag='c38-probe-longhome')
    ctx.evaluations += 1
    ctx.add_cov('probe_home_expansion_over_maxpathlen')
    l1 = [x for x in pr.of('stage') if x['stage'] == 'l1']
    if pr.crashed and any('param_lookup' in x for x in pr.san) or (pr.signal and not l1):
        ctx.violation('string:home-expansion:value-longer-than-MAXPATHLEN:crash', 'looking up a string parameter whose value is "~/" followed by 5000 characters '
                      'kills the process (parsec_os_path returns NULL for paths over MAXPATHLEN and param_lookup passes it to strstr): %s'
                      % (pr.san[-1].strip().splitlines()[0][:200] if pr.san else 'signal %s' % pr.signal), pr)
    elif l1:
        got = unhex(l1[0]['str'])
        if got not in (expand_home(longv, home), longv):
            ctx.violation('string:home-expansion:value-longer-than-MAXPATHLEN:value', 'value of length %d returned for a %d character setting' % (len(got or ''), len(longv)), pr)
    else:
        ctx.absorb(pr, 'long home-expansion probe')
    ctx.cov['same_level_winners'] = winners
    ctx.cov['matrix'] = {'source_combinations': 16, 'types': 3, 'synonym_configurations': 6, 'repetition': 2, 'paths': ['parsec_mca_cmd_line_* (full matrix)', 'parsec_init (full matrix)' if thorough else 'parsec_init (16 source combinations x {no synonym, value under synonym} x {once, repeated})'],
                         'processes': nmatrix, 'completed': done_matrix, 'exhaustive': done_matrix == nmatrix}
    ctx.cov['exhaustive'] = done_matrix == nmatrix
    if done_matrix < nmatrix:
        ctx.harness_failures.append('matrix incomplete: %d of %d processes conclusive' % (done_matrix, nmatrix))


def prebuild(ctx):
    ctx.harness('c38_mca', 'asan')
