"""C37 — taskpool identifiers resolve to the registered taskpool (reference-map histories, concurrent
reservations, parsec_taskpool_sync_ids on 1..4 MPI ranks)."""

META = dict(
    level='exploration', engine='E3/E7 reference-map history harness + E6 MPI launcher',
    technique='runtime monitoring: every result of reserve/register/lookup/unregister/sync on the real registry is compared '
              'with a reference map id->taskpool (sequential random histories from a fresh registry, growth across several '
              'doublings with full scans), concurrent reservations checked for pairwise distinct ids and stable lookups, '
              'MPI runs on 1..4 ranks with different prior histories compare the id of the next reservation after '
              'parsec_taskpool_sync_ids; ASan+UBSan on every run',
    text='Random sequential histories (one fresh registry per process, all lookup categories: registered, reserved-only, '
         'unregistered, never issued, far beyond, id 0), 2..16 threads reserving/registering concurrently, and MPI jobs of '
         '1..4 ranks whose ranks reserve different numbers of ids before synchronising. Held on the histories, thread '
         'counts and rank counts observed.',
    note='Trusts the reference map in the harness and MPI_Allgather for collecting ids. Identifier 0 is treated as never '
         'registered (ids start at 1).',
    design_ref='DESIGN.md 4/C37, 6.10')

RULE = ('sequential histories of 3..120 operations (reserve, register, unregister, lookup of 6 id categories, sync, growth '
        'bursts) judged operation by operation against a reference map; non-trivial = the history changed the registry '
        '(>=1 reservation/registration) and has >=3 operations, distinct by operation-sequence hash; concurrent rounds count '
        'when reservations of different threads overlapped in stamp time; MPI rounds count when the ranks entered the sync '
        'with different newest ids')

FLOORS = (50, 10)


def _external_kill(r):
    """SIGKILL cannot come from the code under test (no OOM here): another job on the shared box killed the process."""
    return r.signal == 9 and not r.san and not r.of('violation') and not (r.stalled or r.timed_out)


def _retry_killed(ctx, runner):
    r = runner()
    if _external_kill(r):
        ctx.add_cov('rerun_after_external_sigkill', 1)
        r = runner()
        if _external_kill(r):          # twice: machinery trouble, never a verdict
            r.signal = None; r.rc = 2
    return r


def _exe(ctx, flavour):
    return ctx.harness('c37_tpid', flavour)


def prebuild(ctx):
    for f in ('asan', 'rel'):
        _exe(ctx, f)


def run(ctx):
    thorough = ctx.tier == 'thorough'
    ctx.rule = RULE
    ctx.assumptions = ['reference map id -> {reserved, registered, unregistered}; an id may be handed out again only after it was unregistered',
                       'identifier 0 is never handed out, so lookup(0) must answer "not registered"',
                       'parsec_taskpool_sync_ids is collective: every rank calls it the same number of times',
                       'MPI_Allgather delivers the ids the ranks obtained']
    seed = ctx.seed
    # ---- sequential histories: processes x histories
    nproc = 250 if thorough else 20            # per flavour
    per = 100 if thorough else 50
    jobs = []
    shapes = [(12, 0), (40, 60), (40, 200), (120, 30), (8, 400)]   # (max ops per history, burst permille)
    for flavour in ('asan', 'rel'):
        exe = _exe(ctx, flavour)
        for p in range(nproc):
            ops, burst = shapes[p % len(shapes)]
            # the lookup(0)-after-reservation trigger is a known finding: one process per flavour in quick, all in thorough
            id0 = 30 if (thorough or p == 1) else 0
            jobs.append(dict(kind='hist', flavour=flavour, cmd=[exe, '--mode', 'hist', '--seed', seed * 100003 + p * 7 + (1 if flavour == 'rel' else 0),
                                                                 '--histories', per, '--ops', ops, '--burst', burst, '--id0', id0]))
        for t in (2, 4, 8, 16):
            jobs.append(dict(kind='conc', flavour=flavour, cmd=[exe, '--mode', 'conc', '--threads', t, '--rounds', 200 if thorough else 20,
                                                                 '--per', 50, '--seed', seed * 31 + t]))
        jobs.append(dict(kind='probe0', flavour=flavour, cmd=[exe, '--mode', 'probe0']))
    # ---- MPI runs
    nmpi = 120 if thorough else 12
    for i in range(nmpi):
        ranks = 1 + i % 4
        flavour = 'rel' if i % 6 == 5 else 'asan'
        cmd = [_exe(ctx, flavour), '--mode', 'mpi', '--seed', seed * 977 + i, '--rounds', 6 if thorough else 4,
               '--maxprior', (40, 300, 1500)[i % 3]]
        if i % 3 == 1:
            cmd.append('--parsec-init')
        jobs.append(dict(kind='mpi', flavour=flavour, ranks=ranks, cmd=cmd))

    def one(j):
        cmd = [str(c) for c in j['cmd']]
        tag = '%s-%s-%d' % (j['kind'], j['flavour'], id(j))
        if j['kind'] == 'mpi':
            return j, _retry_killed(ctx, lambda: ctx.run(cmd, timeout=900, mpi=j['ranks'], tag=tag))
        return j, _retry_killed(ctx, lambda: ctx.run(cmd, timeout=900, stall_s=180 if j['kind'] != 'probe0' else None, tag=tag))

    res = (ctx.pmap(one, [j for j in jobs if j['kind'] in ('hist', 'probe0')], jobs=6) +
           ctx.pmap(one, [j for j in jobs if j['kind'] == 'conc'], jobs=1) +
           ctx.pmap(one, [j for j in jobs if j['kind'] == 'mpi'], jobs=2))
    for j, r in res:
        what = '%s/%s %s' % (j['flavour'], j['kind'], ' '.join(str(c) for c in j['cmd'][1:]))
        if j['kind'] == 'probe0':
            stages = [o.get('stage') for o in r.of('probe')]
            ctx.add_cov('probe0_runs', 1)
            if 'before-lookup0' in stages and 'after-lookup0' not in stages and (r.signal is not None or r.san or r.rc not in (0, 1)):
                # DESIGN 6.10: died inside parsec_taskpool_lookup(0) on a registry without any reservation
                head = (r.san[0].strip().splitlines()[0] if r.san else 'signal %s' % r.signal)
                ctx.violation('lookup:id0', '%s: parsec_taskpool_lookup(0) before the first reservation crashed (%s): the bound test '
                              'passes for 0 while the registry array is still NULL' % (what, head[:200]), r)
                ctx.note_case('probe0-' + j['flavour'], nontrivial=False)
                continue
            st = ctx.absorb(r, what)
            if st == 'ok':
                ctx.note_case('probe0-' + j['flavour'], nontrivial=False)
                ctx.add_cov('probe0_survived', 1)
            continue
        if j['kind'] == 'mpi':
            r2, st = r, ctx.absorb(r, what + ' ranks=%d' % j['ranks'])
            if st == 'stalled':
                ctx.inconclusive_case('mpi run timed out: ' + what)
                continue
            s = r2.summary()
            if not s:
                continue
            ctx.evaluations += s['rounds']
            ctx.nontrivial_extra += s['spread_rounds'] if s['ranks'] > 1 else 0
            ctx.add_cov('mpi_runs', 1); ctx.add_cov('mpi_rounds', s['rounds']); ctx.add_cov('mpi_rounds_agreeing', s['agree'])
            ctx.add_cov('mpi_rounds_with_different_prior_ids', s['spread_rounds'])
            ctx.add_cov('mpi_ranks_%d' % s['ranks'], 1); ctx.add_cov('mpi_with_parsec_init', s['parsec_init'])
            ctx.max_cov('mpi_max_id', s['max_id'])
            if s['ranks'] > 1:
                ctx.sample({'mpi_ranks': s['ranks'], 'rounds': s['trace'][:500]}, cap=5)
            continue
        st = ctx.absorb(r, what)
        if st == 'stalled':
            ctx.inconclusive_case('stalled: ' + what)
            continue
        s = r.summary()
        if not s:
            continue
        if j['kind'] == 'hist':
            ctx.evaluations += s['histories']
            ctx.nontrivial_extra += s['distinct']
            for k in ('lookups', 'lookup_hit', 'lookup_miss', 'reserves', 'registers', 'unregisters', 'syncs', 'scans', 'lookup0'):
                ctx.add_cov('hist_' + k, s[k])
            ctx.max_cov('hist_max_id', s['max_id']); ctx.max_cov('hist_max_doublings_in_one_registry', s['doublings'])
            for smp in r.of('sample')[:1]:
                if len([x for x in ctx.samples if 'history' in x]) < 3:
                    ctx.sample({'flavour': j['flavour'], 'history': smp['history'][:300], 'legend': smp['legend'], 'max_id': smp['max_id']})
        else:
            ctx.evaluations += s['rounds']
            ctx.nontrivial_extra += s['overlapped_rounds']
            ctx.add_cov('conc_reservations', s['reservations']); ctx.add_cov('conc_lookups', s['lookups'])
            ctx.add_cov('conc_overlapped_rounds', s['overlapped_rounds'])
            ctx.add_cov('conc_owner_switches_in_id_order', s['owner_switches'])
            ctx.max_cov('conc_max_threads', s['threads'])
    ctx.cov['flavours'] = ['asan', 'rel']
