"""C11 — four-counter distributed termination is safe and live (E5: simulated network of N fake ranks in one process
driving the real mca/termdet/fourcounter module; seeded schedules with held channels).  Single-process part only; the
real-MPI part (dynamic-termination PTG programs) is added by the coordinator through generated programs."""
import os, array

LEVEL = 'fault_enumeration'
META = dict(
    level='fault_enumeration', engine='E5 simulated network around the real four-counter module',
    technique='runtime monitoring with fault (delay) injection: seeded enumeration of network/worker schedules (held and '
              're-ordered FIFO channels, late-ready ranks, rendez-vous receives) over the real module code of 1..8 simulated '
              'ranks, plus a threaded mode (worker + comm thread per rank against the module\'s own locks); online safety oracle inside every '
              'termination callback, step-counted liveness oracle; ASan+UBSan',
    text='Every termination callback of every simulated rank is checked, at the moment it runs, against harness-side shadow '
         'counters (no rank busy, no application message sent and not completely received, at most one callback per rank); after '
         'the last work and delivery every rank must terminate within a fixed number of control deliveries. Schedules are '
         'sampled by seed (delays injected by the network), not enumerated exhaustively.',
    note='Trusts the harness model of the client discipline (remote_dep.c / remote_dep_mpi.c / jdf2c call order), the shadow '
         'counters (incremented and decremented before the module call) and FIFO order per (pair) or per (pair, tag). '
         'N <= 8; real-MPI runs are a separate part.',
    design_ref='DESIGN.md §3 E5, §4 C11')

RULE = ('one evaluation = one seeded schedule (N in 1..8 ranks, random work, application messages, holds) run to global termination '
        'through the real module; non-trivial = at least one idle->busy reactivation by an application message and at least two '
        'waves; distinct = distinct hashes of the executed event sequence (event type, rank/channel)')
FLOORS = (500, 100)


def prebuild(ctx):
    for f in ('asan', 'rel'):
        ctx.harness('c11_fourcounter', f)
        ctx.harness('c11_fourcounter_mt', f)
    ctx.harness('c11_delayed_list', 'rel')


def run(ctx):
    thorough = ctx.tier == 'thorough'
    ctx.rule = RULE
    ctx.assumptions = ['client discipline of the harness mirrors remote_dep.c/remote_dep_mpi.c/jdf2c (load > 0 at taskpool_ready; '
                       'every receive creates work or holds a pending action; a sender holds a pending action until the send completes)',
                       'channels are FIFO per pair (or per pair and tag) as MPI guarantees; control may overtake application traffic only in the per-tag mode',
                       'an application message is outstanding from before outgoing_message_start until incoming_message_end and the registration of the work it creates',
                       'liveness bound: 64*N*(log2 N+1) control deliveries after global quiescence (three waves need about 6N)',
                       'threaded mode: deadlock is declared only on a logically consistent snapshot (activity counter), a run without progress is judged by the stall rule; '
                       'taskpool_ready and msg_dispatch of different simulated ranks are serialised by the harness because really separate ranks do not share the per-process delayed-message list',
                       'control messages left over after global termination are counted, not judged']
    exe = {f: ctx.harness('c11_fourcounter', f) for f in ('asan', 'rel')}
    exe_mt = {f: ctx.harness('c11_fourcounter_mt', f) for f in ('asan', 'rel')}
    jobs = []      # (mode, flavour, seed, schedules)
    if thorough:
        for i in range(24):
            jobs.append(('st', 'rel', ctx.seed * 100003 + i, 400000))
        for i in range(8):
            jobs.append(('st', 'asan', ctx.seed * 100003 + 500 + i, 80000))
        mt = [('mt', 'rel', ctx.seed * 100003 + 900 + i, 1500) for i in range(4)] + [('mt', 'asan', ctx.seed * 100003 + 950 + i, 600) for i in range(2)]
    else:
        for i in range(4):
            jobs.append(('st', 'rel', ctx.seed * 100003 + i, 5000))
        for i in range(4):
            jobs.append(('st', 'asan', ctx.seed * 100003 + 500 + i, 1200))
        mt = [('mt', 'rel', ctx.seed * 100003 + 900, 150), ('mt', 'asan', ctx.seed * 100003 + 950, 60)]

    def one(j):
        mode, flavour, seed, n = j
        hf = os.path.join(ctx.work, 'hashes.%s.%s.%d' % (mode, flavour, seed))
        if mode == 'st':
            cmd = [exe[flavour], '--schedules', str(n), '--seed', str(seed), '--hashfile', hf, '--samples', '1']
        else:
            cmd = [exe_mt[flavour], '--schedules', str(n), '--seed', str(seed), '--hashfile', hf, '--list-model', 'separate']
        what = 'fourcounter simulation %s %s seed=%d schedules=%d' % j
        if mode == 'st':
            r = ctx.run(cmd, timeout=7200 if thorough else 600, stall_s=120, tag='%s-%s-%d' % (mode, flavour, seed))
            st = ctx.absorb(r, what)
        else:   # threads: a run that stops making progress is judged by the stall rule (twice = violation)
            r, st = ctx.run_with_stall_rule(lambda: ctx.run(cmd, timeout=7200 if thorough else 900, stall_s=120, tag='%s-%s-%d' % (mode, flavour, seed)), what)
        return j, hf, r, st, what

    hashes = set()
    # the 16-thread harness runs: two at a time, after the single-threaded ones (six at a time)
    for j, hf, r, st, what in ctx.pmap(one, jobs, jobs=6) + ctx.pmap(one, mt, jobs=2):
        mode = j[0]
        if st == 'stalled':
            ctx.inconclusive_case('stalled: ' + what)
            continue
        s = r.summary()
        if not s:
            continue
        ctx.evaluations += s['schedules']
        if os.path.exists(hf):
            a = array.array('Q')
            with open(hf, 'rb') as f:
                a.frombytes(f.read())
            hashes.update(a)
        for k in ('events', 'waves', 'reactivations', 'ctl_delayed_not_ready', 'ctl_for_unregistered', 'app_parked', 'holds', 'rendezvous',
                  'ctl_msgs', 'app_msgs', 'forwards', 'recv_without_pending_action', 'tasks', 'callbacks', 'leftover_ctl',
                  'fifo_per_pair', 'fifo_per_pair_and_tag', 'nontrivial', 'app_received_while_busy'):
            if k in s:
                ctx.add_cov(k, s[k])
        ctx.add_cov('schedules_single_threaded' if mode == 'st' else 'schedules_two_threads_per_rank', s['schedules'])
        ctx.max_cov('max_waves_in_one_schedule', s['max_waves'])
        ctx.max_cov('max_ctl_deliveries_after_quiescence', s['max_ctl_deliveries_after_quiescence'])
        for n, c in enumerate(s['byN'], 1):
            ctx.add_cov('schedules_N%d' % n, c)
        for smp in r.of('sample'):
            ctx.sample({'N': smp['N'], 'waves': smp['waves'], 'reactivations': smp['reactivations'], 'schedule_seed': smp['schedule_seed'],
                        'trace': smp['trace'][:900]})
    # Deterministic scenario (recorded finding): two dynamic-termination taskpools in ONE process, the delayed-message list lock is
    # released by a thread that does not hold it and a message is parked for a taskpool that is already ready.  Its key carries the
    # scenario prefix so that it can never hide a deadlock found by the simulations above.
    sc = ctx.harness('c11_delayed_list', 'rel')
    r = ctx.run([sc, '--attempts', '8'], timeout=900, stall_s=300, tag='two-taskpools')
    st = ctx.absorb(r, 'two taskpools in one process (delayed-message list scenario)', feature='two-taskpools-one-process')
    s = r.summary()
    if s:
        ctx.evaluations += 1
        ctx.cov['two_taskpools_one_process_scenario'] = {k: s[k] for k in ('attempts_allowed', 'lock_released_under_holder', 'window_missed', 'reproduced', 'both_terminated')}
    ctx.distinct.update(hashes)
    ctx.cov['flavours'] = ['asan', 'rel']
    ctx.cov['modes'] = ['single-threaded seeded scheduler (replayable: harness --one <schedule_seed>)', 'two threads per simulated rank (worker + comm), not replayable']
    ctx.cov['trace_legend'] = ('G register, M monitor+preload, R ready, S startup(+tasks), T task, a>b application send, C send complete, '
                               'B recv start, E recv end(+tasks), P parked, D d<s u|f|T control delivery (up/down false/down true), H hold, Q quiescent, !r callback')
