"""C04 — DTD never runs conflicting accesses at the same time (E2: enter/exit stamps, online exclusion counters, AGAIN counting)."""
import os, random
import e2dtd
import c03

META = dict(
    level='exploration', engine='E2 DTD script interpreter harness: stamp/interval checker + online exclusion counters + PINS AGAIN counter',
    technique='runtime monitoring: task bodies stamp entry/exit from one atomic counter and keep per-tile-copy active reader/writer counters (checked online); offline every '
              'conflicting pair of one tile copy must satisfy exit(earlier inserted) < enter(later); PREPARE_INPUT/EXEC PINS callbacks count the writer AGAIN re-schedules; '
              'yield injection after the reader-count test, between reader_retain and successor activation and in the AGAIN path; ASan+UBSan',
    text='Scripts of long reader groups followed by a writer on 1..3 tiles with sleeping reader bodies (0.1-2 ms) run on 2..16 threads, all schedulers, and 2 ranks: no writer '
         'entered while any other accessor of that tile copy was inside, no reader entered while a writer was inside, and every writer entered after all earlier-inserted readers '
         'and writers had exited. A run only counts when reader overlap and at least one writer AGAIN re-schedule were actually observed. Held on the interleavings observed.',
    note='Overlap shorter than a body cannot be seen; on several ranks only accesses to the same physical copy on one rank are ordered by this monitor (a remote write gives '
         'the rank a new copy); trusts the atomic stamp counter and the PINS callback order PREPARE_INPUT -> EXEC on one stream.')

RULE = ('one case = one reader-group script x one configuration; non-trivial = in that run >=1 pair of readers of one group overlapped in stamp time AND >=1 writer task was '
        're-scheduled by PREPARE_INPUT returning AGAIN; distinct = distinct (script digest, configuration)')

FLOORS = (6, 3)


def prebuild(ctx):
    ctx.harness('c03_dtd', 'asan')


def cfg04(rng, ranks=1):
    cores = rng.choice([2, 4, 4, 8, 16]) if ranks == 1 else rng.choice([2, 4])
    sched = rng.choice(e2dtd.SCHEDS)
    if cores <= 2 and sched in ('ip', 'll', 'llp'): sched = rng.choice(['lfq', 'ap', 'gd', 'pbq', 'spq', 'rnd'])   # livelock finding probed separately
    cfg = dict(ranks=ranks, cores=cores, sched=sched)
    if rng.randrange(3) == 0: cfg['window'] = rng.choice([2, 8])
    y = rng.choice([0, 200, 400])
    if y: cfg.update({'yield': y, 'yield_us': rng.choice([20, 100, 300]), 'yseed': rng.randrange(1 << 20)})
    return cfg


def run(ctx):
    thorough = ctx.tier == 'thorough'
    sc = lambda n: max(1, int(round(n * float(os.environ.get('VERIF_E2_SCALE', '1')))))    # scratch trials only
    ctx.rule = RULE
    ctx.assumptions = ['one atomic stamp counter orders enter/exit events of one process', 'PINS PREPARE_INPUT_BEGIN/EXEC_BEGIN callbacks run on the executing stream',
                       'only legal scripts (lib/e2dtd.py header); readers of one group may overlap', 'on >1 ranks only same-copy accesses on one rank are ordered']
    rng = random.Random(ctx.seed * 104729 + 4)
    camp = e2dtd.Campaign(ctx, 'C04', 'asan')
    jobs = []
    n1 = sc(160 if thorough else 12)
    for i in range(n1):
        s = e2dtd.gen(ctx.seed * 100000 + i, world=1, profile='c04', ntasks=rng.randint(30, 200 if thorough else 80))
        for c in range(3 if thorough else 2):
            jobs.append(dict(script=s, cfg=cfg04(rng, 1), kind='rg'))
    # general mixed scripts too (all shapes of conflicts), fewer
    for i in range(sc(40 if thorough else 3)):
        s = e2dtd.gen(ctx.seed * 100000 + 20000 + i, world=1, profile='c03', ntasks=rng.randint(40, 150), nested=(i % 3 == 0), max_np=3)
        jobs.append(dict(script=s, cfg=e2dtd.pick_cfg(rng, 1, thorough, nested=(i % 3 == 0)), kind='mix'))
    for i in range(sc(30 if thorough else 1)):      # reader groups on several ranks hit three recorded multi-rank defects (known findings): low weight in quick
        ranks = 2 if not thorough else rng.choice([2, 2, 3])
        s = e2dtd.gen(ctx.seed * 100000 + 40000 + i, world=ranks, profile='c04', ntasks=rng.randint(20, 50), rounds=1)
        jobs.append(dict(script=s, cfg=cfg04(rng, ranks), kind='rgmp'))
    # low-weight probe of the recorded liveness finding: a demoted writer is re-selected for ever by a LIFO scheduler on one thread
    s = e2dtd.gen(ctx.seed * 100000 + 60000, world=1, profile='c04', ntasks=30)
    jobs.append(dict(script=s, cfg=dict(ranks=1, cores=1, sched='ll'), kind='again1', stall_s=40))
    done = camp.run(jobs, width=16)
    for j in done:
        summ = j.get('summary'); st = j.get('status'); s = j['script']
        ctx.add_cov('runs_%s' % j['kind'], 1); ctx.add_cov('status_%s' % st, 1)
        if st == 'ok' and summ:
            exercised = summ['reader_pairs_overlapped'] > 0 and summ['writer_again'] > 0 and summ['ran'] == summ['tasks']
            ctx.note_case((s.digest(), e2dtd.cfg_str(j['cfg'])), nontrivial=exercised)
            if not exercised: ctx.add_cov('runs_without_reader_overlap_or_again', 1)
            for k in ('tasks', 'order_pairs', 'reader_pairs_overlapped', 'reader_groups', 'reader_groups_overlapped', 'reader_overlap_online', 'again', 'writer_again',
                      'prepare_input', 'yield_hits'):
                ctx.add_cov(k, summ.get(k, 0))
            ctx.max_cov('max_concurrent_readers', summ.get('max_concurrent_readers', 0))
            cov = ctx.cov.setdefault('configs_seen', {})
            for k in ('sched', 'cores', 'ranks'):
                cov.setdefault(k, [])
                if summ.get(k) not in cov[k]: cov[k].append(summ.get(k))
            if exercised:
                ctx.sample(dict(script_head=s.text()[:600], digest=s.digest(), measures=s.measures(), config=j['cfg'],
                                observed={k: summ.get(k) for k in ('order_pairs', 'reader_pairs_overlapped', 'max_concurrent_readers', 'writer_again', 'sched', 'cores')}))
        elif st in ('foreign', 'stalled'):
            ctx.inconclusive_case('%s %s' % (j['kind'], st))
