"""C23 — PTG task keys identify task instances uniquely (E1)."""
import random
import e1suite, e1run, e1gen, e1
import c01

META = dict(
    level='exploration', engine='E1 PTG program generator + reference interpreter + event-log checker',
    technique='runtime monitoring: every body of generated PTG programs calls the class make_key and key_print on its own task; the log is checked offline: keys pairwise distinct within a class over the whole executed space, printed text names the parameter values; ASan+UBSan',
    text='Generated classes with 1..4 parameters, negative lower bounds, strided ranges, ranges depending on earlier parameters (triangular), local-index parameters and derived locals; under both dependency back-ends (the key is also the hash-table key of the dependency tracking). Held on the instances executed.',
    note='Keys are observed on executed (local) instances only; 64-bit overflow of the mixed-radix key needs ranges that cannot be executed and is out of reach.')

RULE = 'case = (generated program, configuration); non-trivial = >=20 instances whose keys were compared; distinct = distinct (program seed, configuration)'


def run(ctx):
    thorough = ctx.tier == 'thorough'
    ctx.rule = RULE
    ctx.assumptions = ['key_print text contains the parameter values as integers in parameter order']
    S = e1suite.Suite(ctx, {'keys', 'once'}, profile='enum')
    nprog = 400 if thorough else 24

    def cfgs(vi, rnd):
        return [e1run.Cfg(sched=rnd.choice(e1suite.SCHEDS), cores=rnd.choice([1, 2, 4]), seed=ctx.seed)]

    def one(i):
        seed = ctx.seed * 100000 + 70000 + i
        rnd = random.Random(seed)
        return S.do_program(i, seed, c01.variants_for(i, rnd), cfgs)

    for rs in ctx.pmap(one, range(nprog), jobs=6): S.account(rs)
    for i in range(3):
        try:
            P, ref, _ = e1gen.generate(ctx.seed * 100000 + 70000 + i, 'enum', name='p%d' % i)
            ctx.sample(e1suite.sample_of(P, ref))
        except e1.ModelError:
            pass
    S.finish_cov()
