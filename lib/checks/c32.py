"""C32 — the concurrent hash table is a linearizable map across resizes (E3: per-key WGL on recorded histories of the
real table with forced resizes and colliding keys; for_all / conservation at quiescence; owner-state stress)."""

META = dict(
    level='exploration', engine='E3 history recorder + per-key WGL linearizability checker',
    technique='runtime monitoring: recorded concurrent insert/find/remove/insert-if-absent histories on the real hash table '
              '(max_collisions_hint 1/2/16, 1..3 initial bits, colliding hash functions, several table generations) checked per key for '
              'linearizability against a map with unique keys (WGL, P-compositional), for_all and conservation checked at quiescence, '
              'owner-state monitor under stress, delays injected at the yield sites of parsec_hash_table.c; ASan+UBSan',
    text='Thousands of short histories (1..16 threads) on fresh tables that are forced through repeated resizes while items sit in '
         'older generations: every key\'s sub-history (plain and bucket-locked spellings, _handle variants, find-then-insert by several '
         'writers) has a linearization; on the quiescent table for_all visits exactly the stored items once, before and after the finds '
         'migrated them; the drained table is empty and is finalised under ASan. Long stress epochs check every result against the '
         'owner\'s knowledge of its keys. Held on the histories observed; interleavings are sampled.',
    note='Trusts the register-with-presence model, the stamp counter and the WGL checker; max_collisions_hint / max_table_nb_bits are set '
         'on the table object (the fields the MCA parameters initialise). Results are compared as pointers, never dereferenced.')

RULE = ('one case = one recorded history on a fresh table (<= 16 threads x <= 12 operations + sequential ballast inserts, final finds and '
        'drain), judged per key by WGL and by the for_all/conservation checks; non-trivial = operations of different threads overlapped '
        'in stamp time AND the table was resized at least once during the history; distinct = distinct interleaving signatures')

FLOORS = (300, 100)


def absorb_ubsan_stderr(ctx, r, what):
    """UBSan prints its non-fatal reports on stderr in this gcc build (the driver scans log files only)."""
    import re, vfcore
    for b in re.split(r'(?m)^(?=\S+:\d+:\d+: runtime error)', r.stderr or ''):
        if 'runtime error' in b and not any(b.strip()[:120] == x.strip()[:120] for x in r.san):
            ctx.violation(vfcore.san_key(b), '%s sanitizer report: %s' % (what, b.strip().splitlines()[0][:300]), r)


def exe(ctx, flavour):
    return ctx.harness('c32_ht', flavour)


def prebuild(ctx):
    for f in ('asan', 'rel'):
        exe(ctx, f)


def run(ctx):
    thorough = ctx.tier == 'thorough'
    ctx.rule = RULE
    ctx.assumptions = ['per-key model: absent or one item; insert needs absent (client discipline: single owner / find-then-insert under the bucket lock)',
                       'a map with unique keys is linearizable iff every per-key sub-history is (P-compositionality)',
                       'the same item re-inserted under the same key is not distinguished by generation (can only make the oracle more permissive)',
                       'resizes counted as growth of rw_hash->nb_bits; table generations as the length of the next chain at quiescence']
    nh = 2000 if thorough else 100
    rounds = 100000 if thorough else 6000
    jobs = []
    n = 0
    for flavour in ('asan', 'rel'):
        e = exe(ctx, flavour)
        for (t, ops) in ((1, 12), (2, 12), (3, 10), (4, 10), (8, 6), (16, 3)):
            for y in ((0, 0), (250, 0), (300, 25)):
                if t == 1 and y[0]:
                    continue
                n += 1
                k = nh * (2 if flavour == 'rel' else 1) // (3 if y[1] else 1)
                jobs.append(dict(kind='hist', flavour=flavour, threads=t, tag='h%d' % n,
                                 cmd=[e, '--mode', 'hist', '--threads', t, '--ops', ops, '--histories', max(20, k), '--seed', ctx.seed * 1000 + n, '--yield', y[0], '--yield-us', y[1]]))
        # long delays (<= 1.5 ms) at the table's yield sites, few histories: a whole resize by another thread fits inside a delay
        for (t, ops) in ((3, 10), (4, 10), (6, 8)):
            n += 1
            jobs.append(dict(kind='hist', flavour=flavour, threads=t, tag='h%d' % n,
                             cmd=[e, '--mode', 'hist', '--threads', t, '--ops', ops, '--histories', max(20, nh // 4), '--seed', ctx.seed * 1000 + n, '--yield', 500, '--yield-us', 1500]))
        # waves: all threads fill a fresh table through its generations, then all drain it at once (traffic on the older tables);
        # plus epochs of random mixed operations
        wave_epochs = 4000 if thorough else 250
        for (t, keys, hint, hm, y, rnds, eps) in ((8, 128, 16, 0, 0, 0, wave_epochs), (16, 64, 16, 0, 0, 0, wave_epochs), (8, 128, 2, 0, 0, 0, wave_epochs // 2),
                                                  (4, 256, 16, 0, 100, 0, wave_epochs // 2), (8, 64, 16, 5, 0, 0, wave_epochs // 2), (3, 100, 1, 0, 300, 0, wave_epochs // 2),
                                                  (8, 128, 1, 0, 0, rounds, 4), (16, 64, 2, 0, 100, rounds, 4), (4, 256, 1, 13, 200, rounds, 4),
                                                  (6, 96, 1, 0, 501, 0, max(20, wave_epochs // 8)), (4, 64, 2, 0, 501, rounds // 6, 2)):
            n += 1
            jobs.append(dict(kind='stress', flavour=flavour, threads=t, tag='s%d' % n,
                             cmd=[e, '--mode', 'stress', '--threads', t, '--keys', keys, '--shared', 8, '--hint', hint, '--hmod', hm, '--maxbits', 12 if hm == 0 else 9,
                                  '--rounds', rnds, '--epochs', eps, '--seed', ctx.seed * 1000 + n, '--yield', y] + (['--yield-us', 1500] if y == 501 else [])))

    def one(j):
        if ctx.violations:
            return j, None, 'skipped'       # a witness exists: skip the remaining runs
        what = '%s %s' % (j['flavour'], ' '.join(str(c) for c in j['cmd'][1:]))
        k = [0]

        def runner():
            k[0] += 1
            return ctx.run([str(c) for c in j['cmd']], timeout=14400 if thorough else 900, stall_s=90, tag='%s-%d' % (j['tag'], k[0]))
        # stall rule: a job that makes no progress is run again with the same input; twice = "no progress" violation keyed by the
        # blocked frames, once = inconclusive (counted below)
        r, st = ctx.run_with_stall_rule(runner, what)
        if k[0] > 1 and st not in ('violation', 'known'): st = 'stalled'
        absorb_ubsan_stderr(ctx, r, what)
        return j, r, st

    res = ctx.pmap(one, [j for j in jobs if j['threads'] <= 4], jobs=3) + ctx.pmap(one, [j for j in jobs if j['threads'] > 4], jobs=2)
    nstalled = 0
    for j, r, st in res:
        if r is None:
            continue
        what = '%s %s' % (j['flavour'], ' '.join(str(c) for c in j['cmd'][1:]))
        if st == 'stalled':
            nstalled += 1
            continue
        s = r.summary()
        if not s:
            continue
        if j['kind'] == 'hist':
            ctx.evaluations += s['histories']; ctx.nontrivial_extra += s['distinct']; ctx.inconclusive += s['inconclusive_keys']
            for k in ('linearizable', 'overlapped', 'with_resize', 'ops', 'resizes', 'key_histories', 'key_histories_concurrent', 'insert_if_absent_found_other',
                      'finds_of_ballast_hit', 'hint1', 'hint2', 'hint16', 'resize0', 'resize1', 'resize2', 'resize3plus'):
                ctx.add_cov('hist_' + k, s[k])
            ctx.max_cov('max_table_generations_at_quiescence', s['max_levels'])
            ctx.add_cov('yield_hits', s['yield_hits'])
            for h in [h for h in r.of('history') if h['why'] == 'sample'][:1]:
                ctx.sample({'threads': s['threads'], 'flavour': j['flavour'], 'shared_key_history': h['ops'][:600]}, cap=5)
        else:
            ctx.evaluations += s['epochs']; ctx.add_cov('stress_epochs', s['epochs'])
            for k in ('ops', 'finds_other', 'shared_inserted', 'shared_removed', 'resizes', 'generations_after_grow_sum'):
                ctx.add_cov('stress_' + k, s[k])
            ctx.add_cov('yield_hits', s['yield_hits'])
    ctx.cov['jobs_stalled_once'] = nstalled
    # hangs of a lock-protected structure are race dependent: the same input need not hang twice.  Many independent jobs each
    # stalling once in ONE run is "no progress" all the same (on the unchanged tree no job ever stalled, loaded box included)
    if nstalled >= 5 and nstalled * 4 >= len(res):
        ctx.violation('ht:stall:recurring', '%d of %d jobs made no progress once each (not reproducible case by case)' % (nstalled, len(res)))
    ctx.cov['thread_counts'] = [1, 2, 3, 4, 8, 16]
    ctx.cov['flavours'] = ['asan', 'rel']
