"""C40 — virtual-process maps match their specification (E7: one process per map specification)."""
import os, random, re, hashlib, glob

META = dict(
    level='exploration', engine='E7 one process per vpmap specification + python model of the specification',
    technique='runtime monitoring: after parsec_init the process reports parsec_vpmap_get_* results, the context (vps, streams, core ids), parsec_context_query and the OS affinity of every thread; python compares them with the map specification and the process cpuset; malformed specifications must end in a usable context or a clean error; ASan+UBSan+assertions on the parsers; stall rule',
    text='Seeded map specifications (default, flat, hwloc, display: prefixes, rr:n:p:c, file maps with core lists / hex masks / range expressions / rank prefixes / missing newline, unreadable and empty files, and malformed strings) are combined with core counts -1..1000 and process cpusets set with taskset (all, ranges, scattered sets, one cpu). For every process: number of vps and threads per vp against the specification, vpmap getters against the context, candidate binding resources within the available ones, every OS thread affinity within the process cpuset, hwloc maps one core per thread, and the context must start, wait and finalise. Held on the specifications generated; on this machine (one package, no SMT) multi-socket hwloc maps cannot occur.',
    note='rr: and file: maps crash on the unchanged tree (recorded findings, keyed by the parser function in which the process dies), so the comparison against the specification is only exercised on flat / hwloc / fallback forms; trusts the python model and /sys topology; hwloc logical core index == OS cpu index is verified per run before it is used.',
    design_ref='DESIGN.md §4 C40, §6.9, §3 E7')

RULE = ('one case = one process = (vpmap specification, map file content, core count, process cpuset); non-trivial = the specification reached the vpmap parser and the process '
        'either built a context that was compared with the model or ended in a classified way; distinct = distinct hashes of the case tuple')

FLOORS = (40, 30)
VPMAP_FUNCS = ('parse_binding_parameter', 'parsec_vpmap_init_from_file', 'parsec_vpmap_init_from_parameters', 'parsec_vpmap_init_from_hardware_affinity',
               'parsec_vpmap_init_from_flat', 'parsec_vpmap_init', 'parsec_vpmap_get_vp_thread_affinity', 'parsec_vpmap_get_vp_threads', 'parsec_vpmap_fini',
               'parsec_vpmap_display_map')


def ncpus():
    return len(os.sched_getaffinity(0))


def parse_list(s):
    out = set()
    if s in ('', 'NULL', None):
        return out
    for part in s.split(','):
        if '-' in part:
            a, b = part.split('-'); out |= set(range(int(a), int(b) + 1))
        else:
            out.add(int(part))
    return out


def form_of(spec):
    if spec is None: return 'default'
    s = spec[8:] if spec.startswith('display:') else spec
    if s == 'flat': return 'flat'
    if s == 'hwloc': return 'hwloc'
    if re.fullmatch(r'rr:-?\d+:-?\d+:-?\d+.*', s): return 'rr'
    if s.startswith('file:'): return 'file'
    return 'malformed'


class Case:
    def __init__(self, cid, spec, cores, cpuset, filetext=None, kind=None):
        self.cid = cid; self.spec = spec; self.cores = cores; self.cpuset = cpuset; self.filetext = filetext
        self.form = form_of(spec); self.kind = kind or self.form
        # the form used in violation keys: a map file that cannot be opened (documented fallback to the flat map) is its own class,
        # so that the recorded findings about parsable-but-mishandled files can never absorb a failure of the fallback path
        self.keyform = 'file-unopenable' if (self.form == 'file' and filetext is None) else self.form

    def binding_form(self):
        """which of the three documented binding syntaxes the description that reaches parse_binding_parameter uses
        (the last description of this rank: the only one parsec_vpmap_init_from_file keeps today)"""
        last = None
        for l in (self.filetext or '').split('\n'):
            if ':' in l and (l.startswith(':') or re.match(r'\s*0+\s*:', l)):
                last = l
        if last is None: return 'none'
        f = last.split(':', 2)
        b = f[2] if len(f) > 2 else ''
        return 'mask' if 'x' in b else 'range' if ';' in b else 'list' if b.strip() else 'empty'

    def ident(self):
        return hashlib.sha1(repr((self.spec if self.filetext is None else 'file', self.cores, sorted(self.cpuset) if self.cpuset else None, self.filetext)).encode()).hexdigest()[:16]

    def describe(self):
        d = {'vpmap': self.spec, 'cores_arg': self.cores, 'cpuset': sorted(self.cpuset) if self.cpuset else 'all'}
        if self.filetext is not None: d['file'] = self.filetext[:200]
        return d


def gen_cases(rng, n, ncpu, thorough):
    allc = list(range(ncpu))

    def cpuset():
        k = rng.random()
        if k < 0.35 or ncpu < 4: return None
        if k < 0.6:
            a = rng.randrange(ncpu - 1); b = rng.randrange(a + 1, ncpu); return set(range(a, b + 1))
        if k < 0.9: return set(rng.sample(allc, rng.randint(2, ncpu - 1)))
        return {rng.randrange(ncpu)}

    def cores():
        return rng.choice([-1, 0, 0, 1, 2, 3, 4, 5, 7, 8, ncpu - 1, ncpu, ncpu + 1, 2 * ncpu, 1000] + list(range(1, ncpu + 1)))

    malformed = ['', 'bogus', 'flatx', 'hwloc2', 'FLAT', 'rr', 'rr:', 'rr:2', 'rr:2:2', 'rr:a:b:c', 'rr::2:4', 'rr:2:2:', 'rr:2:x:4', 'display', 'display:', 'display:bogus', 'displayflat',
                 'display:rr:2:2', 'file:', 'file:/nonexistent/map', 'file:/root/.no-such-file', ':', '::::', 'rr:2 :2:4', ' flat', 'flat ', 'hwloc:4', 'x' * 4000,
                 'rr:99999999999999999999:1', 'file', 'fil:e', '%s%s%n', 'display:file:/nonexistent']
    out = []
    for i in range(n):
        k = rng.random()
        if k < 0.12: spec = None
        elif k < 0.34: spec = 'flat'
        elif k < 0.56: spec = 'hwloc'
        elif k < 0.66: spec = rng.choice(('display:flat', 'display:hwloc'))
        else: spec = rng.choice(malformed)
        out.append(Case('g%04d' % i, spec, cores(), cpuset()))
    # ---- every fallback path of the parser is visited in every run (not left to the random draw): unopenable map files,
    #      empty and unparsable specifications must all end in a usable (flat) context
    for j, spec in enumerate(['file:', 'file:/nonexistent/map', 'display:file:/nonexistent', '', 'bogus', 'rr:', 'rr:2:x:4', 'display:bogus']):
        out.append(Case('m%02d' % j, spec, rng.choice((0, 2, 4)), None))
    # ---- forms that are known not to work on the unchanged tree: kept at low weight (a handful of processes), every parser entry point visited
    nrr = 6 if thorough else 2
    for i in range(nrr):
        out.append(Case('r%02d' % i, rng.choice(('rr:2:2:4', 'rr:1:1:1', 'rr:4:2:8', 'display:rr:2:1:2', 'rr:0:0:0', 'rr:-1:2:4', 'rr:2:2:4:junk')), rng.choice((0, 4)), None, kind='rr'))
    files = [('one vp, rank prefix, core list', '0:2:0,1\n'),
             ('two vps, core lists', '0:2:0,1\n0:2:2,3\n'),
             ('two vps, hex masks, last line without newline', '0:2:0x3\n0:2:0xc'),
             ('two vps, short mask at end of file', '0:1:0\n0:1:0x'),
             ('two vps, range expressions', '0:2:0;3;1\n0:2:;;2\n'),
             ('no rank prefix', ':2:0,1\n'),
             ('other rank only', '1:2:0,1\n'),
             ('empty file', ''),
             ('comment only', '# nothing here\n\n'),
             ('two vps, list with range and too many threads', '0:3:1-2\n0:2:9999,0\n'),
             ('two vps, no binding field', '0:2\n0:1\n'),
             ('three vps mixed', '0:1:1\n:2:0x6\n0:2:0;1\n'),
             ('two vps, mask one char', '0:2:0,1\n0:2:x'),
             ('two vps, negative and large counts', '0:-3:0\n0:64:0\n'),
             ('two vps, default range expression at end of file', '0:1:0\n0:1:;'),
             ('two vps, core range longer than the thread count', '0:1:0\n0:1:0-3\n')]
    pick = files if thorough else [files[j] for j in (0, 1, 2, 3, 4, 5, 7, 8, 12)]
    for j, (kind, txt) in enumerate(pick):
        out.append(Case('f%02d' % j, 'file:@', rng.choice((0, 2, 4)), None, filetext=txt, kind='file: ' + kind))
    if thorough:
        for j in range(n // 25):       # random file maps
            lines = []
            for _ in range(rng.randint(1, 4)):
                rank = rng.choice(('0', '', '0', '1'))
                nth = rng.choice(('1', '2', '3', '0', '-1', '', '2.5', '16'))
                b = rng.choice(('0,1', '0-3', '0x3', '0xff', 'x', '0x', ';', '0;3', ';;2', '1;2;1', '15', '99', '', '0,', ',', '-', '1-', '0x0', 'zz'))
                lines.append(rank + ':' + nth + (':' + b if rng.random() < 0.9 else ''))
            txt = '\n'.join(lines) + ('\n' if rng.random() < 0.6 else '')
            out.append(Case('F%03d' % j, 'file:@', rng.choice((0, 2, 4)), cpuset(), filetext=txt, kind='file: random'))
    return out


def crash_site(r):
    """innermost parsec function of an abnormal end: the first frame inside vpmap.c, else the first frame inside /repo; None if nothing is known"""
    txt = '\n'.join(r.san) + '\n' + (r.stderr or '')
    m = re.search(r"(\S+?):(\d+): (\S+): Assertion `(.*?)' failed", txt)
    if m:
        return m.group(3)
    frames = re.findall(r'#\d+\s+0x[0-9a-f]+\s+in\s+(\S+)\s+(\S+)', txt)
    for fn, loc in frames:
        if '/vpmap.c' in loc or fn in VPMAP_FUNCS:
            return fn
    for fn, loc in frames:
        if '/parsec/' in loc and '/verif/' not in loc and not fn.startswith('__'):
            return fn
    return None


def run(ctx):
    thorough = ctx.tier == 'thorough'
    ctx.rule = RULE
    ctx.assumptions = ['python model of the map specification: flat/default = 1 vp with min(-c, available cores) threads (all when -c <= 0); hwloc = the same number of threads, one core per thread, one vp per package',
                       'available cores = cpus of the process cpuset (taskset); no SMT on this machine (checked from /sys), otherwise the thread-count oracle is skipped',
                       'malformed specifications: any self-consistent context inside the cpuset, or an exit without signal / sanitizer report, is accepted',
                       'crashes with rr: / file: maps are keyed by the innermost vpmap.c (else parsec) function; only listed keys are tolerated',
                       'a stall counts only when it repeats (stall rule)']
    exes = {'asan': ctx.harness('c40_vpmap', 'asan', extra_ldflags=['-lhwloc']), 'rel': ctx.harness('c40_vpmap', 'rel', extra_ldflags=['-lhwloc'])}
    ncpu = ncpus()
    smt = False
    for f in glob.glob('/sys/devices/system/cpu/cpu[0-9]*/topology/thread_siblings_list'):
        if re.search(r'[,-]', open(f).read().strip()):
            smt = True
    packages = set()
    for f in glob.glob('/sys/devices/system/cpu/cpu[0-9]*/topology/physical_package_id'):
        packages.add(open(f).read().strip())
    rng = random.Random(ctx.seed * 4001 + 40)
    cases = gen_cases(rng, 600 if thorough else 56, ncpu, thorough)

    def one(c):
        d = os.path.join(ctx.work, 'case-' + c.cid); os.makedirs(d, exist_ok=True)
        env = {'PARSEC_MCA_runtime_warn_slow_binding': '1'}
        spec = c.spec
        if c.filetext is not None:
            mp = os.path.join(d, 'vpmap.txt'); open(mp, 'w').write(c.filetext); spec = 'file:' + mp
        if spec is not None:
            env['PARSEC_MCA_runtime_vpmap'] = spec
        # well-formed maps alternate between the sanitizer build and the production build (different allocator, no assertions);
        # everything that stresses a parser runs under ASan
        flavour = 'rel' if (c.form in ('default', 'flat', 'hwloc') and int(c.cid[1:]) % 2) else 'asan'
        c.flavour = flavour
        cmd = [exes[flavour], '--cores', str(c.cores)]
        if c.cpuset:
            cmd = ['taskset', '-c', ','.join(map(str, sorted(c.cpuset)))] + cmd
        return c, cmd, env

    # The generic absorb() keys crashes by sanitizer kind; this property keys them by parser entry point, so triage is done here.
    def judge(c, cmd, env):
        what = 'vpmap=%r cores=%d cpuset=%s' % ((c.spec or 'unset')[:60] + ('' if c.filetext is None else ' <%s>' % c.kind), c.cores, sorted(c.cpuset) if c.cpuset else 'all')
        r = ctx.run(cmd, env=env, timeout=900, stall_s=150, tag='c40-' + c.cid)
        if r.stalled or r.timed_out:
            r2 = ctx.run(cmd, env=env, timeout=900, stall_s=150, tag='c40-' + c.cid + '-again')
            if r2.stalled or r2.timed_out:
                bt = r2.backtraces or r.backtraces or ''
                site = None
                main_thread = [b for b in bt.split('\nThread ') if b.startswith('1 (')]       # parsec_init runs on the main thread
                for fn, loc in re.findall(r'#\d+\s+(?:0x[0-9a-f]+\s+in\s+)?(\S+)\s+\(.*?\)\s+at\s+(\S+)', main_thread[0] if main_thread else bt):
                    if '/parsec/' in loc and '/verif/' not in loc:
                        site = fn; break
                return c, r2, what, ('stall', 'vpmap:%s:stall:%s' % (c.keyform, site) if site else None)
            r = r2
        return c, r, what, None

    prepared = [one(c) for c in cases]
    results = ctx.pmap(lambda p: judge(*p), prepared, jobs=10)
    for c, r, what, stall in results:
        files = {'input.json': c.describe()}
        ctx.add_cov('form_' + c.form); ctx.add_cov('flavour_' + c.flavour)
        if c.cpuset: ctx.add_cov('with_taskset')
        if stall:
            if stall[1] is None:      # stalled twice but no backtrace of the main thread could be taken: cannot be classified
                ctx.inconclusive_case('stalled twice, no backtrace: ' + what[:100]); continue
            ctx.violation(stall[1], '%s made no progress twice (main thread blocked in %s)' % (what, stall[1].split(':')[-1]), r, files)
            ctx.note_case(c.ident()); ctx.add_cov('stalls'); continue
        s = r.summary()
        abnormal = bool(r.san) or r.signal is not None or 'Assertion' in (r.stderr or '')
        if abnormal:
            site = crash_site(r) or 'unknown'
            kind = 'assert' if 'Assertion `' in (r.stderr or '') + ''.join(r.san) else ('asan' if any('AddressSanitizer' in x for x in r.san) else 'ubsan' if r.san else 'signal%s' % r.signal)
            head = ''
            for x in r.san:
                if x.strip(): head = x.strip().splitlines()[0][:200]; break
            if kind == 'asan':       # the sanitizer's own classification (heap-buffer-overflow, allocation-size-too-big, SEGV, ...) is part of the key
                m = re.search(r'SUMMARY: AddressSanitizer: (\S+)', ''.join(r.san)) or re.search(r'ERROR: AddressSanitizer: (\S+)', ''.join(r.san))
                kind = m.group(1) if m else 'asan'
            if kind == 'ubsan' and s and s.get('ok'):
                key = 'vpmap:%s:ubsan-in:%s' % (c.keyform, site)
            else:
                key = 'vpmap:%s:crash-in:%s:%s' % (c.keyform, site, kind)
                if site == 'parse_binding_parameter':
                    key += ':' + c.binding_form()
            ctx.violation(key, '%s: process ended abnormally (%s) in %s: %s' % (what, kind, site, head or (r.stderr or '')[-200:]), r, files)
            ctx.note_case(c.ident()); ctx.add_cov('abnormal_ends')
            continue
        if not s:
            # no summary, no signal, no report: a clean error exit is acceptable only for malformed / unsupported specifications
            if r.rc not in (0, None) and c.form in ('malformed', 'file', 'rr') and (r.stderr or '').strip():
                ctx.note_case(c.ident()); ctx.add_cov('clean_error_exits'); continue
            ctx.harness_failures.append('%s: rc=%s without summary; stderr=%s' % (what, r.rc, (r.stderr or '')[-300:])); continue
        if not s.get('ok'):
            if c.form in ('malformed', 'file', 'rr'):
                ctx.note_case(c.ident()); ctx.add_cov('clean_error_exits'); continue
            ctx.violation('vpmap:%s:init-failed' % c.keyform, '%s: parsec_init returned NULL' % what, r, files); continue
        # ---------------- a context was built: compare with the specification
        start = r.of('start')[0]; vm = r.of('vpmap')[0]; cx = r.of('context')[0]; osv = r.of('os')[0]
        avail = set(start['cpuset']); A = len(avail)
        T = A if c.cores <= 0 else min(c.cores, A)
        bad = []
        threads = [v['threads'] for v in vm['vps']]
        if vm['nb_vp'] != len(vm['vps']) or vm['nb_vp'] != cx['nb_vp'] or threads != [v['nb_cores'] for v in cx['vps']]:
            bad.append(('context-differs-from-map', 'vpmap says %d vps %s, context has %d vps %s' % (vm['nb_vp'], threads, cx['nb_vp'], [v['nb_cores'] for v in cx['vps']])))
        if vm['nb_vp'] < 1 or any(t < 1 for t in threads):
            bad.append(('empty-map', 'map has %d vps with threads %s' % (vm['nb_vp'], threads)))
        for v in cx['vps']:
            if [e[0] if e else None for e in v['es']] != list(range(len(v['es']))) or len(v['es']) != min(v['nb_cores'], 64):
                bad.append(('stream-ids', 'vp %d streams %s' % (v['vp_id'], v['es'])))
        if vm['threads_of_vp_beyond'] >= 0 or vm['threads_of_vp_minus1'] >= 0:
            bad.append(('getter-range', 'get_vp_threads outside [0,nb_vp) returned %d / %d' % (vm['threads_of_vp_beyond'], vm['threads_of_vp_minus1'])))
        if cx['query_rank'] != 0 or cx['query_nodes'] != 1:
            bad.append(('context-query', 'query rank %d nodes %d in a singleton run' % (cx['query_rank'], cx['query_nodes'])))
        # candidate binding resources are indexes into the available cores
        for vi, v in enumerate(vm['vps']):
            for ti, a in enumerate(v['aff']):
                if a == 'NULL':
                    bad.append(('no-affinity', 'vp %d thread %d has no affinity set' % (vi, ti))); continue
                idx = parse_list(a)
                if idx and max(idx) >= A:
                    bad.append(('candidate-outside-available', 'vp %d thread %d may bind to resource %d of %d available' % (vi, ti, max(idx), A)))
        # every OS thread inside the process cpuset; bound streams on allowed cores
        for t in osv['affinity']:
            if not set(t['cpus']) <= avail:
                bad.append(('binding-outside-cpuset', 'thread %d is allowed on %s, process cpuset is %s' % (t['tid'], t['cpus'], sorted(avail))))
        if parse_list(cx['allowed']) == avail:           # logical index == OS index on this machine: verified, then used
            for v in cx['vps']:
                for e in v['es']:
                    if e and e[1] != -1 and e[1] not in avail:
                        bad.append(('binding-outside-cpuset', 'stream %d of vp %d bound to core %d, process cpuset is %s' % (e[0], v['vp_id'], e[1], sorted(avail))))
            ctx.add_cov('core_ids_checked', sum(len(v['es']) for v in cx['vps']))
        if c.form in ('default', 'flat', 'hwloc') and not smt:
            if sum(threads) != T:
                bad.append(('thread-count', '%d threads for -c %d on %d available cores (specification: %d)' % (sum(threads), c.cores, A, T)))
            if c.form != 'hwloc' and vm['nb_vp'] != 1:
                bad.append(('nb_vp', 'flat map with %d vps' % vm['nb_vp']))
            if c.form == 'hwloc':
                if len(packages) <= 1 and vm['nb_vp'] != 1:
                    bad.append(('nb_vp', 'hwloc map with %d vps on a one-package machine' % vm['nb_vp']))
                sets = [frozenset(parse_list(a)) for v in vm['vps'] for a in v['aff']]
                if any(len(x) != 1 for x in sets) or len(set(sets)) != len(sets):
                    bad.append(('not-one-core-per-thread', 'hwloc map candidate sets %s' % [sorted(x) for x in sets][:8]))
            if vm['nb_total_threads'] != sum(threads):
                bad.append(('nb_total_threads', 'parsec_vpmap_get_nb_total_threads() = %d, the map has %d threads' % (vm['nb_total_threads'], sum(threads))))
        if s.get('ran') and (s['start_rc'] != 0 or s['wait_rc'] != 0):
            bad.append(('unusable-context', 'context start/wait returned %d/%d' % (s['start_rc'], s['wait_rc'])))
        for k, txt in bad:
            ctx.violation('vpmap:%s:%s' % (c.keyform, k), '%s: %s' % (what, txt), r, files)
        ctx.note_case(c.ident())
        ctx.add_cov('contexts_compared'); ctx.add_cov('threads_observed', sum(threads)); ctx.add_cov('os_threads_checked', len(osv['affinity']))
        ctx.max_cov('max_threads_in_a_map', sum(threads))
        if not bad and len(ctx.samples) < 5 and (c.cpuset or len(ctx.samples) < 2):
            d = c.describe(); d['observed'] = {'nb_vp': vm['nb_vp'], 'threads': threads, 'candidates': [v['aff'][:6] for v in vm['vps']],
                                                'stream_core_ids': [[e[1] for e in v['es'][:8]] for v in cx['vps']], 'specification_threads': T}
            ctx.sample(d)
    ctx.cov['machine'] = {'cpus': ncpu, 'smt': smt, 'packages': len(packages)}


def prebuild(ctx):
    ctx.harness('c40_vpmap', 'asan', extra_ldflags=['-lhwloc'])
    ctx.harness('c40_vpmap', 'rel', extra_ldflags=['-lhwloc'])
