"""C02 — PTG execution respects dependencies and delivers the named data (E1)."""
import random
import e1suite, e1run, e1gen, e1
import c01

META = dict(
    level='exploration', engine='E1 PTG program generator + reference interpreter + event-log checker',
    technique='runtime monitoring: per-instance body log (logical enter/exit stamps, value observed on every input flow, whole-tile integrity) of generated PTG programs checked offline against a reference interpreter: predecessor-exit < successor-enter on every edge, every input equals the reference value, final collection equals the sequential reference; ASan+UBSan',
    text='Generated programs stressing routing (ternary guards, alternative inputs incl. NEW/NULL/collection, strided and triangular fan-out, CTL gathers, RW chains through the collection, reduction trees, two-input wavefronts) run under both dependency back-ends, 11 schedulers, 1..16 threads, with sleeping bodies and yield injection in the dependency-update code; unique per-instance values identify the exact (wrong or stale) producer. Held on the programs/configurations executed.',
    note='Trusts the reference interpreter and the stamp counter (one atomic per process); values are 8-byte tags replicated through the tile; datatype conversion and multi-rank delivery are C18/C05.')

RULE = ('case = (generated program, ptgpp options, run configuration); non-trivial = >=20 instances, >=1 task-to-task edge checked; '
        'distinct = distinct (program seed, configuration) pairs')


def run(ctx):
    thorough = ctx.tier == 'thorough'
    ctx.rule = RULE
    ctx.assumptions = ['reference interpreter; generator validity rules (a produced version goes to N readers or one writer; collection keys accessed in a total order)',
                       'ordering is judged only between instances of the same process (one stamp counter per process)']
    S = e1suite.Suite(ctx, {'order', 'values', 'final', 'once'}, profile='route')
    nprog = 300 if thorough else 16

    def extra(c, rnd):
        c.sleep = (rnd.choice([0, 100, 100, 300]), 400)
        if rnd.random() < 0.5: c.yield_ = '%d:%d:%d' % (ctx.seed, rnd.choice([100, 300]), rnd.choice([0, 30]))
        c.ts = rnd.choice([1, 1, 8, 64])

    def one(i):
        seed = ctx.seed * 100000 + 50000 + i
        rnd = random.Random(seed)
        return S.do_program(i, seed, c01.variants_for(i, rnd), c01.cfg_sampler(ctx, thorough, extra))

    for rs in ctx.pmap(one, range(nprog), jobs=6): S.account(rs)
    for i in range(3):
        try:
            P, ref, _ = e1gen.generate(ctx.seed * 100000 + 50000 + i, 'route', name='p%d' % i)
            ctx.sample(e1suite.sample_of(P, ref))
        except e1.ModelError:
            pass
    S.finish_cov()
