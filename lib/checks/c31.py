"""C31 — lists and dequeues keep their contents and order (sequential model comparison for every list / ring
operation incl. sorted insertion and sort; WGL linearizability for the locked variants; conservation stress)."""

META = dict(
    level='exploration', engine='sequential model harness + E3 history recorder / WGL checker',
    technique='runtime monitoring: every list, dequeue, fifo and item-ring operation of random sequences is compared with a sequential '
              'model and followed by a full forward/backward link check; recorded concurrent histories of the locked operations are '
              'searched for a linearization (WGL) against deque / sorted-sequence models; conservation and single-ownership monitor '
              'under stress; ASan+UBSan',
    text='Random operation sequences (push/pop front/back, chain, unchain, remove, add_before/after, contains, sort, push_sorted, '
         'chain_sorted, ring_push_sorted, ring_chop; locked, nolock, fifo and dequeue spellings) with tie-heavy, negative and extreme '
         'priorities run against a model: contents and links equal after every step; sorted insertion keeps the list non-increasing '
         'with the new element after the existing ones of equal priority; sort yields a monotone permutation in one direction '
         '(direction recorded, not demanded); ring insertion keeps the ring monotone. Short concurrent histories (2..6 threads) of the '
         'locked operations, incl. sorted insertion and the locked sort, are checked for linearizability, structure and conservation '
         'at quiescence. Held on the sequences and histories observed.',
    note='Trusts the array model, the stamp counter and the WGL checker in the harness; histories over the node budget are inconclusive. '
         'The header-only list code is compiled into the harness from the tree.')

RULE = ('sequential: one case = one random operation sequence (8..68 operations on an unsorted list, a sorted list and a ring); '
        'non-trivial = at least 3 operations changed a structure; distinct = distinct operation sequences (hash). concurrent: one case = '
        'one recorded history (<= 37 operations); non-trivial = operations of different threads overlapped in stamp time; distinct = '
        'distinct interleaving signatures')

FLOORS = (500, 100)


def absorb_ubsan_stderr(ctx, r, what):
    """In this gcc build UBSan prints its (non-fatal) reports on stderr instead of the log_path files the driver scans:
    route those blocks through the same key builder and the known-findings matching."""
    import re, vfcore
    hit = False
    for b in re.split(r'(?m)^(?=\S+:\d+:\d+: runtime error)', r.stderr or ''):
        if 'runtime error' in b and not any(b.strip()[:120] == x.strip()[:120] for x in r.san):
            hit |= bool(ctx.violation(vfcore.san_key(b), '%s sanitizer report: %s' % (what, b.strip().splitlines()[0][:300]), r))
    return hit


def exe(ctx, flavour):
    return ctx.harness('c31_list', flavour)


def prebuild(ctx):
    for f in ('asan', 'rel'):
        exe(ctx, f)


def run(ctx):
    thorough = ctx.tier == 'thorough'
    ctx.rule = RULE
    ctx.assumptions = ['sequential array model of a deque; sorted insertion position = before the first strictly smaller element',
                       'chain_sorted: the order among the chained elements of equal priority is not judged (not stated by the property)',
                       'sort and ring direction are recorded and must only be the same on every input',
                       'try_pop may return NULL spuriously only when it overlaps another operation (lock busy)',
                       'concurrent chain_sorted rings and sort inputs use pairwise distinct priorities so that the model result is unique',
                       'histories above the WGL node budget are inconclusive, not violations']
    nseq = 400000 if thorough else 3000
    nh = 6000 if thorough else 330
    rounds = 2000000 if thorough else 120000
    jobs = []
    n = 0
    for flavour in ('asan', 'rel'):
        e = exe(ctx, flavour)
        for k in range(2):
            n += 1
            jobs.append(dict(kind='seq', flavour=flavour, tag='q%d' % n, cmd=[e, '--mode', 'seq', '--sequences', nseq // 2, '--seed', ctx.seed * 1000 + n, '--len', 60 if k == 0 else 24]))
        for i, (t, ops) in enumerate(((2, 14), (3, 10), (4, 8), (6, 6))):
            n += 1
            jobs.append(dict(kind='hist', flavour=flavour, tag='h%d' % n,
                             cmd=[e, '--mode', 'hist', '--threads', t, '--ops', ops, '--histories', nh if flavour == 'asan' else nh * 2, '--seed', ctx.seed * 1000 + n,
                                  '--types', 'list,fifo,dequeue,sorted,sort', '--sort-weight', 10 if thorough else 4]))
        for t, ne in ((8, 24), (16, 6), (3, 4)):
            n += 1
            jobs.append(dict(kind='stress', flavour=flavour, tag='s%d' % n, cmd=[e, '--mode', 'stress', '--threads', t, '--elements', ne, '--rounds', rounds, '--seed', ctx.seed * 1000 + n]))

    def one(j):
        if ctx.violations:
            return j, None, 'skipped'       # a witness exists: skip the remaining runs
        r = ctx.run([str(c) for c in j['cmd']], timeout=14400 if thorough else 900, stall_s=90, tag=j['tag'])
        what = '%s %s' % (j['flavour'], ' '.join(str(c) for c in j['cmd'][1:]))
        st = ctx.absorb(r, what)
        absorb_ubsan_stderr(ctx, r, what)
        return j, r, st

    res = ctx.pmap(one, [j for j in jobs if j['kind'] != 'stress'], jobs=3) + ctx.pmap(one, [j for j in jobs if j['kind'] == 'stress'], jobs=2)
    kinds = {}
    for j, r, st in res:
        if r is None:
            continue
        what = '%s %s' % (j['flavour'], ' '.join(str(c) for c in j['cmd'][1:]))
        if st == 'stalled':
            ctx.inconclusive_case('stalled: ' + what)
            continue
        s = r.summary()
        if not s:
            continue
        if j['kind'] == 'seq':
            ctx.evaluations += s['sequences']; ctx.nontrivial_extra += s['distinct']
            ctx.add_cov('seq_operations', s['ops'])
            for k in ('sort_ascending', 'sort_descending', 'ring_ascending', 'ring_descending'):
                ctx.add_cov(k, s[k])
            for k, v in s['by_kind'].items():
                kinds[k] = kinds.get(k, 0) + v
            for q in r.of('sequence')[:1]:
                ctx.sample({'sequence': q['ops'][:500]}, cap=2)
        elif j['kind'] == 'hist':
            ctx.evaluations += s['histories']; ctx.nontrivial_extra += s['distinct_overlapped']; ctx.inconclusive += s['inconclusive']
            for k in ('linearizable', 'overlapped', 'ops', 'trypop_null', 'pop_null_during_sort', 'h_list', 'h_fifo', 'h_dequeue', 'h_sorted', 'h_sort'):
                ctx.add_cov('hist_' + k, s[k])
            ctx.max_cov('max_wgl_nodes', s['max_wgl_nodes'])
            ctx.cov['sort_direction_observed'] = s['sort_direction']
            for h in [h for h in r.of('history') if h['why'] == 'sample'][:1]:
                ctx.sample({'kind': h['kind'], 'threads': s['threads'], 'history': h['ops'][:600]}, cap=5)
        else:
            ctx.evaluations += 1
            ctx.add_cov('stress_ops', s['ops'])
    ctx.cov['seq_operations_by_kind'] = kinds
    ctx.cov['flavours'] = ['asan', 'rel']
