"""C15 — composed taskpools run strictly one after another (E1 taskpools under parsec_compose)."""
import random
import e1suite, e1run, e1gen, e1

META = dict(
    level='exploration', engine='E1 PTG program generator + event-log checker, scenario scripts over parsec_compose',
    technique='runtime monitoring: 1..20 generated PTG taskpools (some empty) are combined with parsec_compose (left- and right-nested, several epochs); every body logs logical enter/exit stamps with its taskpool index; offline oracle: max exit(taskpool i) < min enter(taskpool i+1) per process, compound completion callback exactly once and after the last task and before parsec_context_wait returns, every inner taskpool ran its whole execution space; yield injection before the next taskpool is enabled; ASan+UBSan',
    text='Compositions of generated PTG taskpools on 1..16 threads under all schedulers (and on 2 ranks), including empty members and nested compounds. Held on the compositions executed.',
    note='Order is judged per process (one logical clock per process). DTD members are outside the statement.')

RULE = ('case = (composition of k generated taskpools, nesting, configuration); non-trivial = k >= 2 members with >= 1 task each and >= 10 tasks in total; '
        'distinct = distinct (seed, configuration)')


def oracle(S, res, refs, recs, finals, marks, r, cfg, feat, files, what, groups):
    """groups: list of lists of taskpool indices composed together, in composition order"""
    ctx = S.ctx
    for rank in range(cfg.ranks):
        mine = [x for x in recs if x['rank'] == rank]
        span = {}
        for x in mine:
            a = span.setdefault(x['tp'], [x['enter'], x['exit']])
            a[0] = min(a[0], x['enter']); a[1] = max(a[1], x['exit'])
        mk = [m for m in marks if m[0] == rank]
        waits = sorted(m[4] for m in mk if m[1] == 1)
        ci = -1
        for g in groups:
            if len(g) > 1: ci += 1
            gi = ci
            prev = None
            for t in g:
                if t not in span: continue
                if prev is not None and not (span[prev][1] < span[t][0]):
                    ctx.violation('%s:compose:overlap' % feat, 'taskpool %d (position after %d in the composition) started a task at stamp %d before the last task of %d exited at %d (rank %d) — %s' % (
                        t, prev, span[t][0], prev, span[prev][1], rank, what), r, files); res['status'] = 'violation'; return
                prev = t
            if len(g) > 1:
                cbs = [m for m in mk if m[1] == 3 and m[2] == gi]
                if len(cbs) != 1:
                    ctx.violation('%s:compose:callback-count' % feat, 'compound %d completion callback ran %d times on rank %d — %s' % (gi, len(cbs), rank, what), r, files); res['status'] = 'violation'; return
                last = max([span[t][1] for t in g if t in span] or [0])
                if not (cbs[0][4] > last):
                    ctx.violation('%s:compose:callback-early' % feat, 'compound %d callback at stamp %d before its last task exited at %d — %s' % (gi, cbs[0][4], last, what), r, files); res['status'] = 'violation'; return
                nxt = [w for w in waits if w > last]
                if not nxt or not (cbs[0][4] < nxt[0]):
                    ctx.violation('%s:compose:wait-before-callback' % feat, 'parsec_context_wait returned (stamp %s) before the compound callback ran (stamp %d) — %s' % (nxt[:1], cbs[0][4], what), r, files); res['status'] = 'violation'; return
    S.ctx.add_cov('compositions_judged'); S.ctx.add_cov('members_judged', sum(len(g) for g in groups))


def run(ctx):
    thorough = ctx.tier == 'thorough'
    ctx.rule = RULE
    ctx.assumptions = ['per-process logical clock', 'members use disjoint key ranges of one collection']
    S = e1suite.Suite(ctx, {'once', 'values', 'final'}, profile='tiny')
    ncomp = 300 if thorough else 14
    state = {}

    def one(i):
        seed = ctx.seed * 100000 + 90000 + i
        rnd = random.Random(seed)
        n = rnd.choice([1, 2, 2, 3, 4, 5, 8] + ([12, 20] if thorough else []))
        try:
            progs, refs, disc = e1gen.generate_multi(seed, n, 'tiny', prefix='c%d' % i)
        except e1.ModelError as ex:
            ctx.inconclusive_case('generator: %s' % str(ex)[:150]); return []
        # one or two epochs, each composing a slice of the taskpools
        cut = rnd.randint(1, n - 1) if (n >= 3 and rnd.random() < 0.4) else n
        groups = [list(range(0, cut))] + ([list(range(cut, n))] if cut < n else [])
        # in a third of the compositions some members are bare empty taskpools ('e'): they terminate inside
        # parsec_context_add_taskpool, i.e. synchronously inside the compound's own callback (at most 32 per run)
        if rnd.random() < 0.35:
            for g in groups:
                for _ in range(rnd.randint(1, 2)):
                    g.insert(rnd.randint(0, len(g)), 'e')
        script = ';'.join('%s:%s;start;wait' % (rnd.choice(['addc', 'addr']), ','.join(str(t) for t in g)) for g in groups)

        def cfgs(vi, r2):
            out = []
            for c in range(4 if thorough else 2):
                ranks = 2 if (r2.random() < 0.2) else 1
                out.append(e1run.Cfg(sched=r2.choice(e1suite.SCHEDS), cores=r2.choice([1, 2, 4, 8] + ([16] if thorough else [])), ranks=ranks, place='rand', pseed=r2.randint(1, 99),
                                     scenario=script, seed=ctx.seed, sleep=(r2.choice([0, 100]), 200),
                                     # half of the runs: short delays at every site; a quarter: long delays (<= 5 ms) only at the
                                     # compound's own sites (before / after it enables the next member) so that a small successor
                                     # can run to completion on other threads while the callback is still inside
                                     yield_=(('%d:300:%d' % (ctx.seed, r2.choice([0, 50]))) if r2.random() < 0.5 else
                                             (('%d:1000:5000:10000' % ctx.seed) if r2.random() < 0.5 else None))))
            return out
        S.post = None
        results = []
        Sx = S

        def post(res, refs_, recs, finals, marks, r, cfg, feat, files, what):
            oracle(Sx, res, refs_, recs, finals, marks, r, cfg, feat, files, what, groups)
        # post hooks are per composition: run through a private closure
        return _do(S, i, seed, progs, refs, cfgs, post, n)

    def _do(S, i, seed, progs, refs, cfgs, post, n):
        S2 = e1suite.Suite(ctx, S.oracles, profile='tiny'); S2.post = post; S2.nk = progs[0].nk
        rs = S2.do_program(i, seed, [(random.Random(seed).choice(['asan', 'asan', 'rel']), ())], cfgs, progs=(progs, refs))
        for k, v in S2.stats.items(): S.stats[k] = S.stats.get(k, 0) + v
        S.scheds |= S2.scheds; S.cores |= S2.cores; S.ranks |= S2.ranks
        for r_ in rs: r_['members'] = n; r_['nonempty'] = sum(1 for x in refs if len(x.inst) > 0)
        return rs

    for rs in ctx.pmap(one, range(ncomp), jobs=5):
        for res in rs:
            if res['status'] in ('ok', 'violation', 'known'):
                ctx.evaluations += 1
                if res['status'] == 'ok' and res.get('nonempty', 0) >= 2 and res['ninst'] >= 10:
                    ctx.distinct.add('%d/%s' % (res['seed'], res['cfg'].ident()))
    try:
        progs, refs, _ = e1gen.generate_multi(ctx.seed * 100000 + 90000, 3, 'tiny', prefix='s')
        ctx.sample({'composition': [e1suite.sample_of(p, r) for p, r in zip(progs, refs)][:2], 'script': 'addc:0,1,2;start;wait'})
    except e1.ModelError:
        pass
    S.finish_cov()
