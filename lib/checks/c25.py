"""C25 — data repository entries are reclaimed exactly when unused (real repositories on adopted execution streams)."""

import vfcore

META = dict(
    level='exploration', engine='E4 direct-drive concurrency harness on adopted execution streams + bounded schedule enumerator',
    technique='runtime monitoring: REPO_RECLAIM events from datarepo.c are judged on the reclaiming thread against stamped shadow records '
              '(creators holding the entry, announced and started uses), every consumer checks findability/identity/content before its use, '
              'quiescent checks after every round (entry gone, one reclamation per generation, mempool conservation walk); all sequential '
              'schedules of 1..3 create/announce pairs with their uses are enumerated and judged step by step; yield injection in '
              'lookup_and_create; ASan+UBSan',
    text='Real data repositories (data_repo_create_nothreadsafe, per-stream mempools of execution streams adopted after parsec_init) are '
         'driven by 2..16 threads following the runtime\'s own discipline: 1..3 creators per key racing with each other and with the '
         'consumers, limits announced before/between/after the uses, successive generations on the same key. Held on the generations and '
         'schedules observed; interleavings are sampled, sequential schedules up to 9 operations are complete.',
    note='Trusts the stamp counter, the shadow records and the use of entry->generator as a generation tag (the repository only clears that '
         'field on creation). Reclaimed entries are tomb-stoned through that field rather than ASan-poisoned (the mempool LIFO reuses the item).',
    design_ref='DESIGN.md 4/C25')

RULE = ('concurrent case = one round (a plan of 1..12 keys, 1..3 creators per key with 0..4 uses each, executed by the thread team and judged '
        'at quiescence); non-trivial = operations of different threads overlapped in stamp time and >=2 creators; distinct = hash of plan, '
        'generation sharing and reclaiming threads. Enumerated case = one complete sequential schedule judged after every step')

FLOORS = (200, 50)


def _external_kill(r):
    """SIGKILL cannot come from the code under test (no OOM here): another job on the shared box killed the process."""
    return r.signal == 9 and not r.san and not r.of('violation') and not (r.stalled or r.timed_out)


def _retry_killed(ctx, runner):
    r = runner()
    if _external_kill(r):
        ctx.add_cov('rerun_after_external_sigkill', 1)
        r = runner()
        if _external_kill(r):          # twice: machinery trouble, never a verdict
            r.signal = None; r.rc = 2
    return r


def _exe(ctx, flavour):
    return ctx.harness('c25_datarepo', flavour)


def prebuild(ctx):
    for f in ('asan', 'rel'):
        _exe(ctx, f)


def run(ctx):
    thorough = ctx.tier == 'thorough'
    ctx.rule = RULE
    ctx.assumptions = ['legal use: one addto_usage_limit per lookup_and_create by the same party; the k uses of a creator happen after its create returned; total uses == total announced',
                       'a use that precedes its announcement is legal (the creator still retains the entry)',
                       'entry->generator is free for the client (generated code stores the producer task there)',
                       'execution streams adopted by harness threads while the runtime workers stay parked (context never started)']
    seed = ctx.seed
    jobs = []
    rounds = 400 if thorough else 60
    for flavour in ('asan', 'rel'):
        exe = _exe(ctx, flavour)
        jobs.append(dict(kind='enum', flavour=flavour, par=3, cmd=[exe, '--mode', 'enum', '--threads', 3, '--maxops', 10 if thorough else 9, '--maxk', 2]))
        for ti, t in enumerate((2, 4, 8, 16)):
            for yi, (y, us) in enumerate(((0, 0), (200, 0), (300, 30))):
                if not thorough and (ti + yi + (flavour == 'rel')) % 3 == 0:
                    continue          # quick: two of the three delay settings per thread count and flavour
                jobs.append(dict(kind='stress', flavour=flavour, par=1 if t >= 8 else 3,
                                 cmd=[exe, '--mode', 'stress', '--threads', t, '--cases', 3 if thorough else 2, '--rounds', rounds * (2 if flavour == 'rel' else 1) // (2 if t == 16 else 1),
                                      '--seed', seed * 3001 + ti * 10 + yi, '--yield', y, '--yield-us', us]))

    def one(j):
        what = '%s/%s' % (j['flavour'], ' '.join(str(c) for c in j['cmd'][1:]))
        r, st = ctx.run_with_stall_rule(lambda: _retry_killed(ctx, lambda: ctx.run([str(c) for c in j['cmd']], timeout=7200 if thorough else 900, stall_s=180,
                                                        tag='%s-%s-%d' % (j['kind'], j['flavour'], id(j)))), what)
        return j, r, st

    res = ctx.pmap(one, [j for j in jobs if j['par'] == 3], jobs=3) + ctx.pmap(one, [j for j in jobs if j['par'] == 1], jobs=1)
    for j, r, st in res:
        if st == 'stalled':
            ctx.inconclusive_case('stalled: %s [%s]' % (' '.join(str(c) for c in j['cmd'][1:]), vfcore.stall_key(r.backtraces)))
            continue
        s = r.summary()
        if not s:
            continue
        if j['kind'] == 'enum':
            ctx.evaluations += s['schedules']
            ctx.nontrivial_extra += s['schedules_2_generations'] + s['schedules_3_generations'] if j['flavour'] == 'asan' else 0
            for k in ('schedules', 'steps', 'schedules_1_generation', 'schedules_2_generations', 'schedules_3_generations', 'configs'):
                ctx.add_cov('enum_' + k, s[k])
            for smp in r.of('sample')[:1]:
                if j['flavour'] == 'asan':
                    ctx.sample({'kind': 'enum', 'space': smp['enum']}, cap=6)
            continue
        ctx.evaluations += s['rounds']
        ctx.nontrivial_extra += s['distinct']
        for k in ('rounds', 'generations', 'creates', 'shared_generations', 'keys_with_several_generations', 'uses', 'uses_before_announce', 'reclaims',
                  'reclaim_in_used_once', 'reclaim_in_addto', 'lookups', 'mempool_entries_missing'):
            ctx.add_cov('stress_' + k, s[k])
        ctx.add_cov('yield_hits_datarepo', s['yield_datarepo']); ctx.add_cov('yield_hits_hash_table', s['yield_hash'])
        ctx.max_cov('max_threads', s['threads'])
        if s['threads'] in (4, 8):
            ctx.cov.setdefault('reclaiming_thread_distribution', {})['%s/%dthreads/yield%s' % (j['flavour'], s['threads'], j['cmd'][-3])] = s['reclaimer']
        for smp in r.of('sample')[:1]:
            if len([x for x in ctx.samples if x.get('kind') == 'stress']) < 3:
                ctx.sample({'kind': 'stress', 'flavour': j['flavour'], 'threads': smp['threads'], 'keys': smp['keys'], 'generations': smp['generations'], 'plan': smp['plan'][:800]}, cap=6)
    ctx.cov['flavours'] = ['asan', 'rel']
