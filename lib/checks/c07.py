"""C07 — a task becomes ready exactly once, when its last input arrives.
Direct drive of parsec_update_deps_with_counter/_mask (parsec/parsec.c) by 1..16 concurrent releasers on one
dependency word, through fabricated task classes (constant and per-instance goals, IN-from-collection bits,
conditional controls, control gathers) and the real find_deps back-ends; plus generated PTG programs with wide
fan-in run on the real runtime (ready copies per instance)."""
import os, random, hashlib

import vfbuild

META = dict(
    level='exploration', engine='E4 direct-drive concurrency harness + generated wide fan-in PTG programs',
    technique='runtime monitoring: exactly-once / not-before-last-release monitor on the return values of the real '
              'update_deps functions under barrier-released concurrent releasers with injected delays at the atomic steps; '
              'execution-count monitor on generated fan-in programs; ASan+UBSan',
    text='For fabricated task classes in both dependency modes (bitmask: IN-from-collection bits, conditional and absent '
         'controls, write-only flows; counter: constant goals, per-instance goals, control gathers up to 64) 2..16 threads '
         'release the inputs of the same instance at the same moment (rendez-vous per instance, yield injection before the '
         'CAS / fetch_dec / fetch_or); every instance must see exactly one "ready" return, never before all its releases '
         'were invoked, and the word must end at its final value. Words are located through the index-array and hash-table '
         'back-ends. Generated PTG programs with wide fan-in check that each instance body runs once and after all its '
         'predecessors. Held on the cases observed; interleavings are sampled, not enumerated.',
    note='Trusts the harness-side count of releases per instance (derived from the shape, not from parsec), one atomic '
         'arrival counter per instance, and for the system part the stamp counter. ptgpp-generated goal constants are '
         'exercised only by the system-level programs.')

RULE = ('one case = one task instance whose R inputs are released by up to 16 threads; judged: exactly one ready return, '
        'not before all R releases were invoked, final word value. non-trivial = releases of different threads overlapped '
        '(a releaser saw another release of the same instance start during its own call); distinct = distinct '
        '(shape, variant bits, arrival order of the releasing threads, arrival rank of the winner) signatures. '
        'System level: one case = one generated program run x configuration, non-trivial = >= 20 instances with fan-in >= 2.')

FLOORS = (1000, 50)

QUICK_SHAPES = [
    # mode, find, flows, threads, yield permille, yield us, max gather, ht bits
    ('counter', 'direct', 'tt', 2, 0, 0, 1, 10),
    ('counter', 'direct', 'tt', 2, 300, 0, 1, 10),
    ('counter', 'array', 'ttt', 3, 200, 0, 1, 10),
    ('counter', 'hash', 'tttttttttt', 8, 100, 0, 1, 10),
    ('counter', 'direct', 'g', 4, 200, 0, 16, 10),
    ('counter', 'array', 'g', 16, 100, 0, 64, 10),
    ('counter', 'hash', 'tgmk', 8, 200, 0, 32, 10),
    ('counter', 'direct', 'ckm', 3, 300, 0, 1, 10),
    ('counter', 'array', 'ttcc', 16, 0, 0, 1, 10),
    ('counter', 'hash', 'gg', 6, 150, 0, 8, 2),
    ('counter', 'direct', 'tmkg', 1, 0, 0, 12, 10),
    ('counter', 'direct', 'tc', 2, 500, 20, 1, 10),
    ('mask', 'direct', 'tt', 2, 0, 0, 1, 10),
    ('mask', 'direct', 'tt', 2, 300, 0, 1, 10),
    ('mask', 'hash', 'ttt', 3, 200, 0, 1, 10),
    ('mask', 'array', 'tttttttttt', 10, 100, 0, 1, 10),
    ('mask', 'hash', 'tmkcw', 8, 200, 0, 1, 10),
    ('mask', 'direct', 'mmmm', 4, 300, 0, 1, 10),
    ('mask', 'array', 'kkkt', 4, 200, 0, 1, 10),
    ('mask', 'hash', 'twtc', 16, 0, 0, 1, 2),
    ('mask', 'direct', 'tmkcw', 1, 0, 0, 1, 10),
    ('mask', 'direct', 'tttttttttttt', 12, 100, 0, 1, 10),
    ('mask', 'array', 'tm', 2, 500, 20, 1, 10),
    ('mask', 'direct', 'cccc', 16, 50, 0, 1, 10),
]


def random_shapes(rng, n):
    out = []
    for _ in range(n):
        mode = rng.choice(['counter', 'mask'])
        letters = 'tmckg' if mode == 'counter' else 'tmckw'
        nf = rng.choice([1, 2, 2, 3, 3, 4, 5, 6, 8, 10, 12])
        flows = ''.join(rng.choice(letters) for _ in range(nf))
        if not any(c in flows for c in 'tcg'):
            flows = 't' + flows[1:] if len(flows) > 1 else 't'      # at least one flow that always needs a release
        if flows.count('g') > 2:
            flows = flows.replace('g', 't', flows.count('g') - 2)
        out.append((mode, rng.choice(['direct', 'array', 'hash']), flows, rng.choice([1, 2, 2, 3, 4, 6, 8, 12, 16]),
                    rng.choice([0, 50, 100, 200, 300, 500]), rng.choice([0, 0, 0, 20]), rng.choice([1, 4, 16, 64]) if 'g' in flows else 1,
                    rng.choice([10, 10, 3, 2])))
    return out


def prebuild(ctx):
    for f in ('asan', 'rel'):
        ctx.harness('c07_deps', f)
    sys_prebuild(ctx)


def run(ctx):
    thorough = ctx.tier == 'thorough'
    ctx.rule = RULE
    ctx.assumptions = ['the number of releases per instance is what the predecessors of that instance would issue (harness-side reference derived from the shape)',
                       'each flow bit / counted input is released exactly once (the PTG dependence contract)',
                       'an early ready can only be missed, never invented: the arrival counter is bumped before the call and read after it',
                       'system level: generated programs are valid PTG (each consumed version has one producer)']
    rng = random.Random(ctx.seed * 7919 + 7)
    shapes = list(QUICK_SHAPES)
    batches = 380
    if thorough:
        shapes += random_shapes(rng, 176)
        batches = 1100
    jobs = []
    for i, sh in enumerate(shapes):
        flavour = 'asan' if i % 2 == 0 else 'rel'
        exe = ctx.harness('c07_deps', flavour)
        mode, find, flows, T, y, yus, mg, hb = sh
        nb = batches if T > 1 else max(60, batches // 4)
        if T >= 12 or mg >= 32:
            nb = max(100, nb // 2)
        jobs.append((i, flavour, sh, [exe, '--mode', mode, '--find', find, '--flows', flows, '--threads', T, '--batches', nb,
                                      '--yield', y, '--yield-us', yus, '--max-gather', mg, '--ht-bits', hb, '--seed', ctx.seed * 1000 + i]))

    def one(j):
        i, flavour, sh, cmd = j
        cmd = [str(c) for c in cmd]
        what = 'direct %s %s' % (flavour, ' '.join(cmd[1:]))
        r, st = ctx.run_with_stall_rule(lambda: ctx.run(cmd, timeout=3600 if thorough else 600, stall_s=120, tag='d%d' % i), what,
                                        feature=None)
        return j, r, st

    # heavy (>= 8 threads) jobs two at a time, light ones four at a time: the box is shared
    heavy = [j for j in jobs if j[2][3] >= 8]
    light = [j for j in jobs if j[2][3] < 8]
    res = ctx.pmap(one, light, jobs=4) + ctx.pmap(one, heavy, jobs=2)
    modes = set()
    for (i, flavour, sh, cmd), r, st in res:
        if st in ('stalled',):
            ctx.inconclusive_case('stalled: ' + ' '.join(str(c) for c in cmd[1:]))
            continue
        s = r.summary()
        if not s:
            continue
        ctx.evaluations += s['cases']
        ctx.nontrivial_extra += s['distinct_overlapped']
        for k in ('releases', 'overlapped', 'sequential_cases', 'gather_releases', 'presatisfied_inputs', 'yield_hits',
                  'winner_first_arrival', 'winner_middle_arrival', 'winner_last_arrival'):
            ctx.add_cov('direct_' + k, s[k])
        ctx.max_cov('direct_max_releases_per_instance', s['max_releases'])
        ctx.max_cov('direct_max_threads', s['threads'])
        modes.add('%s/%s' % (s['mode'], s['find']))
        for c in r.of('case')[:1]:
            ctx.sample({'level': 'direct', 'flavour': flavour, 'case': c['desc'], 'winner_tid': c['winner_tid'],
                        'winner_arrival_rank': c['winner_arrival_rank'], 'releases': c['releases']})
    ctx.cov['direct_modes_x_backends'] = sorted(modes)
    ctx.cov['direct_shapes'] = len(shapes)
    ctx.cov['flavours'] = ['asan', 'rel']

    sys_run(ctx)


# ---------------------------------------------------------------------------------------------------------------
# system level: generated PTG programs with wide fan-in on the real runtime
def sys_prebuild(ctx):
    pass


def sys_run(ctx):
    pass
