"""C07 — a task becomes ready exactly once, when its last input arrives.
Direct drive of parsec_update_deps_with_counter/_mask (parsec/parsec.c) by 1..16 concurrent releasers on one
dependency word, through fabricated task classes (constant and per-instance goals, IN-from-collection bits,
conditional controls, control gathers) and the real find_deps back-ends; plus generated PTG programs with wide
fan-in run on the real runtime (ready copies per instance)."""
import os, random, hashlib

import vfbuild

META = dict(
    level='exploration', engine='E4 direct-drive concurrency harness + generated wide fan-in PTG programs',
    technique='runtime monitoring: exactly-once / not-before-last-release monitor on the return values of the real '
              'update_deps functions under barrier-released concurrent releasers with injected delays at the atomic steps; '
              'execution-count monitor on generated fan-in programs; ASan+UBSan',
    text='For fabricated task classes in both dependency modes (bitmask: IN-from-collection bits, conditional and absent '
         'controls, write-only flows; counter: constant goals, per-instance goals, control gathers up to 64) 2..16 threads '
         'release the inputs of the same instance at the same moment (rendez-vous per instance, yield injection before the '
         'CAS / fetch_dec / fetch_or); every instance must see exactly one "ready" return, never before all its releases '
         'were invoked, and the word must end at its final value. Words are located through the index-array and hash-table '
         'back-ends. Generated PTG programs with wide fan-in check that each instance body runs once and after all its '
         'predecessors. Held on the cases observed; interleavings are sampled, not enumerated.',
    note='Trusts the harness-side count of releases per instance (derived from the shape, not from parsec), one atomic '
         'arrival counter per instance, and for the system part the stamp counter. ptgpp-generated goal constants are '
         'exercised only by the system-level programs.')

RULE = ('one case = one task instance whose R inputs are released by up to 16 threads; judged: exactly one ready return, '
        'not before all R releases were invoked, final word value. non-trivial = releases of different threads overlapped '
        '(a releaser saw another release of the same instance start during its own call); distinct = distinct '
        '(shape, variant bits, arrival order of the releasing threads, arrival rank of the winner) signatures. '
        'System level: one case = one generated program run x configuration, non-trivial = >= 20 instances with fan-in >= 2.')

FLOORS = (1000, 50)

QUICK_SHAPES = [
    # mode, find, flows, threads, yield permille, yield us, max gather, ht bits
    ('counter', 'direct', 'tt', 2, 0, 0, 1, 10),
    ('counter', 'direct', 'tt', 2, 300, 0, 1, 10),
    ('counter', 'array', 'ttt', 3, 200, 0, 1, 10),
    ('counter', 'hash', 'tttttttttt', 8, 100, 0, 1, 10),
    ('counter', 'direct', 'g', 4, 200, 0, 16, 10),
    ('counter', 'array', 'g', 16, 100, 0, 64, 10),
    ('counter', 'hash', 'tgmk', 8, 200, 0, 32, 10),
    ('counter', 'direct', 'ckm', 3, 300, 0, 1, 10),
    ('counter', 'array', 'ttcc', 16, 0, 0, 1, 10),
    ('counter', 'hash', 'gg', 6, 150, 0, 8, 2),
    ('counter', 'direct', 'tmkg', 1, 0, 0, 12, 10),
    ('counter', 'direct', 'tc', 2, 500, 20, 1, 10),
    ('mask', 'direct', 'tt', 2, 0, 0, 1, 10),
    ('mask', 'direct', 'tt', 2, 300, 0, 1, 10),
    ('mask', 'hash', 'ttt', 3, 200, 0, 1, 10),
    ('mask', 'array', 'tttttttttt', 10, 100, 0, 1, 10),
    ('mask', 'hash', 'tmkcw', 8, 200, 0, 1, 10),
    ('mask', 'direct', 'mmmm', 4, 300, 0, 1, 10),
    ('mask', 'array', 'kkkt', 4, 200, 0, 1, 10),
    ('mask', 'hash', 'twtc', 16, 0, 0, 1, 2),
    ('mask', 'direct', 'tmkcw', 1, 0, 0, 1, 10),
    ('mask', 'direct', 'tttttttttttt', 12, 100, 0, 1, 10),
    ('mask', 'array', 'tm', 2, 500, 20, 1, 10),
    ('mask', 'direct', 'cccc', 16, 50, 0, 1, 10),
]


def random_shapes(rng, n):
    out = []
    for _ in range(n):
        mode = rng.choice(['counter', 'mask'])
        letters = 'tmckg' if mode == 'counter' else 'tmckw'
        nf = rng.choice([1, 2, 2, 3, 3, 4, 5, 6, 8, 10, 12])
        flows = ''.join(rng.choice(letters) for _ in range(nf))
        if not any(c in flows for c in 'tcg'):
            flows = 't' + flows[1:] if len(flows) > 1 else 't'      # at least one flow that always needs a release
        if flows.count('g') > 2:
            flows = flows.replace('g', 't', flows.count('g') - 2)
        out.append((mode, rng.choice(['direct', 'array', 'hash']), flows, rng.choice([1, 2, 2, 3, 4, 6, 8, 12, 16]),
                    rng.choice([0, 50, 100, 200, 300, 500]), rng.choice([0, 0, 0, 20]), rng.choice([1, 4, 16, 64]) if 'g' in flows else 1,
                    rng.choice([10, 10, 3, 2])))
    return out


def prebuild(ctx):
    for f in ('asan', 'rel'):
        ctx.harness('c07_deps', f)
    sys_prebuild(ctx)


def run(ctx):
    thorough = ctx.tier == 'thorough'
    ctx.rule = RULE
    ctx.assumptions = ['the number of releases per instance is what the predecessors of that instance would issue (harness-side reference derived from the shape)',
                       'each flow bit / counted input is released exactly once (the PTG dependence contract)',
                       'an early ready can only be missed, never invented: the arrival counter is bumped before the call and read after it',
                       'system level: generated programs are valid PTG (each consumed version has one producer)']
    rng = random.Random(ctx.seed * 7919 + 7)
    shapes = list(QUICK_SHAPES)
    batches = 170
    if thorough:
        shapes += random_shapes(rng, 60)
        batches = 700
    jobs = []
    for i, sh in enumerate(shapes):
        flavour = 'asan' if i % 2 == 0 else 'rel'
        exe = ctx.harness('c07_deps', flavour)
        mode, find, flows, T, y, yus, mg, hb = sh
        nb = batches if T > 1 else max(60, batches // 4)
        if T >= 12 or mg >= 32:
            nb = max(100, nb // 2)
        jobs.append((i, flavour, sh, [exe, '--mode', mode, '--find', find, '--flows', flows, '--threads', T, '--batches', nb,
                                      '--yield', y, '--yield-us', yus, '--max-gather', mg, '--ht-bits', hb, '--seed', ctx.seed * 1000 + i]))

    def one(j):
        i, flavour, sh, cmd = j
        cmd = [str(c) for c in cmd]
        what = 'direct %s %s' % (flavour, ' '.join(cmd[1:]))
        r, st = ctx.run_with_stall_rule(lambda: ctx.run(cmd, timeout=3600 if thorough else 600, stall_s=300, tag='d%d' % i), what,
                                        feature=None)
        return j, r, st

    # heavy (>= 8 threads) jobs two at a time, light ones four at a time: the box is shared
    heavy = [j for j in jobs if j[2][3] >= 8]
    light = [j for j in jobs if j[2][3] < 8]
    res = ctx.pmap(one, light, jobs=4) + ctx.pmap(one, heavy, jobs=2)
    modes = set()
    for (i, flavour, sh, cmd), r, st in res:
        if st in ('stalled',):
            ctx.inconclusive_case('stalled: ' + ' '.join(str(c) for c in cmd[1:]))
            continue
        s = r.summary()
        if not s:
            continue
        ctx.evaluations += s['cases']
        ctx.nontrivial_extra += s['distinct_overlapped']
        for k in ('releases', 'overlapped', 'sequential_cases', 'gather_releases', 'presatisfied_inputs', 'yield_hits',
                  'winner_first_arrival', 'winner_middle_arrival', 'winner_last_arrival'):
            ctx.add_cov('direct_' + k, s[k])
        ctx.max_cov('direct_max_releases_per_instance', s['max_releases'])
        ctx.max_cov('direct_max_threads', s['threads'])
        modes.add('%s/%s' % (s['mode'], s['find']))
        for c in (r.of('case')[:1] if len(ctx.samples) < 4 else []):
            ctx.sample({'level': 'direct', 'flavour': flavour, 'case': c['desc'], 'winner_tid': c['winner_tid'],
                        'winner_arrival_rank': c['winner_arrival_rank'], 'releases': c['releases']})
    ctx.cov['direct_modes_x_backends'] = sorted(modes)
    ctx.cov['direct_shapes'] = len(shapes)
    ctx.cov['flavours'] = ['asan', 'rel']

    sys_run(ctx)


# ---------------------------------------------------------------------------------------------------------------
# system level: generated PTG programs with wide fan-in on the real runtime (ready copies per instance)
import subprocess

SYS_VARIANTS = [  # K data flows of the consumer, control gather (=> counter mode), count_deps property, ptgpp -M
    (2, 0, 0, 'index-array'), (5, 1, 0, 'dynamic-hash-table'), (10, 0, 0, 'dynamic-hash-table'), (4, 0, 1, 'index-array'), (10, 1, 0, 'index-array'), (1, 0, 0, 'dynamic-hash-table')]
SCHEDS_SAFE = ['ap', 'gd', 'ip', 'lfq', 'lhq', 'll', 'llp', 'pbq', 'rnd', 'spq']     # ltq: recorded C08 finding under ASan


def sys_jdf(K, gather, countdeps):
    o = []
    o.append('extern "C" %{\n#include "parsec.h"\n#include "parsec/data_internal.h"\n#include <stdint.h>\n#include "c07sys.h"\n%}\n')
    o.append('NC   [ type="int" ]\nNG   [ type="int" ]\nJ0   [ type="int" ]\nW    [ type="int" ]\nNR   [ type="int" ]\nD    [ type="parsec_data_collection_t*" ]\n\n')
    o.append('P(q, j)\nq = 0 .. %d\nj = 0 .. NC-1\n: D( j )\nWRITE X ' % (K - 1))
    o.append('\n        '.join('-> (q == %d) ? F%d C( j )' % (q, q) for q in range(K)))
    o.append('\nBODY\n{\n    *(int64_t*)X = c07_val(q, j);\n    c07_pred_done(0, q, j);\n}\nEND\n\n')
    o.append('M(j)\nj = J0 .. NC-1\n: D( j )\nWRITE X -> FM C( j )\nBODY\n{\n    *(int64_t*)X = c07_val(100, j);\n    c07_pred_done(1, 0, j);\n}\nEND\n\n')
    if gather:
        o.append('G(j, g)\nj = 0 .. NC-1\ng = 0 .. NG-1\n: D( j )\nCTL Z -> Z C( j )\nBODY\n{\n    c07_pred_done(2, g, j);\n}\nEND\n\n')
    o.append('C(j)%s\nj = 0 .. NC-1\n: D( j )\n' % (' [ count_deps = 1 ]' if countdeps else ''))
    for q in range(K):
        o.append('READ F%d <- X P( %d, j )\n' % (q, q))
    o.append('READ FM <- (j < J0) ? D( j ) : X M( j )\n')
    if gather:
        o.append('CTL Z <- Z G( j, 0 .. NG-1 )\n')
    o.append('CTL Y -> Y R( j / W )\nBODY\n{\n    int64_t in[%d];\n' % (K + 1))
    for q in range(K):
        o.append('    in[%d] = *(int64_t*)F%d;\n' % (q, q))
    o.append('    c07_consumer(j, %d, in, *(int64_t*)FM);\n}\nEND\n\n' % K)
    o.append('R(r)\nr = 0 .. NR-1\n: D( r )\nCTL Y <- Y C( r*W .. r*W+W-1 )\nBODY\n{\n    c07_final(r);\n}\nEND\n')
    return ''.join(o)


SYS_H = r"""#ifndef C07SYS_H
#define C07SYS_H
#include <stdint.h>
int64_t c07_val(int q, int j);
void c07_pred_done(int kind, int q, int j);
void c07_consumer(int j, int k, int64_t *in, int64_t fm);
void c07_final(int r);
#endif
"""

SYS_DRV = r"""/* generated driver: wide fan-in PTG program, monitor of "each instance runs once, after all its predecessors" */
#include "parsec.h"
#include "parsec/data_internal.h"
#include "parsec/execution_stream.h"
#include "c07sys.h"
#include "c07prog.h"
#include "kit.h"
#include <mpi.h>
#include <stdarg.h>

/* start-up ticker: MPI_Init + parsec_init (hwloc discovery, thread creation) can take minutes on a loaded box and are not
 * the code under test; keep the driver's stall detector quiet until the monitored phase begins (bounded: 15 minutes) */
static volatile int vf_init_phase = 0; static pthread_t vf_init_thread;
static void *vf_init_tick(void *a) { (void)a; for (int k = 0; vf_init_phase && k < 9000; k++) { usleep(100000); VF_TICK(); } return NULL; }
static void vf_init_begin(void) { vf_heartbeat_start(); vf_init_phase = 1; pthread_create(&vf_init_thread, NULL, vf_init_tick, NULL); }
static void vf_init_end(void) { vf_init_phase = 0; pthread_join(vf_init_thread, NULL); }
#define MAXC 1024
#define MAXQ 12
#define MAXG 64
static int K = C07_K, GATHER = C07_GATHER, NC, NG, J0, W, NR;
static int64_t store[MAXC]; static parsec_data_t *dt[MAXC];
static volatile int32_t cntC[MAXC], cntP[MAXQ][MAXC], cntM[MAXC], cntG[MAXG][MAXC], cntR[MAXC], arrive[MAXC];
static volatile uint64_t doneP[MAXQ][MAXC], doneM[MAXC], doneG[MAXG][MAXC], enterC[MAXC], exitC[MAXC];
static volatile long n_rdv_full;
int64_t c07_val(int q, int j) { return (int64_t)vf_mix((uint64_t)q + 11, (uint64_t)j + 5) >> 1; }
static int npred(int j) { return K + (j >= J0 ? 1 : 0) + (GATHER ? NG : 0); }
void c07_pred_done(int kind, int q, int j)
{
    /* race amplifier: the predecessors of C(j) leave their bodies together (bounded wait, never blocking) */
    int need = npred(j); if (need > 16) need = 16;
    __atomic_fetch_add(&arrive[j], 1, __ATOMIC_SEQ_CST);
    int sp; for (sp = 0; sp < 20000 && __atomic_load_n(&arrive[j], __ATOMIC_RELAXED) < need; sp++) __builtin_ia32_pause();
    if (sp < 20000) __atomic_fetch_add(&n_rdv_full, 1, __ATOMIC_RELAXED);
    uint64_t s = vf_stamp();
    if (kind == 0) { __atomic_fetch_add(&cntP[q][j], 1, __ATOMIC_SEQ_CST); doneP[q][j] = s; }
    else if (kind == 1) { __atomic_fetch_add(&cntM[j], 1, __ATOMIC_SEQ_CST); doneM[j] = s; }
    else { __atomic_fetch_add(&cntG[q][j], 1, __ATOMIC_SEQ_CST); doneG[q][j] = s; }
    VF_TICK();
}
void c07_consumer(int j, int k, int64_t *in, int64_t fm)
{
    uint64_t e = vf_stamp();
    int n = __atomic_add_fetch(&cntC[j], 1, __ATOMIC_SEQ_CST);
    if (n > 1) vf_violation("sys:" C07_MODE ":instance-ran-twice", "C(%d) body entered %d times (K=%d gather=%d NG=%d)", j, n, K, GATHER, NG);
    enterC[j] = e;
    for (int q = 0; q < k; q++) {
        if (doneP[q][j] == 0 || doneP[q][j] > e) vf_violation("sys:" C07_MODE ":ran-before-predecessor", "C(%d) entered at %llu but its input F%d from P(%d,%d) was %s", j, (unsigned long long)e, q, q, j, doneP[q][j] ? "produced later" : "not produced yet");
        else if (in[q] != c07_val(q, j)) vf_violation("sys:" C07_MODE ":wrong-input", "C(%d) flow F%d holds %lld, expected %lld", j, q, (long long)in[q], (long long)c07_val(q, j));
    }
    if (j >= J0) { if (doneM[j] == 0 || doneM[j] > e) vf_violation("sys:" C07_MODE ":ran-before-predecessor", "C(%d) entered before M(%d) finished", j, j);
                   else if (fm != c07_val(100, j)) vf_violation("sys:" C07_MODE ":wrong-input", "C(%d) flow FM holds %lld, expected %lld", j, (long long)fm, (long long)c07_val(100, j)); }
    else if (fm != 7000 + j) vf_violation("sys:" C07_MODE ":wrong-input", "C(%d) flow FM (from the collection) holds %lld, expected %d", j, (long long)fm, 7000 + j);
    if (GATHER) for (int g = 0; g < NG; g++) if (doneG[g][j] == 0 || doneG[g][j] > e) { vf_violation("sys:" C07_MODE ":ran-before-predecessor", "C(%d) entered before control G(%d,%d) finished", j, j, g); break; }
    exitC[j] = vf_stamp();
    VF_TICK();
}
void c07_final(int r)
{
    uint64_t e = vf_stamp();
    int n = __atomic_add_fetch(&cntR[r], 1, __ATOMIC_SEQ_CST);
    if (n > 1) vf_violation("sys:counter:instance-ran-twice", "R(%d) body entered %d times (gather of %d)", r, n, W);
    for (int j = r * W; j < r * W + W; j++) if (exitC[j] == 0 || exitC[j] > e) { vf_violation("sys:counter:ran-before-predecessor", "R(%d) entered before C(%d) finished (control gather of %d)", r, j, W); break; }
}
static uint32_t rank_of(parsec_data_collection_t *d, ...) { (void)d; return 0; }
static uint32_t rank_of_key(parsec_data_collection_t *d, parsec_data_key_t key) { (void)d; (void)key; return 0; }
static int32_t vpid_of(parsec_data_collection_t *d, ...) { (void)d; return 0; }
static int32_t vpid_of_key(parsec_data_collection_t *d, parsec_data_key_t k) { (void)d; (void)k; return 0; }
static parsec_data_key_t data_key(parsec_data_collection_t *d, ...) { va_list ap; va_start(ap, d); int k = va_arg(ap, int); va_end(ap); (void)d; return (parsec_data_key_t)k; }
static parsec_data_t *data_of_key(parsec_data_collection_t *d, parsec_data_key_t key) { int k = (int)key; if (!dt[k]) parsec_data_create(&dt[k], d, key, &store[k], sizeof(int64_t), PARSEC_DATA_FLAG_PARSEC_MANAGED); return dt[k]; }
static parsec_data_t *data_of(parsec_data_collection_t *d, ...) { va_list ap; va_start(ap, d); int k = va_arg(ap, int); va_end(ap); return data_of_key(d, (parsec_data_key_t)k); }
int main(int argc, char **argv)
{
    vf_init_begin();
    int prov; MPI_Init_thread(&argc, &argv, MPI_THREAD_SERIALIZED, &prov);
    NC = (int)vf_arg_ll(argc, argv, "--nc", 64); NG = (int)vf_arg_ll(argc, argv, "--ng", 8); J0 = (int)vf_arg_ll(argc, argv, "--j0", 10);
    W = (int)vf_arg_ll(argc, argv, "--w", 16); int cores = (int)vf_arg_ll(argc, argv, "--cores", 16);
    if (W < 1) W = 1; if (W > 64) W = 64; NR = NC / W; if (NR < 1) { NR = 1; W = NC; } NC = NR * W;
    if (NC > MAXC || NG > MAXG || NG < 1 || K > MAXQ || J0 > NC) { fprintf(stderr, "bad shape\n"); return 2; }
    int pargc = 1; char *pv[2] = {argv[0], NULL}; char **pargv = pv;
    parsec_context_t *ctx = parsec_init(cores, &pargc, &pargv);
    if (!ctx) return 2;
    vf_init_end();
    parsec_data_collection_t D; parsec_data_collection_init(&D, 1, 0); D.default_dtt = parsec_datatype_int64_t;
    D.rank_of = rank_of; D.rank_of_key = rank_of_key; D.vpid_of = vpid_of; D.vpid_of_key = vpid_of_key; D.data_key = data_key; D.data_of = data_of; D.data_of_key = data_of_key;
    for (int k = 0; k < MAXC; k++) store[k] = 7000 + k;
    parsec_c07prog_taskpool_t *tp = parsec_c07prog_new(NC, NG, J0, W, NR, &D);
    parsec_arena_datatype_set_type(&tp->arenas_datatypes[PARSEC_c07prog_DEFAULT_ADT_IDX], sizeof(int64_t), PARSEC_ARENA_ALIGNMENT_SSE, parsec_datatype_int64_t);
    parsec_context_add_taskpool(ctx, (parsec_taskpool_t *)tp); parsec_context_start(ctx); parsec_context_wait(ctx);
    vf_heartbeat_stop();
    long inst = 0, bad = 0, fanin_max = 0;
    for (int j = 0; j < NC; j++) {
        inst++; if (cntC[j] != 1) { bad++; vf_violation(cntC[j] ? "sys:" C07_MODE ":instance-ran-twice" : "sys:" C07_MODE ":instance-never-ran", "after termination C(%d) ran %d times", j, cntC[j]); }
        for (int q = 0; q < K; q++) { inst++; if (cntP[q][j] != 1) { bad++; vf_violation("sys:startup:instance-count", "P(%d,%d) ran %d times", q, j, cntP[q][j]); } }
        if (j >= J0) { inst++; if (cntM[j] != 1) { bad++; vf_violation("sys:startup:instance-count", "M(%d) ran %d times", j, cntM[j]); } }
        if (GATHER) for (int g = 0; g < NG; g++) { inst++; if (cntG[g][j] != 1) { bad++; vf_violation("sys:startup:instance-count", "G(%d,%d) ran %d times", j, g, cntG[g][j]); } }
        if (npred(j) > fanin_max) fanin_max = npred(j);
    }
    for (int r = 0; r < NR; r++) { inst++; if (cntR[r] != 1) { bad++; vf_violation(cntR[r] ? "sys:counter:instance-ran-twice" : "sys:counter:instance-never-ran", "after termination R(%d) ran %d times", r, cntR[r]); } }
    vf_out("{\"type\":\"summary\",\"level\":\"system\",\"mode\":\"%s\",\"K\":%d,\"gather\":%d,\"NC\":%d,\"NG\":%d,\"J0\":%d,\"W\":%d,\"cores\":%d,\"instances\":%ld,\"bad\":%ld,\"max_fan_in\":%ld,\"rendezvous_full\":%ld}",
           C07_MODE, K, GATHER, NC, NG, J0, W, cores, inst, bad, fanin_max, n_rdv_full);
    fflush(stdout);
    _exit(vf_nviolations ? 1 : 0);
}
"""


def _write_if_changed(path, text):
    try:
        if open(path).read() == text:
            return
    except OSError:
        pass
    with open(path, 'w') as f:
        f.write(text)


def sys_build(ctx, flavour, variant):
    """Generate + compile one program variant; sources live in the build tree and are only rewritten when they change."""
    K, gather, cd, M = variant
    ctx.build(flavour)
    tag = 'k%d_g%d_c%d_%s' % (K, gather, cd, 'arr' if M == 'index-array' else 'hash')
    d = os.path.join(vfbuild.bdir(flavour), 'harness', 'c07sys', tag)
    os.makedirs(d, exist_ok=True)
    _write_if_changed(os.path.join(d, 'c07prog.jdf'), sys_jdf(K, gather, cd))
    _write_if_changed(os.path.join(d, 'c07sys.h'), SYS_H)
    _write_if_changed(os.path.join(d, 'drv.c'), SYS_DRV)
    gen = os.path.join(d, 'c07prog.c')
    ptg = vfbuild.ptgpp(flavour)
    stamp = max(os.path.getmtime(os.path.join(d, 'c07prog.jdf')), os.path.getmtime(ptg))
    if not os.path.exists(gen) or os.path.getmtime(gen) < stamp:
        p = subprocess.run([ptg, '-E', '-M', M, '-i', 'c07prog.jdf', '-o', 'c07prog'], cwd=d, stdout=subprocess.PIPE, stderr=subprocess.STDOUT, text=True)
        if p.returncode != 0 or not os.path.exists(gen):
            import vfcore
            raise vfcore.HarnessError('ptgpp failed for %s: %s' % (tag, p.stdout[-2000:]))
    mode = 'counter' if (gather or cd) else 'mask'
    exe = ctx.harness('c07sys_' + tag, flavour, sources=[gen, os.path.join(d, 'drv.c')],
                      extra_cflags=['-I' + d, '-DC07_K=%d' % K, '-DC07_GATHER=%d' % gather, '-DC07_MODE="%s"' % mode], outname='c07sys_' + tag)
    return exe, mode


def sys_prebuild(ctx):
    for i, v in enumerate(SYS_VARIANTS):
        sys_build(ctx, 'asan' if i % 2 == 0 else 'rel', v)


def sys_run(ctx):
    thorough = ctx.tier == 'thorough'
    rng = random.Random(ctx.seed * 31 + 5)
    jobs = []
    n = 0
    reps = 4 if thorough else 1
    for i, v in enumerate(SYS_VARIANTS):
        flavour = 'asan' if i % 2 == 0 else 'rel'
        exe, mode = sys_build(ctx, flavour, v)
        for _ in range(reps):
            W = rng.choice([4, 16, 32, 64]); NR = rng.choice([1, 2, 4]); NC = W * NR
            NG = rng.choice([1, 3, 8, 24, 64]) if v[1] else 1
            if NC * (v[0] + NG) > 9000:
                NG = max(1, 9000 // NC - v[0])
            J0 = rng.choice([0, NC // 3, NC // 2, NC])
            cores = rng.choice([2, 4, 8, 16, 16])
            sched = rng.choice(SCHEDS_SAFE)
            y = rng.choice([0, 100, 300])
            env = {'PARSEC_MCA_mca_sched': sched}
            if y:
                env['PARSEC_VERIF_YIELD'] = '%d:%d:0:3' % (ctx.seed * 100 + n, y)       # sites DEPS_COUNTER | DEPS_MASK
            jobs.append((n, flavour, v, mode, sched, env, [exe, '--nc', NC, '--ng', NG, '--j0', J0, '--w', W, '--cores', cores]))
            n += 1

    def one(j):
        n, flavour, v, mode, sched, env, cmd = j
        cmd = [str(c) for c in cmd]
        what = 'system %s K=%d gather=%d count_deps=%d -M %s sched=%s %s %s' % (flavour, v[0], v[1], v[2], v[3], sched, env.get('PARSEC_VERIF_YIELD', ''), ' '.join(cmd[1:]))
        r, st = ctx.run_with_stall_rule(lambda: ctx.run(cmd, env=env, timeout=1800, stall_s=300, tag='y%d' % n), what)
        return j, r, st

    res = ctx.pmap(one, jobs, jobs=2)
    nsys = 0
    for (n, flavour, v, mode, sched, env, cmd), r, st in res:
        if st == 'stalled':
            ctx.inconclusive_case('stalled: system ' + ' '.join(str(c) for c in cmd[1:]))
            continue
        s = r.summary()
        if not s:
            continue
        nontriv = s['instances'] >= 20 and s['max_fan_in'] >= 2
        ctx.note_case(('sys', v, s['NC'], s['NG'], s['J0'], s['W'], s['cores'], sched, env.get('PARSEC_VERIF_YIELD', '')), nontrivial=nontriv)
        ctx.add_cov('system_instances', s['instances']); ctx.add_cov('system_runs', 1); ctx.add_cov('system_rendezvous_full', s['rendezvous_full'])
        ctx.max_cov('system_max_fan_in', s['max_fan_in'])
        ctx.add_cov('system_runs_' + mode, 1)
        if nsys < 1:
            nsys += 1
            ctx.sample({'level': 'system', 'flavour': flavour, 'mode': mode, 'sched': sched, 'shape': {k: s[k] for k in ('K', 'gather', 'NC', 'NG', 'J0', 'W', 'cores', 'instances', 'max_fan_in')},
                        'jdf_head': sys_jdf(v[0], v[1], v[2])[:600]})
