"""C41 — info registries return what was set (E3: sequential reference-model histories across registry growth,
and short concurrent histories checked per slot for linearizability against a register)."""
import os

META = dict(
    level='exploration', engine='E3 history recorder + per-slot WGL linearizability checker; sequential reference model',
    technique='runtime monitoring: generated register/unregister/lookup/set/get/test_and_set histories on the real parsec_info_* functions are '
              'compared with a reference model after every call (ids of live names distinct, lookup = registered id, register semantics per '
              '(object array, id), constructor / destructor accounting), including growth of the registry after the arrays exist; concurrent '
              'histories are recorded with logical stamps and every slot sub-history is searched for a linearization (WGL); delay injection '
              'between the unlock and the write lock of the resize; ASan+UBSan build',
    text='Sequential histories (one registry, up to 4 object arrays created before, between and after registrations, 28 names, infos with and '
         'without constructor / destructor, unregister of top and inner ids, re-registration into holes) and concurrent histories of 2..6 threads '
         '(set / get-with-constructor / test_and_set / lookup on shared slots, threads registering new infos so that arrays grow under use) are '
         'executed on the library code in the sanitizer and production flavours. Held on the histories executed, except for the two recorded '
         'findings (growth of a non-empty array loses/garbles slots; a registration after an inner unregister reuses a live id), whose triggers '
         'are kept at low weight in the quick tier while they are listed in known_findings.txt.',
    note='Trusts the reference model / register model and the WGL checker in harness/c41_info.c. parsec_info_set is modelled as an independent read '
         'and write (its load+store pair is not an atomic swap; the property does not claim it). Concurrent unregister is not driven (an id must not '
         'be used while it is unregistered); NULL is never written concurrently, so optimistic re-reads cannot be mistaken for violations.')

RULE = ('one case = one history (sequential: register/unregister/lookup/slot operations with the model compared after every call; concurrent: '
        '2..6 threads x 4..12 operations, every (array,id) slot sub-history WGL-checked). non-trivial: sequential = at least 3 operations; '
        'concurrent = operations of different threads overlapped in stamp time on one slot AND an array was resized during the history. '
        'distinct = distinct operation-sequence hashes (sequential) / distinct per-slot interleaving signatures (concurrent)')
FLOORS = (200, 100)

K_RESIZE = ('info:resize:slot-lost', 'info:resize:new-slot-garbage')
K_DUP = 'info:register:duplicate-live-id'


def prebuild(ctx):
    for f in ('asan', 'rel'):
        ctx.harness('c41_info', f)


def run(ctx):
    thorough = ctx.tier == 'thorough'
    ctx.rule = RULE
    ctx.assumptions = ['reference model: name -> id map with distinct live ids; per (array,id) a register; get on NULL with a constructor installs the constructed value; '
                       'unregister with a destructor destroys exactly the non-NULL values of that id in the live arrays; without a destructor the old value may stay or be cleared',
                       'parsec_info_set = independent read + write inside its interval (weaker than the implementation)',
                       'values are unique pointers with no zero byte; NULL is never written by concurrent clients',
                       'a history that hits a recorded finding is abandoned (registry leaked) and counted under abandoned_after_known_defect']
    full = os.environ.get('VERIF_C41_FULL') == '1'
    resize_known = any(k in ctx.known for k in K_RESIZE) and not full
    dup_known = K_DUP in ctx.known and not full
    # weights (permille of histories allowed to use the triggering feature), cycled over the jobs of a kind
    if thorough:
        wg = wh = [1000, 0, 300]
    else:
        wg = [15] if resize_known else [1000, 0, 300]
        wh = [15] if dup_known else [1000, 0, 300]
    ctx.cov['trigger_weights'] = {'growth_of_non_empty_array_permille': wg, 'registration_into_hole_permille': wh,
                                  'down_weighted_because_listed': {'resize': resize_known and not thorough, 'duplicate_id': dup_known and not thorough}}
    exe = {f: ctx.harness('c41_info', f) for f in ('asan', 'rel')}
    S = ctx.seed
    if thorough:
        seq = [('asan', 12, 20000), ('rel', 12, 80000)]
        nconc = {'asan': 2500, 'rel': 6000}
    else:
        seq = [('asan', 4, 1500), ('rel', 4, 5000)]
        nconc = {'asan': 80, 'rel': 200}
    jobs = []
    for fl, n, h in seq:
        for k in range(n):
            jobs.append(dict(kind='seq', fl=fl, args=['--mode', 'seq', '--histories', h, '--maxlen', 60 if k % 3 else 250, '--growth', wg[k % len(wg)], '--holes', wh[(k + 1) % len(wh)],
                                                      '--seed', S * 100003 + k * 17 + (fl == 'rel') * 7919]))
    shapes = [(2, 12, 0, 0), (3, 8, 200, 0), (4, 7, 300, 30), (6, 4, 200, 0), (2, 14, 400, 50), (4, 6, 0, 0)]
    for fl in ('asan', 'rel'):
        for i, (t, ops, y, yus) in enumerate(shapes):
            jobs.append(dict(kind='conc', fl=fl, args=['--mode', 'conc', '--threads', t, '--ops', ops, '--histories', nconc[fl], '--growth', wg[i % len(wg)],
                                                       '--yield', y, '--yield-us', yus, '--seed', S * 1009 + i * 13 + (fl == 'rel')]))

    def one(j):
        cmd = [exe[j['fl']]] + [str(a) for a in j['args']]
        return j, ctx.run(cmd, timeout=10800 if thorough else 900, stall_s=120, tag='%s-%s-%d' % (j['kind'], j['fl'], id(j)))

    res = ctx.pmap(one, [j for j in jobs if j['kind'] == 'seq'], jobs=8) + ctx.pmap(one, [j for j in jobs if j['kind'] == 'conc'], jobs=4 if thorough else 3)
    for j, r in res:
        what = '%s %s' % (j['fl'], ' '.join(str(a) for a in j['args']))
        hist = r.of('history')
        wit = ([h for h in hist if h.get('why') in ('violation', 'not-linearizable')] + [h for h in hist if h.get('why') == 'known-defect'])[:6]
        st = ctx.absorb(r, what, files={'history.json': wit} if wit else None)
        if st == 'stalled':
            ctx.inconclusive_case('stalled/timed out: ' + what); continue
        s = r.summary()
        if not s:
            continue
        pre = j['kind'] + '_'
        ctx.evaluations += s['histories']
        ctx.nontrivial_extra += s['distinct'] if j['kind'] == 'seq' else s['distinct_overlapped_resized']
        if j['kind'] == 'conc':
            ctx.inconclusive += s['inconclusive']
        for k, v in s.items():
            if k in ('type', 'mode', 'histories', 'distinct', 'distinct_overlapped_resized', 'threads', 'nontrivial'):
                continue
            if k.startswith('max_'):
                ctx.max_cov(pre + k, v)
            else:
                ctx.add_cov(pre + k, v)
        for h in hist:
            if h.get('why') == 'sample' and len([x for x in ctx.samples if x.get('mode') == j['kind']]) < 2:
                ctx.sample({'mode': j['kind'], 'flavour': j['fl'], 'history': h['ops'][:800]}, cap=5)
    ctx.cov['flavours'] = ['asan', 'rel']
