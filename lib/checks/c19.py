"""C19 — matrix datatypes select exactly the specified elements (exhaustive box, MPI_Pack/MPI_Unpack of marker tiles)."""

META = dict(
    level='exploration', engine='direct harness: MPI_Pack / MPI_Unpack of marker tiles through the real type constructors',
    technique='runtime monitoring: exhaustive enumeration of the stated parameter box; every datatype built by the real parsec_matrix_define_* / parsec_matrix_adt_* functions is observed through MPI_Pack of a marker tile and MPI_Unpack into a poisoned tile and compared with a reference enumeration of the mathematical region; extents read back with MPI_Type_get_extent; ASan+UBSan',
    text='Every (m, n, ld, diag, uplo) of the stated box (m,n in 1..12, ld in m..m+3, both diag values, full/upper/lower) is built for int, double and double complex elements through parsec_matrix_define_datatype, the direct triangle/rectangle/contiguous constructors, parsec_matrix_arena_datatype_define_type and the adt shorthands. The packed byte string must be exactly the elements of the mathematical region in column-major order, an unpack must write exactly those elements of a poisoned tile (guard zones around the tile stay intact), and [lb, lb+extent) must cover the tile. The thorough tier extends the box to m,n <= 32, ld <= m+4 and explicit extents (resized = exact, larger). Exhaustive for the box; says nothing outside it.',
    note='Trusts Open MPI\'s MPI_Pack/MPI_Unpack on MPI_COMM_SELF (homogeneous: a byte gather/scatter in type-map order), the reference region enumeration in the harness, and the marker encoding (distinct bytes per element). Extent oracle is "covers the tile" (and "equals the request" when resized >= 0), not a particular formula.',
    design_ref='DESIGN.md §4 C19')

RULE = ('one case = one datatype built by one entry point for one (element type, uplo, diag, m, n, ld, resized), judged by pack + unpack + extent oracles; '
        'non-trivial = the selected region is a non-empty proper subset of the ld*n buffer (triangles, or rectangles with ld > m); '
        'distinct = distinct (entry point, element type, uplo, diag, m, n, ld, resized) tuples among the non-trivial cases (hash set in the harness)')

FLOORS = (3000, 1000)


def prebuild(ctx):
    ctx.harness('c19_matrixtypes')


def run(ctx):
    thorough = ctx.tier == 'thorough'
    ctx.rule = RULE
    ctx.assumptions = ['MPI_Pack / MPI_Unpack on MPI_COMM_SELF copy bytes in type-map order (Open MPI, homogeneous)',
                       'reference: element (i,j) of an m x n tile is selected iff full, or upper and (i<j or diag and i==j), or lower and (i>j or diag and i==j); order is column-major',
                       'extent oracle: lb <= 0 and lb+extent >= ((n-1)*ld+m)*sizeof(elt); for resized >= 0 the extent equals the request; a larger extent is not a violation',
                       'the seed only changes the marker byte patterns: the box is enumerated completely for every seed']
    exe = ctx.harness('c19_matrixtypes')
    runs = [dict(mmax=12, ldextra=3, rmodes=1)]
    if thorough:
        runs.append(dict(mmax=32, ldextra=4, rmodes=3))
    for k, cfg in enumerate(runs):
        cmd = [exe, '--mmax', cfg['mmax'], '--ldextra', cfg['ldextra'], '--resized-modes', cfg['rmodes'], '--seed', ctx.seed]
        r = ctx.run([str(c) for c in cmd], timeout=3600, stall_s=120, tag='box%d' % k)
        what = 'box m,n<=%d ld<=m+%d resized-modes=%d' % (cfg['mmax'], cfg['ldextra'], cfg['rmodes'])
        st = ctx.absorb(r, what)
        if st == 'stalled':
            ctx.inconclusive_case('stalled: ' + what)
            continue
        s = r.summary()
        if not s:
            continue
        if s['cases'] == 0:
            ctx.harness_failures.append('no case evaluated in ' + what)
            continue
        ctx.evaluations += s['cases']
        if k == len(runs) - 1:
            # the larger box contains the smaller one: distinct tuples are counted once
            ctx.nontrivial_extra += s['distinct_nontrivial']
        for key in ('packed_elements', 'unpacks', 'empty_regions', 'extent_natural', 'extent_ldn', 'extent_requested'):
            ctx.add_cov(key, s[key])
        for grp in ('uplo', 'api', 'types'):
            for kk, v in s[grp].items():
                ctx.add_cov('%s_%s' % (grp, kk), v)
        if k == 0:
            for smp in r.of('sample'):
                smp = dict(smp); smp.pop('type', None)
                ctx.sample(smp)
            ctx.cov['exhaustive'] = (st == 'ok')
            ctx.cov['exhaustive_box'] = 'm,n in 1..12, ld in m..m+3, diag in {0,1}, uplo in {full,upper,lower}, element types int/double/double complex, all entry points'
        else:
            ctx.cov['extended_box'] = 'm,n in 1..32, ld in m..m+4, resized in {-1, ld*n, ld*n+5} for full tiles' + ('' if st == 'ok' else ' (not clean)')
