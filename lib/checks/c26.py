"""C26 — data copy ownership transfers keep one consistent newest version (parsec/data.c start/end transfer ownership).
Hook-free sequential-model harness: the data object is sized for N device copies by the harness itself (the functions
under test only use the copies and parsec_nb_devices), so no fake device registration in parsec_init is needed."""
import os, array

META = dict(
    level='exploration', engine='sequential reference-model harness on the real data.c functions',
    technique='runtime monitoring: every call sequence of (device, R|W|RW, version bump) up to a length over 2..3 device copies is '
              'executed on the real parsec_data_start/end_transfer_ownership_to_copy (DFS with save/restore of the copy fields), plus '
              'random longer sequences with read transfers left in flight; after every call the return value and the copy states are '
              'compared with a reference model (which copies hold which version) and with the ownership invariants; ASan+UBSan',
    text='For every executed sequence: a transfer was requested exactly when the reading target held no or older content, the named '
         'source held the newest version, a writing access left the target OWNED and owner_device, and never more than one OWNED copy '
         'existed. The quick tier enumerates all sequences up to length 8 (2 copies) / 6 (3 copies); the thorough tier all sequences '
         'of the stated box (length <= 8 over 2 and 3 copies) and beyond it (length 11 over 2, 9 over 3, 8 over 4 copies). One recorded finding (owner copy demoted by '
         'its own read-only access).',
    note='The harness plays the device layer (version copied from the named source, bumped on writes, readers released) as '
         'device_gpu.c/jdf2c do; no bytes move and no device module exists. Trusts the reference model of the harness.',
    design_ref='DESIGN.md §4 C26')

RULE = ('one evaluation = one call sequence replayed on the real functions with all four oracles after every call; non-trivial = length '
        '>= 3 with at least one requested transfer and one writing access; distinct = enumerated sequences are distinct by construction '
        '(counted once per (copies, initial state) at the longest enumerated length), random sequences by hash of the operation list')
FLOORS = (20000, 5000)


def prebuild(ctx):
    for f in ('asan', 'rel'):
        ctx.harness('c26_ownership', f)


def run(ctx):
    thorough = ctx.tier == 'thorough'
    ctx.rule = RULE
    ctx.assumptions = ['legal client only: a writer runs alone (all transfers completed, all readers released; WAR hazards are the user\'s job), '
                       'write-only accesses always produce a new version, the first access to an arena copy (no content anywhere) writes',
                       'the version of the target is copied from the named source before end(), as device_gpu.c stage_in does',
                       'initial states: parsec_data_create() (device-0 copy OWNED v0) and arena copy (device-0 copy INVALID, owner_device 0)',
                       'readers counters are driven but not judged (not part of the property)']
    exe = {f: ctx.harness('c26_ownership', f) for f in ('asan', 'rel')}
    S = ctx.seed * 104729
    jobs = []   # (flavour, args)

    def enum(flavour, nd, ln, variant=0, nparts=1):
        for p in range(nparts):
            jobs.append((flavour, ['--mode', 'enum', '--devices', nd, '--len', ln, '--variant', variant, '--part', p, '--nparts', nparts]))

    def rnd(flavour, nd, n, ln, seed, orp):
        jobs.append((flavour, ['--mode', 'random', '--devices', nd, '--len', ln, '--sequences', n, '--seed', seed, '--owner-read-permille', orp]))

    if thorough:
        enum('rel', 2, 8, 0); enum('rel', 2, 8, 1)
        enum('rel', 3, 8, 0, 8); enum('rel', 3, 8, 1, 2)
        enum('rel', 3, 9, 0, 24)
        enum('rel', 2, 11, 0, 12)
        enum('rel', 3, 9, 1, 4)
        enum('rel', 4, 8, 0, 16)
        enum('asan', 2, 8, 0); enum('asan', 3, 7, 0, 4); enum('asan', 3, 6, 1)
        for i in range(4):
            rnd('rel', 2 + i % 2, 1500000, 16, S + i, 1000 if i < 2 else 100)
        for i in range(4):
            rnd('asan', 2 + i % 2, 150000, 16, S + 50 + i, 1000 if i < 2 else 100)
        rnd('rel', 4, 500000, 16, S + 90, 200)
    else:
        enum('rel', 2, 8, 0); enum('rel', 2, 7, 1); enum('rel', 3, 6, 0); enum('rel', 3, 6, 1)
        enum('asan', 2, 6, 0); enum('asan', 3, 5, 0); enum('asan', 2, 5, 1); enum('asan', 3, 4, 1)
        # the recorded finding's trigger (read-only access by the owner) is down-weighted in the random part of the quick tier
        rnd('rel', 2, 60000, 12, S + 1, 30); rnd('rel', 3, 60000, 12, S + 2, 30)
        rnd('asan', 2, 12000, 12, S + 3, 30); rnd('asan', 3, 12000, 12, S + 4, 30)

    def one(ja):
        i, (flavour, args) = ja
        hf = os.path.join(ctx.work, 'hashes.%d' % i)
        r = ctx.run([exe[flavour]] + [str(a) for a in args] + ['--hashfile', hf], timeout=7200 if thorough else 900, stall_s=300, tag='own-%d' % i)
        return flavour, args, hf, r

    hashes = set()
    enum_nt = {}     # (flavour, devices, variant, len) -> non-trivial sequences (summed over parts)
    for flavour, args, hf, r in ctx.pmap(one, list(enumerate(jobs)), jobs=6):
        what = 'ownership %s %s' % (flavour, ' '.join(str(a) for a in args))
        st = ctx.absorb(r, what)
        if st == 'stalled':
            ctx.inconclusive_case('stalled: ' + what)
            continue
        s = r.summary()
        if not s:
            continue
        ctx.evaluations += s['sequences']
        for k in ('calls', 'transfers_requested', 'writes', 'reads', 'read_only_by_owner', 'left_in_flight', 'double_requests'):
            ctx.add_cov(k, s[k])
        for k, v in s['modes'].items():
            ctx.add_cov('calls_' + k, v)
        for d, v in enumerate(s['sources']):
            if v:
                ctx.add_cov('source_named_dev%d' % d, v)
        for k, v in s['oracle_hits'].items():
            ctx.add_cov('oracle_hits[' + k + ']', v)
        if s['mode'] == 'enum':
            key = (flavour, s['devices'], s['variant'], s['len'])
            enum_nt[key] = enum_nt.get(key, 0) + s['nontrivial']
            ctx.add_cov('enumerated_sequences_%dcopies' % s['devices'], s['sequences'])
        else:
            ctx.add_cov('random_sequences_%dcopies' % s['devices'], s['sequences'])
            if os.path.exists(hf):
                a = array.array('Q')
                with open(hf, 'rb') as f:
                    a.frombytes(f.read())
                hashes.update(a)
        for smp in r.of('sample'):
            ctx.sample(smp)
    # shorter enumerations are prefixes of the longer ones, flavours repeat each other: count each (copies, initial state) once
    best = {}
    for (flavour, nd, var, ln), n in enum_nt.items():
        best[(nd, var)] = max(best.get((nd, var), 0), n)
    ctx.nontrivial_extra += sum(best.values())
    ctx.distinct.update(hashes)
    ctx.cov['enumerated_complete_up_to_length'] = {'%d copies, %s' % (nd, 'collection data' if var == 0 else 'arena copy'):
                                                   max(ln for (f, d, v, ln) in enum_nt if d == nd and v == var) for (nd, var) in best}
    ctx.cov['flavours'] = ['asan', 'rel']
