"""C28 — the zone allocator is a correct best-fit allocator (shadow unit map + segment/free-index walk after every
operation; random histories, exhaustive malloc/free sequence boxes on zones of up to 16 units, threaded stress)."""

META = dict(
    level='exploration', engine='sequential model harness (shadow unit map) + threaded ownership stress',
    technique='runtime monitoring: the real zone_malloc/zone_free/zone_in_use are driven with generated histories; after every operation a '
              'monitor compares the result with a shadow unit map (inside zone, aligned, no live unit twice, NULL only without a sufficient free '
              'run, best fit), walks the segment table and the free index (free runs merged and filed by size) and checks zone_in_use; payload '
              'patterns give independent overlap evidence; threaded stress with an atomic ownership map; ASan+UBSan build',
    text='Seeded random malloc/free histories on zones of 1..64 units (some up to 1024; six unit sizes incl. non powers of two; byte sizes that '
         'need rounding; zero-size and over-size requests), every malloc/free sequence up to a bounded length on zones of 3..16 units, and '
         '4..16 threads sharing one zone are executed on the library code. All oracles are evaluated after each single operation in the '
         'sequential modes; the threaded mode checks ownership, payload and accounting at quiescent points. Held on the sequences executed.',
    note='Trusts the shadow map in harness/c28_zone.c and a replica of the private chunk-list node type of zone_malloc.c (pinned tree) used to '
         'read the free index. Requests whose unit count does not fit an int are a recorded finding (see known_findings.txt).')

RULE = ('one case = one malloc/free sequence executed on a fresh zone with all oracles after every operation (threaded: one stress run); '
        'non-trivial = at least 3 operations of which at least one changed the allocator state; distinct = distinct hashes of '
        '(zone geometry, operation sequence)')
FLOORS = (200, 100)


def prebuild(ctx):
    for f in ('asan', 'rel'):
        ctx.harness('c28_zone', f)


def run(ctx):
    thorough = ctx.tier == 'thorough'
    ctx.rule = RULE
    ctx.assumptions = ['shadow unit map is the reference; a zero-size request is not judged (NULL is acceptable)',
                       'best fit = the block is carved from a smallest sufficient maximal free run (title of the property, anchored mechanism)',
                       'replica of zone_malloc_chunk_list_t (private to zone_malloc.c) is used to read the free index of the pinned tree',
                       'the allocator is serialised by its own lock: the threaded mode can only observe ownership/payload/accounting, not interleavings inside it']
    exe = {f: ctx.harness('c28_zone', f) for f in ('asan', 'rel')}
    S = ctx.seed
    if thorough:
        rnd = [('asan', 16, 4000, 4000), ('rel', 16, 50000, 10000)]
        enum = [('asan', 3, 11), ('asan', 4, 10), ('asan', 6, 8), ('asan', 8, 7), ('rel', 12, 6), ('rel', 16, 6), ('rel', 5, 10), ('rel', 8, 8), ('rel', 16, 5)]
        stress = [('asan', 4, 64, 4, 200000), ('asan', 8, 256, 8, 200000), ('asan', 16, 1024, 16, 100000), ('rel', 8, 64, 6, 2000000), ('rel', 16, 512, 12, 1000000)]
    else:
        rnd = [('asan', 6, 400, 2000), ('rel', 6, 3000, 10000)]
        enum = [('asan', 3, 9), ('asan', 4, 8), ('asan', 6, 6), ('asan', 8, 5), ('rel', 12, 5), ('rel', 16, 4), ('rel', 5, 8), ('rel', 8, 6)]
        stress = [('asan', 4, 64, 4, 20000), ('asan', 8, 256, 8, 20000), ('rel', 16, 512, 12, 50000)]
    jobs = []
    for fl, n, h, maxlen in rnd:
        for k in range(n):
            jobs.append(dict(kind='random', fl=fl, args=['--mode', 'random', '--histories', h, '--maxlen', maxlen, '--seed', S * 100003 + k * 17 + (fl == 'rel') * 7919]))
    for i, (fl, units, ln) in enumerate(enum):
        jobs.append(dict(kind='enum', fl=fl, args=['--mode', 'enum', '--units', units, '--len', ln, '--unit', (64, 1, 100)[(S + i) % 3], '--sigcap', 1 << 24 if thorough else 1 << 21]))
    for fl, t, units, maxreq, rounds in stress:
        jobs.append(dict(kind='stress', fl=fl, args=['--mode', 'stress', '--threads', t, '--units', units, '--maxreq', maxreq, '--rounds', rounds, '--phases', 5, '--seed', S * 31 + t]))

    jobs.append(dict(kind='probe', fl='asan', args=['--mode', 'probe-huge', '--units', 16 + S % 32, '--unit', (8, 64, 1)[S % 3]]))
    jobs.append(dict(kind='probe', fl='rel', args=['--mode', 'probe-huge', '--units', 16 + S % 32, '--unit', (8, 64, 1)[S % 3]]))

    def one(j):
        cmd = [exe[j['fl']]] + [str(a) for a in j['args']]
        return j, ctx.run(cmd, timeout=7200 if thorough else 900, stall_s=120, tag='%s-%s-%d' % (j['kind'], j['fl'], id(j)))

    res = ctx.pmap(one, [j for j in jobs if j['kind'] != 'stress'], jobs=8) + ctx.pmap(one, [j for j in jobs if j['kind'] == 'stress'], jobs=1)
    boxes = []
    for j, r in res:
        what = '%s %s' % (j['fl'], ' '.join(str(a) for a in j['args']))
        hist = r.of('history')
        if j['kind'] == 'probe':
            # one request whose unit count cut to int is negative: every abnormal outcome (block granted, crash inside zone_malloc,
            # corrupted table) is the same root cause as the recorded finding and is keyed like it
            ctx.evaluations += 1; ctx.add_cov('huge_request_probes', 1)
            if r.crashed or r.of('violation') or r.summary() is None:
                head = (r.san[0].strip().splitlines()[0] if r.san else '') or ('signal %s' % r.signal)
                ctx.violation('zone:malloc:oversize-granted:unit-count-exceeds-int', '%s: request of 2^32-5 units on a small zone: %s %s' % (
                    what, '; '.join(v.get('text', '') for v in r.of('violation'))[:200], head[:200]), r)
            continue
        st = ctx.absorb(r, what, files={'history.json': [h for h in hist if h.get('why') == 'violation']} if hist else None)
        if st == 'stalled':
            ctx.inconclusive_case('stalled/timed out: ' + what); continue
        s = r.summary()
        if not s:
            continue
        if j['kind'] == 'stress':
            ctx.evaluations += 1
            ctx.add_cov('stress_ops', s['ops']); ctx.add_cov('stress_mallocs', s['mallocs']); ctx.add_cov('stress_null', s['nulls']); ctx.max_cov('stress_max_threads', s['threads'])
            continue
        for k in ('walks', 'malloc_ok', 'malloc_null', 'free', 'split', 'exact_fit', 'merge_prev', 'merge_next', 'merge_both', 'merge_none'):
            ctx.add_cov(k, s[k])
        if j['kind'] == 'random':
            ctx.evaluations += s['histories']; ctx.nontrivial_extra += s['distinct']
            for k in ('ops', 'zero_size', 'oversize', 'whole_zone', 'oversize_granted'):
                ctx.add_cov(k, s[k])
            ctx.max_cov('max_live', s['max_live'])
            for h in hist:
                if h.get('why') == 'sample':
                    ctx.sample({'mode': 'random', 'flavour': j['fl'], 'history': h['ops'][:700]}, cap=3)
        else:
            ctx.evaluations += s['sequences']; ctx.nontrivial_extra += s['distinct']
            b = dict(mode='enum', flavour=j['fl'], units=s['units'], len=s['len'], sequences=s['sequences'], complete=not s['truncated'])
            boxes.append(b); ctx.sample(b, cap=5)
    ctx.cov['boxes'] = boxes
    ctx.cov['flavours'] = ['asan', 'rel']
