"""C34 — objects are destroyed exactly once, most derived first, only when the last reference goes
(destructor log + shadow reference tokens on the real object system, concurrent retain/release with hand-over)."""

META = dict(
    level='exploration', engine='E4 direct-drive concurrency harness (destructor log + shadow reference tokens)',
    technique='runtime monitoring: per-object destructor log (level sequence, per-level counts) and a shadow count of outstanding '
              'references (decremented before a release is invoked, incremented after a retain returned) checked inside every '
              'destructor and at quiescence, on harness-declared class hierarchies driven through the real PARSEC_OBJ_* macros by '
              '2..16 threads with injected delays before the atomic update; ASan (use after free / double free) + UBSan',
    text='Objects of 12 classes (hierarchy depth 1..4, with and without constructors/destructors at some levels, one family below the '
         'real parsec_list_item_t) are created concurrently (heap via parsec_obj_new, pooled via PARSEC_OBJ_CONSTRUCT) and their '
         'references are retained and released by different threads (a reference retained by one thread is released by another). For '
         'every object: each level destructor ran exactly once, in most-derived-to-base order, never while a reference whose release '
         'had not been invoked was outstanding, and it did run once every release had returned; freed objects are watched by ASan. '
         'Both the inlined parsec_obj_update of the header (with its yield site) and the exported non-inline function are driven. '
         'Held on the histories observed.',
    note='Trusts the harness token discipline (a thread only touches an object while it holds a token) and the shadow-count argument; '
         'constructor order is recorded, not judged.')

RULE = ('one case = one object life (creation, a random sequence of retains/releases by several threads, destruction) judged by the '
        'destructor-log oracle; non-trivial = at least two different threads updated its reference count and at least one retain '
        'happened; distinct = distinct (class, allocation kind, thread/op sequence) signatures')

FLOORS = (1000, 100)


def builds(ctx, flavour):
    return [('inline', ctx.harness('c34_object', flavour, extra_cflags=['-DVF_OBJ_INLINE'], outname='c34_object_inline')),
            ('external', ctx.harness('c34_object', flavour, outname='c34_object_ext'))]


def prebuild(ctx):
    for f in ('asan', 'rel'):
        builds(ctx, f)


def run(ctx):
    thorough = ctx.tier == 'thorough'
    ctx.rule = RULE
    ctx.assumptions = ['token discipline: an object is touched only by a thread holding one of its references',
                       'shadow count <= true outstanding references (decrement before release is invoked, increment after retain returned)',
                       'an object whose releases all returned must have run all its destructors (quiescent check per batch)',
                       'depth counts levels below the root class; family c adds the real parsec_list_item_t level on top']
    scale = 10 if thorough else 1
    jobs = []
    n = 0
    # (threads, batch, retains, objects, yield permille, yield us): small batches put many threads on the same counter
    shapes = [(8, 256, 10, 6000, 0, 0), (16, 64, 12, 4000, 0, 0), (4, 4, 20, 3000, 0, 0), (8, 2, 22, 2500, 0, 0), (2, 16, 8, 4000, 0, 0),
              (8, 8, 16, 3000, 200, 0), (3, 3, 20, 2000, 300, 20), (16, 16, 20, 2500, 100, 0)]
    for flavour in ('asan', 'rel'):
        for bname, exe in builds(ctx, flavour):
            for (t, b, rt, nobj, y, yus) in shapes:
                if bname == 'external' and y:
                    continue          # the yield site lives in the inlined header version only
                n += 1
                no = nobj * scale // (4 if yus else 1)
                jobs.append(dict(flavour=flavour, build=bname, threads=t, tag='o%d' % n,
                                 cmd=[exe, '--threads', t, '--batch', b, '--retains', rt, '--objects', max(200, no),
                                      '--seed', ctx.seed * 1000 + n, '--yield', y, '--yield-us', yus]))

    def one(j):
        cmd = [str(c) for c in j['cmd']]
        if ctx.violations:
            return j, None, 'skipped'      # a witness exists: do not spend the stall budget of the remaining runs
        what = '%s/%s %s' % (j['flavour'], j['build'], ' '.join(cmd[1:]))
        r, st = ctx.run_with_stall_rule(lambda: ctx.run(cmd, timeout=14400 if thorough else 900, stall_s=90, tag=j['tag']), what)
        return j, r, st

    res = ctx.pmap(one, [j for j in jobs if j['threads'] <= 4], jobs=3) + ctx.pmap(one, [j for j in jobs if j['threads'] > 4], jobs=2)
    for j, r, st in res:
        if st in ('stalled', 'skipped') or r is None:
            continue
        s = r.summary()
        if not s:
            continue
        ctx.evaluations += s['objects']
        ctx.nontrivial_extra += s['distinct']
        for k in ('retains', 'releases', 'handover_releases', 'heap', 'depth1', 'depth2', 'depth3', 'depth4', 'yield_hits', 'ctor_order_not_base_first'):
            ctx.add_cov(k, s[k])
        ctx.add_cov('objects_updated_by_two_or_more_threads', s['nontrivial'])
        for o in r.of('object')[:1]:
            ctx.sample(dict(o, build=j['build'], flavour=j['flavour'], threads=s['threads']), cap=4)
        if s['threads'] >= 8 and 'destroyer' not in ctx.cov:
            ctx.cov['destroyer'] = 1
            ctx.sample({'which_thread_ran_the_destructor': s['destroyed_by_thread'], 'threads': s['threads'], 'build': j['build'], 'flavour': j['flavour']}, cap=5)
    ctx.cov.pop('destroyer', None)
    ctx.cov['builds'] = ['inline parsec_obj_update (BUILDING_PARSEC, yield site)', 'parsec_obj_update_not_inline (libparsec)']
    ctx.cov['flavours'] = ['asan', 'rel']
