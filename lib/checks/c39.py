"""C39 — argument-vector utilities are consistent (E7/sequential-model harness over argv.c and cmd_line.c)."""

META = dict(
    level='exploration', engine='E7 process-level harness, sequential reference models in the harness',
    technique='runtime monitoring: every call result of the real argv / cmd_line functions compared with a shadow vector and a reference parser written from the header documentation, on seeded random strings, edit sequences, option tables and command lines; ASan+UBSan on the string code',
    text='Random strings over a delimiter-rich alphabet (fields of 0..300 characters, including the 127/128/129 buffer boundary) are split with and without empty fields and joined back; random edit sequences (append, prepend, append_unique, insert, insert_element, delete, copy, join, join_range, len, count) are mirrored on a shadow vector after every call; random option tables (short / single-dash / long names, 0..3 parameters, typed destinations) and command lines (repeated options, combined short names, "--", unknown tokens and options, missing parameters, re-parsing on one handle) are parsed and every declared option, instance, parameter, destination and the tail compared with a reference parser. Held on the cases generated; the space is sampled, not enumerated.',
    note='Trusts the reference models in harness/c39_argv.c (written from argv.h / cmd_line.h). Only documented spellings are generated (-s, -single-dash, --long, -long, combined declared shorts); error-path tails are checked for "--", unknown tokens and unknown options only.',
    design_ref='DESIGN.md §4 C39, §3 E7')

RULE = ('one case = one split/join round trip, one edit sequence, or one parse of a generated command line against a generated option table; '
        'non-trivial = string with >= 2 fields / edit sequence with >= 3 structure-changing calls / command line with >= 1 recognised option instance; '
        'distinct = distinct hashes of the case input (string+delimiter+mode, operation list with arguments, option table + argv)')

FLOORS = (1000, 500)


def prebuild(ctx):
    ctx.harness('c39_argv', 'asan')
    ctx.harness('c39_argv', 'rel')



def run(ctx):
    thorough = ctx.tier == 'thorough'
    ctx.rule = RULE
    ctx.assumptions = ['reference models of harness/c39_argv.c follow argv.h and cmd_line.h (python-like field semantics for split; documented rules for parse)',
                       'only documented option spellings are generated; "--name" for short / single-dash names is not exercised',
                       'tails of "not enough parameters" errors are not compared (the documentation does not fix them)',
                       'ASan fatal, UBSan through the reviewed suppression list']
    total = 5000000 if thorough else 120000
    njobs = 14 if thorough else 8
    per = total // njobs
    jobs = []
    for i in range(njobs):
        # one job in four runs in the production build (different optimisation, no assertions)
        flavour = 'rel' if i % 4 == 3 else 'asan'
        exe = ctx.harness('c39_argv', flavour)
        jobs.append(dict(flavour=flavour, cmd=[exe, '--mode', 'all', '--cases', str(per), '--seed', str(ctx.seed * 1000 + i)]))

    def one(j):
        return j, ctx.run(j['cmd'], timeout=7200 if thorough else 900, tag='c39-%s-%s' % (j['flavour'], j['cmd'][-1]))

    keys = ('split', 'split_with_empty', 'long_fields', 'trailing_delimiter', 'edit_ops', 'deletes', 'delete_overrun', 'inserts', 'inserts_middle',
            'join_range', 'parse_instances', 'parse_params', 'parse_tail_tokens', 'parse_errors', 'parse_combined_shorts', 'parse_short_params',
            'parse_dashdash', 'parse_reparse', 'parse_unknown_token', 'parse_unknown_option', 'parse_typed_dest', 'known_trailing_hits', 'known_overrun_hits')
    for j, r in ctx.pmap(one, jobs, jobs=min(njobs, 10)):
        what = '%s %s' % (j['flavour'], ' '.join(j['cmd'][1:]))
        st = ctx.absorb(r, what)
        if st == 'stalled':
            ctx.inconclusive_case('timed out: ' + what)
            continue
        s = r.summary()
        if not s:
            continue
        ctx.evaluations += s['cases']
        ctx.nontrivial_extra += s['distinct_nontrivial']     # seeds differ per job, hashes are of the inputs
        for k in keys:
            ctx.add_cov(k, s.get(k, 0))
        for c in r.of('case')[:2]:
            ctx.sample(c)
    ctx.cov['flavours'] = ['asan', 'rel']
    ctx.cov['functions'] = ['parsec_argv_append', 'append_nosize', 'prepend_nosize', 'append_unique_nosize', 'split', 'split_with_empty', 'join', 'join_range',
                            'count', 'len', 'copy', 'delete', 'insert', 'insert_element', 'parsec_cmd_line_create', 'make_opt3', 'parse', 'get_ninsts', 'is_taken',
                            'get_param', 'get_tail', 'get_argc', 'get_argv', 'get_usage_msg']
    # a run that never reached one of the three engines observed too little
    for k in ('split', 'edit_ops', 'parse_instances', 'long_fields', 'parse_combined_shorts', 'inserts_middle'):
        if not ctx.cov.get(k):
            ctx.harness_failures.append('coverage counter %s is zero' % k)
