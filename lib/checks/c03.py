"""C03 — DTD results equal sequential execution in insertion order (E2: script generator + interpreter harness + sequential oracle)."""
import os, random
import e2dtd
from e2dtd import R, W, RW

META = dict(
    level='exploration', engine='E2 DTD script generator + script interpreter harness + sequential oracle',
    technique='runtime monitoring: seeded random DTD insertion scripts interpreted by one C harness on the real runtime; every value a task body reads and every '
              'owner copy after flush+wait is compared with a sequential interpreter of the script (two independent oracle implementations, C and python); '
              'yield injection at the DTD chain-building sites; ASan+UBSan',
    text='Random insertion sequences (20..400 tasks over 1..8 tiles, INPUT/OUTPUT/INOUT mixes with many RAW/WAR alternations, new tiles, several taskpools, tasks inserting '
         'tasks, PARSEC_DONT_TRACK readers, several flush/wait rounds) are executed on 1..16 threads, all 11 schedulers, window/threshold 1,2,8,default, start before/after '
         'insertion, and on 2..3 MPI ranks with affinity / explicit placement; each observed read and final value must equal sequential execution in insertion order. '
         'Held on the executions observed; repeated use of one tile inside a task and reader-heavy multi-rank scripts are known findings and are kept as low-weight probes.',
    note='Trusts the two sequential interpreters (they must agree or the run is void), MPI delivery, and the generator legality rules listed in lib/e2dtd.py; PARSEC_DONT_TRACK '
         'parameters are outside the oracle; multi-rank scripts use one flush/wait round and few pure readers because of the recorded multi-rank stalls.')

RULE = ('one case = one script x one configuration (threads, scheduler, window, threshold, start mode, ranks, yield); non-trivial = the script has >=1 write-after-read and '
        '>=1 read-after-write on one tile, every task ran and all reads were compared; distinct = distinct (script digest, configuration)')

FLOORS = (8, 6)


def prebuild(ctx):
    ctx.harness('c03_dtd', 'asan')
    ctx.harness('c03_dtd', 'rel')


def run(ctx):
    thorough = ctx.tier == 'thorough'
    sc = lambda n: max(1, int(round(n * float(os.environ.get('VERIF_E2_SCALE', '1')))))    # scratch trials only
    ctx.rule = RULE
    ctx.assumptions = ['sequential interpreters in harness/c03_dtd.c and lib/e2dtd.py (cross-checked on every check point)',
                       'generator legality rules (lib/e2dtd.py header): per-tile insertion order is defined, new tiles written first and flushed once, no wait inside tasks',
                       'PARSEC_DONT_TRACK parameters excluded from the oracle', 'MPI per-pair FIFO delivery', 'UBSan suppression list /verif/ubsan.supp']
    rng = random.Random(ctx.seed * 7919 + 3)
    camp = e2dtd.Campaign(ctx, 'C03', 'asan')
    jobs = []
    # ---- single rank: the full feature space
    n1 = sc(220 if thorough else 14)
    ncfg1 = 3 if thorough else 2
    for i in range(n1):
        feat = dict(nested=(i % 3 == 1), dont_track=(i % 4 == 2), ntp=(2 if i % 5 == 3 else 1))
        nt = rng.randint(20, 400 if thorough else 150)
        s = e2dtd.gen(ctx.seed * 100000 + i, world=1, profile='c03', ntasks=nt, max_np=rng.choice([2, 3, 3, 4]), **feat)
        for c in range(ncfg1):
            jobs.append(dict(script=s, cfg=e2dtd.pick_cfg(rng, 1, thorough, nested=feat['nested']), kind='s1'))
    # ---- multi rank (affinity-driven placement): one round, moderate share of pure readers (see META.note)
    nm = sc(60 if thorough else 6)
    for i in range(nm):
        ranks = rng.choice([2, 2, 2, 3, 4]) if thorough else (2 if i < 5 else 3)
        s = e2dtd.gen(ctx.seed * 100000 + 50000 + i, world=ranks, profile='c03', ntasks=rng.randint(20, 120 if thorough else 60), rounds=1,
                      read_pct=(rng.choice([10, 25, 25, 40]) if ranks == 2 else rng.choice([0, 5, 10])), max_np=3)
        jobs.append(dict(script=s, cfg=e2dtd.pick_cfg(rng, ranks, thorough), kind='mp'))
    # ---- known-finding probes at low weight (Appendix C budget protection): one tile twice in one task, reader-heavy 3-rank script
    pats = [[R, W], [RW, RW]] if not thorough else [[a, b] for a in (R, W, RW) for b in (R, W, RW)] + [[R, R, W], [R, W, R], [W, R, W], [R, R, R]]
    for m in pats:
        jobs.append(dict(script=e2dtd.gen_pattern(m, sleep_first=(2000 if rng.randrange(2) else 0)), cfg=dict(ranks=1, cores=4), kind='pat'))
    if thorough:
        for i in range(6):
            s = e2dtd.gen(ctx.seed * 100000 + 70000 + i, world=1, profile='c03', ntasks=60, rep_pct=rng.choice([10, 30]), max_np=3)
            jobs.append(dict(script=s, cfg=e2dtd.pick_cfg(rng, 1, True), kind='rep'))
    for i in range(3 if thorough else 1):
        s = e2dtd.gen(ctx.seed * 100000 + 80000 + i, world=3, profile='c03', ntasks=60, rounds=1, read_pct=40, max_np=3)
        jobs.append(dict(script=s, cfg=dict(ranks=3, cores=2), kind='mp3r', stall_s=45))

    done = camp.run(jobs, width=16)
    account(ctx, done, 'C03')
    # ---- production flavour (NDEBUG): the same-tile probes show the stall / NULL parameter there instead of an assertion
    if thorough:
        campr = e2dtd.Campaign(ctx, 'C03', 'rel')
        jr = [dict(script=e2dtd.gen_pattern(m), cfg=dict(ranks=1, cores=4), kind='patrel', stall_s=30) for m in ([R, R], [R, W], [R, RW], [W, R], [RW, RW], [W, W])]
        account(ctx, campr.run(jr, width=16), 'C03', flavour='rel')


def account(ctx, done, prop, flavour='asan'):
    for j in done:
        s = j['script']; m = s.measures(); summ = j.get('summary'); st = j.get('status')
        ctx.add_cov('runs_%s' % j.get('kind', 'x'), 1)
        ctx.add_cov('status_%s' % st, 1)
        if st in ('ok',) and summ:
            full = summ['ran'] == summ['tasks'] and summ['violations'] == 0
            nontrivial = bool(m['nontrivial'] and full and summ['reads_compared'] > 0)
            ctx.note_case((s.digest(), e2dtd.cfg_str(j['cfg']), flavour), nontrivial=nontrivial)
            for k in ('tasks', 'reads_compared', 'finals_compared', 'flush_compared', 'order_pairs', 'reader_pairs_overlapped', 'again', 'writer_again', 'yield_hits',
                      'xrank_reads', 'xrank_flush', 'checks', 'flushes', 'waits'):
                ctx.add_cov(k, summ.get(k, 0))
            ctx.add_cov('nested_tasks', m['nested_tasks']); ctx.add_cov('dont_track_params', m['dont_track_params'])
            ctx.add_cov('raw_edges', m['raw']); ctx.add_cov('war_edges', m['war'])
            ctx.max_cov('max_tasks_in_script', m['tasks']); ctx.max_cov('max_concurrent_readers', summ.get('max_concurrent_readers', 0))
            cov = ctx.cov.setdefault('configs_seen', {})
            for k in ('sched', 'cores', 'window', 'threshold'):
                cov.setdefault(k, [])
                if summ.get(k) not in cov[k]: cov[k].append(summ.get(k))
            cov.setdefault('ranks', [])
            if summ.get('ranks') not in cov['ranks']: cov['ranks'].append(summ.get('ranks'))
            if nontrivial:
                ctx.sample(dict(script_head=s.text()[:700], digest=s.digest(), features=s.feat, measures=m, config=j['cfg'],
                                observed={k: summ.get(k) for k in ('ran', 'reads_compared', 'finals_compared', 'again', 'reader_pairs_overlapped', 'sched', 'cores')}))
        elif st in ('foreign', 'inconclusive', 'stalled'):
            ctx.inconclusive_case('%s %s' % (j.get('kind'), st)) if st != 'inconclusive' else None
