"""C20 — block-cyclic (and related) data distributions are consistent: every rank's view built in one process
(myrank = r), ownership agreed by all views, local storage injective and non-overlapping, keys round-trip."""
import re

META = dict(
    level='exploration', engine='direct harness: all rank views of one distribution built in one process, no MPI traffic',
    technique='runtime monitoring: generated parameter sets drive the real init / rank_of / rank_of_key / data_key / vpid_of / data_of / data_of_key entry points of every distribution for every rank\'s view; online oracles (owner agreement, pigeonhole on local slots, distinct data objects inside the data_map, disjoint byte ranges inside the local allocation, key round trips); assertion failures of the library are intercepted and recorded; ASan+UBSan in the verdict build, the same monitor on the production build (NDEBUG)',
    text='Random parameter sets (matrix 1..40 x 1..40, tiles 1..7, sub-matrix offsets, grids up to 16 ranks, k-cyclicity 1..4, grid offsets ip/jq, band widths, random/explicit/user tables, vector diag/row/col) for the 2D block-cyclic distribution, its k-cyclic variant and k-view, the symmetric distribution (whole and diagonal sub-matrix), the band and symmetric-band compositions, the tabular distribution, the vector distribution and the symmetric block-cyclic (sbc) distribution on 1..15 ranks. For every set the view of every rank is built and all views must agree on one valid owner per tile; on the owner the tiles must fit the local slots, map to distinct data objects of the data_map with pairwise disjoint byte ranges inside the local allocation; keys must be distinct, map back to coordinates and the *_of_key entry points must agree with the coordinate ones; vpid in range. Held on the parameter sets explored (apart from the recorded findings); sampled, not exhaustive.',
    note='Trusts the harness bookkeeping (owner table, sorted range check). nb_vp is 1 in every run (multi-vp maps are unreachable, DESIGN f52f348), so the vpid oracle only sees 0. LAPACK storage is not driven. Sub-matrix pigeonhole is a necessary condition only (40 % of the sets use the whole matrix, where it is exact). The hang-prone vector-diag grids are only driven by dedicated probes.',
    design_ref='DESIGN.md §4 C20')

RULE = ('one case = one parameter set of one distribution family with the views of all P*Q ranks built and judged; '
        'non-trivial = the (sub)matrix has >= 4 tiles owned by >= 2 distinct ranks; '
        'distinct = distinct parameter tuples (hash of the full description, per family and build flavour) among the non-trivial cases')

FLOORS = (1500, 500)

QUICK = dict(bc=220, kcyc=220, kview=110, sym=180, symsub=80, band=180, symband=110, tab=180, vec=120, vecsub=100, sbc=120)
THOROUGH_ASAN = dict(bc=5000, kcyc=5000, kview=3000, sym=4000, symsub=2000, band=4000, symband=3000, tab=4000, vec=3000, vecsub=2000, sbc=3000)
THOROUGH_REL = dict(bc=40000, kcyc=40000, kview=25000, sym=30000, symsub=15000, band=30000, symband=25000, tab=30000, vec=20000, vecsub=10000, sbc=20000)
COVKEYS = ('views', 'tiles', 'data_of', 'key_checks', 'multi_rank', 'submatrix', 'grid_offset', 'k_gt_1', 'partial_last_tile',
           'ranks_owning_nothing', 'cases_abandoned_on_assert')


def prebuild(ctx):
    for f in ('asan', 'rel'):
        ctx.harness('c20_dist', f)


def _last_at(r):
    k = None
    for l in r.stderr.splitlines():
        m = re.match(r'VFAT (\d+) ', l)
        if m:
            k = int(m.group(1))
    return k


def _family(ctx, exe, flavour, fam, cases, seed, timeout):
    """Run one family; after an abnormal end of the process restart behind the case that was being judged."""
    start = 0; restarts = 0; out = []
    while start < cases:
        tag = '%s-%s-%d' % (flavour, fam, start)
        cmd = [exe, '--family', fam, '--cases', str(cases), '--start', str(start), '--seed', str(seed)]
        r = ctx.run(cmd, timeout=timeout, stall_s=240, tag=tag)
        what = '%s/%s cases %d..%d seed %d' % (flavour, fam, start, cases, seed)
        st = ctx.absorb(r, what)
        out.append((r, st))
        if r.summary() is not None:
            break
        at = _last_at(r)
        if st == 'stalled':
            ctx.inconclusive_case('stalled: %s at case %s' % (what, at))
        restarts += 1
        if at is None or restarts > 6:
            ctx.harness_failures.append('%s: gave up after %d restarts (last case %s)' % (what, restarts, at))
            break
        ctx.add_cov('process_restarts', 1)
        start = at + 1
    return out


def run(ctx):
    thorough = ctx.tier == 'thorough'
    ctx.rule = RULE
    ctx.assumptions = ['legal parameters only: P*Q <= 16 ranks, 0 <= ip < P, 0 <= jq < Q, sub-matrix inside the matrix; symmetric distributions get square matrices and square tiles and, for sub-matrices, a tile-aligned diagonal offset; band and off-band collections share the node set',
                       'tiles outside the stored triangle of a symmetric distribution are never queried',
                       'over-allocation (nb_local_tiles larger than needed) is not a violation; too few slots for the owned tiles is',
                       'the data object of a k-view / band tile belongs to the underlying collection, so its stored key is not compared with the view\'s key',
                       'an assertion failure inside the library during legal calls is a violation candidate (keyed assert:<file>:<function>); the case is abandoned and the production-build run judges the same feature without assertions',
                       'vector diag on grids where Q does not divide P is only driven by single-case probes under the stall rule (recorded finding)']
    plan = []
    if thorough:
        for fam, n in THOROUGH_ASAN.items():
            plan.append(('asan', fam, n, ctx.seed))
        for fam, n in THOROUGH_REL.items():
            plan.append(('rel', fam, n, ctx.seed + 100000))
    else:
        for fam, n in QUICK.items():
            plan.append(('asan', fam, n, ctx.seed))
            plan.append(('rel', fam, n, ctx.seed + 100000))
    exes = {f: ctx.harness('c20_dist', f) for f in ('asan', 'rel')}
    plan.sort(key=lambda p: -p[2] * (4 if p[0] == 'asan' else 1))

    def one(p):
        fl, fam, n, seed = p
        return p, _family(ctx, exes[fl], fl, fam, n, seed, timeout=7200 if thorough else 900)

    for (fl, fam, n, seed), runs in ctx.pmap(one, plan, jobs=10 if thorough else 6):
        for r, st in runs:
            for vc in r.of('violcount'):
                ctx.add_cov('witnesses:' + vc['key'], vc['n'])
            s = r.summary()
            if not s:
                # the process died: the cases before the restart point were judged
                at = _last_at(r)
                continue
            ctx.evaluations += s['cases']
            ctx.nontrivial_extra += s['distinct_nontrivial']
            ctx.add_cov('cases_%s_%s' % (fl, fam), s['cases'])
            for k in COVKEYS:
                ctx.add_cov(k, s[k])
            ctx.max_cov('nb_vp', s['nb_vp'])
            if fl == 'asan':
                for smp in r.of('sample')[:1]:
                    smp = dict(smp); smp.pop('type', None)
                    if fam in ('kcyc', 'band', 'sym', 'tab', 'sbc'):
                        ctx.sample(smp)

    # vector diag on grids where the start-up loop of parsec_vector_two_dim_cyclic_init does not terminate: single-case
    # probes.  The harness bounds the constructor by the CPU time it consumes (work, not wall-clock), so the verdict
    # does not depend on the load of the machine; the heartbeat stall rule only remains as a backstop.
    probes = [(1, 2)] if not thorough else [(1, 2), (2, 3), (2, 4), (3, 5)]

    def probe(pq):
        P, Q = pq
        cmd = [exes['rel'], '--probe-vec-diag', '--P', str(P), '--Q', str(Q), '--seed', str(ctx.seed)]
        k = [0]

        def runner():
            k[0] += 1
            return ctx.run(cmd, timeout=900, stall_s=240, tag='probe-%dx%d-%d' % (P, Q, k[0]))
        r, st = ctx.run_with_stall_rule(runner, 'vector diag on a %dx%d grid (every rank view initialised in turn)' % (P, Q), feature='vec-diag')
        ctx.add_cov('vec_diag_probes', 1)
        if st in ('ok', 'violation', 'known'):
            ctx.evaluations += 1
    ctx.pmap(probe, probes, jobs=4)
    ctx.cov['flavours'] = ['asan (assertions on)', 'rel (-O2 -DNDEBUG)']
    ctx.cov['families'] = sorted(QUICK.keys())
