"""C05 — distributed PTG results do not depend on process count or message path (E1 on real MPI ranks)."""
import random
import e1suite, e1run, e1gen, e1
import c01

META = dict(
    level='exploration', engine='E1 PTG program generator + reference interpreter + event-log checker on MPI',
    technique='runtime monitoring: generated PTG programs run on 1..8 real MPI ranks with seeded placement tables, broadcast topologies, short/eager limits and tile sizes; the union of the per-rank body logs and the gathered final collection are checked offline against the single-process reference interpreter; every rank must exit cleanly; ASan+UBSan on every rank',
    text='The same generated program is executed on 1,2,3,4 (thorough: up to 8) ranks with cyclic/block/random placement, star/chain/binomial broadcast, aggregation on/off, short limit 0/default, payloads of 8 B..64 KiB: per-rank executed instances == reference restricted by rank_of, every input value == reference, final collection == reference, no rank crashes or stalls. Held on the programs/configurations executed.',
    note='One host (shared-memory transport), <= 8 ranks; trusts the reference interpreter and MPI itself. Programs keep all collection accesses local to the task placement (PTG contract).')

RULE = ('case = (generated program, ptgpp options, MPI configuration); non-trivial = >=20 instances and >=2 ranks executed tasks and >=1 inter-rank edge; '
        'distinct = distinct (program seed, configuration) pairs')


def feat_fn(feat, progs, refs, cfg, table):
    if cfg.ranks > 1 and int(cfg.mca.get('runtime_comm_coll_bcast', 1)) in (1, 2) and any(e1suite.differing_dest_sets(r, table) for r in refs):
        name = {1: 'chain', 2: 'binomial'}[int(cfg.mca.get('runtime_comm_coll_bcast', 1))]
        base = feat[4:-1] + ',' if feat.startswith('ptg[') else ''
        return 'ptg[%sbcast-%s+differing-destination-sets]' % (base, name)
    return feat


def mpi_cfgs(ctx, thorough, n, rank_choices):
    def cfgs(vi, rnd):
        out = []
        for i in range(n):
            ranks = rnd.choice(rank_choices)
            mca = {'runtime_comm_coll_bcast': rnd.choice([0, 0, 1, 2])}
            if rnd.random() < 0.4: mca['runtime_comm_short_limit'] = 0
            if rnd.random() < 0.4: mca['runtime_comm_aggregate'] = rnd.choice([0, 1])
            out.append(e1run.Cfg(sched=rnd.choice(e1suite.SCHEDS), cores=rnd.choice([1, 2, 3]), ranks=ranks,
                                 place=rnd.choice(['cyclic', 'rand', 'rand', 'block', 'pair']), pseed=rnd.randint(1, 1000),
                                 ts=rnd.choice([1, 8, 64, 512, 8192]), mca=mca, seed=ctx.seed, sleep=(rnd.choice([0, 100]), 300)))
        return out
    return cfgs


def inter_rank_edges(res):
    return res.get('ranks_seen', 1) >= 2


def run(ctx):
    thorough = ctx.tier == 'thorough'
    ctx.rule = RULE
    ctx.assumptions = ['reference interpreter; MPI per-pair FIFO; collection accesses local to the task placement',
                       'documented unsupported case (one output flow with several different remote shapes in short messages) is not generated']
    S = e1suite.Suite(ctx, {'once', 'values', 'final', 'order'}, profile='route')
    S.feat_fn = feat_fn
    nprog = 120 if thorough else 10
    ranks = [1, 2, 3, 4, 4, 6, 8] if thorough else [2, 3, 4]

    def one(i):
        seed = ctx.seed * 100000 + 80000 + i
        rnd = random.Random(seed)
        variants = [(rnd.choice(['asan', 'asan', 'rel']), rnd.choice([(), (), ('-M', 'index-array'), ('-D',)]))]
        return S.do_program(i, seed, variants, mpi_cfgs(ctx, thorough, 12 if thorough else 4, ranks))

    for rs in ctx.pmap(one, range(nprog), jobs=3): S.account(rs, nontrivial=inter_rank_edges)
    for i in range(3):
        try:
            P, ref, _ = e1gen.generate(ctx.seed * 100000 + 80000 + i, 'route', name='p%d' % i)
            ctx.sample(e1suite.sample_of(P, ref))
        except e1.ModelError:
            pass
    S.finish_cov()
