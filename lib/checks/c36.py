"""C36 — the red-black tree keeps order and balance (sequential model harness: full structure walk + reference
sorted set after every operation; random histories, exhaustive sequence boxes, insertion x removal permutation boxes)."""

META = dict(
    level='exploration', engine='sequential model harness (structure walk + reference sorted set after every operation)',
    technique='runtime monitoring: the real parsec_rbtree_* functions are driven with generated operation sequences; after every '
              'operation a monitor walks the whole tree (BST order, colours, black height, parent links, nil sentinel), compares node '
              'identities with a reference sorted set and asks every find / find_or_larger query of the key domain; ASan+UBSan build',
    text='Seeded random insert/remove/update_node/find histories over key domains of 1..64 keys (dense, sparse and INT_MIN/INT_MAX keys, '
         'duplicates attempted, in-place and moving key updates), every sequence of state-changing operations up to a bounded length over '
         '3..8 keys, and every insertion order x removal order of up to 6 (thorough: 7, sampled 8) keys are executed on the library code; '
         'the red-black and search-tree invariants, the stored node set and all queries are checked after each single operation. '
         'Held on the sequences executed (evidence lists the boxes completed and the operation mix).',
    note='Trusts the reference set and the walker in harness/c36_rbtree.c. Keys are unique as in zone_malloc.c (find before insert); a '
         'low-weight equal-key flavour only demands the non-strict order and the colour invariants. Single-threaded by design: the tree '
         'has no internal synchronisation and its only user holds a lock.')

RULE = ('one case = one operation sequence executed from an empty tree with the full walk + all queries after every operation; '
        'non-trivial = at least 3 operations of which at least one changed the structure; distinct = distinct hashes of '
        '(key domain, operation sequence)')
FLOORS = (200, 100)


def prebuild(ctx):
    for f in ('asan', 'rel'):
        ctx.harness('c36_rbtree', f)


def run(ctx):
    thorough = ctx.tier == 'thorough'
    ctx.rule = RULE
    ctx.assumptions = ['reference model: sorted set of unique int keys with node identity; update_node(other stored key) must return PARSEC_ERR_EXISTS and change nothing',
                       'client discipline of zone_malloc.c: unique keys, find before insert; equal-key inserts only in the low-weight flavour with weaker oracle',
                       'parent links and the nil sentinel colour are part of "valid tree" in this representation (every later operation relies on them)']
    exe = {f: ctx.harness('c36_rbtree', f) for f in ('asan', 'rel')}
    jobs = []
    S = ctx.seed
    if thorough:
        rnd = [('asan', 16, 3000, 3000), ('rel', 16, 30000, 10000)]
        enum = [('asan', 3, 8), ('asan', 4, 7), ('asan', 5, 6), ('rel', 6, 6), ('rel', 8, 5), ('rel', 4, 8)]
        perm = [('asan', 5, 1), ('asan', 6, 1), ('rel', 7, 1), ('rel', 8, 1500)]
    else:
        rnd = [('asan', 8, 500, 2000), ('rel', 8, 2500, 10000)]
        enum = [('asan', 3, 7), ('asan', 4, 6), ('asan', 5, 5), ('rel', 6, 5), ('rel', 8, 4), ('rel', 4, 7)]
        perm = [('asan', 4, 1), ('asan', 5, 1), ('rel', 6, 1)]
    for fl, n, h, maxlen in rnd:
        for k in range(n):
            jobs.append(dict(kind='random', fl=fl, args=['--mode', 'random', '--histories', h, '--maxlen', maxlen, '--seed', S * 100003 + k * 17 + (fl == 'rel') * 7919]))
    for fl, keys, ln in enum:
        jobs.append(dict(kind='enum', fl=fl, args=['--mode', 'enum', '--keys', keys, '--len', ln, '--spread', 1 + (S + keys) % 3, '--sigcap', 1 << 24 if thorough else 1 << 21]))
    for fl, n, stride in perm:
        jobs.append(dict(kind='perm', fl=fl, args=['--mode', 'perm', '--n', n, '--stride', stride, '--seed', S, '--sigcap', 1 << 26 if (thorough and n >= 7) else 1 << 21]))

    def one(j):
        cmd = [exe[j['fl']]] + [str(a) for a in j['args']]
        return j, ctx.run(cmd, timeout=7200 if thorough else 900, stall_s=120, tag='%s-%s-%d' % (j['kind'], j['fl'], id(j)))

    boxes = []
    for j, r in ctx.pmap(one, jobs, jobs=8):
        what = '%s %s' % (j['fl'], ' '.join(str(a) for a in j['args']))
        hist = r.of('history')
        st = ctx.absorb(r, what, files={'history.json': [h for h in hist if h.get('why') == 'violation']} if hist else None)
        if st == 'stalled':
            ctx.inconclusive_case('stalled/timed out: ' + what); continue
        s = r.summary()
        if not s:
            continue
        if j['kind'] == 'random':
            ctx.evaluations += s['histories']; ctx.nontrivial_extra += s['distinct']
            for k in ('ops', 'walks', 'queries', 'ins', 'rem', 'rem_two_children', 'rem_black', 'upd_inplace', 'upd_move', 'upd_exists', 'upd_self',
                      'dup_attempts', 'equal_key_inserts', 'equal_key_histories', 'root_changes'):
                ctx.add_cov(k, s[k])
            ctx.max_cov('max_nodes', s['max_nodes'])
            for h in hist:
                if h.get('why') == 'sample':
                    ctx.sample({'mode': 'random', 'flavour': j['fl'], 'history': h['ops'][:700]}, cap=3)
        else:
            ctx.evaluations += s['sequences']; ctx.nontrivial_extra += s['distinct']
            for k in ('walks', 'queries', 'rem_two_children', 'rem_black'):
                ctx.add_cov(k, s[k])
            for k in ('upd_inplace', 'upd_move', 'upd_exists'):
                if k in s:
                    ctx.add_cov(k, s[k])
            b = dict(mode=j['kind'], flavour=j['fl'], sequences=s['sequences'], complete=not s['truncated'])
            b.update({k: s[k] for k in ('keys', 'len', 'n', 'skipped_by_sampling') if k in s})
            boxes.append(b)
            ctx.sample(b, cap=5)
    ctx.cov['boxes'] = boxes
    ctx.cov['flavours'] = ['asan', 'rel']
