"""C21 — parsec_redistribute (PTG reshuffle + general paths) and parsec_redistribute_dtd copy exactly the requested window."""
import re

META = dict(
    level='exploration', engine='MPI harness driving the real parsec_redistribute / parsec_redistribute_dtd on generated source/target collections',
    technique='runtime monitoring: source elements carry a value that encodes their global coordinates, target elements a poison that encodes theirs; after the real redistribution every rank compares every element of its local target tiles (window, rest of partially covered tiles, untouched tiles, padding) and of its local source tiles with the value its coordinates demand; stalls by the stalled-twice rule; ASan+UBSan in the verdict build, same monitor on the production build',
    text='Random source/target pairs (matrices 1..60 x 1..60, tiles 1..9 equal or different on both sides, displacements aligned and unaligned to tiles, 2D block-cyclic with k-cyclicity and grid offsets, tabular with random tables, symmetric block-cyclic (sbc) with the window inside the stored triangle) on 1..4 MPI ranks and 1..4 threads, through parsec_redistribute (both the reshuffle fast path and the general JDF) and through the DTD implementation. Inside the window the target must equal the source at the corresponding displacement, every other target element and the whole source must be unchanged. Held on the cases explored.',
    note='Trusts the coordinate encoding (exact in double), the owner tables from rank_of / data_of (C20) and MPI_Allreduce. Element type is double (the only type the implementation supports). LAPACK storage and sub-matrix descriptors (i,j != 0) are not driven.',
    design_ref='DESIGN.md §4 C21')

RULE = ('one case = one redistribution (PTG or DTD) of one window between one generated source and target collection on one (ranks, threads) configuration, judged element-wise on every rank; '
        'non-trivial = window of >= 4 elements that touches >= 2 source tiles or >= 2 target tiles; distinct = distinct full case descriptions (implementation, path, window, both distributions, displacements, ranks, threads)')

FLOORS = (20, 12)

QUICK = [('asan', 1, 2, 7), ('asan', 2, 2, 7), ('asan', 3, 1, 6), ('asan', 4, 2, 6), ('rel', 2, 4, 10), ('rel', 4, 1, 10)]
THOROUGH = [('asan', 1, 1, 60), ('asan', 1, 4, 60), ('asan', 2, 1, 50), ('asan', 2, 3, 50), ('asan', 3, 2, 50), ('asan', 4, 1, 40), ('asan', 4, 2, 40),
            ('rel', 1, 4, 70), ('rel', 2, 2, 70), ('rel', 3, 3, 70), ('rel', 4, 2, 60), ('rel', 4, 4, 60)]
COV = ('ptg_reshuffle', 'ptg_general', 'dtd', 'window_elements', 'target_elements_checked', 'different_tile_sizes', 'unaligned_displacement',
       'multi_owner_both_sides', 'side_2dbc', 'side_tabular', 'side_sbc')


def prebuild(ctx):
    for f in ('asan', 'rel'):
        ctx.harness('c21_redist', f)


def _last_at(r):
    k = None; d = ''
    for l in r.stderr.splitlines():
        m = re.match(r'VFAT (\d+) (.*)', l)
        if m:
            k = int(m.group(1)); d = m.group(2)
    return k, d


def _run(ctx, exe, ranks, threads, args, tag):
    return ctx.run([exe, '--threads', str(threads)] + [str(a) for a in args], timeout=7200, stall_s=400, mpi=ranks, tag=tag)


def _take(ctx, r, fl):
    s = r.summary()
    if not s:
        return
    ctx.evaluations += s['cases']
    ctx.nontrivial_extra += s['distinct_nontrivial']
    for k in COV:
        ctx.add_cov(k, s[k])
    for k, v in s.get('ptg_fast_path_boundary', {}).items():
        ctx.add_cov('ptg_fast_path_condition_broken:' + k, v)
    ctx.add_cov('cases_%s_%dranks' % (fl, s['ranks']), s['cases'])
    ctx.max_cov('max_threads', s['threads'])
    for smp in r.of('sample')[:1]:
        smp = dict(smp); smp.pop('type', None); ctx.sample(smp)


def _bulk(ctx, exe, fl, ranks, threads, cases, seed):
    start = 0; guard = 0
    while start < cases and guard < 6:
        guard += 1
        tag = 'rd-%s-%dx%d-%d' % (fl, ranks, threads, start)
        r = _run(ctx, exe, ranks, threads, ['--cases', cases, '--start', start, '--seed', seed], tag)
        what = '%s ranks=%d threads=%d cases %d..%d seed %d' % (fl, ranks, threads, start, cases, seed)
        st = ctx.absorb(r, what, expect_objs=False)
        if r.summary() is not None:
            _take(ctx, r, fl)
            return
        at, desc = _last_at(r)
        if at is None:
            ctx.harness_failures.append('%s: no case reached; stderr=%s' % (what, r.stderr[-300:]))
            return
        if st == 'stalled':
            r2 = _run(ctx, exe, ranks, threads, ['--cases', at + 1, '--start', at, '--seed', seed], tag + '-again')
            st2 = ctx.absorb(r2, what + ' (case %d alone)' % at, expect_objs=False)
            if st2 == 'stalled':
                impl = (re.search(r'impl=(\w+) path=(\w+)', desc))
                ctx.violation('%s:%s:stall:no-progress' % ((impl.group(1), impl.group(2) if impl.group(1) == 'ptg' else 'any') if impl else ('?', '?')),
                              'no progress twice on case: %s' % desc, r2)
            else:
                ctx.inconclusive_case('stalled once: ' + desc)
                _take(ctx, r2, fl)
        elif st == 'ok':
            ctx.harness_failures.append('%s: process ended at case %s without a report; stderr=%s' % (what, at, r.stderr[-300:]))
        ctx.evaluations += max(0, at - start)
        ctx.add_cov('process_restarts', 1)
        start = at + 1


def run(ctx):
    thorough = ctx.tier == 'thorough'
    ctx.rule = RULE
    ctx.assumptions = ['legal requests only: window inside both matrices (not reaching into the padding), displacements >= 0, element type double, tile storage, whole-matrix descriptors',
                       'sbc sides only with a window that lies completely in stored tiles (the wrapper rejects anything else)',
                       'every rank generates the same case list from the seed; one case in six uses the DTD implementation; one case in three sits on the boundary of the fast-path selection (exactly one of its six conditions broken, in rotation)',
                       'values are exact in double: 1 + i + 10000 j for the source, -(2 + i + 10000 j) - 0.25 for the untouched target']
    exes = {f: ctx.harness('c21_redist', f) for f in ('asan', 'rel')}
    plan = THOROUGH if thorough else QUICK

    def one(p):
        fl, ranks, threads, n = p
        _bulk(ctx, exes[fl], fl, ranks, threads, n, ctx.seed * 100 + ranks * 10 + threads)
    ctx.pmap(one, plan, jobs=4)
    ctx.cov['configurations'] = ['%s:%dranks x %dthreads' % (fl, r, t) for fl, r, t, n in plan]
