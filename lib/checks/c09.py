"""C09 — priority schedulers honour task priorities (ap, ip, spq): single stream, no concurrency; random
schedule(ring, distance) / select sequences on the installed module compared with a reference model (in the harness, and
re-checked here in python on the dumped sequences)."""

META = dict(
    level='exploration', engine='E4 direct drive, single stream, reference priority model',
    technique='runtime monitoring: the sequence returned by the real module\'s select is compared operation by operation with a '
              'sequential reference model (20-line list simulation); an independent python model re-checks the dumped sequences; '
              'ASan+UBSan with assertions on',
    text='For ap, ip and spq installed by parsec_init on one execution stream, seeded sequences of schedule(ring, distance) and '
         'select (10..400 operations, rings of 1..40 tasks sorted as the runtime builds them or unsorted, priorities with many ties '
         'or spread, distances 0..3) are driven with no concurrent activity; each select must return what the model says: ap the '
         'highest pending priority with ties in scheduling order, spq the smallest pending distance first and then as ap, ip a task '
         'of the lowest pending priority; NULL only when nothing is pending. Held on the sequences observed (sampled, not exhaustive).',
    note='Scheduling order inside a ring is the ring order starting at the pointer handed to schedule (what chain_sorted documents). '
         'For ip no tie rule is stated by the property and none is checked. ip schedules with distance > 0 are a recorded finding '
         '(kept at low weight).')

RULE = ('one case = one operation sequence on a fresh (drained) scheduler, judged select by select against the reference model; '
        'non-trivial = at least 3 operations that changed the structure; distinct = distinct hashes of (module, ring sizes, '
        'priorities, distances, operation order).')

FLOORS = (100, 50)

IP_KEY = 'ip:not-lowest-priority:after-distance-schedule'


def prebuild(ctx):
    ctx.harness('c08_sched', 'asan')


def py_model_check(sched, ops):
    """Independent re-implementation of the reference model. Returns None if consistent, else a text."""
    pend = []   # [id, prio, dist, seq]
    seq = 0
    for n, tok in enumerate(t for t in ops.split(';') if t):
        if tok[0] == 'S':
            head, body = tok[1:].split(':', 1)
            dist = int(head)
            for it in body.split(','):
                i, p = it.split('/')
                pend.append([int(i), int(p), dist, seq]); seq += 1
        elif tok[0] == 'P':
            got = int(tok[1:])
            if not pend:
                if got != -1:
                    return 'op %d: returned %d from an empty scheduler' % (n, got)
                continue
            if got < 0:
                return 'op %d: returned nothing while %d pending' % (n, len(pend))
            cur = [x for x in pend if x[0] == got]
            if not cur:
                return 'op %d: returned %d which is not pending' % (n, got)
            g = cur[0]
            if sched == 'ip':
                if g[1] != min(x[1] for x in pend):
                    return 'op %d: ip returned priority %d, lowest pending is %d' % (n, g[1], min(x[1] for x in pend))
            else:
                cand = pend
                if sched == 'spq':
                    dmin = min(x[2] for x in pend)
                    if g[2] != dmin:
                        return 'op %d: spq returned distance %d while distance %d is pending' % (n, g[2], dmin)
                    cand = [x for x in pend if x[2] == dmin]
                pmax = max(x[1] for x in cand)
                if g[1] != pmax:
                    return 'op %d: returned priority %d, highest pending is %d' % (n, g[1], pmax)
                first = min((x for x in cand if x[1] == pmax), key=lambda x: x[3])
                if first[0] != g[0]:
                    return 'op %d: tie at priority %d not in scheduling order (got %d, expected %d)' % (n, pmax, g[0], first[0])
            pend.remove(g)
    return None


def run(ctx):
    thorough = ctx.tier == 'thorough'
    ctx.rule = RULE
    ctx.assumptions = ['no concurrent activity: one stream, one thread', 'scheduling order of a ring = ring order from the pointer handed to schedule',
                       'priorities are plain ints, higher is better (HIGHER_IS_BETTER build default)',
                       'the reference model: ap max priority / FIFO among ties; spq min distance, then as ap; ip min priority (no tie rule)']
    exe = ctx.harness('c08_sched', 'asan')
    nseq = 20000 if thorough else 300
    chunks = 8 if thorough else 1
    jobs = []
    n = 0
    for mod in ('ap', 'ip', 'spq'):
        for c in range(chunks):
            jobs.append((n, mod, False, [exe, '--mode', 'order', '--sched', mod, '--sequences', nseq // chunks, '--maxlen', 400, '--dump', 10 if c == 0 else 0,
                                         '--seed', ctx.seed * 1000 + n]))
            n += 1
    # the recorded ip finding: keep the trigger at low weight (one short run with distance > 0 schedules)
    jobs.append((n, 'ip', True, [exe, '--mode', 'order', '--sched', 'ip', '--sequences', 200 if thorough else 20, '--maxlen', 60, '--dump', 0, '--ip-distance', 400,
                                 '--seed', ctx.seed * 1000 + 900]))

    def one(j):
        n, mod, trig, cmd = j
        cmd = [str(c) for c in cmd]
        r = ctx.run(cmd, timeout=3600 if thorough else 600, stall_s=300, tag='o%d' % n)
        if r.stalled or r.timed_out:      # the box is shared: one more try before calling it inconclusive
            r = ctx.run(cmd, timeout=3600 if thorough else 600, stall_s=300, tag='o%dr' % n)
        return j, r

    res = ctx.pmap(one, jobs, jobs=4)
    rechecked = 0
    for (n, mod, trig, cmd), r in res:
        what = ' '.join(str(c) for c in cmd[1:])
        st = ctx.absorb(r, what)
        if st == 'stalled':
            ctx.inconclusive_case('stalled: ' + what)
            continue
        s = r.summary()
        if not s:
            continue
        ctx.evaluations += s['sequences']
        ctx.nontrivial_extra += s['distinct_sequences']
        for k in ('ops', 'selects', 'selects_with_ties', 'select_null_on_empty', 'distance_schedules', 'selects_decided_by_distance', 'unsorted_rings', 'ip_distance_schedules'):
            ctx.add_cov(('%s_' % mod) + k, s[k])
        for q in r.of('sequence'):
            if not q.get('complete'):
                continue
            bad = py_model_check(mod, q['ops'])
            rechecked += 1
            if bad:
                ctx.violation('%s:python-model-disagrees' % mod, 'sequence %s of "%s": %s' % (q['n'], what, bad), r, files={'ops.txt': q['ops']})
            if not any(x.get('sched') == mod for x in ctx.samples):
                ctx.sample({'sched': mod, 'operations': q['ops'][:700], 'legend': 'S<distance>:<id>/<priority>,... = schedule(ring); P<id> = select returned id (-1 NULL)'})
    ctx.cov['sequences_rechecked_by_python_model'] = rechecked
    ctx.cov['modules'] = ['ap', 'ip', 'spq']
    if rechecked == 0:
        ctx.harness_failures.append('no dumped sequence was re-checked by the python model')
