"""C18 — typed PTG flows deliver correctly converted copies (E1 typed-flow programs on 1..4 MPI ranks).

Semantics established on the unchanged tree (CHANGELOG.ptg.md "PTG supports reshaping of datacopies", tests/collections/reshape/*.jdf +
testing_reshape.c, parsec_reshape.c, jdf.c:jdf_reorder_dep_list_by_type, remote_dep_mpi.c, and 40 hand-written probes with this harness):
 * a conversion is an MPI_Sendrecv(source copy, pack type -> new arena copy, unpack type): it selects "the same elements" only when both
   types are equal.  Generated: output dependency `[type = T]` with the input untyped or `[type = T]` ("Pack t1, Unpack t1": ONE new copy
   of shape T shared by all local successors of that flow declaring T).  NOT generated: `[type]` on the input only ("Pack A.dtt, Unpack t2":
   truncated/permuted stream unless t2 is the copy's own type), different types on the two ends (LU_LL test: lower packed into upper).
 * no `[type]` (or `[type]` equal to the type of the producer's copy, avoidable_reshape): local successors get the producer's own pointer.
 * `[type_remote = R]` on both ends: remote successors receive a new copy holding the R selection; `[type]` is not applied after a
   reception; no type_remote: sent with the copy's type, received with DEFAULT (generated only when the producer's copy is DEFAULT).
   Two successor classes on one rank whose input `type_remote` are different handles of the same selection make the receiver take the
   payload as PACKED bytes and unpack one copy per type (remote_dep_mpi_retrieve_datatype) — generated with alias arenas (`recv-alias`).
 * collection: `<- D(k) [type = T type_data = T]` or `[type_data = T]` gives the task a new copy of shape T (collection untouched);
   `[type = T]` alone is not generated (packs the whole tile into T).  `-> D(k) [type = T type_data = T]` overwrites only the T selection.
 * a pure WRITE flow must say `<- NEW [type = X]`, otherwise ptgpp allocates it from the arena of its first output dependency.
 * documented unsupported (testing_remote_multiple_outs_same_pred_flow.c): one output flow sent with several remote shapes in short
   messages: flows with more than one remote shape are only run with runtime_comm_short_limit = 0.
Bodies always write whole tiles, so every selection of a producer's copy is defined; which partitions (strictly lower / diagonal / strictly
upper) of an observed copy are judged follows from the declared types and the placement; the others are only counted."""
import random, json, os
import e1, e1suite, e1run, vfcore
from e1 import *

META = dict(
    level='exploration', engine='E1 typed-flow PTG programs (generator + partition-wise reference interpreter + per-consumer region log) on 1..4 MPI ranks',
    technique='runtime monitoring: generated PTG programs whose dependencies carry [type] / [type_remote] / [type_data] over DEFAULT, LOWER and UPPER arenas (fan-out, relay + writing consumer + auditor, collection reads and partial write-backs); every body logs, per input flow, the tag and consistency of the strictly-lower, diagonal and strictly-upper partitions of the copy it was handed; offline the partitions selected by the declared types (local conversion, shared pointer, remote reception, receiver-side unpacking) must equal the producer value of the reference interpreter, copies still held by other consumers and the collection must be unaltered after a consumer wrote into its converted copy, final collection compared partition-wise; ASan+UBSan on every rank, delay injection in the datacopy-future code',
    text='Producers with NEW / collection / typed-collection sources fan out to READ consumers, relays that convert again, and consumers that overwrite their private converted copy while an auditor re-reads the source afterwards; tile sizes 1..12, 1..4 ranks (star broadcast), 1..8 threads, runtime_comm_short_limit 0 and default, reshape by the communication thread and (MPI_THREAD_MULTIPLE) by the computing threads. Held on the programs/configurations executed, apart from the recorded findings (mixed local types on one flow; reception of several payloads of one flow).',
    note='Only type combinations whose meaning is documented or exercised by the reshape tests are generated (see module docstring); unselected elements are never judged; chain/binomial broadcasts are excluded (C13 finding); trusts the reference interpreter, the generator validity rules and MPI datatypes (C19).',
    design_ref='DESIGN.md section 4 C18, section 3 E1, section 6.3')

RULE = ('case = (typed-flow program, MPI/thread configuration, placement table); non-trivial = >= 20 task instances and >= 1 dependency whose declared type made the '
        'runtime build a converted or typed-received copy that was judged; distinct = distinct (program seed, configuration, table) triples')

TYPES = ['DEFAULT', 'LOWER_TILE', 'UPPER_TILE']
REG = {'DEFAULT': (1, 1, 1), 'LOWER_TILE': (1, 1, 0), 'UPPER_TILE': (0, 1, 1), 'LOWER_B': (1, 1, 0), 'UPPER_B': (0, 1, 1), 'FULL_B': (1, 1, 1)}
ALIAS = {'LOWER_TILE': 'LOWER_B', 'UPPER_TILE': 'UPPER_B', 'DEFAULT': 'FULL_B'}
BASE = {'LOWER_B': 'LOWER_TILE', 'UPPER_B': 'UPPER_TILE', 'FULL_B': 'DEFAULT'}
ARENA_KIND = {'LOWER_TILE': 'lower', 'UPPER_TILE': 'upper', 'LOWER_B': 'lower', 'UPPER_B': 'upper', 'FULL_B': 'rect'}
PN = ('strictly-lower', 'diagonal', 'strictly-upper')
SHORT = {'DEFAULT': 'F', 'LOWER_TILE': 'L', 'UPPER_TILE': 'U', None: '-'}


def props(lt=None, rt=None, dt=None):
    s = []
    if lt: s.append('type = %s' % lt)
    if rt: s.append('type_remote = %s' % rt)
    if dt: s.append('type_data = %s' % dt)
    return '[%s]' % ' '.join(s) if s else ''


def AND(a, b): return tuple(x & y for x, y in zip(a, b))


# ------------------------------------------------------------------ generator
class TGen:
    """One typed program = 1..3 units (own producer class each).  Metadata for the oracle is kept on the Program:
    tedges[(src class, src flow, dst class, dst flow)] = dict(lt, it, rt, rin); tsrc[(class, flow)] = dict(kind, ct, wb);
    twb[(class, flow)] = type of a typed write-back; private = RW consumer flows that own a converted copy; groups = co-location."""

    def __init__(self, seed, name, mode):
        self.r = random.Random(seed); self.mode = mode
        P = self.P = Program(name, nk=256)
        P.typed = True; P.arenas = {}; P.tedges = {}; P.tsrc = {}; P.twb = {}; P.private = set(); P.groups = {}; P.units = []
        P.colocated = lambda a, b: P.groups.get(a, ('k', a)) == P.groups.get(b, ('k', b))
        P.seed = seed
        self.n = 0

    def cname(self, b):
        self.n += 1
        return '%s%d' % (b, self.n)

    def use(self, *ts):
        for t in ts:
            if t and t != 'DEFAULT': self.P.arenas[t] = ARENA_KIND[t]

    def unit(self, kind):
        r = self.r; P = self.P; k = V('k')
        Q = self.cname('Q'); NQ = r.randint(2, 5)
        qb = P.alloc_keys(NQ)
        if kind == 'solo': skind = 'mem'
        else: skind = r.choice(['new', 'new', 'mem', 'tmem'])
        if skind == 'mem': ct = 'DEFAULT'
        elif skind == 'tmem': ct = r.choice(['LOWER_TILE', 'UPPER_TILE'])
        else: ct = r.choice(['DEFAULT', 'DEFAULT', 'LOWER_TILE', 'UPPER_TILE'])
        # one local type and one remote type per flow (several of either on one flow: modes 'mixed' / 'multirt', recorded findings)
        lt = r.choice([None, None, 'LOWER_TILE', 'UPPER_TILE', 'DEFAULT'])
        rt = r.choice(TYPES) if ct != 'DEFAULT' else r.choice([None, None] + TYPES)
        if kind == 'solo': lt = r.choice(['LOWER_TILE', 'UPPER_TILE']); rt = None
        krng = Rng(0, NQ - 1)
        ins = []; outs = []; wb = None
        if skind == 'new': ins = [Dep('in', NEW, props=props(lt=ct))]
        elif skind == 'mem': ins = [Dep('in', MEM(qb + k))]
        else:
            ins = [Dep('in', MEM(qb + k), props=props(lt=ct, dt=ct) if r.random() < 0.6 else props(dt=ct))]
            if r.random() < 0.6: wb = r.choice(TYPES)
        self.use(ct)
        cons = []      # (class name, TaskClass builder args)

        def edge(cn, cflow, n, elt, ert, allow_alias=True):
            """output dependency of Q.V to class cn (n instances per k) and the matching input dependency text"""
            it = elt if (elt and r.random() < 0.5) else None
            rin = ert
            if allow_alias and r.random() < 0.3:
                rin = ALIAS[ert] if ert else ('FULL_B' if ct == 'DEFAULT' else None)
            self.use(elt, ert, rin)
            tgt = TT(cn, cflow, k, Rng(0, n - 1)) if n is not None else TT(cn, cflow, k)
            outs.append(Dep('out', tgt, props=props(lt=elt, rt=ert)))
            P.tedges[(Q, 'V', cn, cflow)] = dict(lt=elt, it=it, rt=ert, rin=rin)
            return Dep('in', TT(Q, 'V', k), props=props(lt=it, rt=rin))

        def draw_lt(): return r.choice([None, 'LOWER_TILE', 'UPPER_TILE', 'DEFAULT']) if self.mode == 'mixed' else lt
        def draw_rt(): return (r.choice(TYPES) if ct != 'DEFAULT' else r.choice([None] + TYPES)) if self.mode == 'multirt' else rt

        nread = r.randint(1, 3) if kind == 'fan' else (r.randint(0, 2) if kind == 'relay' else 0)
        for i in range(nread):
            C = self.cname('C'); n = r.randint(1, 4)
            cb = P.alloc_keys(NQ * n)
            d = edge(C, 'X', n, draw_lt(), draw_rt())
            cons.append(TaskClass(C, [Param('k', 'range', krng), Param('j', 'range', Rng(0, n - 1))], cb + k * n + V('j'), [Flow('X', 'READ', [d])]))
        if kind == 'relay':
            M, W, A = self.cname('M'), self.cname('W'), self.cname('A')
            mb_, wb_, ab_ = P.alloc_keys(NQ), P.alloc_keys(NQ), P.alloc_keys(NQ)
            for i in range(NQ):
                for kk in (mb_ + i, wb_ + i, ab_ + i): P.groups[kk] = ('g', mb_ + i)
            dm = edge(M, 'X', None, lt, rt, allow_alias=False)
            da = Dep('in', TT(Q, 'V', k), props=dm.props)
            outs.append(Dep('out', TT(A, 'X', k), props=outs[-1].props))
            P.tedges[(Q, 'V', A, 'X')] = dict(P.tedges[(Q, 'V', M, 'X')])
            # the relay converts again, to a type that differs from every type its own copy can have (local: lt or ct; remote: rt or DEFAULT)
            cand = [t for t in TYPES if t not in {lt or ct, rt or 'DEFAULT', ct}]
            t2 = r.choice(cand) if cand else None
            if t2 is None:
                raise ModelError('no relay type left')
            self.use(t2)
            it2 = t2 if r.random() < 0.4 else None
            x = r.choice(TYPES); self.use(x)
            P.tedges[(M, 'X', W, 'X')] = dict(lt=t2, it=it2, rt=None, rin=None)
            P.private.add((W, 'X')); P.twb[(W, 'X')] = x
            cons.append(TaskClass(M, [Param('k', 'range', krng)], mb_ + k, [Flow('X', 'READ', [dm, Dep('out', TT(W, 'X', k), props=props(lt=t2))])]))
            cons.append(TaskClass(W, [Param('k', 'range', krng)], wb_ + k,
                                  [Flow('X', 'RW', [Dep('in', TT(M, 'X', k), props=props(lt=it2)), Dep('out', MEM(wb_ + k), props=props(lt=x, dt=x))]),
                                   Flow('Z', 'CTL', [Dep('out', TT(A, 'Z', k))])]))
            cons.append(TaskClass(A, [Param('k', 'range', krng)], ab_ + k, [Flow('X', 'READ', [da]), Flow('Z', 'CTL', [Dep('in', TT(W, 'Z', k))])]))
        if kind == 'solo':
            W = self.cname('W'); wb_ = P.alloc_keys(NQ)
            for i in range(NQ): P.groups[wb_ + i] = ('g', qb + i); P.groups[qb + i] = ('g', qb + i)
            it = lt if r.random() < 0.4 else None
            x = r.choice(TYPES); self.use(x, lt)
            outs.append(Dep('out', TT(W, 'X', k), props=props(lt=lt)))
            P.tedges[(Q, 'V', W, 'X')] = dict(lt=lt, it=it, rt=None, rin=None)
            P.private.add((W, 'X')); P.twb[(W, 'X')] = x
            cons.append(TaskClass(W, [Param('k', 'range', krng)], wb_ + k,
                                  [Flow('X', 'RW', [Dep('in', TT(Q, 'V', k), props=props(lt=it)), Dep('out', MEM(wb_ + k), props=props(lt=x, dt=x))])]))
        if skind == 'mem' and r.random() < 0.5: outs.append(Dep('out', MEM(qb + k)))
        if skind == 'tmem' and wb:
            self.use(wb); outs.append(Dep('out', MEM(qb + k), props=props(lt=wb, dt=wb))); P.twb[(Q, 'V')] = wb
        P.tsrc[(Q, 'V')] = dict(kind=skind, ct=ct)
        P.add(TaskClass(Q, [Param('k', 'range', krng)], qb + k, [Flow('V', 'WRITE' if skind == 'new' else 'RW', ins + outs)]))
        for c in cons: P.add(c)
        lts = set(e['lt'] for (a, b, c, d), e in P.tedges.items() if a == Q)
        rts = set(e['rt'] or ct for (a, b, c, d), e in P.tedges.items() if a == Q)
        if len(lts) > 1: P.features.add('mixed-local-types')
        if len(rts) > 1 or len(set((e['lt'], e['rt']) for (a, b, c, d), e in P.tedges.items() if a == Q)) > 1: P.features.add('several-payloads-per-flow')
        if len(rts) > 1: P.features.add('multi-remote-shape')
        P.units.append(dict(kind=kind, src=skind, ct=ct, lt=lt, rt=rt, producer=Q))


def generate(seed, name, mode):
    """-> (Program, TRef, discarded)"""
    disc = []
    for t in range(30):
        g = TGen(seed * 1000 + t, name, mode)
        try:
            nu = g.r.randint(1, 3)
            kinds = [g.r.choice(['fan', 'fan', 'relay', 'relay', 'solo']) for _ in range(nu)]
            if mode in ('mixed', 'multirt'): kinds = ['fan'] * max(1, nu - 1)
            for kd in kinds: g.unit(kd)
            if mode == 'mixed' and 'mixed-local-types' not in g.P.features: raise ModelError('wanted mixed local types')
            if mode == 'multirt' and 'several-payloads-per-flow' not in g.P.features: raise ModelError('wanted several remote types')
            if mode == 'plain' and g.P.features & {'mixed-local-types', 'several-payloads-per-flow'}: raise ModelError('plain program with a risky feature')
            g.P.motifs = kinds
            ref = TRef(g.P)
            if len(ref.inst) < 20: raise ModelError('too small')
            return g.P, ref, disc
        except ModelError as ex:
            disc.append(str(ex))
    raise ModelError('no valid typed program: %s' % disc[-3:])


# ------------------------------------------------------------------ reference
class TRef(e1.Ref):
    """Reference interpreter for typed programs: scalar values on task edges (bodies write whole tiles), partition-wise collection."""

    def _rules(self):
        P = self.p
        # (1) a task may overwrite a copy it received from a task only if that copy is a private conversion (generator marks it)
        for key in self.inst:
            tc = P.classes[key[0]]
            for fi, fl in enumerate(tc.flows):
                s = self.src.get((key, fi))
                if fl.mode == 'RW' and s and s[0] == 'task':
                    if (tc.name, fl.name) not in P.private: raise ModelError('RW consumer of a shared copy')
                    q = s[1]; qf = s[2]
                    if sum(1 for (sf, d, df) in self.succ.get(q, []) if sf == qf) != 1: raise ModelError('private conversion with several consumers')
                    e = P.tedges[(P.classes[q[0]].name, P.classes[q[0]].flows[qf].name, tc.name, fl.name)]
                    if not e['lt']: raise ModelError('private copy without a conversion')
                    if not P.colocated(self.placement(q), self.placement(key)): raise ModelError('private conversion must be local')
        # (2) collection rule and locality (as e1.Ref)
        acc = {}
        for (k, fi), s in self.src.items():
            if s[0] == 'mem':
                mode = P.classes[k[0]].flows[fi].mode
                acc.setdefault(s[1], []).append((k, 'w' if mode == 'RW' else 'r'))
        for (k, fi), keys in self.memout.items():
            for kk in keys: acc.setdefault(kk, []).append((k, 'b'))
        for kk, lst in acc.items():
            ks = sorted(set(k for k, _ in lst), key=lambda k: self.tpos[k])
            for a, b in zip(ks, ks[1:]):
                if not self.is_anc(a, b): raise ModelError('collection rule: key %d accessed by unordered tasks' % kk)
        for (k, fi), s in self.src.items():
            if s[0] == 'mem':
                pk = self.placement(k)
                if s[1] != pk and not P.colocated(s[1], pk): raise ModelError('non-local memory read')
        for (k, fi), keys in self.memout.items():
            pk = self.placement(k)
            for kk in keys:
                if kk != pk and not P.colocated(kk, pk): raise ModelError('non-local memory write')

    def _values(self):
        P = self.p
        store = {k: [5000 + k] * 3 for k in range(P.nk)}
        self.inv = {}; self.outv = {}; self.writers = {}
        for k in self.order:
            tc = P.classes[k[0]]
            acc = 1000 + tc.cid
            for v in k[1]: acc = mix(acc, v)
            ins = []
            for fi, fl in enumerate(tc.flows):
                if fl.mode == 'CTL': ins.append(None); continue
                s = self.src[(k, fi)]
                if s[0] == 'write': v = 0
                elif s[0] == 'task': v = self.outv[(s[1], s[2])]
                elif s[0] == 'mem': v = store[s[1]][1]
                else: raise ModelError('unexpected source in a typed program')
                ins.append(v)
                if fl.mode != 'WRITE': acc = mix(acc, v)
            for fi, fl in enumerate(tc.flows):
                if fl.mode == 'CTL': continue
                self.inv[(k, fi)] = ins[fi]
                if fl.mode in ('RW', 'WRITE'):
                    o = mix(acc, 77 + fi); self.outv[(k, fi)] = o; self.writers[o] = (k, fi)
                    s = self.src[(k, fi)]
                    if s[0] == 'mem' and P.tsrc.get((tc.name, fl.name), {}).get('kind') != 'tmem': store[s[1]] = [o] * 3    # in place
                else:
                    self.outv[(k, fi)] = ins[fi]
                for kk in self.memout.get((k, fi), []):
                    x = P.twb.get((tc.name, fl.name))
                    for q in range(3):
                        if x is None or REG[x][q]: store[kk][q] = self.outv[(k, fi)]
        self.final3 = store
        self.final = {k: v[1] for k, v in store.items()}

    # ---- what a consumer must observe, for a given placement table
    def edge_meta(self, key, fi):
        P = self.p; s = self.src[(key, fi)]
        q, qf = s[1], s[2]
        return P.tedges[(P.classes[q[0]].name, P.classes[q[0]].flows[qf].name, P.classes[key[0]].name, P.classes[key[0]].flows[fi].name)]

    def held(self, table, key, fi):
        """copy held by `key` on flow fi AFTER its body: (defined partitions, type of the copy)"""
        fl = self.p.classes[key[0]].flows[fi]
        d, dtt, how = self.observed(table, key, fi)
        if fl.mode in ('RW', 'WRITE'): return (1, 1, 1), dtt
        return d, dtt

    def observed(self, table, key, fi):
        """copy handed to `key` on flow fi at entry: (partitions that must carry the producer value, type of the copy, delivery class)"""
        P = self.p; tc = P.classes[key[0]]; fl = tc.flows[fi]; s = self.src[(key, fi)]
        if s[0] == 'write': return (0, 0, 0), P.tsrc[(tc.name, fl.name)]['ct'], 'new'
        if s[0] == 'mem':
            m = P.tsrc[(tc.name, fl.name)]
            if m['kind'] == 'tmem': return REG[m['ct']], m['ct'], 'collection-read-converted'
            return (1, 1, 1), 'DEFAULT', 'collection-read-in-place'
        q, qf = s[1], s[2]
        e = self.edge_meta(key, fi)
        sdef, sdtt = self.held(table, q, qf)
        if table[self.placement(q)] == table[self.placement(key)]:
            if e['lt'] and e['lt'] != sdtt: return AND(REG[e['lt']], sdef), e['lt'], 'local-converted'
            return sdef, sdtt, 'local-shared'
        R = e['rt'] or 'DEFAULT'
        if not e['rt'] and sdtt != 'DEFAULT': raise ModelError('untyped remote dependency from a non-DEFAULT copy')
        return AND(REG[R], sdef), (e['rin'] or R), ('remote-typed' if e['rt'] else 'remote-untyped')


# ------------------------------------------------------------------ placement tables honouring co-location groups
def build_table(P, ranks, rnd, style):
    gr = {}
    table = [0] * P.nk
    pk = set()
    for u in P.units:
        tc = P.cls(u['producer'])
        for params, env in tc.enumerate(dict(P.globals)): pk.add(tc.place.ev(env))
    for k in range(P.nk):
        g = P.groups.get(k, ('k', k))
        if g not in gr:
            if style == 'rand': gr[g] = rnd.randrange(ranks)
            elif style == 'split': gr[g] = 0 if (k in pk and g[0] == 'k') else rnd.randrange(ranks)       # most consumers away from the producers
            elif style == 'remote': gr[g] = (k % max(1, ranks - 1)) + 1 if (ranks > 1 and k not in pk) else 0
            else: gr[g] = k % ranks
        table[k] = gr[g]
    return table


# ------------------------------------------------------------------ oracle
def feat_of(prog):
    """feature class carried by every violation key of a program: the recorded risky constructions, at most one (the dominant)"""
    if 'mixed-local-types' in prog.features: return 'ptg[typed:mixed-local-types]'
    if 'several-payloads-per-flow' in prog.features: return 'ptg[typed:several-payloads-per-flow]'
    return 'ptg[typed]'


import threading
_covlock = threading.Lock()


class Cov(dict):
    def bump(self, k, n=1):
        with _covlock: self[k] = self.get(k, 0) + n


def oracle(ctx, res, refs, recs, finals, marks, r, cfg, feat, files, what, cov):
    ref = refs[0]; P = ref.p; table = r.table
    regs, gfin = e1run.region_logs.pop(r.outdir, ([], {}))
    feat = feat_of(P)
    fl = dict(files); fl['case.txt'] = what; fl['place.txt'] = ' '.join(str(x) for x in table)

    def bad(key, text):
        if ctx.violation('%s:%s' % (feat, key), '%s — %s' % (text, what), r, fl): res['status'] = 'violation'
        elif res['status'] == 'ok': res['status'] = 'known'

    def who(v):
        w = ref.writers.get(v)
        if w: return 'the value written by %s.%s' % (ref.name(w[0]), P.classes[w[0][0]].flows[w[1]].name)
        if 5000 <= v < 5000 + P.nk: return 'the initial value of collection key %d' % (v - 5000)
        return 'no value of this program'
    done = {}
    for x in recs:
        if x['ret'] == 0: done[(x['cls'], tuple(x['p'][:len(P.classes[x['cls']].pnames)]))] = x
    judged = 0; typed = 0
    seen = set()
    for g in regs:
        if g['kind'] != 0: continue
        tc = P.classes[g['cls']]; key = (g['cls'], tuple(g['p'][:len(tc.pnames)]))
        if key not in ref.idx or (key, g['flow']) in seen: continue
        seen.add((key, g['flow']))
        fi = g['flow']; s = ref.src[(key, fi)]
        sel, dtt, how = ref.observed(table, key, fi)
        exp = ref.inv[(key, fi)]
        cov.bump('observed_' + how)
        if how in ('local-converted', 'remote-typed', 'collection-read-converted') or (how == 'remote-untyped' and ref.edge_meta(key, fi)['lt']): typed += 1
        for q in range(3):
            if g['ok'][q] == -1: continue
            if sel[q]:
                judged += 1
                if g['ok'][q] != 1 or g['v'][q] != exp:
                    altered = g['v'][q] in ref.writers and ref.writers[g['v'][q]][0] != (s[1] if s[0] == 'task' else None) and g['ok'][q] == 1
                    e = ref.edge_meta(key, fi) if s[0] == 'task' else {}
                    desc = 'declared types: output [%s] input [%s], producer copy %s' % (props(e.get('lt'), e.get('rt')), props(e.get('it'), e.get('rin')), ref.held(table, s[1], s[2])[1]) if s[0] == 'task' else 'typed collection read'
                    kind = 'copy-altered-by-another-consumer' if altered else 'selected-region-differs'
                    bad('%s:%s' % (kind, how), '%s flow %s (rank %d): the %s partition of the copy it was handed holds %s%s, reference %d (%s); %s; partitions selected %s' % (
                        ref.name(key), tc.flows[fi].name, g['rank'], PN[q], g['v'][q] if g['ok'][q] == 1 else 'inconsistent elements (first tag %d)' % g['v'][q],
                        ' = ' + who(g['v'][q]), exp, who(exp), desc, [PN[i] for i in range(3) if sel[i]]))
                    return
            else:
                cov.bump('unselected_partitions_seen')
                if g['ok'][q] == 1 and g['v'][q] == exp: cov.bump('unselected_equal_to_producer')
    # every completed non-CTL input must have produced a region record
    for key, x in done.items():
        tc = P.classes[key[0]]
        for fi, fl_ in enumerate(tc.flows):
            if fl_.mode in ('CTL', 'WRITE'): continue
            if (key, fi) not in seen:
                ctx.harness_failures.append('no region record for %s flow %s (%s)' % (ref.name(key), fl_.name, what)); res['status'] = 'inconclusive'; return
    # final collection, partition-wise
    for kk in range(P.nk):
        if kk not in gfin:
            bad('final:missing-key', 'no rank reported collection key %d' % kk); return
        v, ok = gfin[kk]
        for q in range(3):
            if ok[q] == -1: continue
            if ok[q] != 1 or v[q] != ref.final3[kk][q]:
                altered = v[q] in ref.writers and ok[q] == 1
                bad('final:%s' % ('tile-holds-another-tasks-value' if altered else 'tile-differs'),
                    'collection key %d: %s partition holds %s = %s, reference %d (%s)' % (kk, PN[q], v[q] if ok[q] == 1 else 'inconsistent elements', who(v[q]), ref.final3[kk][q], who(ref.final3[kk][q])))
                return
    res['judged'] = judged; res['typed'] = typed
    cov.bump('partitions_judged', judged); cov.bump('typed_deliveries_judged', typed)
    # receptions that had to go through the PACKED fallback (several reception types for one payload on one rank): coverage only
    pk = {}
    for (sq, sf, d, df) in ref.edges:
        if P.classes[sq[0]].flows[sf].mode == 'CTL': continue
        e = P.tedges.get((P.classes[sq[0]].name, P.classes[sq[0]].flows[sf].name, P.classes[d[0]].name, P.classes[d[0]].flows[df].name))
        if e is None: continue
        rq, rd = table[ref.placement(sq)], table[ref.placement(d)]
        if rq != rd: pk.setdefault((sq, sf, rd, e['lt'], e['rt']), set()).add(e['rin'] or e['rt'] or 'DEFAULT')
    cov.bump('receptions_with_several_unpack_types', sum(1 for v in pk.values() if len(v) > 1)); cov.bump('remote_payload_receptions', len(pk))
    # copy identity (coverage only): consumers whose copy is / is not the producer's own buffer
    outp = {}
    for g in regs:
        if g['kind'] == 1: outp[((g['cls'], tuple(g['p'][:len(P.classes[g['cls']].pnames)])), g['flow'])] = (g['rank'], g['ptr'])
    for g in regs:
        if g['kind'] != 0: continue
        key = (g['cls'], tuple(g['p'][:len(P.classes[g['cls']].pnames)]))
        s = ref.src.get((key, g['flow']))
        if s and s[0] == 'task' and (s[1], s[2]) in outp:
            same = outp[(s[1], s[2])] == (g['rank'], g['ptr'])
            cov.bump('consumer_got_producer_buffer' if same else 'consumer_got_other_buffer')


def prebuild(ctx):
    e1run.rt_object(ctx, 'asan')


def run(ctx):
    thorough = ctx.tier == 'thorough'
    ctx.rule = RULE
    ctx.assumptions = ['reference interpreter (bodies write whole tiles, so every selection of a producer copy is defined); generator validity rules (a converted copy is overwritten only by its single private consumer; collection keys accessed in a total order; co-located keys share an owner in every table)',
                       'only type combinations with an established meaning are generated (module docstring): equal pack/unpack types, [type] on the output side, equal type_remote on both ends, [type_data] on collection accesses',
                       'documented unsupported case excluded by construction: flows with more than one remote shape are run with runtime_comm_short_limit=0 only',
                       'star broadcast only (chain/binomial: C13 finding); unselected elements of a converted copy are unspecified and only counted',
                       'MPI datatypes themselves are trusted here (C19)']
    S = e1suite.Suite(ctx, {'once', 'order'}, profile='typed', flavours=('asan',))     # values: judged partition-wise by oracle() below (keys carry the delivery class)
    cov = Cov()
    known_mixed = any('mixed-local-types' in k for k in ctx.known)
    known_multi = any('several-payloads-per-flow' in k or 'parsec_create_reshape_promise' in k for k in ctx.known)
    nprog = 40 if thorough else 12
    if os.environ.get('VERIF_C18_NPROG'): nprog = int(os.environ['VERIF_C18_NPROG'])      # debugging aid (mutation trials): fewer programs
    modes = []
    for i in range(nprog):
        if thorough: m = 'mixed' if i % 10 == 3 else ('multirt' if i % 10 == 7 else 'plain')
        else: m = 'mixed' if i in ((3,) if known_mixed else (3, 9)) else ('multirt' if i in ((7,) if known_multi else (7, 11)) else 'plain')     # recorded findings: probed at low weight
        modes.append(os.environ.get('VERIF_C18_MODE') or m)              # debugging aid: force one generator mode
    ncfg = 5 if thorough else 3
    S.post = lambda res, refs_, recs, finals, marks, r, cfg, feat, files, what: oracle(ctx, res, refs_, recs, finals, marks, r, cfg, feat, files, what, cov)

    def one(i):
        seed = ctx.seed * 100000 + 18000 + i
        try:
            P, ref, disc = generate(seed, 't%d' % i, modes[i])
        except ModelError as ex:
            ctx.inconclusive_case('generator: %s' % str(ex)[:200]); return []
        S.stats['discarded_by_generator'] += len(disc)
        multishape = 'multi-remote-shape' in P.features

        def cfgs(vi, r2):
            out = []
            for c in range(ncfg):
                ranks = [1, 2, 3, 4][(i + c) % 4] if not thorough else r2.choice([1, 2, 2, 3, 4, 4])
                mb = r2.choice([1, 2, 3, 3, 4, 5, 7, 8, 11, 12])
                mca = {'runtime_comm_coll_bcast': 0}
                if multishape or r2.random() < 0.5: mca['runtime_comm_short_limit'] = 0
                table = build_table(P, ranks, r2, r2.choice(['rand', 'rand', 'split', 'remote', 'cyclic']))
                cf = e1run.Cfg(sched=r2.choice(['lfq', 'lfq', 'ap', 'gd', 'll', 'pbq']), cores=r2.choice([1, 2, 3, 4, 8]), ranks=ranks, table=table, mca=mca, seed=ctx.seed,
                               ts=mb * mb, mb=mb, mpimt=1 if r2.random() < 0.4 else 0, sleep=(r2.choice([0, 150, 400]), 300),
                               place='table:%d' % r2.randint(0, 10 ** 6))
                if r2.random() < 0.5: cf.yield_ = '%d:%d:%d' % (ctx.seed + c, r2.choice([100, 300]), r2.choice([0, 40]))
                out.append(cf)
            return out
        S2 = e1suite.Suite(ctx, S.oracles, profile='typed', flavours=('asan',)); S2.nk = P.nk; S2.post = S.post
        S2.stall_s = 30 if modes[i] == 'mixed' else 120      # generous: on a loaded machine start-up alone can exceed 30 s; mixed programs may really stall (recorded finding)
        S2.feat_fn = lambda feat, progs, refs_, cfg, table: feat if feat_of(progs[0]) == 'ptg[typed]' else feat_of(progs[0])
        rs = S2.do_program(i, seed, [('asan', ())], cfgs, progs=([P], [ref]))
        with ctx._lock:
            for k_, v in S2.stats.items(): S.stats[k_] = S.stats.get(k_, 0) + v
            S.scheds |= S2.scheds; S.cores |= S2.cores; S.ranks |= S2.ranks; S.backends |= S2.backends
            for m in P.motifs: S.motifs[m] = S.motifs.get(m, 0) + 1
        for r_ in rs: r_['mode'] = modes[i]; r_['units'] = P.units
        if i < 3: ctx.sample({'mode': modes[i], 'units': [{k_: v for k_, v in u.items()} for u in P.units], 'instances': len(ref.inst), 'jdf_head': P.jdf()[:700]})
        return rs

    for rs in ctx.pmap(one, range(nprog), jobs=4):
        for res in rs:
            if res['status'] in ('ok', 'violation', 'known'):
                ctx.evaluations += 1
                ctx.add_cov('runs_mode_' + res['mode'])
                for u in res['units']: ctx.add_cov('unit_%s_src_%s_ct%s_lt%s_rt%s' % (u['kind'], u['src'], SHORT[u['ct']], SHORT[u['lt']], SHORT[u['rt']]))
                c = res['cfg']
                ctx.add_cov('runs_short_limit_%s' % ('0' if 'runtime_comm_short_limit' in c.mca else 'default')); ctx.add_cov('runs_mpi_thread_multiple' if c.mpimt else 'runs_mpi_thread_serialized')
                ctx.max_cov('max_tile_dimension', c.mb)
                if res['status'] == 'ok' and res['ninst'] >= 20 and res.get('typed', 0) >= 1:
                    ctx.distinct.add(json.dumps([res['seed'], [str(x) for x in c.ident()], c.table]))
    for k_, v in cov.items(): ctx.cov[k_] = v
    S.finish_cov()
