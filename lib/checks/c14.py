"""C14 — the communication engine delivers every active message and every put/get exactly once and intact.

Every rank of a real MPI job (2..4 ranks) calls parsec_init and never starts the context, so the main thread owns
parsec_ce (funnelled discipline).  harness/c14_ce.c drives seeded AM bursts, the runtime's own put protocol and gets,
and checks sequence numbers, byte streams, guard bytes, completion callbacks and conservation at global quiescence,
under sweeps of runtime_comm_mpi_{am_posted,am_tested,dynamic,dynamic_recv}_requests from 1 upward."""
import random, re, hashlib, json

META = dict(
    level='exploration', engine='direct drive of parsec_ce on real MPI ranks (main thread owns the engine) + payload/sequence monitor',
    technique='runtime monitoring: test-owned tag and completion callbacks record (src,tag,seq,len,bytes) and compare with what the seeded '
              'senders produced (exactly-once, identical bytes, per pair/tag order, guard bytes around every put/get target, exactly-once '
              'completion callbacks), conservation decided at global quiescence by lock-step allreduce rounds; ASan+UBSan on the engine',
    text='Seeded streams of active messages (0 bytes .. registered maximum, bursts several times the posted-receive pool) on up to 5 user '
         'tags plus a request tag, interleaved with puts (the protocol of remote_dep_mpi.c) and gets of 0 B .. 4 MiB with contiguous and '
         'strided layouts, between 2..4 MPI processes, for request-window parameters from 1 to the defaults.  Every message and transfer '
         'observed was delivered once, intact, in order per pair/tag, and nothing outside a target changed; held on the runs observed.',
    note='Trusts Open MPI (matching order, eager delivery), the harness PRNG streams and the quiescence protocol (N idle lock-step rounds). '
         'Active messages stay below the transport eager limit (the engine sends them with a blocking MPI_Send and documents them as a '
         'short protocol without flow control).  Puts and gets on one ordered pair are drawn from one tag counter (--pair-safe) except in '
         'the scenario that demonstrates the recorded put/get tag clash.',
    design_ref='DESIGN.md §4 C14')

RULE = ('one evaluation = one MPI job (2..4 ranks) with one request-window parameter set, judged by the exactly-once / bytes / order / '
        'guard / callback / conservation oracles; non-trivial = >=100 AMs received, >=1 burst to one (dst,tag) longer than the posted pool, '
        'and (when one-sided traffic is on) >=10 puts+gets completed; distinct = distinct (parameter set, traffic-matrix hash) pairs')

FLOORS = (4, 3)

PNAMES = ('am_posted_requests', 'am_tested_requests', 'dynamic_requests', 'dynamic_recv_requests')
BIG_EAGER = {'OMPI_MCA_btl_vader_eager_limit': '131072', 'OMPI_MCA_btl_vader_max_send_size': '131072'}


def harness(ctx, flavour):
    return ctx.harness('c14_ce', flavour)


def prebuild(ctx):
    for f in ('asan', 'rel'):
        harness(ctx, f)


def _sets(ctx):
    thorough = ctx.tier == 'thorough'
    rnd = random.Random(ctx.seed * 7919 + (1 if thorough else 0))
    n = 32 if thorough else 6
    msgs = 12000 if thorough else 700          # target AM count of one job (all ranks together)
    sets = []
    for i in range(n):
        if i == 0:
            s = dict(ranks=3, p=(1, 1, 1, 1), tags=4, maxlen=2048, osmax=65536, flavour='asan')       # everything at its minimum
        elif i == 1:
            s = dict(ranks=4, p=(0, 0, 0, 0), tags=5, maxlen=3584, osmax=300000, flavour='asan')      # defaults
        elif i == 2:
            s = dict(ranks=2, p=(3, 2, 2, 1), tags=3, maxlen=60000, osmax=1048576, flavour='rel', big=True)     # tested window of 2 in a pool of 3
        else:
            posted = rnd.choice([1, 2, 3, 0])
            tested = rnd.choice([1, 2, 3, 0])
            if i == 3:                          # always one set whose tested window holds several requests (default is pool/4 = 1)
                posted, tested = rnd.choice([(3, 2), (3, 3), (0, 2), (0, 3)])
            if posted and tested > posted:
                tested = posted                 # the engine caps it with a warning; keep the set meaningful
            dyn = rnd.choice([1, 2, 3, 0])
            dynrecv = rnd.choice([1, 2, 3, 0])
            if dyn and dynrecv > dyn:
                dynrecv = dyn
            big = rnd.random() < 0.2
            s = dict(ranks=rnd.choice([2, 3, 3, 4]), p=(posted, tested, dyn, dynrecv), tags=rnd.choice([3, 4, 5]),
                     maxlen=rnd.choice([16384, 60000]) if big else rnd.choice([256, 1000, 2048, 3584]),
                     osmax=rnd.choice([4096, 65536, 300000] + ([1048576, 4194304] if thorough else [1048576])),
                     flavour=rnd.choice(['asan', 'asan', 'rel']), big=big)
        # a third of the random sets mix puts and gets on the same ordered pairs; the tag counters of the ranks are first moved to
        # disjoint ranges (--tag-offset) so that the unchanged engine never has two transfers with one tag in flight on a channel
        s['mixed'] = (i >= 3 and i % 2 == 1) if not thorough else (i >= 3 and i % 3 == 0)
        s['seed'] = ctx.seed * 100003 + i
        s['steps'] = max(30, msgs // (5 * s['ranks']))
        s['burst'] = rnd.choice([12, 24, 40])
        s['between'] = rnd.choice([0, 100, 300, 700])
        s['w'] = rnd.choice([(70, 15, 15), (70, 15, 15), (40, 30, 30), (90, 5, 5), (60, 40, 0), (60, 0, 40)]) if i > 1 else (70, 15, 15)
        s['kprog'] = rnd.choice([20, 200])
        if s['mixed']:
            # crossing gets need a request slot that cannot be taken by a receive (recorded finding onesided:get:crossing-gets-deadlock)
            s['p'] = (s['p'][0], s['p'][1]) + rnd.choice([(2, 1), (3, 1), (3, 2), (0, 0), (0, 3), (0, 1)])
            if not (s['w'][1] and s['w'][2]):
                s['w'] = (60, 20, 20)
            if thorough:
                s['w'] = rnd.choice([(90, 5, 5), (85, 10, 5), (85, 5, 10)])
            tot = float(sum(s['w']))
            bound = s['steps'] * (s['w'][1] + s['w'][2]) / tot * s['ranks']      # tags one rank can consume: gets issued + puts served
            off = 256
            while off < 4 * bound:
                off *= 2
            s['tag_offset'] = off
        s['id'] = i
        sets.append(s)
    return sets


def _env(s):
    e = {'PARSEC_MCA_runtime_warn_slow_binding': '0'}
    for name, v in zip(PNAMES, s['p']):
        if v:
            e['PARSEC_MCA_runtime_comm_mpi_' + name] = str(v)
    if s.get('big'):
        e.update(BIG_EAGER)
    return e


def _cmd(exe, s, extra=()):
    return [exe, '--seed', s['seed'], '--steps', s['steps'], '--tags', s['tags'], '--maxlen', s['maxlen'], '--os-max', s['osmax'],
            '--w-am', s['w'][0], '--w-put', s['w'][1], '--w-get', s['w'][2], '--burst', s['burst'], '--progress-between', s['between'],
            '--kprog', s['kprog']] + ([] if '--idle-rounds' in extra else ['--idle-rounds', 1500 if s['osmax'] >= (1 << 20) else 400]) + (
               ['--tag-offset', s['tag_offset']] if s.get('mixed') else ['--pair-safe']) + list(extra)


def _mpi_errors(ctx, r, what, feature=None):
    m = re.search(r'\*\*\* (MPI_ERR_\w+)', r.stderr + r.stdout)
    if m:
        w = re.search(r'An error occurred in (\w+)', r.stderr + r.stdout)
        key = ((feature + ':') if feature else '') + 'mpi-error:%s:%s' % (m.group(1), w.group(1) if w else '?')
        return ctx.violation(key, '%s: the MPI library aborted the job: %s in %s' % (what, m.group(1), w.group(1) if w else '?'), r)
    return False


def _one(ctx, exe, s, what, extra=(), feature=None, ranks=None, timeout=None, stall_s=180):
    cmd = [str(c) for c in _cmd(exe, s, extra)]
    env = _env(s)
    tmo = timeout or (3600 if ctx.tier == 'thorough' else 900)
    n = ranks or s['ranks']
    cnt = [0]

    def runner():
        cnt[0] += 1
        return ctx.run(cmd, env=env, timeout=tmo, stall_s=stall_s, mpi=n, tag='c14-%s-%s-%d' % (s['id'], feature or 'sweep', cnt[0]))

    r = runner()
    if _mpi_errors(ctx, r, what, feature):
        return r, 'violation'
    if r.signal == 9 and not (r.stalled or r.timed_out) and not r.san and not r.of('violation'):
        ctx.inconclusive_case('%s: killed from outside (SIGKILL, not by this driver)' % what)
        return r, 'inconclusive'
    st = ctx.absorb(r, what, feature)
    if st == 'stalled':
        try:        # keep the stacks of a stall that may not repeat
            import os
            from vfcore import REPLAYS
            os.makedirs(REPLAYS, exist_ok=True)
            open(os.path.join(REPLAYS, '%s-stalled-once-set%s-seed%d.txt' % (ctx.prop, s['id'], ctx.seed)), 'w').write(
                '%s\ncmd: %s\nenv: %s\n\n%s\n\nstderr tail:\n%s' % (what, ' '.join(cmd), env, r.backtraces, r.stderr[-3000:]))
        except Exception:
            pass
        r2 = runner()
        if _mpi_errors(ctx, r2, what, feature):
            return r2, 'violation'
        st2 = ctx.absorb(r2, what, feature)
        if st2 != 'stalled':
            ctx.inconclusive_case('%s stalled once (not reproduced)' % what)
            return r2, st2
        from vfcore import stall_key
        key = ((feature + ':') if feature else '') + stall_key(r2.backtraces or r.backtraces)
        ctx.violation(key, '%s made no progress twice (no monitored event on any rank for %d s)' % (what, stall_s), r2)
        return r2, 'violation'
    return r, st


def run(ctx):
    thorough = ctx.tier == 'thorough'
    ctx.rule = RULE
    ctx.assumptions = [
        'Open MPI itself is trusted (matching order per source/tag/communicator, delivery of eagerly sent messages)',
        'active messages stay below the transport eager limit: the engine sends them with a blocking MPI_Send and documents them as a short '
        'protocol without flow control (CMake PARSEC_DIST_SHORT_LIMIT, comm_short_limit help); sets with 16-60 KiB messages raise '
        'btl_vader_eager_limit instead.  Bursts of rendezvous-size AMs from all ranks stop for good (measured) and are treated as outside the '
        'engine contract, not as a C14 violation',
        'callback order per (source, tag) is required to equal send order because the engine keeps its tested window in posting order and all '
        'sends are blocking and eager',
        'the transfer unit of put/get is the registered (count, datatype) of both handles; remote displacement and the size argument are '
        'ignored by this backend, so the harness registers exactly the target and passes rdispl 0 as remote_dep_mpi.c does',
        'the source/tag/size arguments of the source-side completion of a get come from a send status and are not checked',
        'global quiescence = all ranks finished generating, totals exchanged, and N consecutive lock-step rounds of K progress calls on every '
        'rank without a single monitored event anywhere',
        'because of the recorded finding onesided:put-get-tag-clash, random sweeps either keep one tag counter per ordered data channel '
        '(--pair-safe) or first move the per-rank tag counters to disjoint ranges (--tag-offset, keys prefixed disjoint-tags:)',
    ]
    exes = {f: harness(ctx, f) for f in ('asan', 'rel')}
    sets = _sets(ctx)

    # low-weight triggers of the recorded findings: deterministic 2-rank scenarios of a few seconds each, run beside the sweeps
    base = dict(seed=ctx.seed, steps=0, tags=3, maxlen=1000, osmax=65536, w=(70, 15, 15), burst=12, between=300, kprog=100, p=(0, 0, 0, 0), ranks=2, flavour='asan')
    scen = [dict(base, id=900, what='scenario: one put and one get in flight between the same two processes', extra=['--scenario', 'put-get-same-pair'], cov='scenario_put_get_same_pair_runs'),
            dict(base, id=901, steps=20, what='scenario: tag registered on every rank after enable()', extra=['--late-tag', '--idle-rounds', '40'], cov='scenario_late_tag_runs'),
            dict(base, id=902, p=(0, 0, 1, 1), what='scenario: two processes get from each other with dynamic_requests = dynamic_recv_requests = 1',
                 extra=['--scenario', 'crossing-gets', '--idle-rounds', '40'], cov='scenario_crossing_gets_runs')]

    def job(s):
        if 'extra' in s:
            r, st = _one(ctx, exes['asan'], s, s['what'], extra=s['extra'])
            return s, s['what'], r, st
        what = 'set %d: %d ranks posted/tested/dyn/dynrecv=%s maxlen=%d osmax=%d %s%s' % (s['id'], s['ranks'], '/'.join(str(x) if x else 'default' for x in s['p']),
                                                                                     s['maxlen'], s['osmax'], s['flavour'], ' put+get on the same pairs' if s.get('mixed') else '')
        r, st = _one(ctx, exes[s['flavour']], s, what, feature='disjoint-tags' if s.get('mixed') else None)
        return s, what, r, st

    # ranks busy-poll: keep the number of simultaneously polling processes well below the core count of the shared box
    res = ctx.pmap(job, sets[:2] + scen + sets[2:], jobs=3)
    for s, what, r, st in [x for x in res if 'extra' in x[0]]:
        if r.summary():
            ctx.note_case(s['cov'], False)
            ctx.add_cov(s['cov'])
    res = [x for x in res if 'extra' not in x[0]]
    pseen = {k: set() for k in PNAMES}
    for s, what, r, st in res:
        if st in ('stalled', 'inconclusive'):
            ctx.inconclusive_case(what + ': ' + st)
            continue
        sm = r.summary()
        if not sm:
            continue
        if s.get('mixed'):
            ctx.add_cov('jobs_mixing_put_get_on_a_pair_with_disjoint_tag_ranges')
            ctx.max_cov('max_tags_used_after_offset', sm['max_tags_after_offset'])
            if sm['max_tags_after_offset'] >= s['tag_offset']:
                ctx.harness_failures.append('%s: a rank used %d tags, more than its offset %d' % (what, sm['max_tags_after_offset'], s['tag_offset']))
        onesided_on = (s['w'][1] + s['w'][2]) > 0
        nontrivial = (sm['am_recv'] >= 100 and sm['bursts_over_pool'] >= 1 and (not onesided_on or sm['put_rcb'] + sm['get_lcb'] >= 10))
        ident = hashlib.sha1(json.dumps([s['ranks'], s['p'], s['tags'], s['maxlen'], s['osmax'], s['flavour'], sm['traffic_hash']]).encode()).hexdigest()[:16]
        ctx.note_case(ident, nontrivial)
        for k in ('am_sent', 'am_recv', 'am_bytes', 'am_zero_len', 'bursts_over_pool', 'puts', 'put_lcb', 'put_rcb', 'gets', 'get_lcb', 'get_rcb', 'os_bytes',
                  'cannot_serve_obs', 'dynq_send_obs', 'dynq_recv_obs', 'put_in_cb', 'strided_ops', 'zero_ops', 'events', 'order_breaks'):
            ctx.add_cov(k, sm[k])
        for k in ('max_burst', 'os_outstanding_max', 'os_max_size', 'rounds'):
            ctx.max_cov(k, sm[k])
        for k, v in zip(PNAMES, s['p']):
            pseen[k].add(v if v else 'default')
        ctx.add_cov('jobs_ranks_%d' % s['ranks'])
        ctx.add_cov('jobs_flavour_' + s['flavour'])
        if s.get('big'):
            ctx.add_cov('jobs_with_16k_to_60k_byte_AMs')
        ctx.sample({'what': what, 'weights_am_put_get': s['w'], 'tags': sm['tags'], 'effective': {'posted': sm['posted'], 'tested': sm['tested'] or 'posted/4', 'dyn': sm['dyn'], 'dynrecv': sm['dynrecv']},
                    'am_recv': sm['am_recv'], 'am_bytes': sm['am_bytes'], 'max_burst': sm['max_burst'], 'bursts_over_pool': sm['bursts_over_pool'],
                    'puts': sm['put_rcb'], 'gets': sm['get_lcb'], 'os_bytes': sm['os_bytes'], 'os_outstanding_max': sm['os_outstanding_max'],
                    'engine_dynamic_queue_episodes': [sm['dynq_send_obs'], sm['dynq_recv_obs']], 'traffic_hash': sm['traffic_hash']})
    ctx.cov['parameter_values_seen'] = {k: sorted(str(x) for x in v) for k, v in pseen.items()}

    # ---- informational probe (thorough only, never a verdict): rendezvous-size AM bursts with a pool of one ----
    if thorough:
        probe = dict(base, id=950, steps=200, maxlen=16384, w=(100, 0, 0), p=(1, 1, 0, 0), ranks=3, burst=24, flavour='rel')
        pr = ctx.run([str(c) for c in _cmd(exes['rel'], probe)], env=_env(probe), timeout=600, stall_s=30, mpi=3, tag='c14-probe')
        ctx.cov['probe_rendezvous_size_am_bursts_default_eager_limit'] = ('stalled (blocking MPI_Send on every rank, pool exhausted)' if (pr.stalled or pr.timed_out)
                                                                          else 'completed' if pr.summary() else 'failed to run')
