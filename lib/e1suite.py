"""E1 suite driver shared by the PTG program-level checks (C01 C02 C05 C13 C15 C16 C18 C23 ...).
One execution is judged by the oracles the calling property selects."""
import os, random, shutil, json, time
import e1, e1gen, e1run, vfcore, vfbuild

SCHEDS = ['lfq', 'ltq', 'ap', 'lhq', 'gd', 'pbq', 'ip', 'spq', 'rnd', 'llp', 'll']
RISKY = ('neg-step', 'lidx-param')


def risky_features(prog, ptg_flags):
    f = []
    if 'neg-step' in prog.features: f.append('neg-step')
    if 'empty-gather' in prog.features: f.append('empty-gather')
    if 'lidx-param' in prog.features and 'index-array' in ' '.join(ptg_flags): f.append('lidx-param+index-array')
    return f


def feature_prefix(prog, ptg_flags):
    f = risky_features(prog, ptg_flags)
    return 'ptg[%s]' % ','.join(f) if f else 'ptg'


class Suite:
    def __init__(self, ctx, oracles, profile='mixed', flavours=('asan', 'rel'), nk=256):
        self.ctx = ctx; self.oracles = set(oracles); self.profile = profile; self.flavours = flavours; self.nk = nk
        self.stats = dict(programs=0, discarded_by_generator=0, builds=0, runs=0, instances_checked=0, edges_checked=0,
                          again_reentries=0, records=0, build_failures=0)
        self.scheds = set(); self.cores = set(); self.ranks = set(); self.motifs = {}; self.backends = set()

    # -------- one program: build variants, run configs, judge
    def do_program(self, idx, seed, variants, cfgs, allow=(), gen_kw=None, progs=None):
        """variants: list of (flavour, ptg_flags tuple); cfgs: function(variant_index, rnd) -> list of Cfg.
        Returns list of per-run dicts."""
        ctx = self.ctx
        gen_kw = gen_kw or {}
        try:
            if progs is None:
                P, ref, disc = e1gen.generate(seed, self.profile, name='p%d' % idx, nk=self.nk, allow=allow, **gen_kw)
                progs = [P]; refs = [ref]
                self.stats['discarded_by_generator'] += len(disc)
            else:
                progs, refs = progs
        except e1.ModelError as ex:
            self.stats['discarded_by_generator'] += 1
            ctx.inconclusive_case('generator produced no valid program for seed %d: %s' % (seed, str(ex)[:200]))
            return []
        self.stats['programs'] += 1
        for p in progs:
            for m in getattr(p, 'motifs', []): self.motifs[m] = self.motifs.get(m, 0) + 1
        results = []
        rnd = random.Random(seed * 7 + 1)
        if 'lidx-param' in progs[0].features and 'lidx-param' not in allow:
            # local-index parameters crash with the index-array back-end (known finding, probed separately at low weight)
            variants = [(f, tuple(x for x in fl if x not in ('-M', 'index-array'))) for (f, fl) in variants]
        for vi, (flavour, ptg_flags) in enumerate(variants):
            wdir = os.path.join(ctx.work, 'p%d_v%d' % (idx, vi))
            feat = feature_prefix(progs[0], ptg_flags)
            files = {}
            try:
                exe = e1run.build_program(ctx, flavour, progs, wdir, ptg_flags, tag='p%d' % idx)
                self.stats['builds'] += 1
            except e1run.BuildFailure as bf:
                self.stats['build_failures'] += 1
                # a model accepted by the reference interpreter that ptgpp/cc rejects: not this property's oracle;
                # reported as inconclusive here (C24 owns the compiler), with the text kept for triage
                ctx.inconclusive_case('%s failed for a generated program (seed %d, flags %s): %s' % (bf.stage, seed, ptg_flags, str(bf)[-300:]))
                continue
            for p in progs:
                files[p.name + '.jdf'] = os.path.join(wdir, p.name + '.jdf')
            self.backends.add(' '.join(ptg_flags) or 'default')
            for ci, cfg in enumerate(cfgs(vi, rnd)):
                cfg.flavour = flavour
                results.append(self.do_run(idx, vi, ci, progs, refs, exe, cfg, feat, files, seed, ptg_flags))
            shutil.rmtree(wdir, ignore_errors=True)
        return results

    def do_run(self, idx, vi, ci, progs, refs, exe, cfg, feat, files, seed, ptg_flags):
        ctx = self.ctx
        nk = progs[0].nk
        what = 'program seed=%d [%s] flags=%s cfg: %s' % (seed, ','.join(getattr(progs[0], 'motifs', [])), ' '.join(ptg_flags) or '-', cfg.short())
        state = {}
        if getattr(self, 'feat_fn', None):
            feat = self.feat_fn(feat, progs, refs, cfg, list(cfg.table) if cfg.table else e1run.placement_table(nk, cfg.ranks, cfg.place, cfg.pseed))

        def runner():
            outdir = os.path.join(ctx.work, 'o%d_%d_%d_%d' % (idx, vi, ci, state.get('n', 0)))
            state['n'] = state.get('n', 0) + 1
            shutil.rmtree(outdir, ignore_errors=True)
            r = e1run.run_program(ctx, exe, nk, cfg, outdir, tag='r%d_%d_%d_%d' % (idx, vi, ci, state['n']), stall_s=getattr(self, 'stall_s', 30 if feat != 'ptg' else 90))     # known-finding probes stall by design: short threshold; plain programs: generous (loaded machines)
            state['out'] = outdir
            return r
        # run with stall detection through the heartbeat
        r, st = self._run_stall(runner, what, feat, files)
        self.stats['runs'] += 1
        self.scheds.add(cfg.sched); self.cores.add(cfg.cores); self.ranks.add(cfg.ranks)
        self.vps = getattr(self, 'vps', set()); self.vps.add(getattr(cfg, 'vps', 1))
        res = dict(seed=seed, cfg=cfg, status=st, ninst=sum(len(x.inst) for x in refs))
        if st in ('violation', 'known', 'inconclusive', 'stalled'):
            shutil.rmtree(state.get('out', ''), ignore_errors=True)
            return res
        try:
            recs, finals, marks, complete = e1run.load_logs(state['out'], cfg.ranks)
        except Exception as ex:
            ctx.harness_failures.append('log parsing failed for %s: %s' % (what, ex)); res['status'] = 'inconclusive'
            return res
        self.stats['records'] += len(recs)
        if not complete:
            # process exited 0 but did not write its logs: machinery problem
            ctx.harness_failures.append('incomplete logs for %s (rc=%s)' % (what, r.rc)); res['status'] = 'inconclusive'
            return res
        viol = e1run.check_logs(refs, recs, finals, r.table, self.oracles, cfg, progs)
        res['marks'] = marks; res['recs'] = recs if getattr(self, 'keep_recs', False) else None
        res['events'] = e1run.marks_events.pop(state['out'], [])
        self.stats['instances_checked'] += sum(len(x.inst) for x in refs)
        self.stats['edges_checked'] += sum(len(x.edges) for x in refs)
        self.stats['again_reentries'] += sum(1 for x in recs if x['ret'] == 1)
        res['again'] = sum(1 for x in recs if x['ret'] == 1)
        res['threads_seen'] = len(set((x['rank'], x['thread']) for x in recs))
        res['ranks_seen'] = len(set(x['rank'] for x in recs))
        for (oracle, f2, text) in viol:
            key = '%s:%s:%s' % (feat, oracle, f2)
            fl = dict(files); fl['case.txt'] = what
            if ctx.violation(key, '%s — %s' % (text, what), r, fl): res['status'] = 'violation'
            else: res['status'] = 'known'
        if getattr(self, 'post', None) and res['status'] == 'ok':
            self.post(res, refs, recs, finals, marks, r, cfg, feat, files, what)
        shutil.rmtree(state.get('out', ''), ignore_errors=True)
        return res

    def _triage(self, r, what, feat, files):
        """like ctx.absorb, but programs carrying a risky (known-finding) feature get coarse, stable keys"""
        ctx = self.ctx
        if feat != 'ptg' and (r.san or (not (r.stalled or r.timed_out) and (r.signal is not None or r.rc not in (0, 1)))):
            head = (r.san[0].strip().splitlines() or [''])[1 if len(r.san[0].strip().splitlines()) > 1 else 0] if r.san else ('signal %s rc %s' % (r.signal, r.rc))
            ak = vfcore.assert_key(r.stderr) or vfcore.assert_key(r.stdout)
            if not ak:
                import re as _re
                m1 = _re.search(r'An error occurred in (MPI_\w+)', r.stderr); m2 = _re.search(r'(MPI_ERR_\w+)', r.stderr)
                if m1 and m2: ak = 'mpi-error:%s:%s' % (m2.group(1), m1.group(1))
            if ctx.violation(feat + ':crash' + ((':' + ak) if ak else ''), '%s crashed: %s %s' % (what, head[:300], vfcore._grep(r.stderr, 'Assertion')), r, files): return 'violation'
            return 'known'
        st = ctx.absorb(r, what, feat, files=files)
        if st == 'stalled':
            # only a run in which every rank had started its context can be judged "no progress"
            last = {}
            for l in r.stderr.splitlines():
                w = l.split()
                if len(w) >= 4 and w[0] == 'VFHB':
                    try: last[int(w[1])] = int(w[2])
                    except ValueError: pass
            nr = getattr(r, 'nranks', 1)
            if any(last.get(k, 0) < 2 for k in range(nr)) or any(v == 3 for v in last.values()) and not all(v >= 2 for v in last.values()):
                ctx.inconclusive_case('%s: killed while a rank was still initialising (phases %s) — machine load, not judged' % (what, last))
                return 'inconclusive'
        return st

    def _run_stall(self, runner, what, feat, files):
        ctx = self.ctx
        r = runner()
        st = self._triage(r, what, feat, files)
        if st != 'stalled': return r, st
        r2 = runner()
        st2 = self._triage(r2, what, feat, files)
        if st2 != 'stalled':
            ctx.inconclusive_case('%s stalled once (not reproduced)' % what)
            return r2, st2
        key = feat + ':' + (vfcore.stall_key(r2.backtraces or r.backtraces) if feat == 'ptg' else 'stall')
        if ctx.violation(key, '%s made no progress twice; blocked in: %s' % (what, vfcore.stall_key(r2.backtraces or r.backtraces)), r2, files): return r2, 'violation'
        return r2, 'known'

    def account(self, results, nontrivial=lambda res: True):
        ctx = self.ctx
        for res in results:
            if res['status'] in ('ok', 'violation', 'known'):
                ctx.evaluations += 1
                if res['status'] == 'ok' and res['ninst'] >= 20 and nontrivial(res):
                    ctx.distinct.add(json.dumps([res['seed'], [str(x) for x in res['cfg'].ident()]]))

    def finish_cov(self):
        ctx = self.ctx
        for k, v in self.stats.items(): ctx.cov[k] = v
        ctx.cov['schedulers'] = sorted(self.scheds); ctx.cov['threads_per_rank'] = sorted(self.cores); ctx.cov['ranks'] = sorted(self.ranks)
        ctx.cov['virtual_processes'] = sorted(getattr(self, 'vps', {1}))
        ctx.cov['motifs'] = self.motifs; ctx.cov['dep_backends'] = sorted(self.backends); ctx.cov['oracles'] = sorted(self.oracles)


def differing_dest_sets(ref, table):
    """does some task instance have >= 2 data output flows whose sets of REMOTE destination ranks are non-empty and differ?"""
    for k in ref.inst:
        me = table[ref.placement(k)]
        sets = {}
        for (sf, d, df) in ref.succ.get(k, []):
            if ref.p.classes[k[0]].flows[sf].mode == 'CTL': continue
            rk = table[ref.placement(d)]
            if rk != me: sets.setdefault(sf, set()).add(rk)
        vals = [frozenset(v) for v in sets.values()]
        if len(vals) >= 2 and len(set(vals)) >= 2: return True
    return False


def sample_of(prog, ref):
    return {'jdf_head': prog.jdf()[:900], 'instances': len(ref.inst), 'edges': len(ref.edges), 'motifs': getattr(prog, 'motifs', [])}
