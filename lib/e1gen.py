"""E1 generator: seeded PTG programs assembled from motifs whose two dependency ends are emitted from the same
closed-form description.  Every program is validated by e1.Ref (forward/backward self-check + PTG validity rules)
before it is used; invalid ones are discarded and counted."""
import random
from e1 import *

NAMES = ['A', 'B', 'C', 'G', 'H', 'P', 'Q', 'R', 'S', 'T', 'U', 'W']


class Gen:
    def __init__(self, seed, profile='mixed', name='prog', nk=256, allow=None):
        self.r = random.Random(seed)
        self.P = Program(name, nk=nk)
        self.profile = profile
        self.n = 0
        self.allow = allow or set()     # risky features allowed (known-finding probes)
        self.P.seed = seed

    def cname(self, base):
        self.n += 1
        return '%s%d' % (base, self.n)

    def const(self, v, allow_inline=True):
        """a constant, rendered as literal, global or inline C"""
        r = self.r.random()
        if r < 0.55: return K(v)
        if r < 0.8:
            g = 'G%d' % len(self.P.globals)
            return self.P.add_global(g, v)
        return K(v).inline() if allow_inline else K(v)

    def maybe_inline(self, e, p=0.15):
        return e.inline() if self.r.random() < p else e

    def prio(self, *vars_):
        r = self.r.random()
        if r < 0.5 or not vars_: return None
        v = V(self.r.choice(vars_))
        return self.r.choice([v, 100 - v, v * 3 + 1, K(self.r.randint(0, 5))])

    # ------------------------------------------------------------ motifs
    def chain(self, L=None, W=None, step=None):
        """W parallel RW chains of length ~L: NEW- or collection-headed, optional write-back, optional taps"""
        r = self.r; P = self.P
        A = self.cname('A')
        W = W or r.choice([1, 1, 2, 3, 4]); L = L or r.randint(1, 12)
        s = step if step is not None else r.choice([1, 1, 1, 2, 3])
        lo = r.choice([0, 0, 1, 2, -3])
        hi = lo + (L - 1) * abs(s) + r.randint(0, abs(s) - 1)
        feats = set()
        if s < 0:
            lo, hi = hi, lo; feats.add('neg-step')
        k, j = V('k'), V('j')
        two = W > 1 or r.random() < 0.3
        kfirst = r.random() < 0.6
        krng = Rng(self.const(lo), self.const(hi), None if (s == 1 and r.random() < 0.6) else self.const(s))
        jr = Rng(0, self.const(W - 1))
        params = []
        if two:
            params = [Param('k', 'range', krng), Param('j', 'range', jr)] if kfirst else [Param('j', 'range', jr), Param('k', 'range', krng)]
        else:
            params = [Param('k', 'range', krng)]
        lane = j if two else K(0)
        args = (lambda kk: [kk, lane] if kfirst else [lane, kk]) if two else (lambda kk: [kk])
        if r.random() < 0.4:
            params.append(Param('n', 'derived', expr=self.maybe_inline(k + 1, 0.4)))
        last = lo + ((hi - lo) // s) * s if s > 0 else lo - ((lo - hi) // (-s)) * (-s)
        head_mem = r.random() < 0.45
        base = P.alloc_keys(W if head_mem else max(W, 4))
        if head_mem:
            place = base + lane
            ins = [Dep('in', MEM(place), guard=k.eq(lo), f=TT(A, 'X', *args(k - s)))]
            if r.random() < 0.5:
                # overlapping guards, first match wins: a guarded task input followed by an UNGUARDED collection input
                ins = [Dep('in', TT(A, 'X', *args(k - s)), guard=k.ne(lo)), Dep('in', MEM(place))]
            outs = [Dep('out', TT(A, 'X', *args(k + s)), guard=k.ne(last)),
                    Dep('out', MEM(place), guard=k.eq(last))]
        else:
            n = max(W, 4)
            place = base + (k * r.choice([1, 2, 3]) + lane + 40) % n if r.random() < 0.7 else base + lane
            ins = [Dep('in', NEW, guard=k.eq(lo), f=TT(A, 'X', *args(k - s)))]
            outs = [Dep('out', TT(A, 'X', *args(k + s)), guard=(k.ne(last) if r.random() < 0.5 else ((k + s).le(hi) if s > 0 else (k + s).ge(hi))))]
            # write-back of the tail (keys must be distinct per lane: place(last, lane) is injective in lane as n >= W)
            if r.random() < 0.7:
                outs.append(Dep('out', MEM(place), guard=k.eq(last)))
        if r.random() < 0.3:   # ternary form split over two lines
            d = ins[0]
            ins = [Dep('in', d.t, guard=d.guard), Dep('in', d.f, guard=d.guard.not_())]
        flows = [Flow('X', 'RW', ins + outs)]
        tc = TaskClass(A, params, place, flows, prio=self.prio('k'), features=feats)
        P.add(tc)
        return tc

    def fanout(self, N=None):
        """P(k) --V--> B(k, j in strided/triangular range) --ternary routing--> C(k, q) ; CTL gather G(k)"""
        r = self.r; P = self.P
        Pn, Bn, Cn, Gn = self.cname('P'), self.cname('B'), self.cname('C'), self.cname('G')
        N = N or r.randint(1, 7)
        k, j, q = V('k'), V('j'), V('q')
        jlo = r.choice([0, 0, 1, 2])
        js = r.choice([1, 1, 2, 3])
        shape = r.choice(['const', 'tri', 'rtri'])
        M = r.randint(0, 6)
        if shape == 'const': jhi = self.const(jlo + M * js + r.randint(0, js - 1))
        elif shape == 'tri': jhi = jlo + k * js + self.const(r.randint(-1, 2) * js, False)     # may be empty for small k
        else: jhi = jlo + (N - 1 - k) * js + r.randint(0, js - 1)
        cnt = T(jhi.ge(jlo), (jhi - jlo) // js + 1, 0)
        jstep = None if (js == 1 and r.random() < 0.5) else self.const(js)
        jr = Rng(jlo, jhi, jstep)
        krng = Rng(0, self.const(N - 1))
        # keys
        pn = r.randint(1, 4); pb = P.alloc_keys(max(pn, N) if True else pn)
        p_mem = r.random() < 0.5
        pplace = pb + k if p_mem else pb + k % pn
        bn = r.randint(2, 6); bb = P.alloc_keys(bn)
        bplace = bb + (k * r.choice([1, 3]) + j) % bn
        QM = 8
        c_wb = r.random() < 0.4
        cb = P.alloc_keys(N * QM if c_wb else 4)
        cplace = cb + k * QM + q if c_wb else cb + (k + q) % 4
        gb = P.alloc_keys(2)
        use_g = r.random() < 0.6
        idx = (j - jlo) // js
        vmode = r.choice(['WRITE', 'RW']) if p_mem else 'WRITE'   # (an unconditional `RW <- NEW` is rejected by ptgpp's sanity check)
        # producer
        pfl = []
        if vmode == 'WRITE':
            pfl.append(Flow('V', 'WRITE', [Dep('out', TT(Bn, 'Y', k, jr))]))
            if p_mem:
                pfl.append(Flow('X', 'RW', [Dep('in', MEM(pplace)), Dep('out', MEM(pplace))]))
        else:
            src = MEM(pplace) if p_mem else NEW
            deps = [Dep('in', src), Dep('out', TT(Bn, 'Y', k, jr))]
            pfl.append(Flow('V', 'RW', deps))
            # (no write-back: the version is shared with the readers; an in-place head without write-back would leave the
            #  collection value placement dependent, so a collection-headed RW producer writes back)
            if p_mem: deps.append(Dep('out', MEM(pplace)))
        P.add(TaskClass(Pn, [Param('k', 'range', krng)], pplace, pfl, prio=self.prio('k')))
        # middle
        alt = r.choice(['mem', 'mem', 'null'])
        bfl = [Flow('Y', 'READ', [Dep('in', TT(Pn, 'V', k)),
                                  Dep('out', TT(Cn, 'P1', k, idx // 2), guard=(idx % 2).eq(0), f=TT(Cn, 'Q1', k, idx // 2))])]
        if use_g:
            # the control flow is declared after or BEFORE the data flow (the order of declaration is the order of the
            # outputs inside an activation message)
            zf = Flow('Z', 'CTL', [Dep('out', TT(Gn, 'Z', k))])
            if r.random() < 0.5: bfl.append(zf)
            else: bfl.insert(0, zf)
        bparams = [Param('k', 'range', krng), Param('j', 'range', jr)]
        P.add(TaskClass(Bn, bparams, bplace, bfl, prio=self.prio('k', 'j')))
        # consumers
        qhi = (cnt + 1) // 2 - 1
        cfl = [Flow('P1', 'READ', [Dep('in', TT(Bn, 'Y', k, jlo + (2 * q) * js))]),
               Flow('Q1', 'READ', ([Dep('in', TT(Bn, 'Y', k, jlo + (2 * q + 1) * js), guard=(2 * q + 1).lt(cnt)), Dep('in', MEM(cplace))]
                                   if (alt == 'mem' and not c_wb and r.random() < 0.8) else
                                   [Dep('in', TT(Bn, 'Y', k, jlo + (2 * q + 1) * js), guard=(2 * q + 1).lt(cnt),
                                        f=(MEM(cplace) if (alt == 'mem' and not c_wb) else NULLT))]))]
        if c_wb:
            cfl.append(Flow('R', 'WRITE', [Dep('out', MEM(cplace))]))
        P.add(TaskClass(Cn, [Param('k', 'range', krng), Param('q', 'range', Rng(0, self.maybe_inline(qhi, 0.2)))], cplace, cfl, prio=self.prio('q')))
        if use_g:
            # a gather over an EMPTY range leaves the instance without any input: written without a guard such an instance
            # is counted but never started by the generated code (known finding, probed at low weight); the usual form
            # guards the dependency so that the instance is a recognised startup task
            guard = None if 'empty-gather' in self.allow else jhi.ge(jlo)
            P.add(TaskClass(Gn, [Param('k', 'range', krng)], gb + k % 2,
                            [Flow('Z', 'CTL', [Dep('in', TT(Bn, 'Z', k, jr), guard=guard)])]))
        return Pn

    def reduce_utt(self):
        """reduction tree followed by a CTL-only END task that triggers the termination of a user-triggered taskpool (C12 on
        real MPI).  The triggering task must have nothing left to do (no data output), as in tests/.../utt.jdf."""
        r = self.r; P = self.P
        name = self.reduce()
        tc = P.cls(name)
        H = max(p[0] for p, e in tc.enumerate(dict(P.globals)))
        En = self.cname('END')
        kb = P.alloc_keys(1)
        l, i = V('l'), V('i')
        tc.flows.append(Flow('T', 'CTL', [Dep('out', TT(En, 'T', 0), guard=l.eq(H))]))
        end = TaskClass(En, [Param('z', 'range', Rng(0, 0))], kb, [Flow('T', 'CTL', [Dep('in', TT(name, 'T', H, 0))])])
        end.body_extra = '    this_task->taskpool->tdm.module->taskpool_set_nb_tasks(this_task->taskpool, 0);'
        P.add(end)
        P.options.append('%option termdet = "user-triggered"')
        return name

    def reduce(self, H=None):
        """binary reduction tree R(l, i), l = 0..H, i = 0..(N>>l)-1, N = 2^H"""
        r = self.r; P = self.P
        Rn = self.cname('R')
        H = H or r.randint(1, 4)
        N = 1 << H
        l, i = V('l'), V('i')
        base = P.alloc_keys(N)
        place = base + (i << l)          # leaves own their key; inner nodes sit on the key of their left-most leaf
        params = [Param('l', 'range', Rng(0, self.const(H))), Param('i', 'range', Rng(0, (self.const(N, False) >> l) - 1))]
        leaf_mem = r.random() < 0.5
        a_in = [Dep('in', MEM(place) if leaf_mem else NEW, guard=l.eq(0), f=TT(Rn, 'A', l - 1, 2 * i))]
        a_out = [Dep('out', TT(Rn, 'A', l + 1, i // 2), guard=l.lt(H).and_((i % 2).eq(0))),
                 Dep('out', TT(Rn, 'B', l + 1, i // 2), guard=l.lt(H).and_((i % 2).eq(1))),
                 Dep('out', MEM(place), guard=l.eq(H))]
        if leaf_mem:
            # in-place heads of keys that never get the final write-back would leave placement-dependent values:
            # every leaf key except key 0 is written back by its leaf... the leaf's version flows on, so instead only
            # leaf 0's chain (the left spine) is collection-headed
            a_in = [Dep('in', MEM(place), guard=l.eq(0).and_(i.eq(0))), Dep('in', NEW, guard=l.eq(0).and_(i.ne(0))),
                    Dep('in', TT(Rn, 'A', l - 1, 2 * i), guard=l.gt(0))]
        b_in = [Dep('in', TT(Rn, 'A', l - 1, 2 * i + 1), guard=l.gt(0), f=NULLT)]
        flows = [Flow('A', 'RW', a_in + a_out), Flow('B', 'READ', b_in)]
        P.add(TaskClass(Rn, params, place, flows, prio=self.prio('l', 'i')))
        return Rn

    def wave(self, R_=None, C_=None):
        """2D wavefront: row chains RW X plus a fresh WRITE flow handed to the row below (two data inputs, mask mode)"""
        r = self.r; P = self.P
        Wn = self.cname('W')
        R_ = R_ or r.randint(1, 5); C_ = C_ or r.randint(1, 6)
        i, j = V('i'), V('j')
        base = P.alloc_keys(R_)
        rob = P.alloc_keys(3)
        if r.random() < 0.5:
            place = base + i; head = MEM(place); wb = True
        else:
            place = base + (i + j) % R_; head = NEW; wb = False
        flows = [Flow('X', 'RW', [Dep('in', head, guard=j.eq(0), f=TT(Wn, 'X', i, j - 1)),
                                  Dep('out', TT(Wn, 'X', i, j + 1), guard=j.lt(C_ - 1))] +
                      ([Dep('out', MEM(place), guard=j.eq(C_ - 1))] if wb else [])),
                 Flow('N', 'READ', [Dep('in', TT(Wn, 'S', i - 1, j), guard=i.gt(0), f=NULLT)]),
                 Flow('S', 'WRITE', [Dep('out', TT(Wn, 'N', i + 1, j), guard=i.lt(R_ - 1))])]
        r.shuffle(flows)
        P.add(TaskClass(Wn, [Param('i', 'range', Rng(0, self.const(R_ - 1))), Param('j', 'range', Rng(0, self.const(C_ - 1)))], place, flows,
                        prio=self.prio('i', 'j')))
        return Wn

    def indep(self):
        """independent tasks over a sparse / triangular space defined through local indices, reading read-only keys"""
        r = self.r; P = self.P
        Tn = self.cname('T')
        a = r.randint(1, 4); m = r.choice([2, 3]); c = r.randint(0, 2)
        st = r.choice([1, 2, 3])
        o, i, t = V('o'), V('i'), V('t')
        base = P.alloc_keys(4)
        use_lidx = 'lidx-param' in self.allow or r.random() < 0.5
        feats = set()
        if use_lidx:
            p0 = Param('o', 'lidx', Rng(0, self.const(a)), expr=self.maybe_inline(m * t + c, 0.3), tvar='t'); feats.add('lidx-param')
        else:
            p0 = Param('o', 'range', Rng(c, self.const(c + m * a), m))
        p1 = Param('i', 'range', Rng(0, o, None if st == 1 else st))
        place = base + i % 4
        P.add(TaskClass(Tn, [p0, p1], place, [Flow('W', 'READ', [Dep('in', MEM(place))])], prio=self.prio('o', 'i'), features=feats))
        return Tn

    def bcast(self, NP=None, nout=None):
        """producers P(k) with 1..3 WRITE flows, each fanned out to its own consumer class C_i(k, 0..n_i-1); the placement of
        every producer and consumer has its OWN collection key so that a test-owned table realises any destination sets.
        Records P.bcast = dict(producer keys, consumer keys) for the table builder."""
        r = self.r; P = self.P
        Pn = self.cname('P')
        NP = NP or r.randint(2, 6); nout = nout or r.randint(1, 3)
        k, j = V('k'), V('j')
        pb = P.alloc_keys(NP)
        flows = []; cons = []
        for i in range(nout):
            Cn = self.cname('C'); n = r.randint(1, 5)
            cb = P.alloc_keys(NP * n)
            flows.append(Flow('V%d' % i, 'WRITE', [Dep('out', TT(Cn, 'X', k, Rng(0, self.const(n - 1))))]))
            cons.append((Cn, n, cb))
        P.add(TaskClass(Pn, [Param('k', 'range', Rng(0, self.const(NP - 1)))], pb + k, flows, prio=self.prio('k')))
        for i, (Cn, n, cb) in enumerate(cons):
            P.add(TaskClass(Cn, [Param('k', 'range', Rng(0, self.const(NP - 1))), Param('j', 'range', Rng(0, self.const(n - 1)))], cb + k * n + j,
                            [Flow('X', 'READ', [Dep('in', TT(Pn, 'V%d' % i, k))])], prio=self.prio('k', 'j')))
        P.bcast = getattr(P, 'bcast', []) + [dict(producer=Pn, NP=NP, pkeys=pb, consumers=[dict(cls=c, n=n, base=b) for (c, n, b) in cons])]
        return Pn

    def empty(self):
        """a class with an empty execution space (zero tasks)"""
        P = self.P
        En = self.cname('E')
        base = P.alloc_keys(1)
        P.add(TaskClass(En, [Param('k', 'range', Rng(0, self.const(-1)))], base, [Flow('X', 'READ', [Dep('in', MEM(base))])]))
        return En

    def gather(self):
        """counter-mode control gather: many producers -> one collector over a 2D range, then a fan-out of CTL"""
        r = self.r; P = self.P
        Sn, Hn, Un = self.cname('S'), self.cname('H'), self.cname('U')
        N = r.randint(1, 9); M = r.randint(1, 5)
        a, b = V('a'), V('b')
        base = P.alloc_keys(6)
        P.add(TaskClass(Sn, [Param('a', 'range', Rng(0, self.const(N - 1))), Param('b', 'range', Rng(0, self.const(M - 1)))], base + (a + b) % 3,
                        [Flow('Z', 'CTL', [Dep('out', TT(Hn, 'Z', 0))])], prio=self.prio('a', 'b')))
        P.add(TaskClass(Hn, [Param('z', 'range', Rng(0, 0))], base + 3,
                        [Flow('Z', 'CTL', [Dep('in', TT(Sn, 'Z', Rng(0, self.const(N - 1)), Rng(0, self.const(M - 1))))]),
                         Flow('Y', 'CTL', [Dep('out', TT(Un, 'Y', Rng(0, self.const(M))))])]))
        P.add(TaskClass(Un, [Param('u', 'range', Rng(0, self.const(M)))], base + 4 + V('u') % 2,
                        [Flow('Y', 'CTL', [Dep('in', TT(Hn, 'Y', 0))])]))
        return Hn


PROFILES = {
    # name: (motif weights, count range)
    'mixed': (dict(chain=3, fanout=3, reduce=2, wave=2, indep=1, gather=1), (1, 3)),
    'enum':  (dict(chain=3, fanout=3, reduce=1, wave=1, indep=3, gather=2), (1, 3)),
    'route': (dict(chain=2, fanout=4, reduce=3, wave=3, indep=0, gather=1), (1, 3)),
    'small': (dict(chain=2, fanout=2, reduce=1, wave=1, indep=1, gather=1), (1, 2)),
    'bcast': (dict(bcast=1), (1, 2)),
    'utt':   (dict(reduce_utt=1), (1, 1)),
    'tiny':  (dict(chain=3, fanout=1, reduce=1, wave=1, indep=1, gather=1, empty=1), (1, 1)),
}


def generate(seed, profile='mixed', name='prog', nk=256, allow=(), tries=40, min_tasks=8, max_tasks=4000, key_base=0):
    """-> (Program, Ref, discarded) ; raises ModelError if nothing valid after `tries`"""
    weights, (lo, hi) = PROFILES[profile]
    disc = []
    for t in range(tries):
        g = Gen(seed * 1000 + t, profile, name, nk, set(allow))
        g.P.next_key = key_base
        r = g.r
        try:
            nm = r.randint(lo, hi)
            ms = [m for m, w in weights.items() for _ in range(w)]
            chosen = [r.choice(ms) for _ in range(nm)]
            if 'neg-step' in g.allow:
                chosen = ['chain'] + chosen[:1]
            if 'lidx-param' in g.allow:
                chosen = ['indep'] + chosen[:1]
            if 'empty-gather' in g.allow:
                chosen = ['fanout']
            for mi, m in enumerate(chosen):
                if m == 'chain' and 'neg-step' in g.allow and mi == 0:
                    g.chain(step=r.choice([-1, -2]))
                else:
                    getattr(g, m)()
            g.P.motifs = chosen
            ref = Ref(g.P)
            if ref.vacuous:
                if 'empty-gather' not in g.allow: raise ModelError('gather over an empty range without guard')
                g.P.features.add('empty-gather')
            elif 'empty-gather' in g.allow: raise ModelError('probe wanted an empty gather')
            if not (min_tasks <= len(ref.inst) <= max_tasks):
                raise ModelError('size %d out of bounds' % len(ref.inst))
            return g.P, ref, disc
        except ModelError as e:
            disc.append(str(e))
    raise ModelError('no valid program after %d tries: %s' % (tries, disc[-3:]))


def generate_multi(seed, n, profile='tiny', prefix='m', keys_per_prog=128, **kw):
    """n programs with disjoint key ranges of one collection of n*keys_per_prog keys -> (progs, refs, discarded)"""
    progs = []; refs = []; disc = []
    nk = n * keys_per_prog
    for i in range(n):
        P, ref, d = generate(seed * 64 + i, profile, name='%s_%d' % (prefix, i), nk=nk, key_base=i * keys_per_prog, min_tasks=0, max_tasks=600, **kw)
        if P.next_key > (i + 1) * keys_per_prog: raise ModelError('program overflows its key range')
        progs.append(P); refs.append(ref); disc += d
    return progs, refs, disc
