/* E1 run-time: generic main() for generated PTG programs + logging.  The generated JDF provides
 *   int vf_prog_count(void);  parsec_taskpool_t *vf_prog_new(int i, parsec_data_collection_t *D);
 *   void vf_prog_free(int i, parsec_taskpool_t *tp);
 */
#define _GNU_SOURCE
#include "e1_rt.h"
#include "parsec/utils/mca_param.h"
#include "parsec/remote_dep.h"
#include <mpi.h>
#include <stdio.h>
#include <stdlib.h>
#include <string.h>
#include <stdarg.h>
#include <pthread.h>
#include <unistd.h>

extern int vf_prog_count(void);
extern parsec_taskpool_t *vf_prog_new(int i, parsec_data_collection_t *D);
extern void vf_prog_free(int i, parsec_taskpool_t *tp);

int vf_ts = 1, vf_nk = 64, vf_world = 1, vf_rank = 0;
int vf_mb = 0;
parsec_datatype_t vf_tile_dtt;
volatile uint64_t vf_e1_stamp_ctr = 0;

static int64_t *store;
static parsec_data_t **dts;
static int *owner;
static uint64_t opt_seed = 1;
static int again_permille = 0, again_max = 1, sleep_permille = 0, sleep_us = 200;
static const char *outdir = ".";

/* ---------- per-thread record buffers ---------- */
#define NBUF 1088   /* 16 virtual processes x 64 streams + 64 spare; th_id is only unique inside a virtual process */
#define CHUNK 2048
typedef struct chunk_s { struct chunk_s *next; int n; vf_rec_t r[CHUNK]; } chunk_t;
static chunk_t *bufs[NBUF];
static pthread_mutex_t fallback = PTHREAD_MUTEX_INITIALIZER;
static volatile uint64_t nrecs = 0;

static vf_rec_t *rec_alloc(int th) {
    int slot = (th >= 0 && th < NBUF - 1) ? th : NBUF - 1;
    if (slot == NBUF - 1) pthread_mutex_lock(&fallback);
    chunk_t *c = bufs[slot];
    if (!c || c->n == CHUNK) { chunk_t *n = (chunk_t *)calloc(1, sizeof(chunk_t)); n->next = c; bufs[slot] = c = n; }
    vf_rec_t *r = &c->r[c->n++];
    if (slot == NBUF - 1) pthread_mutex_unlock(&fallback);
    __atomic_add_fetch(&nrecs, 1, __ATOMIC_RELAXED);
    return r;
}

/* ---------- instance table (invocation counts) ---------- */
#define ITAB (1u << 20)
static struct { volatile uint64_t key; volatile int32_t cnt; } *itab;
static int32_t inst_bump(uint64_t h) {
    if (!h) h = 1;
    uint32_t i = (uint32_t)(h * 0x9E3779B97F4A7C15ULL >> 44) & (ITAB - 1);
    for (;;) {
        uint64_t k = itab[i].key;
        if (k == h) break;
        if (k == 0) { if (__sync_bool_compare_and_swap(&itab[i].key, 0, h)) break; if (itab[i].key == h) break; }
        i = (i + 1) & (ITAB - 1);
    }
    return __sync_fetch_and_add(&itab[i].cnt, 1);
}

static inline uint64_t inst_hash(int tp, int cls, int np, const int *p) {
    int64_t h = vf_e1_mix(1000003 + tp, cls);
    for (int i = 0; i < np; i++) h = vf_e1_mix(h, p[i]);
    return (uint64_t)h;
}

vf_rec_t *vf_e1_enter(parsec_execution_stream_t *es, parsec_task_t *task, int tp, int cls, int np, int p0, int p1, int p2, int p3) {
    vf_rec_t *r = rec_alloc(es ? ((es->virtual_process ? es->virtual_process->vp_id : 0) * 64 + es->th_id) : -1);
    memset(r, 0, sizeof(*r));
    r->enter = vf_e1_stamp();
    r->tp = tp; r->cls = cls; r->p[0] = p0; r->p[1] = p1; r->p[2] = p2; r->p[3] = p3;
    r->rank = vf_rank; r->thread = es ? ((es->virtual_process ? es->virtual_process->vp_id : 0) * 64 + es->th_id) : -1;
    r->prio = task->priority;
    uint64_t h = inst_hash(tp, cls, np, r->p);
    r->invocation = inst_bump(h);
    if (task->task_class->make_key) {
        r->key = (uint64_t)task->task_class->make_key(task->taskpool, task->locals);
        if (task->task_class->key_functions && task->task_class->key_functions->key_print)
            task->task_class->key_functions->key_print(r->keytxt, sizeof(r->keytxt), (parsec_key_t)r->key, task->taskpool);
    }
    if (again_permille > 0) {
        uint64_t d = (uint64_t)vf_e1_mix((int64_t)h, (int64_t)opt_seed * 7919 + 13);
        int want = ((int)(d % 1000) < again_permille) ? 1 + (int)((d >> 20) % (uint64_t)again_max) : 0;
        if (r->invocation < want) { r->ret = 1; r->exit = vf_e1_stamp(); return NULL; }
    }
    return r;
}

void vf_e1_maybe_sleep(vf_rec_t *r) {
    if (sleep_permille <= 0) return;
    uint64_t d = (uint64_t)vf_e1_mix((int64_t)inst_hash(r->tp, r->cls, VF_MAXP, r->p), (int64_t)opt_seed * 104729 + 7);
    if ((int)(d % 1000) < sleep_permille) usleep(20 + (d >> 24) % (uint64_t)sleep_us);
}

void vf_e1_exit(vf_rec_t *r) { r->exit = vf_e1_stamp(); }

int64_t vf_e1_read(const void *ptr, vf_rec_t *r, int flow) {
    if (!ptr) return -1;
    const int64_t *t = (const int64_t *)ptr; int64_t v = t[0];
    for (int i = 1; i < vf_ts; i++) if (t[i] != v + (int64_t)i * 0x9E37) { r->tile_bad |= 1 << flow; break; }
    return v;
}
void vf_e1_write(void *ptr, int64_t v) {
    int64_t *t = (int64_t *)ptr;
    for (int i = 0; i < vf_ts; i++) t[i] = v + (int64_t)i * 0x9E37;
}

/* ---------- region mode (typed dependencies, C18) ---------- */
typedef struct { int32_t tp, cls, p[VF_MAXP], flow, kind, inv; int64_t v[3]; int32_t ok[3], n[3]; uint64_t ptr, stamp; } vf_reg_t;
#define MAXREG (1 << 17)
static vf_reg_t *regs; static volatile int nreg = 0;
static void vf_parts(const int64_t *t, int64_t v[3], int32_t ok[3], int32_t n[3]) {
    for (int q = 0; q < 3; q++) { v[q] = 0; ok[q] = 1; n[q] = 0; }
    for (int c = 0; c < vf_mb; c++) for (int r = 0; r < vf_mb; r++) {
        int q = r > c ? 0 : (r == c ? 1 : 2); int64_t i = (int64_t)c * vf_mb + r; int64_t val = t[i] - i * 0x9E37;
        if (n[q] == 0) v[q] = val; else if (val != v[q]) ok[q] = 0;
        n[q]++;
    }
}
int64_t vf_e1_read_reg(const void *ptr, vf_rec_t *r, int flow, int kind) {
    if (!ptr) return -1;
    const int64_t *t = (const int64_t *)ptr;
    if (vf_mb > 0 && regs) {
        int i = __sync_fetch_and_add(&nreg, 1);
        if (i < MAXREG) {
            vf_reg_t *g = &regs[i];
            g->tp = r->tp; g->cls = r->cls; for (int k = 0; k < VF_MAXP; k++) g->p[k] = r->p[k];
            g->flow = flow; g->kind = kind; g->inv = r->invocation; g->ptr = (uint64_t)(uintptr_t)ptr;
            vf_parts(t, g->v, g->ok, g->n); g->stamp = vf_e1_stamp();
        }
    }
    return t[0];
}

/* ---------- marks (wait returns, completion callbacks) ---------- */
typedef struct { int kind, a, b; uint64_t stamp; } mark_t;
static mark_t marks[65536]; static volatile int nmarks = 0;
void vf_e1_mark(int kind, int a, int b) {
    int i = __sync_fetch_and_add(&nmarks, 1);
    if (i < 65536) { marks[i].kind = kind; marks[i].a = a; marks[i].b = b; marks[i].stamp = vf_e1_stamp(); }
}

/* ---------- activation events (hook pair in remote_dep_mpi.c) ---------- */
typedef struct { int32_t kind, peer, root, cid; uint32_t tpid; int32_t l[4]; uint64_t mask, stamp; char cls[24]; } vf_ev_t;
#define MAXEV (1 << 18)
static vf_ev_t *evs; static volatile int nev = 0;
#if defined(PARSEC_VERIF)
static void ev_cb(int kind, const void *ptr, int64_t a, int64_t b) {
    (void)b;
    if (kind != PARSEC_VERIF_EV_ACT_SEND && kind != PARSEC_VERIF_EV_ACT_RECV) return;
    const remote_dep_wire_activate_t *m = (const remote_dep_wire_activate_t *)ptr;
    int i = __sync_fetch_and_add(&nev, 1);
    if (i >= MAXEV) return;
    vf_ev_t *e = &evs[i];
    e->kind = kind; e->peer = (int)a; e->root = (int)m->root; e->cid = m->task_class_id; e->tpid = m->taskpool_id; e->mask = (uint64_t)m->output_mask;
    for (int k = 0; k < 4; k++) e->l[k] = m->locals[k].value;
    e->cls[0] = 0;
    parsec_taskpool_t *tp = parsec_taskpool_lookup(m->taskpool_id);
    if (tp && tp->task_classes_array && m->task_class_id < tp->nb_task_classes && tp->task_classes_array[m->task_class_id])
        snprintf(e->cls, sizeof e->cls, "%s", tp->task_classes_array[m->task_class_id]->name);
    e->stamp = vf_e1_stamp();
}
#endif

/* ---------- collection ---------- */
static uint32_t c_rank_of_key(parsec_data_collection_t *d, parsec_data_key_t key) { (void)d; return (uint32_t)owner[(int)key % vf_nk]; }
static uint32_t c_rank_of(parsec_data_collection_t *d, ...) { va_list ap; va_start(ap, d); int k = va_arg(ap, int); va_end(ap); return c_rank_of_key(d, (parsec_data_key_t)k); }
static int vf_nvp = 1;   /* virtual processes of the context (several with a multi-package hwloc topology + vpmap hwloc) */
static int32_t c_vpid_of_key(parsec_data_collection_t *d, parsec_data_key_t k) { (void)d; return (int32_t)(((int)k) % vf_nvp); }
static int32_t c_vpid_of(parsec_data_collection_t *d, ...) { va_list ap; va_start(ap, d); int k = va_arg(ap, int); va_end(ap); return c_vpid_of_key(d, (parsec_data_key_t)k); }
static parsec_data_key_t c_data_key(parsec_data_collection_t *d, ...) { va_list ap; va_start(ap, d); int k = va_arg(ap, int); va_end(ap); (void)d; return (parsec_data_key_t)k; }
static parsec_data_t *c_data_of_key(parsec_data_collection_t *d, parsec_data_key_t key) {
    int k = (int)key;
    if (k < 0 || k >= vf_nk) { fprintf(stderr, "e1_rt: data_of_key(%d) out of range\n", k); abort(); }
    return parsec_data_create(&dts[k], d, key, &store[(size_t)k * vf_ts], sizeof(int64_t) * vf_ts, PARSEC_DATA_FLAG_PARSEC_MANAGED);
}
static parsec_data_t *c_data_of(parsec_data_collection_t *d, ...) { va_list ap; va_start(ap, d); int k = va_arg(ap, int); va_end(ap); return c_data_of_key(d, (parsec_data_key_t)k); }

/* ---------- taskpools, completion callbacks, scenario ---------- */
static parsec_taskpool_t *tps[64], *compounds[64];
static int ncompounds = 0, cb_next[64], ninner = 0;
static parsec_taskpool_t *inner[256];
static parsec_context_t *g_ctx; static parsec_data_collection_t *g_D;
static int on_complete(parsec_taskpool_t *tp, void *data);
static void new_tp(int i, int with_cb) {
    tps[i] = vf_prog_new(i, g_D);
    if (with_cb) parsec_taskpool_set_complete_callback(tps[i], on_complete, (void *)(intptr_t)i);
}
static int on_complete(parsec_taskpool_t *tp, void *data) {
    int i = (int)(intptr_t)data; (void)tp;
    vf_e1_mark(2, i, 0);
    if (i >= 0 && i < 64 && cb_next[i]) { int j = cb_next[i] - 1; new_tp(j, 1); parsec_context_add_taskpool(g_ctx, tps[j]); }
    return 0;
}
static int nbare = 0;
static int new_bare(void) {   /* slots 32..63 of tps[] hold bare taskpools */
    int i = 32 + nbare++; if (i >= 64) { fprintf(stderr, "too many bare taskpools\n"); exit(3); }
    tps[i] = PARSEC_OBJ_NEW(parsec_taskpool_t);
    return i;
}
static int on_complete_compound(parsec_taskpool_t *tp, void *data) { (void)tp; vf_e1_mark(3, (int)(intptr_t)data, 0); return 0; }
static const char *scenario_script(const char *sc, int ntp) {
    static char buf[4096]; buf[0] = 0; char t[64];
    if (strchr(sc, ':') || strchr(sc, ';')) return sc;          /* already a script */
    if (!strcmp(sc, "together")) { for (int i = 0; i < ntp; i++) { snprintf(t, sizeof t, "add:%d;", i); strcat(buf, t); } strcat(buf, "start;wait"); }
    else if (!strcmp(sc, "startfirst")) { strcat(buf, "start;"); for (int i = 0; i < ntp; i++) { snprintf(t, sizeof t, "add:%d;", i); strcat(buf, t); } strcat(buf, "wait"); }
    else if (!strcmp(sc, "seq")) { for (int i = 0; i < ntp; i++) { snprintf(t, sizeof t, "add:%d;start;wait;", i); strcat(buf, t); } }
    else { fprintf(stderr, "unknown scenario %s\n", sc); exit(3); }
    return buf;
}

static void dump(void) {
    char fn[512]; snprintf(fn, sizeof fn, "%s/log.%d.bin", outdir, vf_rank);
    FILE *f = fopen(fn, "wb"); if (!f) { perror(fn); exit(3); }
    uint64_t hdr[4] = {0x5646453152454331ULL, sizeof(vf_rec_t), 0, 0};
    uint64_t n = 0; for (int i = 0; i < NBUF; i++) for (chunk_t *c = bufs[i]; c; c = c->next) n += c->n;
    hdr[2] = n; fwrite(hdr, sizeof hdr, 1, f);
    for (int i = 0; i < NBUF; i++) for (chunk_t *c = bufs[i]; c; c = c->next) fwrite(c->r, sizeof(vf_rec_t), c->n, f);
    fclose(f);
    snprintf(fn, sizeof fn, "%s/final.%d.txt", outdir, vf_rank);
    f = fopen(fn, "w");
    for (int k = 0; k < vf_nk; k++) if (owner[k] == vf_rank) {
        int64_t *t = &store[(size_t)k * vf_ts]; int bad = 0;
        for (int i = 1; i < vf_ts; i++) if (t[i] != t[0] + (int64_t)i * 0x9E37) bad = 1;
        fprintf(f, "F %d %lld %d\n", k, (long long)t[0], bad);
    }
    if (vf_mb > 0) {
        for (int k = 0; k < vf_nk; k++) if (owner[k] == vf_rank) {
            int64_t v[3]; int32_t ok[3], n[3]; vf_parts(&store[(size_t)k * vf_ts], v, ok, n);
            fprintf(f, "G %d %lld %d %lld %d %lld %d\n", k, (long long)v[0], n[0] ? ok[0] : -1, (long long)v[1], n[1] ? ok[1] : -1, (long long)v[2], n[2] ? ok[2] : -1);
        }
        int nr = nreg < MAXREG ? nreg : MAXREG;
        for (int i = 0; i < nr; i++) { vf_reg_t *g = &regs[i];
            fprintf(f, "R %d %d %d %d %d %d %d %d %d %lld %d %lld %d %lld %d %llx %llu\n", g->tp, g->cls, g->p[0], g->p[1], g->p[2], g->p[3], g->flow, g->kind, g->inv,
                    (long long)g->v[0], g->n[0] ? g->ok[0] : -1, (long long)g->v[1], g->n[1] ? g->ok[1] : -1, (long long)g->v[2], g->n[2] ? g->ok[2] : -1,
                    (unsigned long long)g->ptr, (unsigned long long)g->stamp); }
        if (nreg > MAXREG) fprintf(f, "ROVERFLOW %d\n", nreg);
    }
    int nm = nmarks < 65536 ? nmarks : 65536;
    for (int i = 0; i < nm; i++) fprintf(f, "M %d %d %d %llu\n", marks[i].kind, marks[i].a, marks[i].b, (unsigned long long)marks[i].stamp);
    int ne = nev < MAXEV ? nev : MAXEV;
    for (int i = 0; i < ne; i++) fprintf(f, "E %d %d %d %d %u %s %d %d %d %d %llu %llu\n", evs[i].kind, evs[i].peer, evs[i].root, evs[i].cid, evs[i].tpid,
                                         evs[i].cls[0] ? evs[i].cls : "?", evs[i].l[0], evs[i].l[1], evs[i].l[2], evs[i].l[3], (unsigned long long)evs[i].mask, (unsigned long long)evs[i].stamp);
    fprintf(f, "END %llu\n", (unsigned long long)n);
    fclose(f);
}

/* Heartbeat: "VFHB <rank> <phase> <records> [tick]".  phase 0: MPI/parsec initialisation, 1: context not started yet,
 * 2: context started (only here a constant line means "no progress"), 3: wait returned (dump / finalisation; ticks for a
 * bounded time).  The tick keeps the line changing while the process is legitimately busy outside the monitored region. */
static volatile int hb_stop = 0, vf_phase = 0;
static void *hb_main(void *a) {
    (void)a; int k = 0, t3 = 0;
    while (!hb_stop) {
        usleep(100000);
        if (++k % 10 == 0) {
            int ph = vf_phase;
            if (ph == 2 || (ph == 3 && ++t3 > 90)) fprintf(stderr, "VFHB %d %d %llu\n", vf_rank, ph, (unsigned long long)nrecs);
            else fprintf(stderr, "VFHB %d %d %llu %d\n", vf_rank, ph, (unsigned long long)nrecs, k);
            fflush(stderr);
        }
    }
    return NULL;
}

static const char *arg(int argc, char **argv, const char *name, const char *def) {
    for (int i = 1; i + 1 < argc; i++) { if (!strcmp(argv[i], "--")) break; if (!strcmp(argv[i], name)) return argv[i + 1]; }
    return def;
}

int main(int argc, char **argv) {
    int prov;
    { const char *er = getenv("OMPI_COMM_WORLD_RANK"); if (er) vf_rank = atoi(er); }
    pthread_t hb; pthread_create(&hb, NULL, hb_main, NULL);
    /* --mpimt 1 (C18): initialise MPI with MPI_THREAD_MULTIPLE, which makes parsec reshape in the computing threads */
    int want_mt = atoi(arg(argc, argv, "--mpimt", "0"));
    MPI_Init_thread(&argc, &argv, want_mt ? MPI_THREAD_MULTIPLE : MPI_THREAD_SERIALIZED, &prov);
    if (want_mt && prov < MPI_THREAD_MULTIPLE) { fprintf(stderr, "e1_rt: MPI_THREAD_MULTIPLE not provided\n"); return 3; }
    MPI_Comm_size(MPI_COMM_WORLD, &vf_world); MPI_Comm_rank(MPI_COMM_WORLD, &vf_rank);
    int cores = atoi(arg(argc, argv, "--cores", "2"));
    vf_nk = atoi(arg(argc, argv, "--nk", "64")); vf_ts = atoi(arg(argc, argv, "--ts", "1"));
    vf_mb = atoi(arg(argc, argv, "--mb", "0"));
    if (vf_mb > 0) { if (vf_ts != vf_mb * vf_mb) { fprintf(stderr, "e1_rt: --ts must be mb*mb in region mode\n"); return 3; } regs = calloc(MAXREG, sizeof(vf_reg_t)); }
    opt_seed = strtoull(arg(argc, argv, "--seed", "1"), NULL, 0);
    sscanf(arg(argc, argv, "--again", "0:1"), "%d:%d", &again_permille, &again_max); if (again_max < 1) again_max = 1;
    sscanf(arg(argc, argv, "--sleep", "0:200"), "%d:%d", &sleep_permille, &sleep_us); if (sleep_us < 1) sleep_us = 1;
    outdir = arg(argc, argv, "--out", ".");
    const char *scenario = arg(argc, argv, "--scenario", "together");
    const char *place = arg(argc, argv, "--place", NULL);
    owner = (int *)calloc(vf_nk, sizeof(int));
    if (place) {
        FILE *pf = fopen(place, "r"); if (!pf) { perror(place); return 3; }
        for (int k = 0; k < vf_nk; k++) { if (fscanf(pf, "%d", &owner[k]) != 1) { fprintf(stderr, "short placement file\n"); return 3; } if (owner[k] < 0 || owner[k] >= vf_world) { fprintf(stderr, "bad owner\n"); return 3; } }
        fclose(pf);
    } else for (int k = 0; k < vf_nk; k++) owner[k] = k % vf_world;
    store = (int64_t *)calloc((size_t)vf_nk * vf_ts, sizeof(int64_t));
    dts = (parsec_data_t **)calloc(vf_nk, sizeof(parsec_data_t *));
    itab = calloc(ITAB, sizeof(*itab));
    evs = calloc(MAXEV, sizeof(vf_ev_t));
#if defined(PARSEC_VERIF)
    if (atoi(arg(argc, argv, "--events", "0"))) parsec_verif_event_cb = ev_cb;
#endif
    for (int k = 0; k < vf_nk; k++) vf_e1_write(&store[(size_t)k * vf_ts], 5000 + k);

    int pargc = 0; char **pargv = NULL;
    for (int i = 1; i < argc; i++) if (!strcmp(argv[i], "--")) { pargc = argc - i; pargv = argv + i; break; }
    parsec_context_t *ctx = parsec_init(cores, &pargc, &pargv);
    if (!ctx) { fprintf(stderr, "parsec_init failed\n"); return 3; }
    vf_nvp = ctx->nb_vp > 0 ? ctx->nb_vp : 1;
    parsec_type_create_contiguous(vf_ts, parsec_datatype_int64_t, &vf_tile_dtt);

    parsec_data_collection_t D;
    parsec_data_collection_init(&D, vf_world, vf_rank);
    D.default_dtt = vf_tile_dtt;
    D.rank_of = c_rank_of; D.rank_of_key = c_rank_of_key; D.vpid_of = c_vpid_of; D.vpid_of_key = c_vpid_of_key;
    D.data_key = c_data_key; D.data_of = c_data_of; D.data_of_key = c_data_of_key;

    vf_phase = 1;
    int ntp = vf_prog_count();
    if (ntp > 32) ntp = 32;
    memset(tps, 0, sizeof tps);
    g_ctx = ctx; g_D = &D;
    /* scenario script: ops separated by ';' (see lib/e1suite.py SCENARIOS)
     *   add:i            create taskpool i, set its completion callback, add it to the context
     *   addc:i,j,k       compose taskpools i,j,k left-nested (callback on the compound only) and add
     *   addr:i,j,k       same, right-nested
     *   cbadd:i>j        arrange that the completion callback of taskpool i adds taskpool j
     *   start | wait | test (poll parsec_context_test, then wait) | tpwait:i | tptest:i */
    char *script = strdup(scenario_script(scenario, ntp));
    for (char *op = strtok(script, ";"); op; op = strtok(NULL, ";")) {
        if (!strncmp(op, "add:", 4)) { int i = atoi(op + 4); new_tp(i, 1); parsec_context_add_taskpool(ctx, tps[i]); }
        else if (!strncmp(op, "addc:", 5) || !strncmp(op, "addr:", 5)) {
            /* members: taskpool indices, or 'e' = a bare empty parsec_taskpool_t (no DSL, no task: it terminates inside
             * parsec_context_add_taskpool, i.e. synchronously inside the compound's callback) */
            int idx[64], n = 0; for (char *q = op + 5; *q && n < 64; ) { if (*q == 'e') { idx[n++] = new_bare(); q++; } else idx[n++] = (int)strtol(q, &q, 10); if (*q == ',') q++; }
            for (int k = 0; k < n; k++) if (idx[k] < 32) new_tp(idx[k], 0);
            parsec_taskpool_t *c = NULL;
            if (op[3] == 'c') { c = tps[idx[0]]; for (int k = 1; k < n; k++) c = parsec_compose(c, tps[idx[k]]); }
            else { c = tps[idx[n - 1]]; for (int k = n - 2; k >= 0; k--) { c = parsec_compose(tps[idx[k]], c); if (k > 0 && ninner < 256) inner[ninner++] = c; /* nested compounds are ours to free */ } }
            if (n > 1 && ncompounds < 64) { parsec_taskpool_set_complete_callback(c, on_complete_compound, (void *)(intptr_t)ncompounds); compounds[ncompounds++] = c; }
            else if (n == 1) parsec_taskpool_set_complete_callback(c, on_complete, (void *)(intptr_t)idx[0]);
            parsec_context_add_taskpool(ctx, c);
        }
        else if (!strncmp(op, "cbadd:", 6)) { int i, j; if (sscanf(op + 6, "%d>%d", &i, &j) == 2 && i >= 0 && i < 64) cb_next[i] = j + 1; }
        else if (!strcmp(op, "start")) { vf_phase = 2; vf_e1_mark(7, 0, 0); parsec_context_start(ctx); }
        else if (!strcmp(op, "wait")) { parsec_context_wait(ctx); vf_e1_mark(1, -1, 0); vf_phase = 1; }
        else if (!strcmp(op, "test")) { (void)parsec_context_test(ctx); }
        else if (!strncmp(op, "tpwait:", 7)) { int i = atoi(op + 7); parsec_taskpool_wait(tps[i]); vf_e1_mark(4, i, 0); }
        else if (!strncmp(op, "tptest:", 7)) { int i = atoi(op + 7); for (int k = 0; k < 200; k++) (void)parsec_taskpool_test(tps[i]); /* progress from the main thread; no verdict */ }
        else { fprintf(stderr, "unknown scenario op %s\n", op); return 3; }
    }
    free(script);
    vf_phase = 3;
    for (int i = 0; i < ntp && i < 32; i++) if (tps[i]) vf_prog_free(i, tps[i]);
    for (int i = 32; i < 64; i++) if (tps[i]) parsec_taskpool_free(tps[i]);
    for (int i = 0; i < ncompounds; i++) parsec_taskpool_free(compounds[i]);
    for (int i = 0; i < ninner; i++) parsec_taskpool_free(inner[i]);
    dump();
    /* --hblate 1 (C18): keep the heartbeat (phase 3, ticking for a bounded time) through parsec_fini / MPI_Finalize: on a loaded
     * machine the finalisation of a finished run can take longer than the driver's stall window */
    int hb_late = atoi(arg(argc, argv, "--hblate", "0"));
    if (!hb_late) { hb_stop = 1; pthread_join(hb, NULL); }
    for (int k = 0; k < vf_nk; k++) if (dts[k]) parsec_data_destroy(dts[k]);
    parsec_data_collection_destroy(&D);
    parsec_type_free(&vf_tile_dtt);
    parsec_fini(&ctx);
    MPI_Finalize();
    if (hb_late) { hb_stop = 1; pthread_join(hb, NULL); }
    printf("VF {\"type\":\"summary\",\"rank\":%d,\"records\":%llu,\"nb_vp\":%d}\n", vf_rank, (unsigned long long)nrecs, vf_nvp);
    return 0;
}
