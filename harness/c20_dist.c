/* C20: block-cyclic (and related) data distributions are consistent.
 * One process builds, for one parameter set, the view of EVERY rank (myrank = r, no MPI traffic) and checks:
 *   - every tile of the (sub)matrix has one owner in [0, P*Q), agreed by all views (rank_of, rank_of_key);
 *   - data keys are distinct per tile, the *_of_key entry points agree with the coordinate entry points, the exported
 *     key-to-coordinates function round-trips, and (where the data object belongs to this collection) the key stored in
 *     the data object is the tile's key;
 *   - on every rank the owned tiles fit the local slots (pigeonhole: owned <= nb_local_tiles), data_of returns distinct
 *     data objects that sit in the collection's data_map, are stable across calls, and whose byte ranges [ptr, ptr+span)
 *     are pairwise disjoint and inside the local allocation(s);
 *   - vpid_of / vpid_of_key are equal and in [0, nb_vp).
 * Families: bc (2D block cyclic, grid offsets ip/jq, k = 1), kcyc (kp,kq > 1), kview, sym (lower/upper, square),
 * symsub (sym with a diagonal sub-matrix offset), band, symband, tab (tabular: random table, explicit table, user table),
 * vec (vector: diag / row / col), vecsub (sub-vector offsets), sbc (symmetric block cyclic, r x r pattern).
 * Cases are generated from (seed, family, index): the driver can restart after index k when the code under test aborted. */
#include "parsec/parsec_config.h"
#include "parsec/runtime.h"
#include "parsec/data_internal.h"
#include "parsec/vpmap.h"
#include "parsec/data_dist/matrix/matrix.h"
#include "parsec/data_dist/matrix/two_dim_rectangle_cyclic.h"
#include "parsec/data_dist/matrix/sym_two_dim_rectangle_cyclic.h"
#include "parsec/data_dist/matrix/two_dim_rectangle_cyclic_band.h"
#include "parsec/data_dist/matrix/sym_two_dim_rectangle_cyclic_band.h"
#include "parsec/data_dist/matrix/two_dim_tabular.h"
#include "parsec/data_dist/matrix/vector_two_dim_cyclic.h"
#include "parsec/data_dist/matrix/sbc.h"
#include <mpi.h>
#include <setjmp.h>
#include <signal.h>
#include <sys/time.h>
#include "kit.h"

enum { F_BC, F_KCYC, F_KVIEW, F_SYM, F_SYMSUB, F_BAND, F_SYMBAND, F_TAB, F_VEC, F_VECSUB, F_SBC, F_N };
static const char *fname[] = {"bc", "kcyc", "kview", "sym", "symsub", "band", "symband", "tab", "vec", "vecsub", "sbc"};

#define MAXR 16
#define MAXALLOC 2
typedef struct { void *base; size_t bytes; } alloc_t;
typedef struct { parsec_data_t **map; int n; } slotmap_t;
typedef struct {
    parsec_data_collection_t *dc; parsec_tiled_matrix_t *tm;
    alloc_t al[MAXALLOC]; int nal;                 /* contiguous local allocations (none for tabular: per-tile) */
    slotmap_t sm[MAXALLOC]; int nsm;               /* data_map(s) the data objects must sit in */
    int nslots;                                    /* total local slots = sum of nb_local_tiles */
    parsec_matrix_tabular_t *tab;                  /* tabular: per-tile allocations live in the table */
} view_t;

typedef struct {
    int fam, sub;                                   /* sub: sym uplo / vector distrib / tabular mode */
    int P, Q, R, mb, nb, lm, ln, i, j, m, n, kp, kq, ip, jq, bs, mtype, es;
    int bP, bQ, bkp, bkq, bip, bjq;                 /* band sub-collection grid */
    int check_datakey;                              /* data->key must equal data_key(m,n) */
    unsigned tabseed;
    char desc[320];
} case_t;

static long n_cases, n_tiles, n_views, n_dataof, n_keychecks, n_nontrivial, n_multi_rank, n_sub, n_offgrid, n_kgt1, n_partial, n_empty_ranks;
static long fam_cases[F_N];
#define DSET (1u << 21)
static uint64_t dhash[DSET]; static long dn;
static void dset_add(uint64_t h) { if (!h) h = 1; size_t k = h & (DSET - 1); for (unsigned t = 0; t < DSET; t++, k = (k + 1) & (DSET - 1)) { if (dhash[k] == h) return; if (!dhash[k]) { dhash[k] = h; dn++; return; } } }
/* one witness line per violation key, the rest is counted */
static struct { char key[160]; long n; } vk[64]; static int nvk;

static const int mtypes[3] = {PARSEC_MATRIX_INTEGER, PARSEC_MATRIX_DOUBLE, PARSEC_MATRIX_COMPLEX_DOUBLE};

static void viol(const case_t *c, const char *oracle, const char *fmt, ...) {
    char key[160], buf[700]; va_list ap; va_start(ap, fmt); vsnprintf(buf, sizeof buf, fmt, ap); va_end(ap);
    if (c->fam == F_VEC || c->fam == F_VECSUB) {
        const char *subn = c->sub == PARSEC_VECTOR_DISTRIB_DIAG ? "diag" : (c->sub == PARSEC_VECTOR_DISTRIB_ROW ? "row" : "col");
        /* row / col vectors: every storage-side symptom (too few slots, shared slot, pointer outside, assertion in
         * data_of) is the same feature class: the local storage layout does not follow rank_of */
        if (c->sub != PARSEC_VECTOR_DISTRIB_DIAG && c->R > 1 && (!strncmp(oracle, "storage:", 8) || !strncmp(oracle, "assert:", 7) || !strcmp(oracle, "key:data-object-key-differs"))) {
            size_t l = strlen(buf); snprintf(buf + l, sizeof buf - l, " [oracle %s]", oracle);
            oracle = "storage-layout-does-not-follow-rank_of";
        }
        snprintf(key, sizeof key, "vec-%s:%s", subn, oracle);
    } else
    snprintf(key, sizeof key, "%s:%s", fname[c->fam], oracle);
    for (int k = 0; k < nvk; k++) if (!strcmp(vk[k].key, key)) { vk[k].n++; vf_nviolations++; return; }
    if (nvk < 64) { strcpy(vk[nvk].key, key); vk[nvk].n = 1; nvk++; }
    vf_violation(key, "%s | %s", buf, c->desc);
}

/* ------------------------------------------------------------------ assertion failures of the code under test
 * libparsec's assert() resolves __assert_fail to this definition (the executable comes first in symbol lookup): the
 * failure is recorded as a violation candidate keyed like the driver keys assertion aborts, the current case is
 * abandoned (its views leak) and the run continues with the next case.  Single-threaded direct calls only. */
static jmp_buf case_jmp; static volatile int case_armed; static const case_t *cur_case; static const char *cur_phase = "";
static long n_assert_abandoned;
void __assert_fail(const char *assertion, const char *file, unsigned int line, const char *function) {
    const char *b = strrchr(file, '/'); b = b ? b + 1 : file;
    fprintf(stderr, "%s:%u: %s: Assertion `%s' failed (recorded, case abandoned).\n", file, line, function, assertion); fflush(stderr);
    if (!case_armed || !cur_case) { fprintf(stderr, "assertion outside a case\n"); abort(); }
    char oracle[160]; snprintf(oracle, sizeof oracle, "assert:%s:%s", b, function);
    viol(cur_case, oracle, "assertion `%s' failed at %s:%u during %s", assertion, b, line, cur_phase);
    n_assert_abandoned++;
    case_armed = 0;
    longjmp(case_jmp, 1);
}

/* ------------------------------------------------------------------ work-bounded watchdog for one library call
 * ITIMER_VIRTUAL counts user CPU time consumed by this process, not wall-clock time: a constructor of a descriptor with
 * at most a few hundred tiles that has burnt WATCHDOG_CPU_S seconds of CPU is not going to return.  Independent of
 * machine load.  Used by the vector-diag probe (the recorded finding is a non-terminating loop in the constructor). */
#define WATCHDOG_CPU_S 20
static void on_cpu_budget(int sig) {
    (void)sig;
    static const char msg1[] = "VF {\"type\":\"violation\",\"key\":\"init-does-not-terminate\",\"text\":\"parsec_vector_two_dim_cyclic_init consumed the CPU budget of one call (20 s of user time) without returning | ";
    static const char msg2[] = "\"}\nVF {\"type\":\"summary\",\"probe\":\"ended by the CPU budget\"}\n";
    if (write(1, msg1, sizeof msg1 - 1) < 0) _exit(1);
    if (cur_case) { const char *d = cur_case->desc; size_t n = strlen(d); if (write(1, d, n) < 0) _exit(1); }
    if (write(1, msg2, sizeof msg2 - 1) < 0) _exit(1);
    _exit(1);
}
static void watchdog(int on) {
    struct itimerval it; memset(&it, 0, sizeof it); if (on) it.it_value.tv_sec = WATCHDOG_CPU_S;
    if (on) signal(SIGVTALRM, on_cpu_budget);
    setitimer(ITIMER_VIRTUAL, &it, NULL);
}

/* ------------------------------------------------------------------ case generation */
static void gen_grid(vf_rng_t *r, int *P, int *Q) {
    static const int grids[][2] = {{1,1},{1,2},{2,1},{2,2},{1,3},{3,1},{2,3},{3,2},{1,4},{4,1},{2,4},{4,2},{3,3},{1,5},{5,1},{3,4},{4,3},{2,5},{5,2},{1,7},{7,2},{2,7},{3,5},{5,3},{4,4},{2,8},{8,2},{1,16},{16,1},{2,6},{6,2}};
    int k = vf_randn(r, sizeof grids / sizeof grids[0]); *P = grids[k][0]; *Q = grids[k][1];
}
static void gen_case(case_t *c, int fam, uint64_t seed, long idx, int known_weight) {
    vf_rng_t r; vf_rng_seed(&r, seed * 1000003ULL + (uint64_t)fam * 7919, (uint64_t)idx);
    memset(c, 0, sizeof *c); c->fam = fam;
    gen_grid(&r, &c->P, &c->Q); c->R = c->P * c->Q;
    c->mb = 1 + vf_randn(&r, 7); c->nb = 1 + vf_randn(&r, 7);
    c->lm = 1 + vf_randn(&r, 40); c->ln = 1 + vf_randn(&r, 40);
    if (vf_chance(&r, 300)) { c->lm = c->mb * (1 + vf_randn(&r, 8)); c->ln = c->nb * (1 + vf_randn(&r, 8)); }   /* exact multiples */
    c->kp = c->kq = 1; c->ip = c->jq = 0; c->bs = 1;
    int k = vf_randn(&r, 3); c->mtype = mtypes[k]; c->es = k == 0 ? 4 : (k == 1 ? 8 : 16);
    int whole = vf_chance(&r, 400);
    c->check_datakey = 1;
    switch (fam) {
    case F_BC: c->ip = vf_randn(&r, c->P); c->jq = vf_randn(&r, c->Q); break;
    case F_KCYC: c->ip = vf_randn(&r, c->P); c->jq = vf_randn(&r, c->Q);
        c->kp = 1 + vf_randn(&r, 4); c->kq = 1 + vf_randn(&r, 4); if (c->kp == 1 && c->kq == 1) { if (vf_chance(&r, 500)) c->kp = 2; else c->kq = 3; } break;
    case F_KVIEW: c->ip = vf_randn(&r, c->P); c->jq = vf_randn(&r, c->Q); c->kp = 1 + vf_randn(&r, 4); c->kq = 1 + vf_randn(&r, 4); c->check_datakey = 0; break;
    case F_SYM: case F_SYMSUB: case F_SYMBAND:
        c->nb = c->mb; c->ln = c->lm; c->sub = vf_chance(&r, 500) ? PARSEC_MATRIX_LOWER : PARSEC_MATRIX_UPPER;
        if (fam == F_SYMBAND) c->sub = PARSEC_MATRIX_LOWER;
        whole = (fam != F_SYMSUB); break;
    case F_BAND: break;
    case F_SBC: {
        /* symmetric block cyclic: nodes = r(r-1)/2 (extended) or r*r/2 (basic, even r) */
        static const int nr[][2] = {{1,2},{2,2},{3,3},{6,4},{8,4},{10,5},{15,6}};
        int q = vf_randn(&r, 7); c->R = nr[q][0]; c->bs = nr[q][1]; c->P = c->R; c->Q = 1;
        c->nb = c->mb; c->ln = c->lm; c->sub = vf_chance(&r, 500) ? PARSEC_MATRIX_LOWER : PARSEC_MATRIX_UPPER;
        whole = vf_chance(&r, 600); break; }
    case F_TAB: c->sub = vf_randn(&r, 3); c->tabseed = (unsigned)vf_rand(&r) | 1; break;
    case F_VEC: case F_VECSUB: {
        c->nb = 1; c->ln = 1;
        int d = vf_randn(&r, 100);
        /* row/col and the hang-prone diag grids are recorded findings: down-weighted (never removed) when known_weight is set */
        if (known_weight) c->sub = d < 6 ? PARSEC_VECTOR_DISTRIB_ROW : (d < 12 ? PARSEC_VECTOR_DISTRIB_COL : PARSEC_VECTOR_DISTRIB_DIAG);
        else c->sub = d < 25 ? PARSEC_VECTOR_DISTRIB_ROW : (d < 50 ? PARSEC_VECTOR_DISTRIB_COL : PARSEC_VECTOR_DISTRIB_DIAG);
        if (c->sub == PARSEC_VECTOR_DISTRIB_DIAG && known_weight && c->P % c->Q != 0) {
            /* keep the diag distribution on grids where its start-up loop terminates (Q divides P); the driver runs
             * the other grids as separate single-case probes (recorded finding, stall) */
            if (c->P <= 4 && vf_chance(&r, 500)) c->Q = c->P; else { c->P = c->R; c->Q = 1; }
            c->R = c->P * c->Q;
        }
        c->check_datakey = 1;
        break; }
    }
    if (fam == F_BAND || fam == F_SYMBAND) {
        int lmt = (c->lm + c->mb - 1) / c->mb, lnt = (c->ln + c->nb - 1) / c->nb; int mx = lmt < lnt ? lmt : lnt;
        c->bs = 1 + vf_randn(&r, mx < 4 ? mx : 4);
        gen_grid(&r, &c->bP, &c->bQ);
        /* band and off-band share the set of nodes: pick a band grid with the same number of nodes */
        int tries = 0; while (c->bP * c->bQ != c->R && tries++ < 200) gen_grid(&r, &c->bP, &c->bQ);
        if (c->bP * c->bQ != c->R) { c->bP = 1; c->bQ = c->R; }
        c->bkp = c->bkq = 1; c->bip = vf_randn(&r, c->bP); c->bjq = vf_randn(&r, c->bQ);
        if (fam == F_BAND) { c->ip = vf_randn(&r, c->P); c->jq = vf_randn(&r, c->Q); if (vf_chance(&r, 300)) { c->kp = 1 + vf_randn(&r, 3); c->kq = 1 + vf_randn(&r, 3); } }
        c->check_datakey = 0; whole = (fam == F_SYMBAND) ? 1 : whole;
    }
    if (whole) { c->i = c->j = 0; c->m = c->lm; c->n = c->ln; }
    else {
        c->i = vf_randn(&r, c->lm); c->j = vf_randn(&r, c->ln); c->m = 1 + vf_randn(&r, c->lm - c->i); c->n = 1 + vf_randn(&r, c->ln - c->j);
        if (fam == F_SYMSUB || fam == F_SBC) { c->i = c->j = c->mb * vf_randn(&r, (c->lm + c->mb - 1) / c->mb); c->m = c->n = 1 + vf_randn(&r, c->lm - c->i); }
        if (fam == F_VEC || fam == F_VECSUB) { c->j = 0; c->n = 1; }
        if (fam == F_VEC) { c->i = vf_randn(&r, c->mb < c->lm ? c->mb : c->lm); c->m = 1 + vf_randn(&r, c->lm - c->i); }   /* sub-vector starting in the first segment */
    }
    snprintf(c->desc, sizeof c->desc, "family=%s sub=%d P=%d Q=%d mb=%d nb=%d lm=%d ln=%d i=%d j=%d m=%d n=%d kp=%d kq=%d ip=%d jq=%d band=%d bandgrid=%dx%d+%d+%d es=%d idx=%ld",
             fname[fam], c->sub, c->P, c->Q, c->mb, c->nb, c->lm, c->ln, c->i, c->j, c->m, c->n, c->kp, c->kq, c->ip, c->jq, c->bs, c->bP, c->bQ, c->bip, c->bjq, c->es, idx);
}

/* ------------------------------------------------------------------ building the views */
static void *xalloc(size_t bytes) { void *p = malloc(bytes ? bytes : 1); memset(p, 0, bytes ? bytes : 1); return p; }

typedef struct {
    parsec_matrix_block_cyclic_t bc, kv;
    parsec_matrix_sym_block_cyclic_t sym;
    parsec_matrix_block_cyclic_band_t band;
    parsec_matrix_sym_block_cyclic_band_t symband;
    parsec_matrix_tabular_t tab;
    parsec_vector_two_dim_cyclic_t vec;
    parsec_matrix_sbc_t sbc;
    parsec_two_dim_td_table_t *usertable; void **userdata; int nuser;
} store_t;
static store_t *st;

static void add_alloc(view_t *v, void **mat, parsec_tiled_matrix_t *tm, int es) {
    size_t bytes = (size_t)tm->nb_local_tiles * tm->bsiz * es;
    *mat = xalloc(bytes);
    v->al[v->nal].base = *mat; v->al[v->nal].bytes = bytes; v->nal++;
    v->sm[v->nsm].map = tm->data_map; v->sm[v->nsm].n = tm->nb_local_tiles; v->nsm++;
    v->nslots += tm->nb_local_tiles;
}

static void build_view(const case_t *c, int r, view_t *v, store_t *s) {
    memset(v, 0, sizeof *v);
    switch (c->fam) {
    case F_BC: case F_KCYC: case F_KVIEW:
        parsec_matrix_block_cyclic_init(&s->bc, c->mtype, PARSEC_MATRIX_TILE, r, c->mb, c->nb, c->lm, c->ln, c->i, c->j, c->m, c->n, c->P, c->Q,
                                        c->fam == F_KVIEW ? 1 : c->kp, c->fam == F_KVIEW ? 1 : c->kq, c->ip, c->jq);
        add_alloc(v, &s->bc.mat, &s->bc.super, c->es);
        if (c->fam == F_KVIEW) { parsec_matrix_block_cyclic_kview(&s->kv, &s->bc, c->kp, c->kq); v->dc = &s->kv.super.super; v->tm = &s->kv.super; }
        else { v->dc = &s->bc.super.super; v->tm = &s->bc.super; }
        break;
    case F_SYM: case F_SYMSUB:
        parsec_matrix_sym_block_cyclic_init(&s->sym, c->mtype, r, c->mb, c->nb, c->lm, c->ln, c->i, c->j, c->m, c->n, c->P, c->Q, c->sub);
        add_alloc(v, &s->sym.mat, &s->sym.super, c->es);
        v->dc = &s->sym.super.super; v->tm = &s->sym.super;
        break;
    case F_BAND:
        parsec_matrix_block_cyclic_init(&s->band.off_band, c->mtype, PARSEC_MATRIX_TILE, r, c->mb, c->nb, c->lm, c->ln, c->i, c->j, c->m, c->n, c->P, c->Q, c->kp, c->kq, c->ip, c->jq);
        parsec_matrix_block_cyclic_init(&s->band.band, c->mtype, PARSEC_MATRIX_TILE, r, c->mb, c->nb, c->mb * (2 * c->bs - 1), c->ln, 0, 0, c->mb * (2 * c->bs - 1), c->ln,
                                        c->bP, c->bQ, c->bkp, c->bkq, c->bip, c->bjq);
        parsec_matrix_block_cyclic_band_init(&s->band, c->R, r, c->bs);
        add_alloc(v, &s->band.off_band.mat, &s->band.off_band.super, c->es);
        add_alloc(v, &s->band.band.mat, &s->band.band.super, c->es);
        v->dc = &s->band.super.super; v->tm = &s->band.super;
        break;
    case F_SYMBAND:
        parsec_matrix_sym_block_cyclic_init(&s->symband.off_band, c->mtype, r, c->mb, c->nb, c->lm, c->ln, c->i, c->j, c->m, c->n, c->P, c->Q, c->sub);
        parsec_matrix_block_cyclic_init(&s->symband.band, c->mtype, PARSEC_MATRIX_TILE, r, c->mb, c->nb, c->mb * c->bs, c->ln, 0, 0, c->mb * c->bs, c->ln,
                                        c->bP, c->bQ, c->bkp, c->bkq, c->bip, c->bjq);
        parsec_matrix_sym_block_cyclic_band_init(&s->symband, c->R, r, c->bs);
        add_alloc(v, &s->symband.off_band.mat, &s->symband.off_band.super, c->es);
        add_alloc(v, &s->symband.band.mat, &s->symband.band.super, c->es);
        v->dc = &s->symband.super.super; v->tm = &s->symband.super;
        break;
    case F_TAB: {
        if (c->sub == 0) {
            parsec_matrix_tabular_init(&s->tab, c->mtype, c->R, r, c->mb, c->nb, c->lm, c->ln, c->i, c->j, c->m, c->n, NULL);
            parsec_matrix_tabular_set_random_table(&s->tab, c->tabseed);
        } else {
            int lmt = (c->lm + c->mb - 1) / c->mb, lnt = (c->ln + c->nb - 1) / c->nb, nt = lmt * lnt;
            parsec_two_dim_td_table_t *t = malloc(sizeof(*t) + (size_t)nt * sizeof(parsec_two_dim_td_table_elem_t));
            vf_rng_t tr; vf_rng_seed(&tr, c->tabseed, 99); t->nbelem = nt;
            int pos = 0; s->userdata = NULL; s->nuser = 0;
            if (c->sub == 2) s->userdata = calloc(nt, sizeof(void *));
            for (int k = 0; k < nt; k++) {
                t->elems[k].rank = vf_randn(&tr, c->R); t->elems[k].vpid = 0; t->elems[k].pos = -1; t->elems[k].data = NULL;
                if (c->sub == 2 && (int)t->elems[k].rank == r) { t->elems[k].pos = pos++; t->elems[k].data = s->userdata[s->nuser++] = xalloc((size_t)c->mb * c->nb * c->es); }
            }
            if (c->sub == 1) parsec_matrix_tabular_init(&s->tab, c->mtype, c->R, r, c->mb, c->nb, c->lm, c->ln, c->i, c->j, c->m, c->n, t);
            else { parsec_matrix_tabular_init(&s->tab, c->mtype, c->R, r, c->mb, c->nb, c->lm, c->ln, c->i, c->j, c->m, c->n, NULL); parsec_matrix_tabular_set_user_table(&s->tab, t); }
        }
        v->dc = &s->tab.super.super; v->tm = &s->tab.super; v->tab = &s->tab;
        v->sm[0].map = s->tab.super.data_map; v->sm[0].n = s->tab.super.nb_local_tiles; v->nsm = 1; v->nslots = s->tab.super.nb_local_tiles;
        break; }
    case F_SBC:
        if (PARSEC_SUCCESS != parsec_matrix_sbc_init(&s->sbc, c->mtype, r, c->mb, c->nb, c->lm, c->ln, c->i, c->j, c->m, c->n, c->R, c->bs, c->sub)) { fprintf(stderr, "generator: sbc init refused nodes=%d r=%d\n", c->R, c->bs); exit(2); }
        add_alloc(v, &s->sbc.mat, &s->sbc.super, c->es);
        v->dc = &s->sbc.super.super; v->tm = &s->sbc.super;
        break;
    case F_VEC: case F_VECSUB:
        parsec_vector_two_dim_cyclic_init(&s->vec, c->mtype, c->sub, r, c->mb, c->lm, c->i, c->m, c->P, c->Q);
        add_alloc(v, &s->vec.mat, &s->vec.super, c->es);
        v->dc = &s->vec.super.super; v->tm = &s->vec.super;
        break;
    }
}

static void destroy_view(const case_t *c, view_t *v, store_t *s) {
    for (int k = 0; k < v->nal; k++) free(v->al[k].base);
    switch (c->fam) {
    case F_BC: case F_KCYC: case F_KVIEW: parsec_tiled_matrix_destroy(&s->bc.super); break;   /* the kview shares map and datatype with its origin */
    case F_SYM: case F_SYMSUB: parsec_tiled_matrix_destroy(&s->sym.super); break;
    case F_BAND: parsec_tiled_matrix_destroy(&s->band.band.super); parsec_tiled_matrix_destroy(&s->band.off_band.super); parsec_tiled_matrix_destroy(&s->band.super); break;
    case F_SYMBAND: parsec_tiled_matrix_destroy(&s->symband.band.super); parsec_tiled_matrix_destroy(&s->symband.off_band.super); parsec_tiled_matrix_destroy(&s->symband.super); break;
    case F_TAB: parsec_matrix_tabular_destroy(&s->tab); if (c->sub == 2) { for (int k = 0; k < s->nuser; k++) free(s->userdata[k]); free(s->userdata); s->userdata = NULL; } break;
    case F_VEC: case F_VECSUB: parsec_tiled_matrix_destroy(&s->vec.super); break;
    case F_SBC: parsec_tiled_matrix_destroy(&s->sbc.super); break;
    }
}

/* ------------------------------------------------------------------ the oracle */
static int in_region(const case_t *c, int a, int b) {
    if (c->fam == F_SYM || c->fam == F_SYMSUB || c->fam == F_SYMBAND || c->fam == F_SBC) {
        int ga = a + c->i / c->mb, gb = b + c->j / c->nb;
        return c->sub == PARSEC_MATRIX_LOWER ? ga >= gb : gb >= ga;
    }
    return 1;
}
typedef struct { char *p; size_t span; int a, b; } range_t;
static int cmp_range(const void *x, const void *y) { const range_t *a = x, *b = y; return a->p < b->p ? -1 : (a->p > b->p ? 1 : 0); }
static int cmp_u64(const void *x, const void *y) { uint64_t a = *(const uint64_t *)x, b = *(const uint64_t *)y; return a < b ? -1 : (a > b ? 1 : 0); }

static void run_case(const case_t *c, int sample)
{
    static view_t V[MAXR];
    int R = c->R, nbvp = parsec_vpmap_get_nb_vp();
    cur_phase = "init";
    for (int r = 0; r < R; r++) { build_view(c, r, &V[r], &st[r]); n_views++; VF_TICK(); }
    cur_phase = "rank_of / data_key / rank_of_key";
    int mt = V[0].tm->mt, nt = V[0].tm->nt;
    for (int r = 1; r < R; r++) if (V[r].tm->mt != mt || V[r].tm->nt != nt) viol(c, "views:shape-differs", "rank %d sees %dx%d tiles, rank 0 %dx%d", r, V[r].tm->mt, V[r].tm->nt, mt, nt);
    int *owner = malloc(sizeof(int) * mt * nt); long *owned = calloc(R, sizeof(long));
    uint64_t *keys = malloc(sizeof(uint64_t) * mt * nt); long nk = 0, ntile = 0; int ownerset = 0;
    for (int a = 0; a < mt; a++) for (int b = 0; b < nt; b++) {
        owner[a * nt + b] = -1;
        if (!in_region(c, a, b)) continue;
        ntile++; n_tiles++; VF_TICK();
        int o = -2;
        for (int r = 0; r < R; r++) {
            parsec_data_collection_t *d = V[r].dc;
            int x = (int)d->rank_of(d, a, b);
            if (r == 0) o = x; else if (x != o) { viol(c, "owner:views-disagree", "tile (%d,%d): rank 0 says owner %d, rank %d says %d", a, b, o, r, x); }
            if (r == 0 || r == R - 1) {
                parsec_data_key_t k = d->data_key(d, a, b);
                if (r == 0) keys[nk++] = (uint64_t)k;
                if (d->rank_of_key) { int y = (int)d->rank_of_key(d, k); n_keychecks++; if (y != x) viol(c, "key:rank_of_key-differs", "tile (%d,%d) key %llu: rank_of %d, rank_of_key %d", a, b, (unsigned long long)k, x, y); }
                if (c->fam == F_BC || c->fam == F_KCYC || c->fam == F_KVIEW || c->fam == F_BAND || c->fam == F_SYMBAND) {
                    int ka = -1, kb = -1; parsec_matrix_block_cyclic_key2coords(d, k, &ka, &kb);
                    if (ka != a || kb != b) viol(c, "key:does-not-map-back", "tile (%d,%d) key %llu maps back to (%d,%d)", a, b, (unsigned long long)k, ka, kb);
                }
            }
        }
        if (o < 0 || o >= R) { viol(c, "owner:out-of-range", "tile (%d,%d) owner %d not in [0,%d)", a, b, o, R); continue; }
        owner[a * nt + b] = o; owned[o]++; if (!(ownerset >> o & 1)) ownerset |= 1 << o;
    }
    /* keys distinct */
    qsort(keys, nk, sizeof(uint64_t), cmp_u64);
    for (long k = 1; k < nk; k++) if (keys[k] == keys[k - 1]) { viol(c, "key:not-injective", "two tiles share data key %llu", (unsigned long long)keys[k]); break; }

    /* per-rank storage */
    cur_phase = "vpid_of / data_of / data_of_key on the owner's view";
    range_t *rg = malloc(sizeof(range_t) * (mt * nt + 1)); parsec_data_t **seen = malloc(sizeof(void *) * (mt * nt + 1));
    for (int r = 0; r < R; r++) {
        view_t *v = &V[r]; parsec_data_collection_t *d = v->dc;
        if (owned[r] == 0) { n_empty_ranks++; continue; }
        if (owned[r] > v->nslots) {
            viol(c, "storage:fewer-slots-than-owned-tiles", "rank %d owns %ld tiles of the sub-matrix but has nb_local_tiles=%d slots", r, owned[r], v->nslots);
            continue;    /* data_of would index past the map: not driven */
        }
        long nr = 0;
        for (int a = 0; a < mt; a++) for (int b = 0; b < nt; b++) {
            if (owner[a * nt + b] != r) continue;
            VF_TICK();
            int32_t vp = d->vpid_of(d, a, b);
            if (vp < 0 || vp >= nbvp) viol(c, "vpid:out-of-range", "rank %d tile (%d,%d) vpid %d not in [0,%d)", r, a, b, vp, nbvp);
            parsec_data_key_t k = d->data_key(d, a, b);
            if (d->vpid_of_key) { int32_t vk = d->vpid_of_key(d, k); if (vk != vp) viol(c, "key:vpid_of_key-differs", "rank %d tile (%d,%d): vpid_of %d vpid_of_key %d", r, a, b, vp, vk); }
            parsec_data_t *dt = d->data_of(d, a, b); n_dataof++;
            if (NULL == dt) { viol(c, "storage:data_of-null", "rank %d tile (%d,%d)", r, a, b); continue; }
            parsec_data_t *dt2 = d->data_of(d, a, b);
            if (dt2 != dt) viol(c, "storage:data_of-unstable", "rank %d tile (%d,%d): two calls returned different data objects", r, a, b);
            if (d->data_of_key) { parsec_data_t *dk = d->data_of_key(d, k); if (dk != dt) viol(c, "key:data_of_key-differs", "rank %d tile (%d,%d) key %llu: data_of_key returned another object", r, a, b, (unsigned long long)k); }
            if (c->check_datakey && dt->key != k) viol(c, "key:data-object-key-differs", "rank %d tile (%d,%d): data_key %llu but the data object carries key %llu", r, a, b, (unsigned long long)k, (unsigned long long)dt->key);
            int found = 0; for (int q = 0; q < v->nsm && !found; q++) for (int s = 0; s < v->sm[q].n; s++) if (v->sm[q].map[s] == dt) { found = 1; break; }
            if (!found) viol(c, "storage:data-not-in-local-map", "rank %d tile (%d,%d): data object is in none of the %d local slots", r, a, b, v->nslots);
            parsec_data_copy_t *cp = parsec_data_get_copy(dt, 0);
            char *p = cp ? (char *)parsec_data_copy_get_ptr(cp) : NULL;
            size_t want = (size_t)v->tm->bsiz * c->es;
            if (dt->span != want) viol(c, "storage:span", "rank %d tile (%d,%d): span %zu, tile is %zu bytes", r, a, b, dt->span, want);
            int inside = 0;
            if (v->tab) {   /* per-tile allocations recorded in the table */
                parsec_two_dim_td_table_elem_t *e = &v->tab->tiles_table->elems[k];
                inside = (p != NULL && p == (char *)e->data);
            } else for (int q = 0; q < v->nal; q++) if (p >= (char *)v->al[q].base && p + dt->span <= (char *)v->al[q].base + v->al[q].bytes) inside = 1;
            if (!inside) { viol(c, "storage:outside-allocation", "rank %d tile (%d,%d): [ptr, ptr+%zu) is not inside the local allocation (nb_local_tiles=%d)", r, a, b, dt->span, v->nslots); continue; }
            seen[nr] = dt; rg[nr].p = p; rg[nr].span = dt->span; rg[nr].a = a; rg[nr].b = b; nr++;
            /* touch first and last byte: ASan sees any range that is not really ours */
            p[0] = (char)1; p[dt->span - 1] = (char)1;
        }
        qsort(rg, nr, sizeof(range_t), cmp_range);
        for (long q = 1; q < nr; q++) if (rg[q - 1].p + rg[q - 1].span > rg[q].p) {
            viol(c, "storage:tiles-overlap", "rank %d: tiles (%d,%d) and (%d,%d) overlap in memory", r, rg[q - 1].a, rg[q - 1].b, rg[q].a, rg[q].b); break; }
        qsort(seen, nr, sizeof(void *), cmp_u64);
        for (long q = 1; q < nr; q++) if (seen[q] == seen[q - 1]) { viol(c, "storage:slot-shared", "rank %d: two tiles map to the same data object / slot", r); break; }
    }
    cur_phase = "bookkeeping";
    int nown = __builtin_popcount(ownerset);
    int sub = !(c->i == 0 && c->j == 0 && c->m == c->lm && c->n == c->ln);
    int nontrivial = ntile >= 4 && nown >= 2;
    n_cases++; fam_cases[c->fam]++;
    if (nown >= 2) n_multi_rank++;
    if (sub) n_sub++;
    if (c->ip || c->jq) n_offgrid++;
    if (c->kp > 1 || c->kq > 1) n_kgt1++;
    if (c->lm % c->mb || c->ln % c->nb) n_partial++;
    if (nontrivial) { n_nontrivial++; uint64_t h = 0x51ed; for (const char *s = c->desc; *s && strncmp(s, " idx=", 5); s++) h = vf_mix(h, (uint64_t)*s); dset_add(h); }
    if (sample) {
        char own[400]; int o = 0; own[0] = 0;
        for (int a = 0; a < mt && a < 6; a++) { for (int b = 0; b < nt && b < 10 && o < 380; b++) o += snprintf(own + o, sizeof own - o, "%s%d", b ? " " : "", owner[a * nt + b]); if (o < 380) o += snprintf(own + o, sizeof own - o, "/"); }
        vf_out("{\"type\":\"sample\",\"case\":\"%s\",\"tiles\":%ld,\"owners\":%d,\"owner_map_head\":\"%s\",\"nb_local_tiles_rank0\":%d}", c->desc, ntile, nown, own, V[0].nslots);
    }
    for (int r = 0; r < R; r++) destroy_view(c, &V[r], &st[r]);
    free(owner); free(owned); free(keys); free(rg); free(seen);
}

int main(int argc, char **argv)
{
    vf_heartbeat_start();
    int prov; MPI_Init_thread(&argc, &argv, MPI_THREAD_SERIALIZED, &prov);
    VF_TICK();
    int pargc = 1; char *pargv0[] = {argv[0], NULL}; char **pargv = pargv0;
    parsec_context_t *ctx = parsec_init(1, &pargc, &pargv);
    if (NULL == ctx) { fprintf(stderr, "parsec_init failed\n"); return 2; }
    const char *fam = vf_arg(argc, argv, "--family", "bc");
    long cases = vf_arg_ll(argc, argv, "--cases", 100), start = vf_arg_ll(argc, argv, "--start", 0);
    uint64_t seed = (uint64_t)vf_arg_ll(argc, argv, "--seed", 1);
    int known_weight = !vf_has_flag(argc, argv, "--full-weights");
    int f = -1; for (int k = 0; k < F_N; k++) if (!strcmp(fam, fname[k])) f = k;
    if (f < 0) { fprintf(stderr, "unknown family %s\n", fam); return 2; }
    st = calloc(MAXR, sizeof(store_t));
    VF_TICK();
    case_t c;
    if (vf_has_flag(argc, argv, "--probe-vec-diag")) {
        /* single explicit case: vector diag on a P x Q grid (the driver uses it for the grids the generator down-weights) */
        fam = "vec";
        gen_case(&c, F_VEC, seed, 0, 1);
        c.sub = PARSEC_VECTOR_DISTRIB_DIAG; c.P = (int)vf_arg_ll(argc, argv, "--P", 1); c.Q = (int)vf_arg_ll(argc, argv, "--Q", 2); c.R = c.P * c.Q;
        snprintf(c.desc, sizeof c.desc, "family=vec sub=%d(diag) P=%d Q=%d mb=%d lm=%d i=%d m=%d probe", c.sub, c.P, c.Q, c.mb, c.lm, c.i, c.m);
        fprintf(stderr, "VFAT 0 %s\n", c.desc); fflush(stderr);
        cur_case = &c;
        watchdog(1);
        if (0 == setjmp(case_jmp)) { case_armed = 1; run_case(&c, 1); }
        case_armed = 0;
        watchdog(0);
    } else for (long k = start; k < cases; k++) {
        gen_case(&c, f, seed, k, known_weight);
        fprintf(stderr, "VFAT %ld %s\n", k, c.desc); fflush(stderr);
        cur_case = &c;
        if (0 == setjmp(case_jmp)) { case_armed = 1; run_case(&c, k < start + 1); }
        else { n_cases++; fam_cases[c.fam]++; }
        case_armed = 0;
    }
    vf_heartbeat_stop();
    for (int k = 0; k < nvk; k++) vf_out("{\"type\":\"violcount\",\"key\":\"%s\",\"n\":%ld}", vk[k].key, vk[k].n);
    vf_out("{\"type\":\"summary\",\"family\":\"%s\",\"cases\":%ld,\"nontrivial\":%ld,\"distinct_nontrivial\":%ld,\"views\":%ld,\"tiles\":%ld,\"data_of\":%ld,\"key_checks\":%ld,"
           "\"multi_rank\":%ld,\"submatrix\":%ld,\"grid_offset\":%ld,\"k_gt_1\":%ld,\"partial_last_tile\":%ld,\"ranks_owning_nothing\":%ld,\"cases_abandoned_on_assert\":%ld,\"nb_vp\":%d,\"violations\":%d}",
           fam, n_cases, n_nontrivial, dn, n_views, n_tiles, n_dataof, n_keychecks, n_multi_rank, n_sub, n_offgrid, n_kgt1, n_partial, n_empty_ranks, n_assert_abandoned, parsec_vpmap_get_nb_vp(), vf_nviolations);
    parsec_fini(&ctx);
    MPI_Finalize();
    return vf_nviolations ? 1 : 0;
}
