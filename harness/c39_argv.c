/* C39: argument-vector utilities (parsec/utils/argv.c) and command-line parsing (parsec/utils/cmd_line.c)
 * are consistent.  One process runs many seeded cases; every case is judged against a small reference
 * model written here from the header documentation (argv.h, cmd_line.h), never from the implementation.
 *   --mode split  : split / split_with_empty / join round trips and field lists
 *   --mode edit   : random edit sequences (append, prepend, append_unique, insert, insert_element, delete,
 *                   copy, join, join_range, len, count) mirrored on a shadow vector
 *   --mode parse  : random option tables + random command lines, results compared with a reference parser
 *   --mode all    : the three of them, cases/3 each
 * ASan/UBSan watch the string code (the harness is built in the asan flavour). */
#include "parsec/parsec_config.h"
#include "parsec/constants.h"
#include "parsec/utils/argv.h"
#include "parsec/utils/cmd_line.h"
#include "kit.h"

static vf_rng_t R;
static long n_cases, n_nontrivial, n_distinct;
static long cov_split, cov_split_empty, cov_longfield, cov_trailing, cov_edit_ops, cov_delete, cov_delete_overrun,
            cov_insert, cov_insert_mid, cov_parse_inst, cov_parse_params, cov_parse_tail, cov_parse_err, cov_parse_shorts,
            cov_parse_dashdash, cov_parse_reparse, cov_parse_unknown_tok, cov_parse_unknown_opt, cov_parse_short_params,
            cov_parse_dest, cov_joinrange;
static int samples_left = 3;
/* classes already recorded as findings on the unchanged tree: reported once per run, counted, never allowed to
 * use up the violation print budget */
static long known_trailing, known_overrun;

/* ---------------------------------------------------------------- distinct-case set */
static uint64_t *seen; static size_t seen_cap;
static void seen_init(size_t n) { seen_cap = 1; while (seen_cap < n * 2 + 16) seen_cap <<= 1; seen = calloc(seen_cap, sizeof *seen); }
static int seen_add(uint64_t h) {
    if (!h) h = 1;
    size_t i = (size_t)(h & (seen_cap - 1));
    while (seen[i]) { if (seen[i] == h) return 0; i = (i + 1) & (seen_cap - 1); }
    seen[i] = h; return 1;
}
static uint64_t hstr(uint64_t h, const char *s) { if (!s) return vf_mix(h, 0xdead); for (; *s; s++) h = vf_mix(h, (unsigned char)*s); return vf_mix(h, 0x1f); }

static void esc(char *dst, size_t n, const char *s) {
    size_t k = 0;
    if (!s) { snprintf(dst, n, "(null)"); return; }
    for (; *s && k + 5 < n; s++) {
        unsigned char c = (unsigned char)*s;
        if (c == '"' || c == '\\' || c < 32 || c > 126) k += snprintf(dst + k, n - k, "<%02x>", c);
        else dst[k++] = (char)c;
    }
    dst[k] = 0;
}

/* ---------------------------------------------------------------- shadow vector */
#define VMAX 256
typedef struct { int n; char *v[VMAX]; } vec_t;
static void vec_clear(vec_t *a) { for (int i = 0; i < a->n; i++) free(a->v[i]); a->n = 0; }
static void vec_ins(vec_t *a, int pos, const char *s) {
    if (a->n >= VMAX) return;
    for (int i = a->n; i > pos; i--) a->v[i] = a->v[i - 1];
    a->v[pos] = strdup(s); a->n++;
}
static void vec_del(vec_t *a, int pos) { free(a->v[pos]); for (int i = pos; i + 1 < a->n; i++) a->v[i] = a->v[i + 1]; a->n--; }
static char *vec_join(vec_t *a, int from, int to, int d) {
    size_t len = 1; if (to > a->n) to = a->n;
    for (int i = from; i < to; i++) len += strlen(a->v[i]) + 1;
    char *s = malloc(len), *p = s;
    for (int i = from; i < to; i++) { size_t l = strlen(a->v[i]); memcpy(p, a->v[i], l); p += l; if (i + 1 < to) *p++ = (char)d; }
    *p = 0; return s;
}
/* compare a real NULL-terminated argv with the shadow; returns NULL when equal, else a static description */
static const char *vec_cmp(vec_t *a, char **argv) {
    static char buf[400]; char e1[120], e2[120];
    int c = 0;
    if (argv) while (argv[c]) c++;
    if (c != a->n) { snprintf(buf, sizeof buf, "count %d, model %d", c, a->n); return buf; }
    for (int i = 0; i < c; i++)
        if (strcmp(argv[i], a->v[i])) { esc(e1, sizeof e1, argv[i]); esc(e2, sizeof e2, a->v[i]); snprintf(buf, sizeof buf, "element %d is '%s', model '%s'", i, e1, e2); return buf; }
    return NULL;
}

/* ---------------------------------------------------------------- random material */
static const char delims[] = ",: ;/";
static char *rand_field(int maxlen, int d) {
    int len = vf_randn(&R, (uint32_t)maxlen + 1);
    if (vf_chance(&R, 25)) { static const int special[] = {126, 127, 128, 129, 130, 255, 256, 257, 300}; len = special[vf_randn(&R, 9)]; }
    char *s = malloc((size_t)len + 1);
    for (int i = 0; i < len; i++) { char c; do { c = "abcxyz019_-.=~"[vf_randn(&R, 14)]; } while (c == d); s[i] = c; }
    s[len] = 0; return s;
}
static char *rand_token(void) {
    static const char *pool[] = {"a", "b", "foo", "bar", "", "x y", "-q", "--", "1", "42", "a,b", "zz", "-", "long-token-with-dashes", "=", "k=v"};
    if (vf_chance(&R, 700)) return strdup(pool[vf_randn(&R, 16)]);
    return rand_field(12, 0);
}

/* ================================================================ split / join */
static void case_split(void) {
    int d = delims[vf_randn(&R, 5)];
    int with_empty = vf_chance(&R, 500);
    int nf = vf_randn(&R, 9);
    vec_t fields = {0};
    /* build the string from a field list: fields may be empty (consecutive / leading / trailing delimiters) */
    for (int i = 0; i < nf; i++) {
        char *f = vf_chance(&R, 300) ? strdup("") : rand_field(6, d);
        vec_ins(&fields, fields.n, f); free(f);
    }
    char *s = vec_join(&fields, 0, fields.n, d);
    size_t sl = strlen(s);
    int trailing = (sl > 0 && s[sl - 1] == d);
    /* known finding (trailing empty field dropped in with_empty mode) kept at low weight */
    if (with_empty && trailing && !vf_chance(&R, 30)) {
        free(fields.v[fields.n - 1]); fields.v[fields.n - 1] = strdup("t");
        free(s); s = vec_join(&fields, 0, fields.n, d); sl = strlen(s); trailing = 0;
    }
    /* python-like reference field list of s: nf fields (nf==0 -> the empty string, no field) */
    vec_t ref = {0};
    if (with_empty) { for (int i = 0; i < fields.n; i++) vec_ins(&ref, ref.n, fields.v[i]); if (fields.n == 1 && !fields.v[0][0]) vec_clear(&ref); }
    else for (int i = 0; i < fields.n; i++) if (fields.v[i][0]) vec_ins(&ref, ref.n, fields.v[i]);

    char *orig = strdup(s);
    char **av = with_empty ? parsec_argv_split_with_empty(s, d) : parsec_argv_split(s, d);
    char es[200]; esc(es, sizeof es, s);
    if (strcmp(s, orig)) vf_violation("split:source-modified", "split changed its source string '%s'", es);
    const char *diff = vec_cmp(&ref, av);
    int maxf = 0; for (int i = 0; i < fields.n; i++) { int l = (int)strlen(fields.v[i]); if (l > maxf) maxf = l; }
    if (diff) {
        int only_trailing = 0;
        if (with_empty && trailing && ref.n > 0) { vec_t r2 = ref; r2.n--; only_trailing = (NULL == vec_cmp(&r2, av)); }
        if (only_trailing) { if (0 == known_trailing++) vf_violation("split_with_empty:trailing-delimiter:last-empty-field-dropped",
                                        "split_with_empty('%s','%c') returned %d fields, the string has %d (the empty field after the final delimiter is missing, so join() does not give the string back)", es, d, ref.n - 1, ref.n); }
        else vf_violation(with_empty ? "split_with_empty:fields-differ" : (maxf >= 126 ? "split:fields-differ:long-field" : "split:fields-differ"),
                          "%s('%s','%c'): %s", with_empty ? "split_with_empty" : "split", es, d, diff);
    }
    /* round trip */
    char *j = parsec_argv_join(av, d);
    char *expect = with_empty ? strdup(s) : vec_join(&ref, 0, ref.n, d);
    if (!j) vf_violation("join:null", "join returned NULL for the split of '%s'", es);
    else if (strcmp(j, expect) && !(diff)) {
        char ej[200]; esc(ej, sizeof ej, j);
        vf_violation(with_empty ? "split_with_empty:join-roundtrip" : "split:join-roundtrip", "join(split('%s','%c')) = '%s'", es, d, ej);
    }
    if (av && parsec_argv_count(av) != ref.n && !diff) vf_violation("count", "argv_count %d, model %d", parsec_argv_count(av), ref.n);
    uint64_t h = hstr(vf_mix(d, (uint64_t)with_empty), s);
    int nontriv = (nf >= 2);
    n_cases++; if (nontriv) { n_nontrivial++; if (seen_add(h)) n_distinct++; }
    if (with_empty) cov_split_empty++; else cov_split++;
    if (maxf >= 126) cov_longfield++;
    if (trailing) cov_trailing++;
    if (samples_left > 0 && nf >= 3 && maxf < 20) { samples_left--; vf_out("{\"type\":\"case\",\"mode\":\"split\",\"with_empty\":%d,\"delimiter\":\"%c\",\"string\":\"%s\",\"fields\":%d}", with_empty, d, es, ref.n); }
    free(j); free(expect); free(orig); free(s); parsec_argv_free(av); vec_clear(&fields); vec_clear(&ref);
    VF_TICK();
}

/* ================================================================ edit sequences */
static void case_edit(void) {
    vec_t m = {0}; char **av = NULL; int argc = 0; uint64_t h = 77; int changed = 0, nops = 3 + vf_randn(&R, 14);
    char trace[600]; size_t tl = 0; trace[0] = 0;
#define TR(...) do { if (tl + 60 < sizeof trace) tl += snprintf(trace + tl, sizeof trace - tl, __VA_ARGS__); } while (0)
#define CHECK(opname) do { const char *d_ = vec_cmp(&m, av); if (d_) { vf_violation("argv_" opname ":contents", "after [%s]: %s", trace, d_); goto out; } } while (0)
    int n0 = vf_randn(&R, 6);
    for (int i = 0; i < n0; i++) {
        char *t = rand_token(); int rc = parsec_argv_append(&argc, &av, t); vec_ins(&m, m.n, t); free(t);
        if (rc != PARSEC_SUCCESS || argc != m.n) { vf_violation("argv_append:argc", "append returned %d, argc %d, model %d", rc, argc, m.n); goto out; }
    }
    TR("init %d;", n0); CHECK("append");
    for (int o = 0; o < nops && m.n < VMAX - 16; o++) {
        int op = vf_randn(&R, 12); h = vf_mix(h, (uint64_t)op);
        switch (op) {
        case 0: { char *t = rand_token(); h = hstr(h, t); TR("append;"); int rc = parsec_argv_append(&argc, &av, t); vec_ins(&m, m.n, t); free(t); changed++;
                  if (rc != PARSEC_SUCCESS || argc != m.n) { vf_violation("argv_append:argc", "after [%s]: rc %d argc %d model %d", trace, rc, argc, m.n); goto out; }
                  CHECK("append"); break; }
        case 1: { char *t = rand_token(); h = hstr(h, t); TR("append_nosize;"); parsec_argv_append_nosize(&av, t); vec_ins(&m, m.n, t); free(t); argc = m.n; changed++; CHECK("append_nosize"); break; }
        case 2: { char *t = rand_token(); h = hstr(h, t); TR("prepend;"); parsec_argv_prepend_nosize(&av, t); vec_ins(&m, 0, t); free(t); argc = m.n; changed++; CHECK("prepend_nosize"); break; }
        case 3: { int ow = vf_chance(&R, 500); char *t = (m.n && vf_chance(&R, 500)) ? strdup(m.v[vf_randn(&R, (uint32_t)m.n)]) : rand_token(); h = hstr(h, t);
                  TR("append_unique(%d);", ow); int present = 0; for (int i = 0; i < m.n; i++) if (!strcmp(m.v[i], t)) present = 1;
                  parsec_argv_append_unique_nosize(&av, t, ow); if (!present) { vec_ins(&m, m.n, t); changed++; } free(t); argc = m.n; CHECK("append_unique"); break; }
        case 4: case 5: { /* insert an argv at start */
                  if (!av) break;   /* NULL target is BAD_PARAM by contract */
                  int ns = vf_randn(&R, 4), start = (int)vf_randn(&R, (uint32_t)m.n + 3); char **src = NULL; h = vf_mix(h, (uint64_t)(start * 8 + ns));
                  for (int i = 0; i < ns; i++) { char *t = rand_token(); parsec_argv_append_nosize(&src, t); free(t); }
                  TR("insert(%d,%d);", start, ns); int rc = parsec_argv_insert(&av, start, src); int at = start > m.n ? m.n : start;
                  for (int i = 0; i < ns; i++) vec_ins(&m, at + i, src[i]);
                  if (ns) changed++; cov_insert++; if (at < m.n - ns && ns) cov_insert_mid++;
                  if (rc != PARSEC_SUCCESS) { vf_violation("argv_insert:rc", "after [%s]: rc %d", trace, rc); parsec_argv_free(src); goto out; }
                  /* the source must be left untouched */
                  if (parsec_argv_count(src) != ns) vf_violation("argv_insert:source-changed", "after [%s]", trace);
                  parsec_argv_free(src); argc = m.n; CHECK("insert"); break; }
        case 6: { if (!av) break; int loc = (int)vf_randn(&R, (uint32_t)m.n + 3); char *t = rand_token(); h = hstr(vf_mix(h, (uint64_t)loc), t);
                  TR("insert_element(%d);", loc); int rc = parsec_argv_insert_element(&av, loc, t); vec_ins(&m, loc > m.n ? m.n : loc, t); free(t); changed++; cov_insert++;
                  if (rc != PARSEC_SUCCESS) { vf_violation("argv_insert_element:rc", "after [%s]: rc %d", trace, rc); goto out; }
                  argc = m.n; CHECK("insert_element"); break; }
        case 7: case 8: { /* delete */
                  if (!av) break;
                  int start = (int)vf_randn(&R, (uint32_t)m.n + 2), num = (int)vf_randn(&R, 4);
                  /* running past the end (documented: deletes up to the end) has a known argc defect: low weight */
                  if (start + num > m.n && start <= m.n && !vf_chance(&R, 40)) { num = m.n - start; if (num < 0) num = 0; }
                  h = vf_mix(h, (uint64_t)(start * 8 + num)); TR("delete(%d,%d)/%d;", start, num, m.n);
                  int before = m.n; argc = m.n;
                  int rc = parsec_argv_delete(&argc, &av, start, num);
                  int overrun = (start <= before && start + num > before && num > 0);
                  if (start < before) for (int k = 0; k < num && start < m.n; k++) { vec_del(&m, start); changed++; }
                  cov_delete++; if (overrun) cov_delete_overrun++;
                  if (rc != PARSEC_SUCCESS) { vf_violation("argv_delete:rc", "after [%s]: rc %d", trace, rc); goto out; }
                  CHECK("delete");
                  if (argc != m.n) {
                      if (overrun) { if (0 == known_overrun++) vf_violation("argv_delete:overrun:argc-not-count", "delete(start=%d,num=%d) on %d elements left %d elements but set argc to %d", start, num, before, m.n, argc); }
                      else { vf_violation("argv_delete:argc", "after [%s]: argc %d, elements %d", trace, argc, m.n); goto out; }
                  }
                  argc = m.n; break; }
        case 9: { TR("copy;"); char **c = parsec_argv_copy(av); const char *d_ = vec_cmp(&m, c);
                  if (av && !c) vf_violation("argv_copy:null", "after [%s]", trace);
                  else if (d_) vf_violation("argv_copy:contents", "after [%s]: %s", trace, d_);
                  else if (c) for (int i = 0; i < m.n; i++) if (c[i] == av[i]) { vf_violation("argv_copy:aliased", "after [%s]: element %d shares storage", trace, i); break; }
                  parsec_argv_free(c); break; }
        case 10: { int d = delims[vf_randn(&R, 5)]; TR("join;"); char *j = parsec_argv_join(av, d), *e = vec_join(&m, 0, m.n, d);
                  if (!j || strcmp(j, e)) { char ej[160]; esc(ej, sizeof ej, j); vf_violation("argv_join:contents", "after [%s]: join gave '%s'", trace, ej); }
                  size_t l = parsec_argv_len(av), el = av ? sizeof(char *) : 0; for (int i = 0; i < m.n; i++) el += strlen(m.v[i]) + 1 + sizeof(char *);
                  if (l != el) vf_violation("argv_len", "after [%s]: len %zu, model %zu", trace, l, el);
                  if (parsec_argv_count(av) != m.n) vf_violation("argv_count", "after [%s]: count %d, model %d", trace, parsec_argv_count(av), m.n);
                  free(j); free(e); break; }
        case 11: { if (!av) break; int d = delims[vf_randn(&R, 5)]; int s = (int)vf_randn(&R, (uint32_t)m.n + 1), e_ = s + (int)vf_randn(&R, (uint32_t)(m.n - s) + 3); TR("join_range(%d,%d);", s, e_);
                  char *j = parsec_argv_join_range(av, (size_t)s, (size_t)e_, d), *e = vec_join(&m, s, e_, d); cov_joinrange++;
                  if (!j || strcmp(j, e)) { char ej[160], ee[160]; esc(ej, sizeof ej, j); esc(ee, sizeof ee, e); vf_violation("argv_join_range:contents", "after [%s]: gave '%s', model '%s'", trace, ej, ee); }
                  free(j); free(e); break; }
        }
        cov_edit_ops++;
    }
    n_cases++;
    if (changed >= 3) { n_nontrivial++; if (seen_add(h)) n_distinct++; }
    if (samples_left > 0 && changed >= 4) { samples_left--; vf_out("{\"type\":\"case\",\"mode\":\"edit\",\"ops\":\"%s\",\"final_count\":%d}", trace, m.n); }
out:
    parsec_argv_free(av); vec_clear(&m);
    VF_TICK();
#undef TR
#undef CHECK
}

/* ================================================================ command-line parsing */
#define MAXOPT 7
#define MAXINST 24
typedef struct { char sn; const char *sd, *ln; int np; int typ; /* 0 none 1 string 2 int 3 bool */ char *sdest; int idest; bool bdest; } optdecl_t;
typedef struct { int opt; int np; char *p[3]; } inst_t;
static const char *sdpool[] = {"np", "xy", "am", "wd2", "host"};
static const char *lnpool[] = {"add", "foo", "bar-baz", "verbose", "n-procs", "with_underscore", "help"};

static void case_parse(void) {
    optdecl_t od[MAXOPT]; int nopt = 2 + (int)vf_randn(&R, MAXOPT - 1);
    int used_s[8] = {0}, used_sd[5] = {0}, used_ln[7] = {0};
    uint64_t h = 99;
    memset(od, 0, sizeof od);
    for (int i = 0; i < nopt; i++) {
        optdecl_t *o = &od[i];
        for (;;) {
            o->sn = 0; o->sd = NULL; o->ln = NULL;
            if (vf_chance(&R, 600)) { int k = (int)vf_randn(&R, 8); if (!used_s[k]) o->sn = (char)('a' + k); }
            if (vf_chance(&R, 250)) { int k = (int)vf_randn(&R, 5); if (!used_sd[k]) o->sd = sdpool[k]; }
            if (vf_chance(&R, 700)) { int k = (int)vf_randn(&R, 7); if (!used_ln[k]) o->ln = lnpool[k]; }
            if (o->sn || o->sd || o->ln) break;
        }
        if (o->sn) used_s[o->sn - 'a'] = 1;
        for (int k = 0; k < 5; k++) if (o->sd == sdpool[k]) used_sd[k] = 1;
        for (int k = 0; k < 7; k++) if (o->ln == lnpool[k]) used_ln[k] = 1;
        o->np = (int)vf_randn(&R, 4);
        o->typ = vf_chance(&R, 300) ? (o->np == 0 ? 3 : 1 + (int)vf_randn(&R, 2)) : 0;
        h = vf_mix(h, (uint64_t)(o->sn * 64 + o->np * 4 + o->typ)); h = hstr(h, o->sd); h = hstr(h, o->ln);
    }
    /* handle: half through a table (create), half through make_opt3; typed destinations only through the table */
    parsec_cmd_line_t *cmd = PARSEC_OBJ_NEW(parsec_cmd_line_t);
    int via_table = vf_chance(&R, 500);
    if (via_table) {
        parsec_cmd_line_init_t tab[MAXOPT + 1]; memset(tab, 0, sizeof tab);
        for (int i = 0; i < nopt; i++) {
            tab[i].ocl_cmd_short_name = od[i].sn; tab[i].ocl_cmd_single_dash_name = od[i].sd; tab[i].ocl_cmd_long_name = od[i].ln;
            tab[i].ocl_num_params = od[i].np; tab[i].ocl_description = (i & 1) ? "an option" : NULL;
            switch (od[i].typ) {
            case 1: tab[i].ocl_variable_dest = &od[i].sdest; tab[i].ocl_variable_type = PARSEC_CMD_LINE_TYPE_STRING; break;
            case 2: tab[i].ocl_variable_dest = &od[i].idest; tab[i].ocl_variable_type = PARSEC_CMD_LINE_TYPE_INT; break;
            case 3: tab[i].ocl_variable_dest = &od[i].bdest; tab[i].ocl_variable_type = PARSEC_CMD_LINE_TYPE_BOOL; break;
            }
        }
        /* cmd was constructed by OBJ_NEW; create() constructs again by contract ("expected to have been OBJ_NEW'ed"): use a fresh static-like handle */
        PARSEC_OBJ_RELEASE(cmd);
        cmd = (parsec_cmd_line_t *)malloc(sizeof *cmd);
        if (PARSEC_SUCCESS != parsec_cmd_line_create(cmd, tab)) { vf_violation("cmd_line_create:rc", "create failed on a valid table"); free(cmd); return; }
    } else {
        for (int i = 0; i < nopt; i++) {
            od[i].typ = 0;
            if (PARSEC_SUCCESS != parsec_cmd_line_make_opt3(cmd, od[i].sn, od[i].sd, od[i].ln, od[i].np, "desc")) { vf_violation("cmd_line_make_opt3:rc", "make_opt3 failed on a valid option"); PARSEC_OBJ_RELEASE(cmd); return; }
        }
    }
    int rounds = vf_chance(&R, 200) ? 2 : 1;
    for (int round = 0; round < rounds; round++) {
        /* ---- build a command line together with its expected reading */
        vec_t av = {0}, tail = {0}; inst_t ins[MAXINST]; int nins = 0; int expect_err = 0, used_shorts = 0, tail_checked = 1, had_dashdash = 0, incomplete_opt = -1;
        int ignore_unknown = vf_chance(&R, 500);
        vec_ins(&av, 0, "prog");
        int nitems = (int)vf_randn(&R, 7);
        for (int it = 0; it < nitems && nins < MAXINST - 8; it++) {
            if (vf_chance(&R, 150)) { /* a combined-shorts token made only of declared short names */
                int cand[MAXOPT], nc = 0; for (int i = 0; i < nopt; i++) if (od[i].sn) cand[nc++] = i;
                if (nc >= 2) {
                    char tok[8] = "-"; int k = 2 + (int)vf_randn(&R, 2); int pick[3];
                    for (int q = 0; q < k; q++) { pick[q] = cand[vf_randn(&R, (uint32_t)nc)]; tok[1 + q] = od[pick[q]].sn; } tok[1 + k] = 0;
                    /* the token must not itself be a declared single-dash / long name */
                    int clash = 0; for (int i = 0; i < nopt; i++) if ((od[i].sd && !strcmp(od[i].sd, tok + 1)) || (od[i].ln && !strcmp(od[i].ln, tok + 1))) clash = 1;
                    if (!clash) {
                        vec_ins(&av, av.n, tok); used_shorts = 1; cov_parse_shorts++;
                        for (int q = 0; q < k; q++) {
                            inst_t *x = &ins[nins++]; x->opt = pick[q]; x->np = od[pick[q]].np;
                            for (int p = 0; p < x->np; p++) { char num[16]; snprintf(num, sizeof num, "%u", vf_randn(&R, 1000)); x->p[p] = strdup(num); vec_ins(&av, av.n, num); cov_parse_short_params++; }
                        }
                        continue;
                    }
                }
            }
            int oi = (int)vf_randn(&R, (uint32_t)nopt); optdecl_t *o = &od[oi]; char tok[64];
            /* pick one of the option's names in its documented spelling; "-long" is documented as accepted too */
            int forms[4], nf = 0; if (o->sn) forms[nf++] = 0; if (o->sd) forms[nf++] = 1; if (o->ln) { forms[nf++] = 2; if (vf_chance(&R, 200)) forms[nf++] = 3; }
            switch (forms[vf_randn(&R, (uint32_t)nf)]) {
            case 0: snprintf(tok, sizeof tok, "-%c", o->sn); break;
            case 1: snprintf(tok, sizeof tok, "-%s", o->sd); break;
            case 2: snprintf(tok, sizeof tok, "--%s", o->ln); break;
            default: snprintf(tok, sizeof tok, "-%s", o->ln); break;
            }
            vec_ins(&av, av.n, tok);
            inst_t *x = &ins[nins++]; x->opt = oi; x->np = o->np;
            for (int p = 0; p < o->np; p++) {
                char *t;
                if (o->typ == 2 && p == 0) { char num[16]; snprintf(num, sizeof num, "%s%u", vf_chance(&R, 200) ? "-" : "", vf_randn(&R, 100000)); t = strdup(num); }
                else { t = rand_token(); if (strlen(t) > 40) { free(t); t = strdup("tok"); } }
                x->p[p] = t; vec_ins(&av, av.n, t);
            }
        }
        /* ---- how the line ends */
        int ending = (int)vf_randn(&R, 6);
        if (ending == 1) { vec_ins(&av, av.n, "--"); had_dashdash = 1; int k = (int)vf_randn(&R, 4); for (int q = 0; q < k; q++) { char *t = rand_token(); vec_ins(&av, av.n, t); vec_ins(&tail, tail.n, t); free(t); } cov_parse_dashdash++; }
        else if (ending == 2) { /* unrecognised plain token: everything from it on is the tail; error only when not ignoring */
            static const char *plain[] = {"prog2", "file.txt", "x", "a=b"}; const char *t0 = plain[vf_randn(&R, 4)];
            vec_ins(&av, av.n, t0); vec_ins(&tail, tail.n, t0); int k = (int)vf_randn(&R, 4);
            for (int q = 0; q < k; q++) { char *t = rand_token(); vec_ins(&av, av.n, t); vec_ins(&tail, tail.n, t); free(t); }
            if (!ignore_unknown) expect_err = 1; cov_parse_unknown_tok++; }
        else if (ending == 3) { /* unknown option: always an error, tail starts at it */
            static const char *unk[] = {"--nope", "--fo", "-Z", "-QW", "--", "-"}; const char *t0 = unk[vf_randn(&R, 4)];
            vec_ins(&av, av.n, t0); vec_ins(&tail, tail.n, t0); int k = (int)vf_randn(&R, 3);
            for (int q = 0; q < k; q++) { char *t = rand_token(); vec_ins(&av, av.n, t); vec_ins(&tail, tail.n, t); free(t); }
            expect_err = 1; cov_parse_unknown_opt++; }
        else if (ending == 4) { /* an option that runs out of parameters: always an error; the incomplete instance is not reported */
            int oi = -1; for (int i = 0; i < nopt; i++) if (od[i].np >= 1 && (od[i].ln || od[i].sn)) oi = i;
            if (oi >= 0) { char tok[64]; if (od[oi].ln) snprintf(tok, sizeof tok, "--%s", od[oi].ln); else snprintf(tok, sizeof tok, "-%c", od[oi].sn);
                vec_ins(&av, av.n, tok); int give = (int)vf_randn(&R, (uint32_t)od[oi].np);
                for (int q = 0; q < give; q++) vec_ins(&av, av.n, od[oi].typ == 2 ? "7" : "p");
                expect_err = 1; tail_checked = 0; incomplete_opt = oi; } }
        for (int i = 0; i < av.n; i++) h = hstr(h, av.v[i]);
        h = vf_mix(h, (uint64_t)ignore_unknown);

        /* ---- run the real parser on a private copy of the line */
        char **argv = calloc((size_t)av.n + 1, sizeof *argv); for (int i = 0; i < av.n; i++) argv[i] = strdup(av.v[i]);
        for (int i = 0; i < nopt; i++) { od[i].sdest = NULL; od[i].idest = -777; od[i].bdest = false; }
        char line[500]; { char *j = vec_join(&av, 0, av.n, ' '); esc(line, sizeof line, j); free(j); }
        /* the parser prints its diagnostics on stderr: keep them out of the heartbeat channel */
        fflush(stderr); int save = dup(2); int nul = open("/dev/null", 1); dup2(nul, 2); close(nul);
        int rc = parsec_cmd_line_parse(cmd, ignore_unknown, av.n, argv);
        fflush(stderr); dup2(save, 2); close(save);
        const char *d0 = vec_cmp(&av, argv);
        if (d0) vf_violation("cmd_line_parse:argv-modified", "'%s': caller's argv changed: %s", line, d0);
        if (expect_err && rc == PARSEC_SUCCESS) vf_violation("cmd_line_parse:error-not-reported", "'%s' (ignore_unknown=%d) returned success", line, ignore_unknown);
        if (!expect_err && rc != PARSEC_SUCCESS) vf_violation("cmd_line_parse:spurious-error", "'%s' (ignore_unknown=%d) returned %d", line, ignore_unknown, rc);
        /* every declared option, under each of its names: instances and parameters */
        for (int i = 0; i < nopt; i++) {
            int want = 0; for (int k = 0; k < nins; k++) if (ins[k].opt == i) want++;
            const char *names[3]; int nn = 0; char sname[2] = {od[i].sn, 0};
            if (od[i].sn) names[nn++] = sname; if (od[i].sd) names[nn++] = od[i].sd; if (od[i].ln) names[nn++] = od[i].ln;
            for (int q = 0; q < nn; q++) {
                int got = parsec_cmd_line_get_ninsts(cmd, names[q]);
                if (got != want) { vf_violation("cmd_line_parse:instance-count", "'%s': option '%s' reported %d times, given %d times", line, names[q], got, want); continue; }
                if (parsec_cmd_line_is_taken(cmd, names[q]) != (want > 0)) vf_violation("cmd_line_parse:is_taken", "'%s': option '%s'", line, names[q]);
                int k2 = 0;
                for (int k = 0; k < nins; k++) if (ins[k].opt == i) {
                    for (int p = 0; p < od[i].np; p++) {
                        char *g = parsec_cmd_line_get_param(cmd, names[q], k2, p);
                        if (!g || strcmp(g, ins[k].p[p])) { char eg[80], ee[80]; esc(eg, sizeof eg, g); esc(ee, sizeof ee, ins[k].p[p]);
                            vf_violation("cmd_line_parse:parameter", "'%s': option '%s' instance %d parameter %d is '%s', given '%s'", line, names[q], k2, p, eg, ee); }
                        cov_parse_params++;
                    }
                    if (NULL != parsec_cmd_line_get_param(cmd, names[q], k2, od[i].np)) vf_violation("cmd_line_parse:parameter-beyond", "'%s': option '%s' has a parameter %d", line, names[q], od[i].np);
                    k2++;
                }
                if (NULL != parsec_cmd_line_get_param(cmd, names[q], want, 0)) vf_violation("cmd_line_parse:instance-beyond", "'%s': option '%s' has an instance %d", line, names[q], want);
            }
            /* typed destination: first parameter of the last instance (0-parameter options: true) */
            if (od[i].typ && want > 0 && i != incomplete_opt) {
                inst_t *last = NULL; for (int k = 0; k < nins; k++) if (ins[k].opt == i) last = &ins[k];
                cov_parse_dest++;
                if (od[i].typ == 1 && (!od[i].sdest || strcmp(od[i].sdest, last->p[0]))) vf_violation("cmd_line_parse:dest-string", "'%s': destination of option %d", line, i);
                if (od[i].typ == 2 && od[i].idest != atoi(last->p[0])) vf_violation("cmd_line_parse:dest-int", "'%s': destination of option %d is %d", line, i, od[i].idest);
                if (od[i].typ == 3 && !od[i].bdest) vf_violation("cmd_line_parse:dest-bool", "'%s': destination of option %d not set", line, i);
            }
            if (od[i].typ == 1 && od[i].sdest) free(od[i].sdest);
        }
        if (NULL != parsec_cmd_line_get_param(cmd, "not-declared", 0, 0) || 0 != parsec_cmd_line_get_ninsts(cmd, "not-declared")) vf_violation("cmd_line_parse:undeclared", "'%s': an undeclared option is reported", line);
        /* tail */
        int tc = -1; char **tv = NULL;
        if (PARSEC_SUCCESS != parsec_cmd_line_get_tail(cmd, &tc, &tv)) vf_violation("cmd_line_get_tail:rc", "'%s'", line);
        else if (tail_checked) {
            const char *dt = vec_cmp(&tail, tv);
            if (dt) vf_violation(had_dashdash ? "cmd_line_parse:tail:after-dashdash" : "cmd_line_parse:tail", "'%s' (ignore_unknown=%d): tail %s", line, ignore_unknown, dt);
            else if (tc != tail.n) vf_violation("cmd_line_get_tail:count", "'%s': tailc %d, tail has %d", line, tc, tail.n);
            cov_parse_tail += tail.n;
        }
        parsec_argv_free(tv);
        /* original tokens (only meaningful when no combined-shorts token had to be expanded) */
        if (!used_shorts) {
            if (parsec_cmd_line_get_argc(cmd) != av.n) vf_violation("cmd_line_get_argc", "'%s': %d, given %d", line, parsec_cmd_line_get_argc(cmd), av.n);
            else for (int i = 0; i < av.n; i++) { char *g = parsec_cmd_line_get_argv(cmd, i); if (!g || strcmp(g, av.v[i])) { vf_violation("cmd_line_get_argv", "'%s': token %d", line, i); break; } }
            if (NULL != parsec_cmd_line_get_argv(cmd, av.n) || NULL != parsec_cmd_line_get_argv(cmd, -1)) vf_violation("cmd_line_get_argv:range", "'%s'", line);
        }
        n_cases++; cov_parse_inst += nins; if (expect_err) cov_parse_err++; if (round) cov_parse_reparse++;
        if (nins >= 1) { n_nontrivial++; if (seen_add(h)) n_distinct++; }
        if (samples_left > 0 && nins >= 3) { samples_left--; vf_out("{\"type\":\"case\",\"mode\":\"parse\",\"options\":%d,\"line\":\"%s\",\"instances\":%d,\"tail\":%d,\"error\":%d}", nopt, line, nins, tail.n, expect_err); }
        for (int k = 0; k < nins; k++) for (int p = 0; p < ins[k].np; p++) free(ins[k].p[p]);
        for (int i = 0; i < av.n; i++) free(argv[i]); free(argv); vec_clear(&av); vec_clear(&tail);
        VF_TICK();
    }
    { char *u = parsec_cmd_line_get_usage_msg(cmd); if (!u) vf_violation("cmd_line_get_usage_msg:null", "usage message is NULL"); free(u); }
    if (via_table) { PARSEC_OBJ_DESTRUCT(cmd); free(cmd); } else PARSEC_OBJ_RELEASE(cmd);
}

int main(int argc, char **argv) {
    const char *mode = vf_arg(argc, argv, "--mode", "all");
    long cases = vf_arg_ll(argc, argv, "--cases", 3000);
    uint64_t seed = (uint64_t)vf_arg_ll(argc, argv, "--seed", 1);
    vf_rng_seed(&R, seed, 39);
    seen_init((size_t)cases + 16);
    vf_heartbeat_start();
    int all = !strcmp(mode, "all");
    for (long i = 0; i < cases; i++) {
        int which = all ? (int)(i % 3) : (!strcmp(mode, "split") ? 0 : !strcmp(mode, "edit") ? 1 : 2);
        if (which == 0) case_split(); else if (which == 1) case_edit(); else case_parse();
        if (vf_nviolations > 40) break;
    }
    vf_heartbeat_stop();
    vf_out("{\"type\":\"summary\",\"mode\":\"%s\",\"cases\":%ld,\"nontrivial\":%ld,\"distinct_nontrivial\":%ld,\"violations\":%d,"
           "\"split\":%ld,\"split_with_empty\":%ld,\"long_fields\":%ld,\"trailing_delimiter\":%ld,\"edit_ops\":%ld,\"deletes\":%ld,\"delete_overrun\":%ld,"
           "\"inserts\":%ld,\"inserts_middle\":%ld,\"join_range\":%ld,\"parse_instances\":%ld,\"parse_params\":%ld,\"parse_tail_tokens\":%ld,\"parse_errors\":%ld,"
           "\"parse_combined_shorts\":%ld,\"parse_short_params\":%ld,\"parse_dashdash\":%ld,\"parse_reparse\":%ld,\"parse_unknown_token\":%ld,\"parse_unknown_option\":%ld,\"parse_typed_dest\":%ld,\"known_trailing_hits\":%ld,\"known_overrun_hits\":%ld}",
           mode, n_cases, n_nontrivial, n_distinct, vf_nviolations, cov_split, cov_split_empty, cov_longfield, cov_trailing, cov_edit_ops, cov_delete, cov_delete_overrun,
           cov_insert, cov_insert_mid, cov_joinrange, cov_parse_inst, cov_parse_params, cov_parse_tail, cov_parse_err, cov_parse_shorts, cov_parse_short_params, cov_parse_dashdash,
           cov_parse_reparse, cov_parse_unknown_tok, cov_parse_unknown_opt, cov_parse_dest, known_trailing, known_overrun);
    return vf_nviolations ? 1 : 0;
}
