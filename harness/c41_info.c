/* C41: info registries return what was set.
 * Real parsec_info_* functions of libparsec (class/info.c).
 * Modes:
 *   seq  - sequential histories of register / unregister / lookup / set / get / test_and_set / new object array /
 *          destroy object array on one registry with up to 4 object arrays, against an exact reference model
 *          (ids of live names distinct, lookup = id given at registration, per (array,id) register semantics incl.
 *          constructor-on-first-get and destructor-at-unregister accounting), across growth of the registry after
 *          the arrays were created.
 *   conc - many short concurrent histories (2..6 threads) of set / get / test_and_set / lookup (/ register) on shared
 *          arrays; every (array,id) slot is an independent register: its sub-history is searched for a linearization
 *          (WGL with memoisation; P-compositional).  parsec_info_set is NOT an atomic swap (plain load + store under a
 *          read lock), so it is modelled as an independent read (its result) and write inside the same interval - that
 *          is weaker than the implementation and can only make the oracle more permissive.
 * Two defects of the unchanged tree are reached by (a) growth of a non-empty array and (b) a registration after an
 * unregister left a hole.  --growth / --holes give the permille of histories that may do (a) / (b); such a history
 * reports the witness once per process (routed through known findings by the driver) and is then abandoned. */
#include "parsec/parsec_config.h"
#include "parsec/class/info.h"
#include "kit.h"

#define MAXID 64
#define NNAMES 28
#define MAXA 4

static void *mkval(uint64_t n) { uint64_t v = 0; for (int b = 0; b < 8; b++) v |= (0x80ULL | ((n >> (7 * b)) & 0x7f)) << (8 * b); return (void *)v; }   /* every byte non-zero */

/* ---- callbacks: record what the library asked for, per thread */
typedef struct { void *val, *a, *b; } cbrec_t;
static __thread cbrec_t tl_ctor[8], tl_dtor[64]; static __thread int tl_nctor, tl_ndtor; static __thread uint64_t tl_vctr; static __thread int tl_tid;
static void *ctor_cb(void *obj, void *cons_data) { void *v = mkval(((uint64_t)(tl_tid + 33) << 40) | ++tl_vctr); if (tl_nctor < 8) tl_ctor[tl_nctor] = (cbrec_t){v, obj, cons_data}; tl_nctor++; return v; }
static void dtor_cb(void *elt, void *des_data) { if (tl_ndtor < 64) tl_dtor[tl_ndtor] = (cbrec_t){elt, des_data, NULL}; tl_ndtor++; }

/* findings that let the run continue are printed once per key and do not count as harness violations */
static int soft_seen[4]; static long soft_hits[4];
static const char *soft_key[] = {"info:resize:slot-lost", "info:resize:new-slot-garbage", "info:register:duplicate-live-id"};
static void soft_violation(int k, const char *fmt, ...) {
    char buf[900]; va_list ap; va_start(ap, fmt); vsnprintf(buf, sizeof buf, fmt, ap); va_end(ap);
    for (char *p = buf; *p; p++) if (*p == '"' || *p == '\\' || *p == '\n') *p = ' ';
    __atomic_add_fetch(&soft_hits[k], 1, __ATOMIC_SEQ_CST);
    if (!__atomic_exchange_n(&soft_seen[k], 1, __ATOMIC_SEQ_CST)) vf_out("{\"type\":\"violation\",\"key\":\"%s\",\"text\":\"%s\"}", soft_key[k], buf);
}

typedef struct { unsigned char op; signed char a; short id; short x; uint64_t v, w, res; } lop_t;
static lop_t *olog; static int nolog, olog_cap;
enum { O_REG, O_UNREG, O_LOOKUP, O_SET, O_GET, O_TAS, O_NEWA, O_DELA, O_UNREG_BAD };
static const char *oname[] = {"register", "unregister", "lookup", "set", "get", "test_and_set", "new_array", "destroy_array", "unregister_unknown"};
static void log_op(int op, int a, int id, int x, void *v, void *w, void *res) {
    if (nolog == olog_cap) { olog_cap = olog_cap ? olog_cap * 2 : 1024; olog = realloc(olog, olog_cap * sizeof(lop_t)); }
    olog[nolog++] = (lop_t){(unsigned char)op, (signed char)a, (short)id, (short)x, (uint64_t)v, (uint64_t)w, (uint64_t)res};
}
static void print_history(const char *why) {
    char buf[3800]; int p = 0; int from = nolog > 70 ? nolog - 70 : 0;
    p += snprintf(buf + p, sizeof buf - p, "ops(%d, last %d): ", nolog, nolog - from);
    for (int i = from; i < nolog && p < 3650; i++) {
        lop_t *o = &olog[i];
        switch (o->op) {
        case O_REG: p += snprintf(buf + p, sizeof buf - p, "register(n%d%s%s)=%d ", o->x, o->v & 1 ? ",ctor" : "", o->v & 2 ? ",dtor" : "", o->id); break;
        case O_UNREG: case O_UNREG_BAD: p += snprintf(buf + p, sizeof buf - p, "%s(%d)=%d ", oname[o->op], o->id, (int)o->res); break;
        case O_LOOKUP: p += snprintf(buf + p, sizeof buf - p, "lookup(n%d)=%d ", o->x, o->id); break;
        case O_SET: p += snprintf(buf + p, sizeof buf - p, "set(A%d,%d,%llx)=%llx ", o->a, o->id, (unsigned long long)o->v, (unsigned long long)o->res); break;
        case O_GET: p += snprintf(buf + p, sizeof buf - p, "get(A%d,%d)=%llx ", o->a, o->id, (unsigned long long)o->res); break;
        case O_TAS: p += snprintf(buf + p, sizeof buf - p, "tas(A%d,%d,new %llx,old %llx)=%llx ", o->a, o->id, (unsigned long long)o->v, (unsigned long long)o->w, (unsigned long long)o->res); break;
        default: p += snprintf(buf + p, sizeof buf - p, "%s(A%d,size %d) ", oname[o->op], o->a, o->x); break;
        }
    }
    vf_out("{\"type\":\"history\",\"why\":\"%s\",\"ops\":\"%s\"}", why, buf);
}
static uint64_t hist_sig(uint64_t h) { for (int i = 0; i < nolog; i++) h = vf_mix(h, olog[i].op + 16 * (uint64_t)(unsigned char)olog[i].a + 4096 * (uint64_t)(unsigned short)olog[i].id + ((uint64_t)(unsigned short)olog[i].x << 28) + ((olog[i].res != 0) ? 1ULL << 44 : 0)); return h; }
static uint64_t *sigset; static size_t sigcap, nsig;
static int sig_add(uint64_t s) {
    if (!s) s = 1;
    size_t i = (size_t)(s % sigcap);
    while (sigset[i]) { if (sigset[i] == s) return 0; i = (i + 1) % sigcap; }
    if (nsig * 2 < sigcap) { sigset[i] = s; nsig++; }
    return 1;
}

/* =================================================================== sequential mode */
typedef struct { void *v; int amb; int grown; } slot_t;   /* amb: value may also be NULL (stale value after an unregister without destructor); grown: 1 survived a growth, 2 created by a growth */
typedef struct { parsec_info_t *nfo; parsec_info_object_array_t *oa[MAXA]; int alive[MAXA]; slot_t M[MAXA][MAXID];
                 int name_id[NNAMES], name_flags[NNAMES]; int id_name[MAXID]; int nlive; int cons_obj[MAXA]; int names[NNAMES]; } seq_t;
static seq_t Q; static uint64_t vctr;
static long sc_reg, sc_reg_dup, sc_unreg, sc_unreg_bad, sc_lookup, sc_set, sc_get, sc_get_ctor, sc_tas_ok, sc_tas_fail, sc_newa, sc_dela, sc_grow_empty, sc_grow_live, sc_dtor_calls, sc_hole_fills, sc_ops, sc_abandoned;

static int mismatch(int a, int id, const char *op, void *got, void *want, int amb) {
    slot_t *s = &Q.M[a][id];
    if (s->grown == 1) { soft_violation(0, "%s(A%d,%d) returned %p, the value set before the array grew was %p%s (slot existed before growth of a non-empty array)", op, a, id, got, want, amb ? " or NULL" : ""); return 2; }
    if (s->grown == 2) { soft_violation(1, "%s(A%d,%d) returned %p for a slot created by growing a non-empty array, expected %p%s", op, a, id, got, want, amb ? " or NULL" : ""); return 2; }
    vf_violation("info:slot:wrong-value", "%s(A%d,%d) returned %p, the reference register holds %p%s", op, a, id, got, want, amb ? " or NULL" : "");
    return 0;
}
/* resolve an observed current value against the model; 1 ok, 0 hard violation, 2 soft (abandon history) */
static int observe(int a, int id, const char *op, void *got) {
    slot_t *s = &Q.M[a][id];
    if (got == s->v) { s->amb = 0; return 1; }
    if (s->amb && got == NULL) { s->v = NULL; s->amb = 0; return 1; }
    return mismatch(a, id, op, got, s->v, s->amb);
}
/* bookkeeping around an operation that may grow array a to hold id */
static void note_growth(int a, int id, int before) {
    int after = Q.oa[a]->known_infos;
    if (id < before || after <= before) return;
    if (before <= 0) { sc_grow_empty++; return; }
    sc_grow_live++;
    for (int i = 0; i < after && i < MAXID; i++) Q.M[a][i].grown = i < before ? 1 : 2;
}
/* after a growth: read every slot that can be read without side effects and compare (deterministic detection) */
static int verify_after_growth(int a) {
    int res = 1;
    for (int i = 0; i < Q.oa[a]->known_infos && i < MAXID; i++) {
        int n = Q.id_name[i]; if (n < 0) continue;
        slot_t *s = &Q.M[a][i];
        if ((Q.name_flags[n] & 1) && (s->v == NULL || s->amb)) continue;       /* get would construct */
        void *g = parsec_info_get(Q.oa[a], i);
        int r = observe(a, i, "get-after-growth", g); if (r == 0) return 0; if (r == 2) res = 2;    /* keep going: old slots and new slots fail differently */
    }
    return res;
}
static void seq_teardown(int abandon) {
    if (!abandon) {
        for (int a = 0; a < MAXA; a++) if (Q.alive[a]) { PARSEC_OBJ_DESTRUCT(Q.oa[a]); free(Q.oa[a]); }
        PARSEC_OBJ_DESTRUCT(Q.nfo); free(Q.nfo);
    } else sc_abandoned++;         /* corrupted by a reported defect: leak it rather than run destructors over it */
    memset(&Q, 0, sizeof Q);
}
static void seq_new_array(int a) {
    Q.oa[a] = malloc(sizeof(parsec_info_object_array_t)); PARSEC_OBJ_CONSTRUCT(Q.oa[a], parsec_info_object_array_t);
    parsec_info_object_array_init(Q.oa[a], Q.nfo, &Q.cons_obj[a]); Q.alive[a] = 1; memset(Q.M[a], 0, sizeof Q.M[a]); sc_newa++;
    log_op(O_NEWA, a, 0, Q.oa[a]->known_infos, 0, 0, 0);
}
static int run_seq(int argc, char **argv) {
    long nh = vf_arg_ll(argc, argv, "--histories", 1000); uint64_t seed = (uint64_t)vf_arg_ll(argc, argv, "--seed", 1); int maxlen = (int)vf_arg_ll(argc, argv, "--maxlen", 120);
    int pm_growth = (int)vf_arg_ll(argc, argv, "--growth", 1000), pm_holes = (int)vf_arg_ll(argc, argv, "--holes", 1000);
    long done = 0, distinct = 0, nontrivial = 0, samples = 0, with_growth = 0, with_holes = 0;
    tl_tid = 0;
    for (long hno = 0; hno < nh && !vf_nviolations; hno++) {
        vf_rng_t r; vf_rng_seed(&r, seed, (uint64_t)hno + 1);
        int growth_ok = vf_chance(&r, (uint32_t)pm_growth), holes_ok = vf_chance(&r, (uint32_t)pm_holes);
        memset(&Q, 0, sizeof Q); nolog = 0;
        Q.nfo = malloc(sizeof(parsec_info_t)); PARSEC_OBJ_CONSTRUCT(Q.nfo, parsec_info_t);
        for (int n = 0; n < NNAMES; n++) Q.name_id[n] = -1; for (int i = 0; i < MAXID; i++) Q.id_name[i] = -1;
        int len = 3 + (int)vf_randn(&r, (uint32_t)maxlen), ok = 1, grew0 = (int)sc_grow_live, holes0 = (int)sc_hole_fills, hole_pending = 0;
        if (vf_chance(&r, 400)) seq_new_array(0);       /* an array created before any registration (size 0) */
        for (int k = 0; k < len && ok == 1; k++) {
            int t = (int)vf_randn(&r, 100); sc_ops++;
            int nalive = 0; for (int a = 0; a < MAXA; a++) nalive += Q.alive[a];
            if (t < (Q.nlive < 3 ? 45 : 14)) {                                   /* register */
                int n = (int)vf_randn(&r, NNAMES); int flags = (int)vf_randn(&r, 4); char nm[16]; snprintf(nm, sizeof nm, "n%d", n);
                int id = parsec_info_register(Q.nfo, nm, (flags & 2) ? dtor_cb : NULL, &Q.names[n], (flags & 1) ? ctor_cb : NULL, &Q.names[n], &Q.name_flags[n]);
                log_op(O_REG, 0, id, n, (void *)(uintptr_t)flags, 0, 0);
                if (Q.name_id[n] >= 0) { sc_reg_dup++; if (id != PARSEC_INFO_ID_UNDEFINED) { vf_violation("info:register:name-twice", "registering the live name n%d again returned id %d instead of PARSEC_INFO_ID_UNDEFINED", n, id); ok = 0; } continue; }
                sc_reg++;
                if (id < 0 || id >= MAXID) { vf_violation("info:register:bad-id", "register(n%d) returned id %d", n, id); ok = 0; continue; }
                if (Q.id_name[id] >= 0) { soft_violation(2, "register(n%d) returned id %d which is still the id of the registered name n%d (ids of live names must be distinct)", n, id, Q.id_name[id]); ok = 2; continue; }
                if (hole_pending) { sc_hole_fills++; }
                Q.name_id[n] = id; Q.name_flags[n] = flags; Q.id_name[id] = n; Q.nlive++;
            } else if (t < 22 && Q.nlive) {                                     /* unregister */
                int id = (int)vf_randn(&r, MAXID); while (Q.id_name[id] < 0) id = (id + 1) % MAXID;
                if (!holes_ok) id = Q.nfo->max_id;                               /* only the top id: leaves no hole */
                else if (id != Q.nfo->max_id) hole_pending = 1;
                int n = Q.id_name[id]; void *cb = (void *)-1;
                if (!(Q.name_flags[n] & 2) && vf_chance(&r, 700))               /* no destructor: the client usually clears its values first */
                    for (int a = 0; a < MAXA && ok == 1; a++) if (Q.alive[a] && id < Q.oa[a]->known_infos && (Q.M[a][id].v || Q.M[a][id].amb)) { void *o = parsec_info_set(Q.oa[a], id, NULL); log_op(O_SET, a, id, 0, NULL, 0, o); ok = observe(a, id, "set", o); Q.M[a][id].v = NULL; Q.M[a][id].amb = 0; }
                if (ok != 1) continue;
                tl_ndtor = 0;
                int rc = parsec_info_unregister(Q.nfo, id, &cb); sc_unreg++; log_op(O_UNREG, 0, id, n, 0, 0, (void *)(intptr_t)rc);
                if (rc != id) { vf_violation("info:unregister:result", "unregister(%d) of the live name n%d returned %d", id, n, rc); ok = 0; continue; }
                if (cb != &Q.name_flags[n]) { vf_violation("info:unregister:cb-data", "unregister(%d) handed back cb_data %p, registration gave %p", id, cb, (void *)&Q.name_flags[n]); ok = 0; continue; }
                /* destructor accounting: exactly the non-NULL values of that id in the live arrays, each once */
                int used[64] = {0}; sc_dtor_calls += tl_ndtor;
                for (int a = 0; a < MAXA && ok == 1; a++) if (Q.alive[a]) {
                    slot_t *s = &Q.M[a][id];
                    if (Q.name_flags[n] & 2) {
                        int hit = -1; for (int d = 0; d < tl_ndtor && d < 64; d++) if (!used[d] && s->v && tl_dtor[d].val == s->v) { hit = d; break; }
                        if (hit >= 0) { used[hit] = 1; if (tl_dtor[hit].a != &Q.names[n]) { vf_violation("info:destructor:data", "destructor for id %d got des_data %p instead of %p", id, tl_dtor[hit].a, (void *)&Q.names[n]); ok = 0; } s->v = NULL; s->amb = 0; }
                        else if (s->v && !s->amb) { int r2 = mismatch(a, id, "unregister-destructor", NULL, s->v, 0); if (r2 == 0) { /* reported as wrong-value */ } ok = r2; }
                        else { s->v = NULL; s->amb = 0; }
                    } else if (s->v) s->amb = 1;                              /* stays, or is cleared: both acceptable */
                }
                if (ok == 1 && (Q.name_flags[n] & 2)) for (int d = 0; d < tl_ndtor && d < 64; d++) if (!used[d]) {
                    int ga = -1; for (int a = 0; a < MAXA; a++) if (Q.alive[a] && Q.M[a][id].grown) ga = a;
                    if (ga >= 0) ok = mismatch(ga, id, "unregister-destructor", tl_dtor[d].val, NULL, 0);     /* a slot of that id went through a growth: value garbled by it */
                    else { vf_violation("info:destructor:spurious", "unregister(%d) ran the destructor on %p which no live array holds for that id", id, tl_dtor[d].val); ok = 0; }
                    break; }
                if (ok == 1 && !(Q.name_flags[n] & 2) && tl_ndtor) { vf_violation("info:destructor:spurious", "unregister(%d) ran a destructor although none was registered", id); ok = 0; }
                Q.id_name[id] = -1; Q.name_id[n] = -1; Q.nlive--;
            } else if (t < 25) {                                                 /* unregister of an id that is not registered */
                int id = (int)vf_randn(&r, MAXID); if (Q.id_name[id] >= 0) continue;
                int rc = parsec_info_unregister(Q.nfo, id, NULL); sc_unreg_bad++; log_op(O_UNREG_BAD, 0, id, 0, 0, 0, (void *)(intptr_t)rc);
                if (rc != PARSEC_INFO_ID_UNDEFINED) { vf_violation("info:unregister:result", "unregister(%d) of an id that is not registered returned %d", id, rc); ok = 0; }
            } else if (t < 35) {                                                 /* lookup */
                int n = (int)vf_randn(&r, NNAMES); char nm[16]; snprintf(nm, sizeof nm, "n%d", n); void *cb = (void *)-1;
                int id = parsec_info_lookup(Q.nfo, nm, &cb); sc_lookup++; log_op(O_LOOKUP, 0, id, n, 0, 0, 0);
                if (id != Q.name_id[n]) { vf_violation("info:lookup:wrong-id", "lookup(n%d) returned %d, registration gave %d", n, id, Q.name_id[n]); ok = 0; }
                else if (id >= 0 && cb != &Q.name_flags[n]) { vf_violation("info:lookup:cb-data", "lookup(n%d) handed back cb_data %p, registration gave %p", n, cb, (void *)&Q.name_flags[n]); ok = 0; }
            } else if (t < 40 || nalive == 0) {                                  /* new / destroy array */
                int a = (int)vf_randn(&r, MAXA);
                if (!Q.alive[a]) seq_new_array(a);
                else if (nalive > 1 || vf_chance(&r, 300)) { log_op(O_DELA, a, 0, Q.oa[a]->known_infos, 0, 0, 0); PARSEC_OBJ_DESTRUCT(Q.oa[a]); free(Q.oa[a]); Q.oa[a] = NULL; Q.alive[a] = 0; sc_dela++; }
            } else if (Q.nlive) {                                                /* slot operation */
                /* a live array and a live id, uniformly; without --growth only slots that need no growth of a non-empty array */
                short cand[MAXA * MAXID]; int ncand = 0;
                for (int a2 = 0; a2 < MAXA; a2++) if (Q.alive[a2]) for (int i2 = 0; i2 < MAXID; i2++)
                    if (Q.id_name[i2] >= 0 && (growth_ok || i2 < Q.oa[a2]->known_infos || Q.oa[a2]->known_infos <= 0)) cand[ncand++] = (short)(a2 * MAXID + i2);
                if (!ncand) { int a2 = 0; while (a2 < MAXA && Q.alive[a2]) a2++; if (a2 < MAXA) seq_new_array(a2); continue; }
                int pick2 = cand[vf_randn(&r, (uint32_t)ncand)], a = pick2 / MAXID, id = pick2 % MAXID;
                slot_t *s = &Q.M[a][id]; int before = Q.oa[a]->known_infos, n = Q.id_name[id], w = (int)vf_randn(&r, 100);
                if (w < 40) {
                    void *v = vf_chance(&r, 80) ? NULL : mkval(++vctr);
                    void *o = parsec_info_set(Q.oa[a], id, v); sc_set++; log_op(O_SET, a, id, 0, v, 0, o); note_growth(a, id, before);
                    ok = observe(a, id, "set", o); s->v = v; s->amb = 0;
                } else if (w < 72) {
                    tl_nctor = 0; tl_ndtor = 0;
                    void *g = parsec_info_get(Q.oa[a], id); sc_get++; log_op(O_GET, a, id, 0, 0, 0, g); note_growth(a, id, before);
                    int may_construct = (Q.name_flags[n] & 1) && (s->v == NULL || s->amb);
                    if (tl_nctor) {
                        sc_get_ctor++;
                        if (!may_construct || tl_nctor > 1) { if (s->grown) ok = mismatch(a, id, "get(constructor ran)", g, s->v, s->amb); else { vf_violation("info:constructor:spurious", "get(A%d,%d) ran the constructor %d times while the slot held %p", a, id, tl_nctor, s->v); ok = 0; } }
                        else if (tl_ctor[0].a != &Q.cons_obj[a] || tl_ctor[0].b != &Q.names[n]) { vf_violation("info:constructor:data", "constructor for (A%d,%d) got obj %p / data %p instead of %p / %p", a, id, tl_ctor[0].a, tl_ctor[0].b, (void *)&Q.cons_obj[a], (void *)&Q.names[n]); ok = 0; }
                        else if (g != tl_ctor[0].val) { vf_violation("info:constructor:value-dropped", "get(A%d,%d) constructed %p but returned %p", a, id, tl_ctor[0].val, g); ok = 0; }
                        else { s->v = g; s->amb = 0; }
                    } else if ((Q.name_flags[n] & 1) && s->v == NULL && !s->amb) {
                        if (s->grown) ok = mismatch(a, id, "get", g, NULL, 0); else { vf_violation("info:constructor:not-run", "get(A%d,%d) on an empty slot with a registered constructor returned %p without constructing", a, id, g); ok = 0; }
                    } else ok = observe(a, id, "get", g);
                } else {
                    void *nv = mkval(++vctr); int pick = (int)vf_randn(&r, 10);
                    void *old = pick < 5 ? s->v : pick < 8 ? NULL : mkval(vctr + 1000000);
                    void *res = parsec_info_test_and_set(Q.oa[a], id, nv, old); log_op(O_TAS, a, id, 0, nv, old, res); note_growth(a, id, before);
                    if (res == nv) { sc_tas_ok++;
                        if (old == s->v || (s->amb && old == NULL)) { s->v = nv; s->amb = 0; }
                        else ok = mismatch(a, id, "test_and_set(replaced although the expected value differs)", res, s->v, s->amb);
                    } else { sc_tas_fail++;
                        ok = observe(a, id, "test_and_set", res);
                        if (ok == 1 && res == old) { vf_violation("info:test-and-set:not-replaced", "test_and_set(A%d,%d) found the expected value %p but did not replace it", a, id, old); ok = 0; }
                    }
                }
                if (ok != 0 && before > 0 && Q.oa[a]->known_infos > before) { int r2 = verify_after_growth(a); if (r2 != 1) ok = r2; }
            }
            if ((sc_ops & 63) == 0) VF_TICK();
        }
        if (ok == 0) { print_history("violation"); break; }
        if (ok == 2) print_history("known-defect");
        done++; with_growth += sc_grow_live > grew0; with_holes += sc_hole_fills > holes0;
        if (nolog >= 3) { nontrivial++; if (sig_add(hist_sig(0x41))) distinct++; if (samples < 2 && nolog < 26 && ok == 1) { samples++; print_history("sample"); } }
        seq_teardown(ok == 2);
    }
    vf_out("{\"type\":\"summary\",\"mode\":\"seq\",\"histories\":%ld,\"nontrivial\":%ld,\"distinct\":%ld,\"ops\":%ld,\"register\":%ld,\"register_live_name\":%ld,\"unregister\":%ld,\"unregister_unknown\":%ld,\"lookup\":%ld,"
           "\"set\":%ld,\"get\":%ld,\"get_constructed\":%ld,\"tas_replaced\":%ld,\"tas_kept\":%ld,\"arrays_created\":%ld,\"arrays_destroyed\":%ld,\"growth_from_empty\":%ld,\"growth_with_live_slots\":%ld,"
           "\"destructor_calls\":%ld,\"hole_fills\":%ld,\"histories_with_live_growth\":%ld,\"histories_with_hole_fill\":%ld,\"abandoned_after_known_defect\":%ld,\"hit_slot_lost\":%ld,\"hit_new_slot_garbage\":%ld,\"hit_duplicate_id\":%ld}",
           done, nontrivial, distinct, sc_ops, sc_reg, sc_reg_dup, sc_unreg, sc_unreg_bad, sc_lookup, sc_set, sc_get, sc_get_ctor, sc_tas_ok, sc_tas_fail, sc_newa, sc_dela, sc_grow_empty, sc_grow_live,
           sc_dtor_calls, sc_hole_fills, with_growth, with_holes, sc_abandoned, soft_hits[0], soft_hits[1], soft_hits[2]);
    return vf_nviolations ? 1 : 0;
}

/* =================================================================== concurrent mode */
#define MAXT 8
#define MAXOPS 16
enum { K_READ, K_WRITE, K_GETC, K_TAS };
typedef struct { int kind; uint64_t v, w, r, c; uint64_t inv, resp; int tid; } sop_t;      /* v: written/new, w: expected old, r: result, c: constructed value */
typedef struct { int tid, type, a, id; uint64_t v, w, r, c; uint64_t inv, resp; int ctor_calls, dtor_calls; uint64_t dval; } cop_t;
typedef struct {
    int nt, ops; uint64_t seed; long hno; vf_spinbar_t bar; volatile int stop;
    parsec_info_t *nfo; parsec_info_object_array_t *oa[MAXA]; int na; int nshared; int shared_id[8], shared_flags[8]; int growth; int cons_obj[MAXA]; int names[64];
    cop_t log[MAXT][MAXOPS * 2]; int nlog[MAXT];
    int reg_id[MAXT][MAXOPS], nreg[MAXT];
} conc_t;
static conc_t G;
enum { C_SET, C_GET, C_TAS, C_LOOKUP, C_REG };

static void conc_worker(int tid, int nt, void *arg) {
    (void)arg; (void)nt; vf_rng_t r; tl_tid = tid + 1;
    for (;;) {
        vf_spinbar_wait(&G.bar);
        if (G.stop) return;
        vf_rng_seed(&r, G.seed + (uint64_t)G.hno * 2654435761ULL, (uint64_t)tid + 1);
        int n = 0; uint64_t seen[MAXA][8]; memset(seen, 0, sizeof seen);            /* last value this thread observed per slot (for test_and_set expectations) */
        int myids[MAXOPS], nmy = 0;
        for (int k = 0; k < G.ops; k++) {
            cop_t *o = &G.log[tid][n]; memset(o, 0, sizeof *o); o->tid = tid;
            int t = (int)vf_randn(&r, 100);
            if (G.growth && t < 12 && nmy < 4) {
                char nm[24]; snprintf(nm, sizeof nm, "h%ld_t%d_%d", G.hno, tid, nmy);
                o->type = C_REG; o->inv = vf_stamp(); int id = parsec_info_register(G.nfo, nm, NULL, NULL, NULL, NULL, NULL); o->resp = vf_stamp(); o->id = id; o->r = (uint64_t)(int64_t)id;
                if (id >= 0 && id < MAXID) myids[nmy++] = id;
                G.reg_id[tid][G.nreg[tid]++] = id; n++; VF_TICK(); continue;
            }
            if (t < 20) {
                int s = (int)vf_randn(&r, (uint32_t)G.nshared); char nm[16]; snprintf(nm, sizeof nm, "s%d", s);
                o->type = C_LOOKUP; o->id = s; o->inv = vf_stamp(); o->r = (uint64_t)(int64_t)parsec_info_lookup(G.nfo, nm, NULL); o->resp = vf_stamp(); n++; continue;
            }
            int a = (int)vf_randn(&r, (uint32_t)G.na), si = (int)vf_randn(&r, (uint32_t)G.nshared), id = G.shared_id[si], own = 0;
            if (nmy && vf_chance(&r, 350)) { id = myids[vf_randn(&r, (uint32_t)nmy)]; own = 1; }       /* an id registered during this history: forces growth of the arrays */
            o->a = a; o->id = id; tl_nctor = 0; tl_ndtor = 0;
            int w = (int)vf_randn(&r, 100);
            if (w < 38) { o->type = C_SET; o->v = (uint64_t)mkval(((uint64_t)(tid + 1) << 40) | ++tl_vctr);
                o->inv = vf_stamp(); o->r = (uint64_t)parsec_info_set(G.oa[a], id, (void *)o->v); o->resp = vf_stamp(); if (!own) seen[a][si] = o->v; }
            else if (w < 70) { o->type = C_GET; o->inv = vf_stamp(); o->r = (uint64_t)parsec_info_get(G.oa[a], id); o->resp = vf_stamp(); if (!own) seen[a][si] = o->r; }
            else { o->type = C_TAS; o->v = (uint64_t)mkval(((uint64_t)(tid + 1) << 40) | ++tl_vctr); int p = (int)vf_randn(&r, 10);
                o->w = own ? 0 : p < 6 ? seen[a][si] : p < 8 ? 0 : (uint64_t)mkval(((uint64_t)77 << 40) | tl_vctr);        /* last seen value, NULL, or a value nobody ever writes */
                o->inv = vf_stamp(); o->r = (uint64_t)parsec_info_test_and_set(G.oa[a], id, (void *)o->v, (void *)o->w); o->resp = vf_stamp(); if (!own) seen[a][si] = o->r; }
            o->ctor_calls = tl_nctor; o->c = tl_nctor ? (uint64_t)tl_ctor[0].val : 0; o->dtor_calls = tl_ndtor; o->dval = tl_ndtor ? (uint64_t)tl_dtor[0].val : 0;
            n++; VF_TICK();
        }
        G.nlog[tid] = n;
        vf_spinbar_wait(&G.bar);
    }
}

/* ---- WGL per slot */
static sop_t H[64]; static int HN; static long wgl_nodes, wgl_budget;
typedef struct { uint64_t mask, val; uint32_t gen; } memo_t; static memo_t *memo; static size_t memo_cap, memo_n; static uint32_t memo_gen = 1;
static int memo_seen(uint64_t mask, uint64_t val) {
    size_t i = (size_t)(vf_mix(mask, val) % memo_cap);
    for (;;) {
        if (memo[i].gen != memo_gen) { if (memo_n * 2 > memo_cap) return 0; memo[i].mask = mask; memo[i].val = val; memo[i].gen = memo_gen; memo_n++; return 0; }
        if (memo[i].mask == mask && memo[i].val == val) return 1;
        i = (i + 1) % memo_cap;
    }
}
static int wgl(uint64_t mask, uint64_t state) {
    if (mask == (HN == 64 ? ~0ULL : ((1ULL << HN) - 1))) return 1;
    if (++wgl_nodes > wgl_budget) return -1;
    if (mask && memo_seen(mask, state)) return 0;
    uint64_t minresp = ~0ULL;
    for (int i = 0; i < HN; i++) if (!(mask >> i & 1) && H[i].resp < minresp) minresp = H[i].resp;
    for (int i = 0; i < HN; i++) {
        if ((mask >> i & 1) || H[i].inv > minresp) continue;
        sop_t *o = &H[i]; uint64_t ns = state; int ok;
        switch (o->kind) {
        case K_READ: ok = (state == o->r); break;
        case K_WRITE: ok = 1; ns = o->v; break;
        case K_GETC: if (o->c && o->r == o->c) { ok = (state == 0); ns = o->c; } else ok = (state == o->r && (o->r != 0 || !o->w)); break;   /* w: slot has a constructor */
        default: if (o->r == o->v) { ok = (state == o->w); ns = o->v; } else ok = (state == o->r && o->r != o->w); break;
        }
        if (ok) { int r = wgl(mask | (1ULL << i), ns); if (r != 0) return r; }
    }
    return 0;
}
static void print_slot_history(const char *why, int a, int id, uint64_t init) {
    char buf[3800]; int p = 0; static const char *kn[] = {"read", "write", "get", "tas"};
    p += snprintf(buf + p, sizeof buf - p, "slot (A%d,id %d) initial %llx: ", a, id, (unsigned long long)init);
    for (int i = 0; i < HN && p < 3600; i++) {
        sop_t *o = &H[i];
        p += snprintf(buf + p, sizeof buf - p, "[t%d %s", o->tid, kn[o->kind]);
        if (o->kind == K_WRITE) p += snprintf(buf + p, sizeof buf - p, " %llx", (unsigned long long)o->v);
        else if (o->kind == K_TAS) p += snprintf(buf + p, sizeof buf - p, " new %llx old %llx ->%llx", (unsigned long long)o->v, (unsigned long long)o->w, (unsigned long long)o->r);
        else if (o->kind == K_GETC) p += snprintf(buf + p, sizeof buf - p, "%s ->%llx", o->c ? "(constructed)" : "", (unsigned long long)o->r);
        else p += snprintf(buf + p, sizeof buf - p, " ->%llx", (unsigned long long)o->r);
        p += snprintf(buf + p, sizeof buf - p, " @%llu-%llu] ", (unsigned long long)o->inv, (unsigned long long)o->resp);
    }
    vf_out("{\"type\":\"history\",\"why\":\"%s\",\"ops\":\"%s\"}", why, buf);
}
static int cmp_inv(const void *x, const void *y) { uint64_t a = ((const sop_t *)x)->inv, b = ((const sop_t *)y)->inv; return a < b ? -1 : a > b; }

static int run_conc(int argc, char **argv) {
    long nh = vf_arg_ll(argc, argv, "--histories", 1000); G.nt = (int)vf_arg_ll(argc, argv, "--threads", 4); G.ops = (int)vf_arg_ll(argc, argv, "--ops", 8);
    G.seed = (uint64_t)vf_arg_ll(argc, argv, "--seed", 1); int pm_growth = (int)vf_arg_ll(argc, argv, "--growth", 1000); wgl_budget = vf_arg_ll(argc, argv, "--budget", 2000000);
    if (G.nt > MAXT) G.nt = MAXT; if (G.ops > MAXOPS) G.ops = MAXOPS;
    memo_cap = 1 << 20; memo = calloc(memo_cap, sizeof(memo_t));
    vf_spinbar_init(&G.bar, G.nt + 1);
    pthread_t th[MAXT]; vf_team_ctx_t cx[MAXT]; pthread_barrier_t pb; pthread_barrier_init(&pb, NULL, (unsigned)G.nt);
    for (int i = 0; i < G.nt; i++) { cx[i] = (vf_team_ctx_t){conc_worker, NULL, i, G.nt, &pb}; pthread_create(&th[i], NULL, vf_team_tramp, &cx[i]); }
    long hist = 0, slots_checked = 0, lin = 0, incon = 0, overlapped = 0, distinct = 0, totops = 0, maxnodes = 0, resized_hist = 0, live_growth_hist = 0, ctor_installed = 0, ctor_lost = 0, samples = 0, abandoned = 0, lookups = 0, registers = 0;
    vf_rng_t mr; vf_rng_seed(&mr, G.seed, 4242); tl_tid = 0;
    for (long h = 0; h < nh && !vf_nviolations; h++) {
        G.hno = h; G.growth = vf_chance(&mr, (uint32_t)pm_growth);
        /* quiescent set-up: registry, shared infos, arrays (one created before any registration), some preset values */
        G.nfo = malloc(sizeof(parsec_info_t)); PARSEC_OBJ_CONSTRUCT(G.nfo, parsec_info_t);
        G.na = vf_chance(&mr, 500) ? 1 : 1 + (int)vf_randn(&mr, 3); G.nshared = vf_chance(&mr, 400) ? 1 : 1 + (int)vf_randn(&mr, 3); int early = (int)vf_randn(&mr, (uint32_t)G.na + 1);   /* arrays [0,early) are created empty */
        uint64_t init[MAXA][8]; memset(init, 0, sizeof init); int size0[MAXA];
        for (int a = 0; a < early; a++) { G.oa[a] = malloc(sizeof(parsec_info_object_array_t)); PARSEC_OBJ_CONSTRUCT(G.oa[a], parsec_info_object_array_t); parsec_info_object_array_init(G.oa[a], G.nfo, &G.cons_obj[a]); }
        for (int s = 0; s < G.nshared; s++) { char nm[16]; snprintf(nm, sizeof nm, "s%d", s); G.shared_flags[s] = (int)vf_randn(&mr, 4);
            G.shared_id[s] = parsec_info_register(G.nfo, nm, (G.shared_flags[s] & 2) ? dtor_cb : NULL, &G.names[s], (G.shared_flags[s] & 1) ? ctor_cb : NULL, &G.names[s], NULL); }
        for (int a = early; a < G.na; a++) { G.oa[a] = malloc(sizeof(parsec_info_object_array_t)); PARSEC_OBJ_CONSTRUCT(G.oa[a], parsec_info_object_array_t); parsec_info_object_array_init(G.oa[a], G.nfo, &G.cons_obj[a]); }
        for (int a = early; a < G.na; a++) for (int s = 0; s < G.nshared; s++) if (vf_chance(&mr, 400)) { init[a][s] = (uint64_t)mkval(((uint64_t)99 << 40) | (uint64_t)(h * 64 + a * 8 + s + 1)); parsec_info_set(G.oa[a], G.shared_id[s], (void *)init[a][s]); }
        for (int a = 0; a < G.na; a++) size0[a] = G.oa[a]->known_infos;
        for (int t = 0; t < G.nt; t++) G.nreg[t] = 0;
        vf_spinbar_wait(&G.bar); vf_spinbar_wait(&G.bar);      /* run one history */
        hist++;
        int any_resize = 0, live_growth = 0; for (int a = 0; a < G.na; a++) { if (G.oa[a]->known_infos > size0[a]) { any_resize = 1; if (G.oa[a]->known_infos > G.nshared) live_growth = 1; } }   /* beyond the shared ids: ids registered during the history made it grow */
        resized_hist += any_resize; live_growth_hist += live_growth;
        int bad = 0, soft = 0, hist_overlap = 0; uint64_t sig = 0x4141;
        /* registry oracles: lookups of shared names, ids handed out during the history distinct from each other and from the shared ids */
        { int ids[MAXT * MAXOPS + 8], nid = 0; for (int s = 0; s < G.nshared; s++) ids[nid++] = G.shared_id[s];
          for (int t = 0; t < G.nt; t++) for (int k = 0; k < G.nreg[t]; k++) { int id = G.reg_id[t][k]; registers++;
              if (id < 0) { vf_violation("info:register:bad-id", "conc: registering a fresh name returned %d", id); bad = 1; break; }
              for (int q = 0; q < nid; q++) if (ids[q] == id) { vf_violation("info:register:duplicate-id-concurrent", "conc: two names registered in the same history both got id %d", id); bad = 1; break; }
              ids[nid++] = id; } }
        for (int t = 0; t < G.nt && !bad; t++) for (int k = 0; k < G.nlog[t]; k++) { cop_t *o = &G.log[t][k]; totops++;
            if (o->type == C_LOOKUP) { lookups++; if ((int)(int64_t)o->r != G.shared_id[o->id]) { vf_violation("info:lookup:wrong-id", "conc: lookup(s%d) returned %d, registration gave %d", o->id, (int)(int64_t)o->r, G.shared_id[o->id]); bad = 1; break; } } }
        /* per-slot linearizability; slots of ids registered during the history are private to one thread but still cross the growth */
        for (int a = 0; a < G.na && !bad && !soft; a++) for (int id = 0; id < MAXID && !bad && !soft; id++) {
            HN = 0; int si = -1; for (int s = 0; s < G.nshared; s++) if (G.shared_id[s] == id) si = s;
            int has_ctor = si >= 0 && (G.shared_flags[si] & 1), has_dtor = si >= 0 && (G.shared_flags[si] & 2), over = 0;
            for (int t = 0; t < G.nt; t++) for (int k = 0; k < G.nlog[t]; k++) { cop_t *o = &G.log[t][k];
                if (o->type > C_TAS || o->a != a || o->id != id) continue;
                if (HN >= 60) { over = 1; break; }
                if (o->type == C_SET) { H[HN++] = (sop_t){K_READ, 0, 0, o->r, 0, o->inv, o->resp, t}; H[HN++] = (sop_t){K_WRITE, o->v, 0, 0, 0, o->inv, o->resp, t}; }
                else if (o->type == C_GET) { H[HN++] = (sop_t){K_GETC, 0, (uint64_t)has_ctor, o->r, o->c, o->inv, o->resp, t};
                    /* constructor accounting: at most one call; a constructed value is installed (returned) or destroyed, never both, never dropped when a destructor exists */
                    if (o->ctor_calls > 1 || (o->ctor_calls && !has_ctor)) { vf_violation("info:constructor:spurious", "conc: get(A%d,%d) ran the constructor %d times", a, id, o->ctor_calls); bad = 1; }
                    else if (o->ctor_calls && o->r == o->c) { ctor_installed++; if (o->dtor_calls) { vf_violation("info:constructor:installed-and-destroyed", "conc: get(A%d,%d) returned its constructed value and also destroyed %llx", a, id, (unsigned long long)o->dval); bad = 1; } }
                    else if (o->ctor_calls) { ctor_lost++; if (has_dtor && (o->dtor_calls != 1 || o->dval != o->c)) { vf_violation("info:constructor:loser-not-destroyed", "conc: get(A%d,%d) constructed %llx, lost the race, and ran the destructor %d times (on %llx)", a, id, (unsigned long long)o->c, o->dtor_calls, (unsigned long long)o->dval); bad = 1; } } }
                else H[HN++] = (sop_t){K_TAS, o->v, o->w, o->r, 0, o->inv, o->resp, t};
            }
            if (!HN || bad) continue;
            if (over) { incon++; continue; }
            /* final quiescent read of the slot */
            { uint64_t s1 = vf_stamp(); uint64_t fin = (id < G.oa[a]->known_infos) ? (uint64_t)G.oa[a]->info_objects[id] : 0; H[HN++] = (sop_t){K_READ, 0, 0, fin, 0, s1, vf_stamp(), 99}; }
            int ov = 0; for (int i = 0; i < HN && !ov; i++) for (int j = 0; j < HN; j++) if (H[i].tid != H[j].tid && H[j].tid != 99 && H[i].tid != 99 && H[i].inv < H[j].resp && H[j].inv < H[i].resp) { ov = 1; break; }
            qsort(H, (size_t)HN, sizeof(sop_t), cmp_inv);
            for (int i = 0; i < HN; i++) sig = vf_mix(sig, (uint64_t)(H[i].tid * 8 + H[i].kind) + 1024 * (uint64_t)a + 65536 * (uint64_t)(si + 1));
            memo_gen++; memo_n = 0; wgl_nodes = 0;
            uint64_t i0 = si >= 0 ? init[a][si] : 0;
            int r = wgl(0, i0); slots_checked++; if (wgl_nodes > maxnodes) maxnodes = wgl_nodes;
            if (r == 1) { lin++; if (ov) { overlapped++; hist_overlap = 1; } if (ov && samples < 3) { samples++; print_slot_history("sample", a, id, i0); } }
            else if (r < 0) incon++;
            else if (G.growth && G.oa[a]->known_infos > G.nshared) {     /* the array grew for ids registered during the history: the recorded defect of the unchanged tree */
                soft_violation(id < G.nshared ? 0 : 1, "conc: slot (A%d,id %d) of an array that grew (%d slots at the start, %d at the end, %d shared ids) while threads registered new infos has no linearization (a value was lost or a new slot was not NULL)", a, id, size0[a], G.oa[a]->known_infos, G.nshared);
                print_slot_history("known-defect", a, id, i0); soft = 1;
            } else { vf_violation("info:slot:not-linearizable", "conc: history %ld slot (A%d,id %d): %d operations of %d threads have no linearization against a register", h, a, id, HN, G.nt); print_slot_history("not-linearizable", a, id, i0); bad = 1; }
        }
        if (hist_overlap && (any_resize) && sig_add(sig)) distinct++;
        if (bad) break;
        if (soft) { abandoned++; continue; }      /* leak the corrupted registry */
        for (int a = 0; a < G.na; a++) { PARSEC_OBJ_DESTRUCT(G.oa[a]); free(G.oa[a]); }
        PARSEC_OBJ_DESTRUCT(G.nfo); free(G.nfo);
    }
    G.stop = 1; vf_spinbar_wait(&G.bar);
    for (int i = 0; i < G.nt; i++) pthread_join(th[i], NULL);
    vf_out("{\"type\":\"summary\",\"mode\":\"conc\",\"histories\":%ld,\"threads\":%d,\"ops\":%ld,\"slot_histories\":%ld,\"linearizable\":%ld,\"inconclusive\":%ld,\"overlapped_slots\":%ld,\"distinct_overlapped_resized\":%ld,"
           "\"histories_with_resize\":%ld,\"histories_with_live_growth\":%ld,\"max_wgl_nodes\":%ld,\"constructed_installed\":%ld,\"constructed_lost_race\":%ld,\"lookups\":%ld,\"registers\":%ld,\"abandoned_after_known_defect\":%ld,"
           "\"hit_slot_lost\":%ld,\"hit_new_slot_garbage\":%ld,\"yield_hits\":%llu}", hist, G.nt, totops, slots_checked, lin, incon, overlapped, distinct, resized_hist, live_growth_hist, maxnodes, ctor_installed, ctor_lost, lookups, registers, abandoned,
           soft_hits[0], soft_hits[1], (unsigned long long)vf_yield_hits(PARSEC_VERIF_SITE_INFO));
    return vf_nviolations ? 1 : 0;
}

int main(int argc, char **argv) {
    const char *mode = vf_arg(argc, argv, "--mode", "seq");
    sigcap = (size_t)vf_arg_ll(argc, argv, "--sigcap", 1 << 21); sigset = calloc(sigcap, sizeof(uint64_t));
    vf_yield_config((uint64_t)vf_arg_ll(argc, argv, "--seed", 1), (int)vf_arg_ll(argc, argv, "--yield", 0), (int)vf_arg_ll(argc, argv, "--yield-us", 0), 1ULL << PARSEC_VERIF_SITE_INFO);
    vf_heartbeat_start();
    int rc = !strcmp(mode, "conc") ? run_conc(argc, argv) : run_seq(argc, argv);
    vf_heartbeat_stop();
    return rc;
}
