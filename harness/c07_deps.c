/* C07: a task becomes ready exactly once, when its last input arrives.
 *
 * Direct drive of parsec_update_deps_with_counter / parsec_update_deps_with_mask (parsec/parsec.c) through a
 * fabricated parsec_task_class_t: R releasers (threads released from a barrier) hit the dependency word of
 * the same task instance; the word is located with the real find_deps back-ends (index array, hash table with
 * the real dependencies mempool) or handed over directly.
 *
 * Oracle per instance (one "case"):
 *   - exactly one update call returns 1 (ready);
 *   - the call that returned 1 did so only after all R releases of the instance had been invoked
 *     (every releaser bumps inst->invoked immediately BEFORE its call; the winner reads it AFTER its call
 *      returned: a correct implementation makes the winner the last in the atomic order, hence it must see R);
 *   - at quiescence the word holds the final value (counter: 0; mask: IN_DONE | all goal bits, nothing else).
 * The number of releases R is computed by the harness from the shape (what the predecessors of the instance
 * would do), never by the code under test.
 */
#include "parsec/parsec_config.h"
#include "parsec/parsec_internal.h"
#include "parsec/runtime.h"
#include "parsec/execution_stream.h"
#include "parsec/interfaces/interface.h"
#include "parsec/class/parsec_hash_table.h"
#include "parsec/mempool.h"
#include "kit.h"
#include <mpi.h>


/* start-up ticker: MPI_Init + parsec_init (hwloc discovery, thread creation) can take minutes on a loaded box and are not
 * the code under test; keep the driver's stall detector quiet until the monitored phase begins (bounded: 15 minutes) */
static volatile int vf_init_phase = 0; static pthread_t vf_init_thread;
static void *vf_init_tick(void *a) { (void)a; for (int k = 0; vf_init_phase && k < 9000; k++) { usleep(100000); VF_TICK(); } return NULL; }
static void vf_init_begin(void) { vf_heartbeat_start(); vf_init_phase = 1; pthread_create(&vf_init_thread, NULL, vf_init_tick, NULL); }
static void vf_init_end(void) { vf_init_phase = 0; pthread_join(vf_init_thread, NULL); }

#define MAXT      16
#define MAXFLOWS  12
#define MAXB      64          /* instances per batch */
#define MAXREL    80          /* releases per instance (gather <= 64 + flows) */
#define LEAF      8           /* second dimension of the index array */

enum { FK_TASK, FK_MEMCOND, FK_CTL, FK_CTLCOND, FK_GATHER, FK_WONLY };
static const char *fkname[] = {"task", "memcond", "ctl", "ctlcond", "gather", "wonly"};
enum { FIND_DIRECT, FIND_ARRAY, FIND_HASH };
static const char *findname[] = {"direct", "index-array", "hash-table"};

/* ------------------------------------------------------------------ fabricated task class */
/* locals: [0] instance id (key), [1] variant bits v, [2] gather count g, [3] id / LEAF, [4] id % LEAF */
#define BITFN(i) static int32_t bit##i(const parsec_taskpool_t *tp, const parsec_assignment_t *l) { (void)tp; return (l[1].value >> i) & 1; }
BITFN(0) BITFN(1) BITFN(2) BITFN(3) BITFN(4) BITFN(5) BITFN(6) BITFN(7) BITFN(8) BITFN(9) BITFN(10) BITFN(11)
static parsec_expr_op_int32_inline_func_t bitfn[MAXFLOWS] = {bit0, bit1, bit2, bit3, bit4, bit5, bit6, bit7, bit8, bit9, bit10, bit11};
static int32_t gatherfn(const parsec_taskpool_t *tp, const parsec_assignment_t *l) { (void)tp; return l[2].value; }

static parsec_expr_t cond_expr[MAXFLOWS], gather_expr;
static parsec_dep_t dep_a[MAXFLOWS], dep_b[MAXFLOWS];
static parsec_flow_t flows[MAXFLOWS], origin_flow;
static parsec_symbol_t sym_hi, sym_lo, sym_id;
static parsec_task_class_t tc, origin_tc;
static parsec_taskpool_t *tp;
static parsec_task_t origin_task;

static int mode_mask, find_mode, nflows, fkind[MAXFLOWS];

static parsec_key_t make_key(const parsec_taskpool_t *t, const parsec_assignment_t *l) { (void)t; return (parsec_key_t)(uint64_t)l[0].value; }

static void build_class(void)
{
    memset(&tc, 0, sizeof tc); memset(flows, 0, sizeof flows); memset(dep_a, 0, sizeof dep_a); memset(dep_b, 0, sizeof dep_b);
    int has_in_in = 0, has_gather = 0; parsec_dependency_t goal = 0; int ninputs = 0;
    gather_expr.op = PARSEC_EXPR_OP_INLINE; gather_expr.u_expr.v_func.type = PARSEC_RETURN_TYPE_INT32;
    gather_expr.u_expr.v_func.func.inline_func_int32 = gatherfn;
    for (int i = 0; i < nflows; i++) {
        parsec_flow_t *f = &flows[i];
        cond_expr[i].op = PARSEC_EXPR_OP_INLINE; cond_expr[i].u_expr.v_func.type = PARSEC_RETURN_TYPE_INT32;
        cond_expr[i].u_expr.v_func.func.inline_func_int32 = bitfn[i];
        f->name = "F"; f->sym_type = PARSEC_SYM_IN; f->flow_index = (uint8_t)i;
        dep_a[i].belongs_to = f; dep_a[i].flow = &origin_flow; dep_a[i].task_class_id = 1;
        dep_b[i].belongs_to = f; dep_b[i].flow = &origin_flow; dep_b[i].task_class_id = 1;
        switch (fkind[i]) {
        case FK_TASK:
            f->flow_flags = PARSEC_FLOW_ACCESS_READ | PARSEC_FLOW_HAS_IN_DEPS; f->dep_in[0] = &dep_a[i]; break;
        case FK_MEMCOND:   /* (bit) ? memory : predecessor task */
            f->flow_flags = PARSEC_FLOW_ACCESS_RW | PARSEC_FLOW_HAS_IN_DEPS;
            dep_a[i].cond = &cond_expr[i]; dep_a[i].task_class_id = PARSEC_LOCAL_DATA_TASK_CLASS_ID;
            f->dep_in[0] = &dep_a[i]; f->dep_in[1] = &dep_b[i]; has_in_in = 1; break;
        case FK_CTL:
            f->flow_flags = PARSEC_FLOW_ACCESS_NONE; f->dep_in[0] = &dep_a[i]; break;
        case FK_CTLCOND:   /* (bit) ? control from a task : nothing */
            f->flow_flags = PARSEC_FLOW_ACCESS_NONE; dep_a[i].cond = &cond_expr[i]; f->dep_in[0] = &dep_a[i]; has_in_in = 1; break;
        case FK_GATHER:    /* control gather of g predecessors (counter mode only) */
            f->flow_flags = PARSEC_FLOW_ACCESS_NONE; dep_a[i].ctl_gather_nb = &gather_expr; f->dep_in[0] = &dep_a[i]; has_gather = 1; break;
        case FK_WONLY:     /* write-only flow that names an arena through an input dependency: resolved at once (mask only) */
            f->flow_flags = PARSEC_FLOW_ACCESS_WRITE | PARSEC_FLOW_HAS_IN_DEPS; has_in_in = 1; break;
        }
        tc.in[i] = f; goal |= (1 << i); ninputs++;
    }
    tc.name = "C07"; tc.task_class_id = 0; tc.nb_flows = (uint8_t)nflows; tc.nb_locals = 5;
    tc.task_class_type = PARSEC_TASK_CLASS_TYPE_PTG;
    tc.flags = (uint16_t)((has_in_in ? PARSEC_HAS_IN_IN_DEPENDENCIES : 0) | (has_gather ? PARSEC_HAS_CTL_GATHER : 0) | (mode_mask ? PARSEC_USE_DEPS_MASK : 0));
    tc.dependencies_goal = mode_mask ? goal : ninputs;
    tc.update_deps = mode_mask ? parsec_update_deps_with_mask : parsec_update_deps_with_counter;
    tc.make_key = make_key;
    sym_hi.name = "hi"; sym_hi.context_index = 3; sym_lo.name = "lo"; sym_lo.context_index = 4; sym_id.name = "id"; sym_id.context_index = 0;
    if (find_mode == FIND_ARRAY) { tc.nb_parameters = 2; tc.params[0] = &sym_hi; tc.params[1] = &sym_lo; tc.find_deps = parsec_default_find_deps; }
    else { tc.nb_parameters = 1; tc.params[0] = &sym_id; tc.find_deps = (find_mode == FIND_HASH) ? parsec_hash_find_deps : NULL; }
    memset(&origin_tc, 0, sizeof origin_tc); origin_tc.name = "PRED"; origin_tc.task_class_id = 1; origin_tc.nb_flows = 1;
    memset(&origin_flow, 0, sizeof origin_flow); origin_flow.name = "O"; origin_flow.sym_type = PARSEC_SYM_OUT; origin_flow.flow_flags = PARSEC_FLOW_ACCESS_RW;
    memset(&origin_task, 0, sizeof origin_task); origin_task.task_class = &origin_tc; origin_task.taskpool = tp;
}

/* what the predecessors of instance (v,g) do: number of releases per flow (harness-side reference) */
static int releases_of_flow(int i, int v, int g)
{
    switch (fkind[i]) {
    case FK_TASK: case FK_CTL: return 1;
    case FK_MEMCOND: return ((v >> i) & 1) ? 0 : 1;
    case FK_CTLCOND: return ((v >> i) & 1) ? 1 : 0;
    case FK_GATHER:  return g;
    default: return 0;
    }
}

/* ------------------------------------------------------------------ batch state */
typedef struct { int16_t inst; int16_t flow; } rel_t;
typedef struct {
    volatile int32_t invoked, winners, arrived;
    int v, g, R, participants;
    volatile int win_tid, win_rank, win_post, overlapped, early;
    uint8_t rank_tid[MAXREL];
    char pad[64];
} inst_t;

static inst_t inst[MAXB];
static rel_t *tlist[MAXT]; static int tn[MAXT];
static int T, B, walk, rendezvous;             /* threads, instances in this batch, walk pattern, align arrivals per instance */
static parsec_dependency_t direct_words[MAXB * 16];   /* one word per cache line */
static parsec_dependencies_t *arr_root;
static parsec_hash_table_t *ht; static int ht_bits = 10;
static parsec_mempool_t dep_mempool;
static parsec_execution_stream_t *fake_es[MAXT];
static vf_spinbar_t bar;
static volatile int stop;
static uint64_t seed;
static long nbatches, batch_no;

/* statistics */
static long n_cases, n_overlapped, n_distinct, n_releases, n_seq_cases, n_gather_rel, n_pre_bits;
static long win_first, win_middle, win_last, win_by_tid[MAXT], n_maxR;
static uint64_t *sigset; static size_t sigcap = 1 << 21, nsig;
static int nsamples;

static int sig_add(uint64_t s) {
    if (!s) s = 1;
    size_t i = (size_t)(s % sigcap);
    while (sigset[i]) { if (sigset[i] == s) return 0; i = (i + 1) % sigcap; }
    if (nsig * 2 < sigcap) { sigset[i] = s; nsig++; }
    return 1;
}

static void set_locals(parsec_task_t *t, int id, int v, int g) {
    t->locals[0].value = id; t->locals[1].value = v; t->locals[2].value = g; t->locals[3].value = id / LEAF; t->locals[4].value = id % LEAF;
}

static void worker_release(int tid)
{
    parsec_task_t task;                         /* the runtime also builds the successor description on the stack */
    memset(&task, 0, sizeof task);
    task.task_class = &tc; task.taskpool = tp; task.priority = 0;
    int n = tn[tid];
    for (int k = 0; k < n; k++) {
        int idx = k;
        if (walk == 1) idx = (k + (tid * n) / (T > 0 ? T : 1)) % n;       /* rotated start per thread */
        else if (walk == 2 && (tid & 1)) idx = n - 1 - k;                  /* odd threads walk backwards */
        rel_t r = tlist[tid][idx];
        inst_t *I = &inst[r.inst];
        if (rendezvous && (k == 0 || tlist[tid][k - 1].inst != r.inst)) {
            /* race amplifier: wait (bounded, never blocking) until the other releasers of this instance are here too */
            __atomic_fetch_add(&I->arrived, 1, __ATOMIC_SEQ_CST);
            for (int sp = 0; sp < 4000 && __atomic_load_n(&I->arrived, __ATOMIC_RELAXED) < I->participants; sp++) __builtin_ia32_pause();
        }
        set_locals(&task, r.inst, I->v, I->g);
        parsec_dependency_t *deps = (find_mode == FIND_DIRECT) ? &direct_words[r.inst * 16] : tc.find_deps(tp, fake_es[tid], &task);
        int rank = __atomic_fetch_add(&I->invoked, 1, __ATOMIC_SEQ_CST);
        int ret = tc.update_deps(tp, &task, deps, &origin_task, &origin_flow, &flows[r.flow]);
        int post = __atomic_load_n(&I->invoked, __ATOMIC_SEQ_CST);
        if (rank < MAXREL) I->rank_tid[rank] = (uint8_t)tid;
        if (post > rank + 1) I->overlapped = 1;
        if (ret) {
            int w = __atomic_fetch_add(&I->winners, 1, __ATOMIC_SEQ_CST);
            if (w == 0) { I->win_tid = tid; I->win_rank = rank; I->win_post = post; }
            if (post < I->R) I->early = post;
        }
    }
}

static const char *modename(void) { return mode_mask ? "mask" : "counter"; }

static void describe(inst_t *I, char *buf, size_t n)
{
    int p = snprintf(buf, n, "mode=%s find=%s flows=", modename(), findname[find_mode]);
    for (int i = 0; i < nflows; i++) p += snprintf(buf + p, n - p, "%s%s", i ? "," : "", fkname[fkind[i]]);
    p += snprintf(buf + p, n - p, " v=0x%x g=%d R=%d threads=%d arrival=", I->v, I->g, I->R, T);
    for (int k = 0; k < I->R && k < 24; k++) p += snprintf(buf + p, n - p, "%d%s", I->rank_tid[k], k + 1 < I->R ? "." : "");
}

/* leader: judge the finished batch */
static void judge_batch(void)
{
    parsec_task_t task; memset(&task, 0, sizeof task); task.task_class = &tc; task.taskpool = tp;
    char d[700];
    for (int b = 0; b < B; b++) {
        inst_t *I = &inst[b];
        parsec_dependency_t word; int have_word = 1;
        if (find_mode == FIND_DIRECT) word = direct_words[b * 16];
        else if (find_mode == FIND_ARRAY) { set_locals(&task, b, I->v, I->g); word = *parsec_default_find_deps(tp, NULL, &task); }
        else {
            parsec_hashable_dependency_t *hd = (parsec_hashable_dependency_t *)parsec_hash_table_remove(ht, (parsec_key_t)(uint64_t)b);
            if (NULL == hd) { have_word = 0; word = 0; describe(I, d, sizeof d); vf_violation(mode_mask ? "mask:hash-entry-missing" : "counter:hash-entry-missing", "batch %ld inst %d: no dependency entry left in the hash table after %d releases (%s)", batch_no, b, I->R, d); }
            else { word = hd->dependency; parsec_thread_mempool_free(hd->mempool_owner, hd); }
        }
        n_cases++; n_releases += I->R; if (T == 1 || I->R == 1) n_seq_cases++;
        if (I->winners != 1 || I->early || I->invoked != I->R) {
            describe(I, d, sizeof d);
            if (I->invoked != I->R) vf_violation("harness:release-count", "batch %ld inst %d: %d releases issued, %d planned (%s)", batch_no, b, I->invoked, I->R, d);
            else if (I->winners == 0) vf_violation(mode_mask ? "mask:never-ready" : "counter:never-ready", "batch %ld inst %d: all %d releases returned 0, final word 0x%x (%s)", batch_no, b, I->R, (unsigned)word, d);
            else if (I->winners > 1) vf_violation(mode_mask ? "mask:ready-more-than-once" : "counter:ready-more-than-once", "batch %ld inst %d: %d of %d releases returned ready, final word 0x%x (%s)", batch_no, b, I->winners, I->R, (unsigned)word, d);
            else vf_violation(mode_mask ? "mask:ready-before-last-release" : "counter:ready-before-last-release", "batch %ld inst %d: a release returned ready when only %d of %d releases had been invoked (%s)", batch_no, b, I->early, I->R, d);
            return;
        }
        if (have_word) {
            int ok;
            if (!mode_mask) ok = (word == 0);
            else ok = (((uint32_t)word & 0x1fffffffu) == (uint32_t)tc.dependencies_goal) && ((uint32_t)word & (1u << 30));   /* bits 31/30/29: TASK_DONE / IN_DONE / STARTUP */
            if (!ok) { describe(I, d, sizeof d); vf_violation(mode_mask ? "mask:final-word" : "counter:final-word", "batch %ld inst %d: exactly one ready but the word ends as 0x%x (goal 0x%x) (%s)", batch_no, b, (unsigned)word, (unsigned)tc.dependencies_goal, d); return; }
        }
        /* coverage */
        if (I->win_rank == 0 && I->R > 1) win_first++; else if (I->win_rank == I->R - 1) win_last++; else win_middle++;
        win_by_tid[I->win_tid]++;
        if (I->R > n_maxR) n_maxR = I->R;
        if (I->overlapped && T > 1) {
            n_overlapped++;
            uint64_t s = vf_mix((uint64_t)mode_mask * 3 + find_mode, (uint64_t)I->R * 131 + I->win_rank);
            for (int i = 0; i < nflows; i++) s = vf_mix(s, (uint64_t)fkind[i] + 7);
            s = vf_mix(s, (uint64_t)I->v);
            for (int k = 0; k < I->R && k < MAXREL; k++) s = vf_mix(s, I->rank_tid[k] + 1);
            if (sig_add(s)) n_distinct++;
            if (nsamples < 4 && I->win_rank != I->R - 1) { nsamples++; describe(I, d, sizeof d); vf_out("{\"type\":\"case\",\"desc\":\"%s\",\"winner_tid\":%d,\"winner_arrival_rank\":%d,\"releases\":%d}", d, I->win_tid, I->win_rank, I->R); }
        }
    }
}

/* leader: prepare the next batch */
static vf_rng_t lrng;
static int max_gather = 16;
static void prepare_batch(void)
{
    B = 1 + (int)vf_randn(&lrng, MAXB);
    if (vf_chance(&lrng, 300)) B = 1 + (int)vf_randn(&lrng, 4);
    walk = (int)vf_randn(&lrng, 4); if (walk == 3) walk = 0;
    rendezvous = (walk == 0) && vf_chance(&lrng, 750);
    for (int t = 0; t < T; t++) tn[t] = 0;
    if (find_mode == FIND_DIRECT) memset(direct_words, 0, sizeof direct_words);
    if (find_mode == FIND_ARRAY) for (int h = 0; h < (MAXB + LEAF - 1) / LEAF; h++) memset(arr_root->u.next[h]->u.dependencies, 0, LEAF * sizeof(parsec_dependency_t));
    for (int b = 0; b < B; b++) {
        inst_t *I = &inst[b];
        int v, g, R, tries = 0;
        do {
            v = (int)vf_randn(&lrng, 1u << nflows); g = 1 + (int)vf_randn(&lrng, (uint32_t)max_gather);
            if (vf_chance(&lrng, 100)) g = 0;
            R = 0; for (int i = 0; i < nflows; i++) R += releases_of_flow(i, v, g);
        } while ((R < 1 || R > MAXREL) && ++tries < 1000);
        if (R < 1 || R > MAXREL) { v = 0; g = 1; R = 0; for (int i = 0; i < nflows; i++) R += releases_of_flow(i, v, g); if (mode_mask) { v = 0; } }
        if (R < 1) {   /* shape whose only releasing flows are conditional: force the bits */
            v = 0; for (int i = 0; i < nflows; i++) if (fkind[i] == FK_CTLCOND) v |= 1 << i;
            R = 0; for (int i = 0; i < nflows; i++) R += releases_of_flow(i, v, g);
        }
        I->v = v; I->g = g; I->R = R; I->invoked = 0; I->winners = 0; I->arrived = 0; I->participants = R < T ? R : T; I->win_tid = -1; I->win_rank = -1; I->win_post = 0; I->overlapped = 0; I->early = 0;
        int off = (int)vf_randn(&lrng, (uint32_t)T), k = 0;
        /* flows in random order, the releases of a gather spread over the threads */
        int order[MAXFLOWS]; for (int i = 0; i < nflows; i++) order[i] = i;
        for (int i = nflows - 1; i > 0; i--) { int j = (int)vf_randn(&lrng, (uint32_t)i + 1); int x = order[i]; order[i] = order[j]; order[j] = x; }
        for (int oi = 0; oi < nflows; oi++) {
            int i = order[oi], c = releases_of_flow(i, v, g);
            if (fkind[i] == FK_GATHER) n_gather_rel += c;
            if (c == 0 && fkind[i] != FK_GATHER) n_pre_bits++;
            for (int q = 0; q < c; q++, k++) { int t = (off + k) % T; tlist[t][tn[t]++] = (rel_t){(int16_t)b, (int16_t)i}; }
        }
    }
}

static void worker(int tid, int nt, void *arg)
{
    (void)nt; (void)arg;
    for (;;) {
        if (tid == 0) {
            if (batch_no > 0) judge_batch();
            if (vf_nviolations || batch_no >= nbatches) stop = 1; else { prepare_batch(); batch_no++; VF_TICK(); }
        }
        vf_spinbar_wait(&bar);
        if (stop) return;
        worker_release(tid);
        vf_spinbar_wait(&bar);
    }
}

int main(int argc, char **argv)
{
    vf_init_begin();
    int prov; MPI_Init_thread(&argc, &argv, MPI_THREAD_SERIALIZED, &prov);
    cpu_set_t cpus; int have_cpus = (0 == sched_getaffinity(0, sizeof cpus, &cpus));
    int pargc = 1; char *pargv_s[2] = {argv[0], NULL}; char **pargv = pargv_s;
    parsec_context_t *ctx = parsec_init(1, &pargc, &pargv);
    if (!ctx) { fprintf(stderr, "parsec_init failed\n"); return 2; }
    /* parsec_init binds the calling thread to one core and new threads inherit that mask: undo it, otherwise all
     * harness threads share one core and nothing ever overlaps */
    if (have_cpus) sched_setaffinity(0, sizeof cpus, &cpus);
    vf_init_end();
    seed = (uint64_t)vf_arg_ll(argc, argv, "--seed", 1);
    T = (int)vf_arg_ll(argc, argv, "--threads", 4); if (T < 1) T = 1; if (T > MAXT) T = MAXT;
    nbatches = vf_arg_ll(argc, argv, "--batches", 1000);
    mode_mask = !strcmp(vf_arg(argc, argv, "--mode", "counter"), "mask");
    const char *fm = vf_arg(argc, argv, "--find", "direct");
    find_mode = !strcmp(fm, "hash") ? FIND_HASH : !strcmp(fm, "array") ? FIND_ARRAY : FIND_DIRECT;
    ht_bits = (int)vf_arg_ll(argc, argv, "--ht-bits", 10);
    max_gather = (int)vf_arg_ll(argc, argv, "--max-gather", 16); if (max_gather < 1) max_gather = 1; if (max_gather > 64) max_gather = 64;
    /* --flows t,m,c,k,g,w : one letter per flow */
    const char *fl = vf_arg(argc, argv, "--flows", "tt");
    nflows = 0;
    for (const char *p = fl; *p && nflows < MAXFLOWS; p++) {
        int k = -1;
        switch (*p) { case 't': k = FK_TASK; break; case 'm': k = FK_MEMCOND; break; case 'c': k = FK_CTL; break; case 'k': k = FK_CTLCOND; break;
                      case 'g': k = FK_GATHER; break; case 'w': k = FK_WONLY; break; default: break; }
        if (k < 0) continue;
        if (mode_mask && k == FK_GATHER) { fprintf(stderr, "gather is counter-only\n"); return 2; }
        if (!mode_mask && k == FK_WONLY) { fprintf(stderr, "wonly is mask-only\n"); return 2; }
        fkind[nflows++] = k;
    }
    if (nflows < 1) return 2;
    int pm = (int)vf_arg_ll(argc, argv, "--yield", 0);
    vf_yield_config(seed, pm, (int)vf_arg_ll(argc, argv, "--yield-us", 0), (1ULL << PARSEC_VERIF_SITE_DEPS_COUNTER) | (1ULL << PARSEC_VERIF_SITE_DEPS_MASK));

    tp = PARSEC_OBJ_NEW(parsec_taskpool_t); tp->context = ctx; tp->taskpool_name = "c07";
    tp->dependencies_array = (void **)calloc(2, sizeof(void *));
    build_class();
    /* index array: root (NEXT) -> leaves (FINAL) */
    int nh = (MAXB + LEAF - 1) / LEAF;
    arr_root = calloc(1, sizeof(parsec_dependencies_t) + nh * sizeof(parsec_dependencies_union_t));
    arr_root->flags = PARSEC_DEPENDENCIES_FLAG_NEXT | PARSEC_DEPENDENCIES_FLAG_ALLOCATED; arr_root->min = 0; arr_root->max = nh - 1;
    for (int h = 0; h < nh; h++) {
        parsec_dependencies_t *leaf = calloc(1, sizeof(parsec_dependencies_t) + LEAF * sizeof(parsec_dependencies_union_t));
        leaf->flags = PARSEC_DEPENDENCIES_FLAG_FINAL | PARSEC_DEPENDENCIES_FLAG_ALLOCATED; leaf->min = 0; leaf->max = LEAF - 1; arr_root->u.next[h] = leaf;
    }
    ht = PARSEC_OBJ_NEW(parsec_hash_table_t);
    parsec_hash_table_init(ht, offsetof(parsec_hashable_dependency_t, ht_item), ht_bits, parsec_hash_table_generic_key_fn, tp);
    tp->dependencies_array[0] = (find_mode == FIND_HASH) ? (void *)ht : (void *)arr_root;
    parsec_mempool_construct(&dep_mempool, NULL, sizeof(parsec_hashable_dependency_t), offsetof(parsec_hashable_dependency_t, mempool_owner), T);
    for (int t = 0; t < T; t++) {
        fake_es[t] = calloc(1, sizeof(parsec_execution_stream_t)); fake_es[t]->th_id = t;
        fake_es[t]->virtual_process = ctx->virtual_processes[0]; fake_es[t]->dependencies_mempool = &dep_mempool.thread_mempools[t];
        tlist[t] = malloc(sizeof(rel_t) * MAXB * MAXREL);
    }
    sigset = calloc(sigcap, sizeof(uint64_t));
    vf_rng_seed(&lrng, seed, 4242);
    vf_spinbar_init(&bar, T);
    vf_team_run(T, worker, NULL);
    vf_heartbeat_stop();
    char fk[64]; int p = 0; for (int i = 0; i < nflows; i++) p += snprintf(fk + p, sizeof fk - p, "%c", "tmckgw"[fkind[i]]);
    vf_out("{\"type\":\"summary\",\"mode\":\"%s\",\"find\":\"%s\",\"flows\":\"%s\",\"threads\":%d,\"batches\":%ld,\"cases\":%ld,\"releases\":%ld,"
           "\"overlapped\":%ld,\"distinct_overlapped\":%ld,\"sequential_cases\":%ld,\"gather_releases\":%ld,\"presatisfied_inputs\":%ld,"
           "\"winner_first_arrival\":%ld,\"winner_middle_arrival\":%ld,\"winner_last_arrival\":%ld,\"max_releases\":%ld,"
           "\"yield_hits\":%llu,\"winner_tid0\":%ld,\"winner_tid_last\":%ld}",
           modename(), findname[find_mode], fk, T, batch_no, n_cases, n_releases, n_overlapped, n_distinct, n_seq_cases, n_gather_rel, n_pre_bits,
           win_first, win_middle, win_last, n_maxR,
           (unsigned long long)(vf_yield_hits(PARSEC_VERIF_SITE_DEPS_COUNTER) + vf_yield_hits(PARSEC_VERIF_SITE_DEPS_MASK)), win_by_tid[0], win_by_tid[T - 1]);
    fflush(stdout);
    /* no parsec_fini: the fabricated taskpool is not registered; exit directly */
    _exit(vf_nviolations ? 1 : 0);
}
