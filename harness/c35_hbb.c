/* C35: task buffers and heaps keep every task and prefer the best.
 * Real parsec_hbbuffer_* and heap_* functions of libparsec, driven directly on fabricated tasks.
 * Modes:
 *   heap - sequential histories on the scheduler max-heap (insert / heap_remove / heap_split_and_steal, heaps of 1..64
 *          tasks split repeatedly): after every operation every heap is walked (complete shape for its size, heap order,
 *          top = maximum, heap->priority, every task in exactly one heap); every removed task is the maximum of its heap
 *          and comes out exactly once.
 *   hbb  - sequential histories on chains of 1..3 hierarchical bounded buffers (sizes 1..8, rings of 1..16 tasks,
 *          distances 0..2, push_all and push_all_by_priority, pop_best): after every operation the buffers and the
 *          test-owned root store are scanned: every pushed-and-not-popped task is held exactly once (conservation), the
 *          ring handed to the parent is well formed, a push at distance 0 only overflows when the buffer is full, and
 *          pop_best returns a maximal-priority task of the buffer (NULL iff empty).
 *   conc - concurrent pushers / poppers / stealers on per-thread leaf buffers, shared mid buffers and a root store with
 *          yield injection at the hbbuffer sites: single ownership on pop (atomic owner word), conservation at the end,
 *          quiescent pop_best = maximum.
 *   ltq  - the discipline of sched/ltq: HEAPS are stored in the bounded buffers, popped by priority, cut by heap_remove /
 *          heap_split_and_steal and pushed back by several threads; oracle: every task comes out exactly once.
 * Client discipline follows the schedulers (lfq/lhq/pbq/ltq): tasks live in type-stable memory, push_all_by_priority is
 * only issued by the owner of a leaf buffer, shared buffers receive push_all. */
#include "parsec/parsec_config.h"
#include "parsec/parsec_internal.h"
#include "parsec/hbbuffer.h"
#include "parsec/maxheap.h"
#include "kit.h"

#define NPOOL 1024
typedef struct { parsec_task_t t; int id; volatile int owner; int where; } elt_t;   /* where: sequential model (-1 out, else container) */
static elt_t *pool;
#define ELT(p) ((elt_t *)(p))
#define PRIO(p) (((parsec_task_t *)(p))->priority)
static int is_elt(const void *p) { return (const elt_t *)p >= pool && (const elt_t *)p < pool + NPOOL && ((const char *)p - (const char *)pool) % sizeof(elt_t) == 0; }

typedef struct { unsigned char op; short a, b, c; int d; } lop_t;
static lop_t *olog; static int nolog, olog_cap;
static void log_op(int op, int a, int b, int c, int d) {
    if (nolog == olog_cap) { olog_cap = olog_cap ? olog_cap * 2 : 1024; olog = realloc(olog, olog_cap * sizeof(lop_t)); }
    olog[nolog++] = (lop_t){(unsigned char)op, (short)a, (short)b, (short)c, d};
}
static uint64_t hist_sig(uint64_t h) { for (int i = 0; i < nolog; i++) h = vf_mix(h, olog[i].op + 16 * (uint64_t)(unsigned short)olog[i].a + (1 << 20) * (uint64_t)(unsigned short)olog[i].b + ((uint64_t)(unsigned short)olog[i].c << 36) + ((uint64_t)(uint32_t)olog[i].d << 20)); return h; }
static uint64_t *sigset; static size_t sigcap, nsig;
static int sig_add(uint64_t s) {
    if (!s) s = 1;
    size_t i = (size_t)(s % sigcap);
    while (sigset[i]) { if (sigset[i] == s) return 0; i = (i + 1) % sigcap; }
    if (nsig * 2 < sigcap) { sigset[i] = s; nsig++; }
    return 1;
}
static int gen_prio(vf_rng_t *r, int pmode) { return pmode == 0 ? (int)vf_randn(r, 4) : pmode == 1 ? (int)vf_randn(r, 40) - 20 : (int)(vf_rand(r) >> 33) - (1 << 30); }

/* =================================================================== max-heap */
#define MAXH 256
static parsec_heap_t *heaps[MAXH]; static int nheaps;
static const char *hopname[] = {"new", "ins", "remove", "split"};
static long hc_ins, hc_rem, hc_split, hc_split_real, hc_destroyed, hc_walks, hc_ins_after_cut, hc_maxsize;

static void heap_history(const char *why) {
    char buf[3600]; int p = 0; int from = nolog > 110 ? nolog - 110 : 0;
    p += snprintf(buf + p, sizeof buf - p, "ops(%d, last %d; new/ins(heap,task,prio) remove/split(heap)->task): ", nolog, nolog - from);
    for (int i = from; i < nolog && p < 3500; i++) {
        if (olog[i].op <= 1) p += snprintf(buf + p, sizeof buf - p, "%s(h%d,t%d,p%d) ", hopname[olog[i].op], olog[i].a, olog[i].b, olog[i].d);
        else p += snprintf(buf + p, sizeof buf - p, "%s(h%d)->t%d ", hopname[olog[i].op], olog[i].a, olog[i].b);
    }
    vf_out("{\"type\":\"history\",\"why\":\"%s\",\"ops\":\"%s\"}", why, buf);
}
static int hw_bad, hw_count, hw_max;
static void heap_walk(parsec_task_t *t, unsigned idx, unsigned size, int parent_prio, int hid, unsigned char *seen) {
    if (!t || hw_bad) return;
    if (!is_elt(t)) { vf_violation("heap:foreign-node", "heap %d: walk reached a pointer that is not a client task (index %u)", hid, idx); hw_bad = 1; return; }
    if (idx > size) { vf_violation("heap:shape", "heap %d of size %u has a node at complete-tree index %u", hid, size, idx); hw_bad = 1; return; }
    if (seen[ELT(t)->id]) { vf_violation("heap:task-in-two-places", "task %d is reachable twice (second time in heap %d at index %u)", ELT(t)->id, hid, idx); hw_bad = 1; return; }
    seen[ELT(t)->id] = 1; hw_count++;
    if (ELT(t)->where != hid) { vf_violation("heap:task-misplaced", "task %d found in heap %d, the model has it in %d", ELT(t)->id, hid, ELT(t)->where); hw_bad = 1; return; }
    if (t->priority > parent_prio) { vf_violation("heap:order", "heap %d: task %d (priority %d) sits below a node of priority %d", hid, ELT(t)->id, t->priority, parent_prio); hw_bad = 1; return; }
    if (t->priority > hw_max) hw_max = t->priority;
    heap_walk((parsec_task_t *)t->super.list_prev, 2 * idx, size, t->priority, hid, seen);
    heap_walk((parsec_task_t *)t->super.list_next, 2 * idx + 1, size, t->priority, hid, seen);
}
static int model_size[MAXH];
static int heaps_check(const char *after) {
    unsigned char seen[NPOOL]; memset(seen, 0, sizeof seen); hc_walks++;
    for (int h = 0; h < nheaps; h++) {
        parsec_heap_t *hp = heaps[h];
        if (!hp->top) { vf_violation("heap:empty-heap-kept", "after %s: heap %d has no top but was not destroyed", after, h); return 0; }
        hw_bad = 0; hw_count = 0; hw_max = INT32_MIN;
        heap_walk(hp->top, 1, hp->size, INT32_MAX, h, seen);
        if (hw_bad) return 0;
        if ((unsigned)hw_count != hp->size) { vf_violation("heap:size", "after %s: heap %d records size %u but holds %d tasks", after, h, hp->size, hw_count); return 0; }
        if (hw_count != model_size[h]) { vf_violation("heap:task-lost", "after %s: heap %d holds %d tasks, the model has %d", after, h, hw_count, model_size[h]); return 0; }
        if (hp->top->priority != hw_max) { vf_violation("heap:top-not-max", "after %s: heap %d top has priority %d, a task of priority %d is inside", after, h, hp->top->priority, hw_max); return 0; }
        if (hp->priority != (unsigned)hp->top->priority) { vf_violation("heap:priority-field", "after %s: heap %d advertises priority %d, its top has %d", after, h, (int)hp->priority, hp->top->priority); return 0; }
        if ((int)hp->size > hc_maxsize) hc_maxsize = hp->size;
    }
    for (int i = 0; i < NPOOL; i++) if (pool[i].where >= 0 && !seen[i]) { vf_violation("heap:task-lost", "after %s: task %d should be in heap %d but no walk reaches it", after, i, pool[i].where); return 0; }
    return 1;
}
static void heap_slot_swap_last(int h) {     /* remove slot h of heaps[] by moving the last heap in; fix the model */
    int last = --nheaps;
    if (h != last) { heaps[h] = heaps[last]; model_size[h] = model_size[last]; for (int i = 0; i < NPOOL; i++) if (pool[i].where == last) pool[i].where = h; }
}
static int run_heap(int argc, char **argv) {
    long nh = vf_arg_ll(argc, argv, "--histories", 1000); uint64_t seed = (uint64_t)vf_arg_ll(argc, argv, "--seed", 1);
    int ins_after_cut = (int)vf_arg_ll(argc, argv, "--insert-after-cut", 1);
    long done = 0, distinct = 0, nontrivial = 0, samples = 0, ops = 0;
    for (long hno = 0; hno < nh && !vf_nviolations; hno++) {
        vf_rng_t r; vf_rng_seed(&r, seed, (uint64_t)hno + 1);
        int ntasks = 1 + (int)vf_randn(&r, vf_chance(&r, 300) ? 8 : 64), pmode = (int)vf_randn(&r, 3), nfree = ntasks, out = 0, cut = 0;
        int freel[64]; for (int i = 0; i < ntasks; i++) { freel[i] = i; pool[i].where = -1; }
        nheaps = 0; nolog = 0; int ok = 1; int refill = vf_chance(&r, 300);
        int steps = 0;
        while (ok && (nfree || nheaps) && steps++ < 4000) {
            int t = (int)vf_randn(&r, 100); int draining = steps > 1200;
            if (draining && !nheaps) break;
            int build_bias = !draining && nfree && (nheaps == 0 || t < (out == 0 ? 97 : 25));
            if (build_bias && (cut == 0 || ins_after_cut || nheaps == 0)) {
                int h; int fresh = nheaps == 0 || (nheaps < MAXH && vf_chance(&r, out == 0 ? 25 : 120));
                if (fresh) { h = nheaps++; heaps[h] = heap_create(); model_size[h] = 0; }
                else { h = (int)vf_randn(&r, (uint32_t)nheaps); if (cut) hc_ins_after_cut++; }
                int e = freel[--nfree]; pool[e].t.priority = gen_prio(&r, pmode); pool[e].where = h; model_size[h]++;
                heap_insert(heaps[h], &pool[e].t); hc_ins++; log_op(fresh ? 0 : 1, h, e, 0, pool[e].t.priority);
                ok = heaps_check("heap_insert");
            } else if (nheaps) {
                int h = (int)vf_randn(&r, (uint32_t)nheaps), split = vf_chance(&r, 500);
                parsec_heap_t *hp = heaps[h], *nw = NULL; int maxp = hp->top->priority, sz0 = model_size[h];
                /* the maximum of the heap according to the model */
                int mmax = INT32_MIN; for (int i = 0; i < ntasks; i++) if (pool[i].where == h && pool[i].t.priority > mmax) mmax = pool[i].t.priority;
                parsec_task_t *x = split ? heap_split_and_steal(&hp, &nw) : heap_remove(&hp);
                cut = 1; if (split) hc_split++; else hc_rem++;
                log_op(split ? 3 : 2, h, x && is_elt(x) ? ELT(x)->id : -1, 0, 0);
                if (!x || !is_elt(x)) { vf_violation("heap:remove:nothing", "%s on heap %d of %d tasks returned %s", hopname[split ? 3 : 2], h, sz0, x ? "a foreign pointer" : "NULL"); ok = 0; break; }
                if (ELT(x)->where != h) { vf_violation(ELT(x)->where < 0 ? "heap:task-returned-twice" : "heap:task-misplaced", "%s on heap %d returned task %d which the model has in %d", hopname[split ? 3 : 2], h, ELT(x)->id, ELT(x)->where); ok = 0; break; }
                if (x->priority != mmax) { vf_violation("heap:remove:not-max", "%s on heap %d returned task %d of priority %d, the heap held priority %d (top said %d)", hopname[split ? 3 : 2], h, ELT(x)->id, x->priority, mmax, maxp); ok = 0; break; }
                ELT(x)->where = -1; out++; model_size[h]--;
                if (refill && !draining && vf_chance(&r, 400)) freel[nfree++] = ELT(x)->id;      /* the task may be scheduled again later */
                if (sz0 == 1) { if (hp != NULL) { vf_violation("heap:empty-heap-kept", "removing the only task of heap %d left a heap pointer behind", h); ok = 0; break; } hc_destroyed++; heap_slot_swap_last(h); }
                else {
                    if (hp == NULL) { vf_violation("heap:heap-lost", "heap %d still held %d tasks but the heap pointer was cleared", h, sz0 - 1); ok = 0; break; }
                    heaps[h] = hp;
                    if (nw) {      /* the rest was split: the model learns the partition by walking the new heap (every task must still be one of heap h) */
                        hc_split_real++;
                        if (nheaps >= MAXH) { vf_violation("heap:harness", "too many heaps"); ok = 0; break; }
                        int nid = nheaps++; heaps[nid] = nw; model_size[nid] = 0;
                        parsec_task_t *stack[128]; int sp = 0; stack[sp++] = nw->top; int guard = 0;
                        while (sp && guard++ < 200) { parsec_task_t *q = stack[--sp]; if (!q) continue; if (!is_elt(q) || ELT(q)->where != h) { vf_violation("heap:split:foreign", "split of heap %d put a task that was not in it into the new heap", h); ok = 0; break; }
                            ELT(q)->where = nid; model_size[nid]++; model_size[h]--; if (sp < 126) { stack[sp++] = (parsec_task_t *)q->super.list_prev; stack[sp++] = (parsec_task_t *)q->super.list_next; } }
                        if (!ok) break;
                        if (model_size[h] <= 0 || model_size[nid] <= 0) { vf_violation("heap:split:empty-side", "split of heap %d (%d tasks left) produced an empty side", h, sz0 - 1); ok = 0; break; }
                    }
                }
                ok = heaps_check(split ? "heap_split_and_steal" : "heap_remove");
            }
            ops++; if ((ops & 63) == 0) VF_TICK();
        }
        if (ok) for (int i = 0; i < ntasks; i++) if (pool[i].where >= 0) { vf_violation("heap:task-lost", "history ended with task %d still inside and no heap left", i); ok = 0; break; }
        if (!ok) { heap_history("violation"); break; }
        while (nheaps) { parsec_heap_t *hp = heaps[--nheaps]; while (hp) heap_remove(&hp); }
        done++;
        if (nolog >= 3) { nontrivial++; if (sig_add(hist_sig(0x35))) distinct++; if (samples < 2 && nolog < 36) { samples++; heap_history("sample"); } }
    }
    vf_out("{\"type\":\"summary\",\"mode\":\"heap\",\"histories\":%ld,\"nontrivial\":%ld,\"distinct\":%ld,\"ops\":%ld,\"walks\":%ld,\"inserts\":%ld,\"removes\":%ld,\"splits\":%ld,\"splits_in_two\":%ld,"
           "\"heaps_emptied\":%ld,\"inserts_after_cut\":%ld,\"max_heap_size\":%ld}", done, nontrivial, distinct, ops, hc_walks, hc_ins, hc_rem, hc_split, hc_split_real, hc_destroyed, hc_ins_after_cut, hc_maxsize);
    return vf_nviolations ? 1 : 0;
}

/* =================================================================== hbbuffer, sequential */
#define MAXLEV 3
static parsec_hbbuffer_t *B[MAXLEV]; static int nlev;
#define W_OUT (-1)
#define W_SYS 1                     /* pushed and not popped: must be held by exactly one buffer slot or the root store */
static unsigned char in_root[NPOOL]; static int root_count, root_bad;
static long bc_push, bc_pushp, bc_pop, bc_pop_null, bc_to_parent, bc_to_root, bc_evict_runs, bc_scans, bc_unsorted, bc_dist_nonzero, bc_elts_pushed;
static const char *bopname[] = {"push_all", "push_by_prio", "pop_best", "root_pop"};

static void hbb_history(const char *why) {
    char buf[3600]; int p = 0; int from = nolog > 90 ? nolog - 90 : 0;
    p += snprintf(buf + p, sizeof buf - p, "levels=%d sizes=[", nlev); for (int l = 0; l < nlev; l++) p += snprintf(buf + p, sizeof buf - p, "%d%s", (int)B[l]->size, l + 1 < nlev ? "," : "");
    p += snprintf(buf + p, sizeof buf - p, "] ops(%d, last %d; push(level,n,dist) pop(level)->prio): ", nolog, nolog - from);
    for (int i = from; i < nolog && p < 3500; i++) {
        if (olog[i].op <= 1) p += snprintf(buf + p, sizeof buf - p, "%s(L%d,%d,d%d) ", bopname[olog[i].op], olog[i].a, olog[i].b, olog[i].c);
        else p += snprintf(buf + p, sizeof buf - p, "%s(L%d)->%d ", bopname[olog[i].op], olog[i].a, olog[i].d);
    }
    vf_out("{\"type\":\"history\",\"why\":\"%s\",\"ops\":\"%s\"}", why, buf);
}
/* walks a ring handed to a parent store; returns the number of elements or -1 */
static int ring_check(parsec_list_item_t *ring, const char *who) {
    int n = 0; parsec_list_item_t *it = ring;
    do {
        if (!it || !is_elt(it)) { vf_violation("hbb:parent-ring-malformed", "%s received a ring that leaves the client tasks after %d elements", who, n); return -1; }
        parsec_list_item_t *nx = (parsec_list_item_t *)it->list_next;
        if (!nx || !is_elt(nx) || (parsec_list_item_t *)nx->list_prev != it) { vf_violation("hbb:parent-ring-malformed", "%s received a ring whose next/prev links disagree at element %d (task %d)", who, n, ELT(it)->id); return -1; }
        if (++n > NPOOL) { vf_violation("hbb:parent-ring-malformed", "%s received a ring that does not close", who); return -1; }
        it = nx;
    } while (it != ring);
    return n;
}
static void root_push_seq(void *store, parsec_list_item_t *ring, int32_t distance) {
    (void)store; (void)distance;
    int n = ring_check(ring, "the root store"); if (n < 0) { root_bad = 1; return; }
    parsec_list_item_t *it = ring;
    for (int k = 0; k < n; k++) { int id = ELT(it)->id; if (in_root[id]) { vf_violation("hbb:task-in-two-places", "task %d handed to the root store twice", id); root_bad = 1; return; } in_root[id] = 1; root_count++; it = (parsec_list_item_t *)it->list_next; }
    bc_to_root += n;
}
static void mid_push(void *store, parsec_list_item_t *ring, int32_t distance) {   /* the runtime's parsec_mca_sched_push_in_buffer_wrapper */
    int n = ring_check(ring, "a parent buffer"); if (n < 0) { root_bad = 1; return; }
    bc_to_parent += n;
    parsec_hbbuffer_push_all((parsec_hbbuffer_t *)store, ring, distance);
}
static int count_in(parsec_hbbuffer_t *b) { int c = 0; for (size_t i = 0; i < b->size; i++) c += b->items[i] != NULL; return c; }
static int hbb_scan(const char *after) {
    unsigned char seen[NPOOL]; memset(seen, 0, sizeof seen); bc_scans++;
    if (root_bad) return 0;
    for (int l = 0; l < nlev; l++) for (size_t i = 0; i < B[l]->size; i++) {
        parsec_list_item_t *e = (parsec_list_item_t *)B[l]->items[i]; if (!e) continue;
        if (!is_elt(e)) { vf_violation("hbb:foreign-pointer", "after %s: slot %d of level %d holds a pointer that is not a client task", after, (int)i, l); return 0; }
        if (seen[ELT(e)->id]) { vf_violation("hbb:task-in-two-places", "after %s: task %d is held twice (again in level %d slot %d)", after, ELT(e)->id, l, (int)i); return 0; }
        seen[ELT(e)->id] = 1;
    }
    for (int i = 0; i < NPOOL; i++) {
        if (in_root[i]) { if (seen[i]) { vf_violation("hbb:task-in-two-places", "after %s: task %d is in a buffer and in the root store", after, i); return 0; } seen[i] = 1; }
        if (pool[i].where == W_SYS && !seen[i]) { vf_violation("hbb:task-lost", "after %s: task %d (priority %d) was pushed, never popped, and is in no buffer and not in the root store", after, i, pool[i].t.priority); return 0; }
        if (pool[i].where == W_OUT && seen[i]) { vf_violation("hbb:task-resurrected", "after %s: task %d was popped but is still held", after, i); return 0; }
    }
    return 1;
}
static int cmp_prio_desc(const void *a, const void *b) { int x = (*(elt_t *const *)a)->t.priority, y = (*(elt_t *const *)b)->t.priority; return x < y ? 1 : x > y ? -1 : 0; }
static int run_hbb(int argc, char **argv) {
    long nh = vf_arg_ll(argc, argv, "--histories", 1000); uint64_t seed = (uint64_t)vf_arg_ll(argc, argv, "--seed", 1); int maxlen = (int)vf_arg_ll(argc, argv, "--maxlen", 60);
    long done = 0, distinct = 0, nontrivial = 0, samples = 0, ops = 0;
    for (long hno = 0; hno < nh && !vf_nviolations; hno++) {
        vf_rng_t r; vf_rng_seed(&r, seed, (uint64_t)hno + 1);
        nlev = 1 + (int)vf_randn(&r, MAXLEV); int pmode = (int)vf_randn(&r, 3); nolog = 0; root_count = 0; root_bad = 0; memset(in_root, 0, sizeof in_root);
        static int dummy_store;
        for (int l = nlev - 1; l >= 0; l--) { size_t sz = 1 + vf_randn(&r, 8);
            B[l] = (l == nlev - 1) ? parsec_hbbuffer_new(sz, 1, root_push_seq, &dummy_store) : parsec_hbbuffer_new(sz, 1, mid_push, B[l + 1]); }
        int nfree = 160; int freel[NPOOL]; for (int i = 0; i < nfree; i++) { freel[i] = i; pool[i].where = W_OUT; }
        int len = 1 + (int)vf_randn(&r, (uint32_t)maxlen), ok = 1; uint64_t sizesig = nlev; for (int l = 0; l < nlev; l++) sizesig = sizesig * 16 + B[l]->size;
        for (int k = 0; k < len && ok; k++) {
            int t = (int)vf_randn(&r, 100), lev = vf_chance(&r, 700) ? 0 : (int)vf_randn(&r, (uint32_t)nlev);
            if (t < 50 && nfree >= 16) {
                int n = 1 + (int)vf_randn(&r, vf_chance(&r, 500) ? 4 : 16), byprio = vf_chance(&r, 500), dist = vf_chance(&r, 750) ? 0 : 1 + (int)vf_randn(&r, 2);
                elt_t *e[16]; for (int i = 0; i < n; i++) { e[i] = &pool[freel[--nfree]]; e[i]->t.priority = gen_prio(&r, pmode); }
                int sorted = 1; if (byprio) { if (vf_chance(&r, 800)) qsort(e, (size_t)n, sizeof e[0], cmp_prio_desc); else { sorted = 0; bc_unsorted++; } }
                (void)sorted;
                parsec_list_item_t *ring = &e[0]->t.super; PARSEC_LIST_ITEM_SINGLETON(ring);
                for (int i = 1; i < n; i++) { PARSEC_LIST_ITEM_SINGLETON(&e[i]->t.super); parsec_list_item_ring_push(ring, &e[i]->t.super); }
                for (int i = 0; i < n; i++) e[i]->where = W_SYS;
                int before = count_in(B[lev]); long up0 = bc_to_parent + bc_to_root;
                if (byprio) { parsec_hbbuffer_push_all_by_priority(B[lev], ring, dist); bc_pushp++; } else { parsec_hbbuffer_push_all(B[lev], ring, dist); bc_push++; }
                bc_elts_pushed += n; if (dist) bc_dist_nonzero++;
                log_op(byprio, lev, n, dist, 0);
                ok = hbb_scan(bopname[byprio]);
                if (ok && dist == 0) {      /* overflow only when full */
                    int after = count_in(B[lev]), want = before + n < (int)B[lev]->size ? before + n : (int)B[lev]->size;
                    if (after != want) { vf_violation("hbb:push:overflow-with-free-slot", "%s of %d tasks at distance 0 into a buffer of %d slots holding %d left it with %d tasks (%ld went to the parent)", bopname[byprio], n, (int)B[lev]->size, before, after, bc_to_parent + bc_to_root - up0); ok = 0; }
                    if (ok && byprio && before + n > (int)B[lev]->size) bc_evict_runs++;
                }
            } else if (t < 90) {
                int best = INT32_MIN, have = 0; for (size_t i = 0; i < B[lev]->size; i++) if (B[lev]->items[i]) { have++; if (PRIO(B[lev]->items[i]) > best) best = PRIO(B[lev]->items[i]); }
                parsec_list_item_t *x = parsec_hbbuffer_pop_best(B[lev], parsec_execution_context_priority_comparator);
                log_op(2, lev, 0, 0, x && is_elt(x) ? PRIO(x) : -999999);
                if (!x) { bc_pop_null++; if (have) { vf_violation("hbb:pop:null-while-holding", "pop_best returned NULL from a quiescent buffer holding %d tasks", have); ok = 0; } }
                else if (!is_elt(x)) { vf_violation("hbb:foreign-pointer", "pop_best returned a pointer that is not a client task"); ok = 0; }
                else {
                    bc_pop++;
                    if (ELT(x)->where != W_SYS) { vf_violation("hbb:task-returned-twice", "pop_best returned task %d which was already popped", ELT(x)->id); ok = 0; }
                    else if (PRIO(x) != best) { vf_violation("hbb:pop:not-best", "quiescent pop_best returned priority %d while the buffer held priority %d", PRIO(x), best); ok = 0; }
                    else { ELT(x)->where = W_OUT; freel[nfree++] = ELT(x)->id; }
                }
                if (ok) ok = hbb_scan("pop_best");
            } else if (root_count) {      /* the system queue gives a task back */
                int i = (int)vf_randn(&r, NPOOL); while (!in_root[i]) i = (i + 1) % NPOOL;
                in_root[i] = 0; root_count--; pool[i].where = W_OUT; freel[nfree++] = i; log_op(3, nlev, 0, 0, pool[i].t.priority);
            }
            ops++; if ((ops & 63) == 0) VF_TICK();
        }
        /* drain: every buffer pops in non-increasing priority order until NULL, the rest must be in the root store */
        for (int l = 0; l < nlev && ok; l++) {
            int last = INT32_MAX; parsec_list_item_t *x; int guard = 0;
            while (ok && (x = parsec_hbbuffer_pop_best(B[l], parsec_execution_context_priority_comparator)) != NULL && guard++ < 64) {
                if (!is_elt(x) || ELT(x)->where != W_SYS) { vf_violation("hbb:task-returned-twice", "drain of level %d returned a task that is not held", l); ok = 0; break; }
                if (PRIO(x) > last) { vf_violation("hbb:pop:not-best", "drain of level %d returned priority %d after %d", l, PRIO(x), last); ok = 0; break; }
                last = PRIO(x); ELT(x)->where = W_OUT; bc_pop++;
            }
            if (ok && count_in(B[l])) { vf_violation("hbb:pop:null-while-holding", "drain of level %d stopped with %d tasks inside", l, count_in(B[l])); ok = 0; }
        }
        if (ok) { for (int i = 0; i < NPOOL; i++) if (in_root[i]) { in_root[i] = 0; pool[i].where = W_OUT; } ok = hbb_scan("drain"); }
        if (!ok) { hbb_history("violation"); break; }
        done++;
        if (nolog >= 3) { nontrivial++; if (sig_add(hist_sig(vf_mix(0x3535, sizesig)))) distinct++; if (samples < 2 && nolog < 24) { samples++; hbb_history("sample"); } }
        for (int l = 0; l < nlev; l++) parsec_hbbuffer_destruct(B[l]);
    }
    vf_out("{\"type\":\"summary\",\"mode\":\"hbb\",\"histories\":%ld,\"nontrivial\":%ld,\"distinct\":%ld,\"ops\":%ld,\"scans\":%ld,\"push_all\":%ld,\"push_by_priority\":%ld,\"tasks_pushed\":%ld,\"pop_best\":%ld,\"pop_null\":%ld,"
           "\"to_parent_buffer\":%ld,\"to_root\":%ld,\"evicting_pushes\":%ld,\"unsorted_rings\":%ld,\"nonzero_distance\":%ld}", done, nontrivial, distinct, ops, bc_scans, bc_push, bc_pushp, bc_elts_pushed, bc_pop, bc_pop_null,
           bc_to_parent, bc_to_root, bc_evict_runs, bc_unsorted, bc_dist_nonzero);
    return vf_nviolations ? 1 : 0;
}

/* =================================================================== hbbuffer, concurrent */
#define MAXT 16
typedef struct { int nt, leaf_sz, mid_sz, ngroups, prio_leaves; long rounds; uint64_t seed; parsec_hbbuffer_t *leaf[MAXT], *mid[MAXT];
                 pthread_mutex_t root_mtx; elt_t *root[NPOOL]; int nroot; volatile long ops, pops, steals, pushes, root_in, root_out, popnull; int per; } conc_t;
static conc_t C;
static void root_push_conc(void *store, parsec_list_item_t *ring, int32_t distance) {
    (void)store; (void)distance;
    int n = ring_check(ring, "the root store"); if (n < 0) return;
    pthread_mutex_lock(&C.root_mtx);
    parsec_list_item_t *it = ring;
    for (int k = 0; k < n && C.nroot < NPOOL; k++) { parsec_list_item_t *nx = (parsec_list_item_t *)it->list_next; C.root[C.nroot++] = ELT(it); it = nx; }
    C.root_in += n;
    pthread_mutex_unlock(&C.root_mtx);
}
static void mid_push_conc(void *store, parsec_list_item_t *ring, int32_t distance) { parsec_hbbuffer_push_all((parsec_hbbuffer_t *)store, ring, distance); }
static int take(elt_t *e, int me, const char *from) {
    if (!is_elt(e)) { vf_violation("hbb:foreign-pointer", "conc: %s returned a pointer that is not a client task", from); return 0; }
    int o = __sync_val_compare_and_swap(&e->owner, 0, me);
    if (o) { vf_violation("hbb:task-owned-twice", "conc: %s handed task %d to thread %d while thread %d holds it", from, e->id, me - 1, o - 1); return 0; }
    return 1;
}
static void conc_worker(int tid, int nt, void *arg) {
    (void)arg; vf_rng_t r; vf_rng_seed(&r, C.seed, (uint64_t)tid + 300); int me = tid + 1;
    elt_t *mine[NPOOL]; int nm = 0; long n = 0, pops = 0, steals = 0, pushes = 0, popnull = 0;
    for (int i = 0; i < C.per; i++) mine[nm++] = &pool[tid * C.per + i];      /* held by me: owner == me (set by main) */
    for (long k = 0; k < C.rounds && !vf_nviolations; k++) {
        int t = (int)vf_randn(&r, 100);
        if (t < 45 && nm > 0) {
            int c = 1 + (int)vf_randn(&r, nm < 6 ? (uint32_t)nm : 6); elt_t *e[6];
            for (int i = 0; i < c; i++) { e[i] = mine[--nm]; e[i]->t.priority = (int)vf_randn(&r, 64); }
            int target = (int)vf_randn(&r, 100), byprio = C.prio_leaves && target < 70;
            if (byprio) qsort(e, (size_t)c, sizeof e[0], cmp_prio_desc);
            parsec_list_item_t *ring = &e[0]->t.super; PARSEC_LIST_ITEM_SINGLETON(ring);
            for (int i = 1; i < c; i++) { PARSEC_LIST_ITEM_SINGLETON(&e[i]->t.super); parsec_list_item_ring_push(ring, &e[i]->t.super); }
            for (int i = 0; i < c; i++) e[i]->owner = 0;        /* released BEFORE the push: another thread may pop them before push returns */
            __sync_synchronize();
            if (byprio) parsec_hbbuffer_push_all_by_priority(C.leaf[tid], ring, 0);
            else if (target < 70) parsec_hbbuffer_push_all(C.leaf[tid], ring, vf_chance(&r, 100) ? 1 : 0);
            else if (!C.prio_leaves && target < 80) parsec_hbbuffer_push_all(C.leaf[vf_randn(&r, (uint32_t)nt)], ring, 0);   /* shared low-level buffer (lhq) */
            else parsec_hbbuffer_push_all(C.mid[(tid % C.ngroups)], ring, 0);
            pushes++;
        } else if (t < 92) {
            parsec_hbbuffer_t *b; int st = 0; int w = (int)vf_randn(&r, 10);
            if (w < 5) b = C.leaf[tid]; else if (w < 8) { b = C.leaf[vf_randn(&r, (uint32_t)nt)]; st = 1; } else b = C.mid[vf_randn(&r, (uint32_t)C.ngroups)];
            elt_t *e = (elt_t *)parsec_hbbuffer_pop_best(b, parsec_execution_context_priority_comparator);
            if (e) { if (!take(e, me, "pop_best")) break; mine[nm++] = e; pops++; steals += st; } else popnull++;
        } else {
            elt_t *e = NULL;
            pthread_mutex_lock(&C.root_mtx); if (C.nroot) { e = C.root[--C.nroot]; C.root_out++; } pthread_mutex_unlock(&C.root_mtx);
            if (e) { if (!take(e, me, "the root store")) break; mine[nm++] = e; }
        }
        n++; if ((n & 255) == 0) VF_TICK();
    }
    /* keep what I hold: the main thread counts after the team has finished (owner == me) */
    __sync_fetch_and_add(&C.ops, n); __sync_fetch_and_add(&C.pops, pops); __sync_fetch_and_add(&C.steals, steals); __sync_fetch_and_add(&C.pushes, pushes); __sync_fetch_and_add(&C.popnull, popnull);
}
static int run_conc(int argc, char **argv) {
    C.nt = (int)vf_arg_ll(argc, argv, "--threads", 8); if (C.nt > MAXT) C.nt = MAXT;
    C.rounds = vf_arg_ll(argc, argv, "--rounds", 100000); C.seed = (uint64_t)vf_arg_ll(argc, argv, "--seed", 1);
    C.leaf_sz = (int)vf_arg_ll(argc, argv, "--leaf", 4); C.mid_sz = (int)vf_arg_ll(argc, argv, "--mid", 4); C.prio_leaves = (int)vf_arg_ll(argc, argv, "--prio-leaves", 0);
    C.ngroups = (int)vf_arg_ll(argc, argv, "--groups", 2); if (C.ngroups > C.nt) C.ngroups = C.nt;
    C.per = (int)vf_arg_ll(argc, argv, "--per-thread", 12); if (C.per * C.nt > NPOOL) C.per = NPOOL / C.nt;
    pthread_mutex_init(&C.root_mtx, NULL); static int dummy;
    for (int g = 0; g < C.ngroups; g++) C.mid[g] = parsec_hbbuffer_new((size_t)C.mid_sz, 1, root_push_conc, &dummy);
    for (int t = 0; t < C.nt; t++) C.leaf[t] = parsec_hbbuffer_new((size_t)C.leaf_sz, 1, mid_push_conc, C.mid[t % C.ngroups]);
    int total = C.per * C.nt;
    for (int i = 0; i < total; i++) pool[i].owner = i / C.per + 1;
    vf_team_run(C.nt, conc_worker, NULL);
    long in_buf = 0, held = 0, in_rootn = 0, bad = 0;
    if (!vf_nviolations) {
        unsigned char cnt[NPOOL]; memset(cnt, 0, sizeof cnt);
        for (int i = 0; i < total; i++) if (pool[i].owner) { cnt[i]++; held++; }
        for (int i = 0; i < C.nroot; i++) { cnt[C.root[i]->id]++; in_rootn++; }
        /* quiescent drains: non-increasing priorities from every buffer */
        for (int pass = 0; pass < C.nt + C.ngroups; pass++) {
            parsec_hbbuffer_t *b = pass < C.nt ? C.leaf[pass] : C.mid[pass - C.nt]; int last = INT32_MAX; elt_t *e; int guard = 0;
            while ((e = (elt_t *)parsec_hbbuffer_pop_best(b, parsec_execution_context_priority_comparator)) != NULL && guard++ < 256) {
                if (!is_elt(e)) { vf_violation("hbb:foreign-pointer", "conc: final drain returned a foreign pointer"); break; }
                if (e->t.priority > last) { vf_violation("hbb:pop:not-best", "conc: quiescent drain returned priority %d after %d", e->t.priority, last); break; }
                last = e->t.priority; cnt[e->id]++; in_buf++;
            }
            if (count_in(b) && !vf_nviolations) vf_violation("hbb:pop:null-while-holding", "conc: quiescent pop_best returned NULL with %d tasks inside", count_in(b));
        }
        for (int i = 0; i < total; i++) if (cnt[i] != 1) bad++;
        if (bad && !vf_nviolations) { int w = 0; while (cnt[w] == 1) w++; vf_violation(cnt[w] ? "hbb:task-in-two-places" : "hbb:task-lost", "conc: after %ld operations %ld of %d tasks are not held exactly once (e.g. task %d: %d times; %ld held by threads, %ld in buffers, %ld in the root store)", C.ops, bad, total, w, cnt[w], held, in_buf, in_rootn); }
    }
    vf_out("{\"type\":\"summary\",\"mode\":\"conc\",\"threads\":%d,\"tasks\":%d,\"ops\":%ld,\"pushes\":%ld,\"pops\":%ld,\"steals\":%ld,\"pop_null\":%ld,\"root_in\":%ld,\"root_out\":%ld,\"final_in_buffers\":%ld,\"prio_leaves\":%d,\"yield_hits\":%llu}",
           C.nt, total, C.ops, C.pushes, C.pops, C.steals, C.popnull, C.root_in, C.root_out, in_buf, C.prio_leaves, (unsigned long long)vf_yield_hits(PARSEC_VERIF_SITE_HBBUFFER));
    return vf_nviolations ? 1 : 0;
}

/* =================================================================== ltq pattern: heaps stored in hbbuffers */
/* The only joint user of hbbuffer.c and maxheap.c (sched/ltq) keeps HEAPS in the bounded buffers, ordered by heap->priority;
 * select pops a heap, removes / splits it and pushes the rest back; heap_remove frees a heap that became empty.  This mode
 * replays that discipline with several threads: conservation of the tasks (every task out exactly once) is the oracle. */
typedef struct { int nt; long rounds; uint64_t seed; parsec_hbbuffer_t *q[MAXT]; pthread_mutex_t mtx; parsec_heap_t *root[NPOOL]; int nroot; volatile long ops, built, removed, split, stolen; int per; } ltq_t;
static ltq_t LQ;
static void ltq_root_push(void *store, parsec_list_item_t *ring, int32_t distance) {
    (void)store; (void)distance; pthread_mutex_lock(&LQ.mtx);
    parsec_list_item_t *it = ring; do { parsec_list_item_t *nx = (parsec_list_item_t *)it->list_next; if (LQ.nroot < NPOOL) LQ.root[LQ.nroot++] = (parsec_heap_t *)it; it = nx; } while (it != ring);
    pthread_mutex_unlock(&LQ.mtx);
}
static void ltq_push(parsec_hbbuffer_t *b, parsec_heap_t *h) { h->list_item.list_next = (parsec_list_item_t *)h; h->list_item.list_prev = (parsec_list_item_t *)h; parsec_hbbuffer_push_all(b, (parsec_list_item_t *)h, 0); }
static void ltq_worker(int tid, int nt, void *arg) {
    (void)arg; vf_rng_t r; vf_rng_seed(&r, LQ.seed, (uint64_t)tid + 700); int me = tid + 1;
    elt_t *mine[NPOOL]; int nm = 0; long n = 0, built = 0, removed = 0, split = 0, stolen = 0;
    for (int i = 0; i < LQ.per; i++) mine[nm++] = &pool[tid * LQ.per + i];
    for (long k = 0; k < LQ.rounds && !vf_nviolations; k++) {
        if (nm > 0 && vf_chance(&r, 400)) {                          /* schedule: a ring of ready tasks becomes one heap */
            int c = 1 + (int)vf_randn(&r, nm < 5 ? (uint32_t)nm : 5); parsec_heap_t *h = heap_create();
            for (int i = 0; i < c; i++) { elt_t *e = mine[--nm]; e->t.priority = (int)vf_randn(&r, 64); e->owner = 0; heap_insert(h, &e->t); }
            __sync_synchronize(); ltq_push(LQ.q[tid], h); built++;
        } else {                                                     /* select: own queue, then a victim's queue, then the system queue */
            parsec_heap_t *h = (parsec_heap_t *)parsec_hbbuffer_pop_best(LQ.q[tid], offsetof(parsec_heap_t, priority)), *nw = NULL; parsec_task_t *t = NULL;
            if (h) { t = heap_remove(&h); removed++; if (h) ltq_push(LQ.q[tid], h); }
            else {
                int v = (int)vf_randn(&r, (uint32_t)nt);
                h = (parsec_heap_t *)parsec_hbbuffer_pop_best(LQ.q[v], offsetof(parsec_heap_t, priority));
                if (!h) { pthread_mutex_lock(&LQ.mtx); if (LQ.nroot) h = LQ.root[--LQ.nroot]; pthread_mutex_unlock(&LQ.mtx); }
                if (h) { t = heap_split_and_steal(&h, &nw); split++; stolen += v != tid; if (nw) ltq_push(LQ.q[v], nw); if (h) ltq_push(LQ.q[tid], h); }
            }
            if (t) { if (!take(ELT(t), me, "the heap")) break; mine[nm++] = ELT(t); }
        }
        n++; if ((n & 255) == 0) VF_TICK();
    }
    __sync_fetch_and_add(&LQ.ops, n); __sync_fetch_and_add(&LQ.built, built); __sync_fetch_and_add(&LQ.removed, removed); __sync_fetch_and_add(&LQ.split, split); __sync_fetch_and_add(&LQ.stolen, stolen);
}
static int run_ltq(int argc, char **argv) {
    LQ.nt = (int)vf_arg_ll(argc, argv, "--threads", 4); if (LQ.nt > MAXT) LQ.nt = MAXT; LQ.rounds = vf_arg_ll(argc, argv, "--rounds", 100000); LQ.seed = (uint64_t)vf_arg_ll(argc, argv, "--seed", 1);
    LQ.per = (int)vf_arg_ll(argc, argv, "--per-thread", 16); if (LQ.per * LQ.nt > NPOOL) LQ.per = NPOOL / LQ.nt;
    int qsz = (int)vf_arg_ll(argc, argv, "--leaf", 4); static int dummy; pthread_mutex_init(&LQ.mtx, NULL);
    for (int t = 0; t < LQ.nt; t++) LQ.q[t] = parsec_hbbuffer_new((size_t)qsz, 1, ltq_root_push, &dummy);
    int total = LQ.per * LQ.nt; for (int i = 0; i < total; i++) pool[i].owner = i / LQ.per + 1;
    vf_team_run(LQ.nt, ltq_worker, NULL);
    long bad = 0, inheaps = 0;
    if (!vf_nviolations) {
        unsigned char cnt[NPOOL]; memset(cnt, 0, sizeof cnt);
        for (int i = 0; i < total; i++) if (pool[i].owner) cnt[i]++;
        for (int pass = 0; pass <= LQ.nt; pass++) for (;;) {
            parsec_heap_t *h = NULL;
            if (pass < LQ.nt) h = (parsec_heap_t *)parsec_hbbuffer_pop_best(LQ.q[pass], offsetof(parsec_heap_t, priority)); else if (LQ.nroot) h = LQ.root[--LQ.nroot];
            if (!h) break;
            int guard = 0; while (h && guard++ < NPOOL) { parsec_task_t *t = heap_remove(&h); if (!t || !is_elt(t)) { vf_violation("heap:foreign-node", "ltq: final drain met a foreign task pointer"); break; } cnt[ELT(t)->id]++; inheaps++; }
        }
        for (int i = 0; i < total; i++) if (cnt[i] != 1) bad++;
        if (bad && !vf_nviolations) { int w = 0; while (cnt[w] == 1) w++; vf_violation(cnt[w] ? "ltq:task-in-two-places" : "ltq:task-lost", "ltq: after %ld operations %ld of %d tasks are not held exactly once (e.g. task %d: %d times)", LQ.ops, bad, total, w, cnt[w]); }
    }
    vf_out("{\"type\":\"summary\",\"mode\":\"ltq\",\"threads\":%d,\"tasks\":%d,\"ops\":%ld,\"heaps_built\":%ld,\"removes\":%ld,\"splits\":%ld,\"steals\":%ld,\"final_in_heaps\":%ld}", LQ.nt, total, LQ.ops, LQ.built, LQ.removed, LQ.split, LQ.stolen, inheaps);
    return vf_nviolations ? 1 : 0;
}

int main(int argc, char **argv) {
    const char *mode = vf_arg(argc, argv, "--mode", "hbb");
    if (posix_memalign((void **)&pool, 64, sizeof(elt_t) * NPOOL)) return 2;
    memset(pool, 0, sizeof(elt_t) * NPOOL);
    for (int i = 0; i < NPOOL; i++) { pool[i].id = i; pool[i].where = -1; pool[i].t.locals[0].value = i; PARSEC_LIST_ITEM_SINGLETON(&pool[i].t.super); }
    sigcap = (size_t)vf_arg_ll(argc, argv, "--sigcap", 1 << 21); sigset = calloc(sigcap, sizeof(uint64_t));
    vf_yield_config((uint64_t)vf_arg_ll(argc, argv, "--seed", 1), (int)vf_arg_ll(argc, argv, "--yield", 0), (int)vf_arg_ll(argc, argv, "--yield-us", 0), 1ULL << PARSEC_VERIF_SITE_HBBUFFER);
    vf_heartbeat_start();
    int rc = !strcmp(mode, "ltq") ? run_ltq(argc, argv) : !strcmp(mode, "heap") ? run_heap(argc, argv) : !strcmp(mode, "conc") ? run_conc(argc, argv) : run_hbb(argc, argv);
    vf_heartbeat_stop();
    return rc;
}
