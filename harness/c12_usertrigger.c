/* C12 — user-triggered termination (mca/termdet/user_trigger) reaches every process exactly once.
 *
 * E5: N simulated ranks in one process (fake contexts, one registered taskpool per rank), parsec_ce.send_am interposed,
 * notifications delivered in random order through the real parsec_termdet_user_trigger_msg_dispatch (tp_id translated
 * to the destination's id because all ranks share one registry here).
 *
 * Client discipline (jdf2c for %option termdet = "user-triggered"): open module + monitor_taskpool at construction,
 * optional runtime actions (pending actions) added before/after ready, taskpool_ready, exactly one rank calls
 * set_nb_tasks(0).  Ranks may become ready (or even registered) only after the broadcast started: the module's
 * delayed-message path.  Ranks may hold other pending actions when the notification arrives: the module then
 * forwards/terminates when the last one is released.
 *
 * Oracle for communicator size N and triggering rank r: the multiset of receivers of the notifications produced by
 * the real parsec_termdet_signal_termination is exactly {0..N-1}\{r}, each once; every destination is in range; every
 * rank's callback ran exactly once when nothing is left to deliver or release.
 */
#include "kit.h"
#include "parsec/parsec_config.h"
#include "parsec/parsec_internal.h"
#include "parsec/runtime.h"
#include "parsec/execution_stream.h"
#include "parsec/mca/termdet/termdet.h"
#include "parsec/mca/termdet/user_trigger/termdet_user_trigger.h"
#include "parsec/parsec_comm_engine.h"
#include <mpi.h>
#include <signal.h>

#define NMAX 4096
typedef struct { int src, dst; size_t size; unsigned char payload[16]; } msg_t;

static int N, ROOT, cur = -1;
static uint64_t case_seed;
static parsec_context_t *fctx[NMAX];
static parsec_taskpool_t *ftp[NMAX];
static int recvcnt[NMAX], cbcnt[NMAX], ready[NMAX], registered[NMAX], extra[NMAX], sender_of[NMAX];
static msg_t *Q; static int nq, capq;
static int case_failed;
static vf_rng_t rng;
static long T_cases, T_nontrivial, T_msgs, T_forwarded, T_delayed, T_unreg, T_deferred, T_extra, T_maxN, T_large, T_small;
static uint64_t *hashes; static long nhashes, caphashes;
static char witness[512];

static void fail(const char *key, const char *fmt, ...) {
    char buf[300]; va_list ap; va_start(ap, fmt); vsnprintf(buf, sizeof buf, fmt, ap); va_end(ap);
    case_failed = 1;
    vf_violation(key, "%s | N=%d root=%d case_seed=%llu", buf, N, ROOT, (unsigned long long)case_seed);
}

static int my_send(parsec_comm_engine_t *ce, parsec_ce_tag_t tag, int remote, void *addr, size_t size) {
    (void)ce;
    if (tag != PARSEC_TERMDET_USER_TRIGGER_MSG_TAG || size > sizeof(((msg_t *)0)->payload)) { fail("net:unexpected-message", "tag %ld size %zu", (long)tag, size); return 0; }
    if (nq == capq) { capq = capq ? capq * 2 : 1024; Q = realloc(Q, capq * sizeof *Q); }
    msg_t *m = &Q[nq++]; m->src = cur; m->dst = remote; m->size = size; memcpy(m->payload, addr, size);
    T_msgs++; if (cur != ROOT) T_forwarded++;
    return 0;
}
static void cb(parsec_taskpool_t *t) {
    int r = (int)(intptr_t)t->on_complete_data;   /* harness-owned field: rank index */
    if (r < 0 || r >= N || ftp[r] != t) { fail("harness:unknown-taskpool", "callback for unknown taskpool"); return; }
    cbcnt[r]++;
}
#define MOD(r) (ftp[r]->tdm.module)

static void make_ready(int r) {
    cur = r;
    if (!registered[r]) { parsec_taskpool_register(ftp[r]); registered[r] = 1; }
    ready[r] = 1;
    MOD(r)->taskpool_ready(ftp[r]);
}

static int run_case(int n, int root, uint64_t seed) {
    N = n; ROOT = root; case_seed = seed; case_failed = 0; nq = 0;
    vf_rng_seed(&rng, seed, 12);
    int p_late = vf_chance(&rng, 400) ? 0 : vf_randn(&rng, 700), p_unreg = vf_randn(&rng, 600), p_extra = vf_chance(&rng, 400) ? 0 : vf_randn(&rng, 500);
    int *late = malloc(sizeof(int) * N), nlate = 0; int *tok = malloc(sizeof(int) * N * 2), ntok = 0;
    uint64_t h = vf_mix(N, root);
    long delayed = 0, unreg = 0, deferred = 0, forwarded0 = T_forwarded;
    for (int r = 0; r < N; r++) {
        recvcnt[r] = cbcnt[r] = ready[r] = registered[r] = extra[r] = 0; sender_of[r] = -1;
        if (!fctx[r]) fctx[r] = calloc(1, sizeof(parsec_context_t));
        fctx[r]->my_rank = r; fctx[r]->nb_nodes = N;
        if (!ftp[r]) { ftp[r] = PARSEC_OBJ_NEW(parsec_taskpool_t); ftp[r]->context = fctx[r]; ftp[r]->on_complete_data = (void *)(intptr_t)r; parsec_taskpool_reserve_id(ftp[r]); }
        cur = r;
        parsec_termdet_open_module(ftp[r], "user_trigger");
        MOD(r)->monitor_taskpool(ftp[r], cb);
        int islate = (r != root) && vf_chance(&rng, p_late);
        int a = vf_chance(&rng, p_extra) ? 1 + vf_randn(&rng, 2) : 0;
        int pre = vf_chance(&rng, 500);
        if (a && pre) { MOD(r)->taskpool_addto_runtime_actions(ftp[r], a); }
        if (!islate) make_ready(r);
        else { late[nlate++] = r; if (!vf_chance(&rng, p_unreg)) { parsec_taskpool_register(ftp[r]); registered[r] = 1; } }
        if (a && !pre) {
            if (ready[r]) MOD(r)->taskpool_addto_runtime_actions(ftp[r], a);
            else a = 0;   /* keep it simple: post-ready actions only for ready ranks */
        }
        extra[r] = a; for (int i = 0; i < a; i++) tok[ntok++] = r;
        T_extra += a;
    }
    /* the user triggers termination on ROOT */
    cur = root;
    MOD(root)->taskpool_set_nb_tasks(ftp[root], 0);
    if (extra[root]) deferred++;
    long steps = 0;
    while (!case_failed && (nq || ntok || nlate)) {
        steps++;   /* no bound needed: a second delivery to any rank fails the case at once, so at most N-1 deliveries happen */
        long tot = (long)nq * 4 + ntok + nlate * 2, x = (long)(vf_rand(&rng) >> 11) % tot;
        if (x < (long)nq * 4) {
            int k = (int)(x / 4); msg_t m = Q[k]; Q[k] = Q[--nq];
            h = vf_mix(h, (uint64_t)m.src * 8192 + m.dst);
            if (m.dst < 0 || m.dst >= N) { fail("bcast:destination-out-of-range", "rank %d notifies rank %d", m.src, m.dst); break; }
            recvcnt[m.dst]++;
            if (m.dst == root) { fail("bcast:root-notified", "rank %d notifies the triggering rank", m.src); break; }
            if (recvcnt[m.dst] > 1) { fail("bcast:duplicate", "rank %d notified twice (by %d and %d)", m.dst, sender_of[m.dst], m.src); break; }
            sender_of[m.dst] = m.src;
            ((parsec_termdet_user_trigger_msg_t *)m.payload)->tp_id = ftp[m.dst]->taskpool_id;
            if (!ready[m.dst]) { delayed++; if (!registered[m.dst]) unreg++; }
            else if (extra[m.dst]) deferred++;
            cur = m.dst;
            parsec_termdet_user_trigger_msg_dispatch(&parsec_ce, PARSEC_TERMDET_USER_TRIGGER_MSG_TAG, m.payload, m.size, m.src, NULL);
        } else if (x < (long)nq * 4 + ntok) {
            int k = (int)(x - (long)nq * 4), r = tok[k]; tok[k] = tok[--ntok];
            if (!ready[r]) {   /* actions are released only once the rank is ready: make it ready now, keep the token */
                tok[ntok++] = r;
                for (int i = 0; i < nlate; i++) if (late[i] == r) { late[i] = late[--nlate]; break; }
                h = vf_mix(h, 2000003 + r);
                make_ready(r);
            } else {
                extra[r]--; cur = r; h = vf_mix(h, 1000003 + r);
                MOD(r)->taskpool_addto_runtime_actions(ftp[r], -1);
            }
        } else {
            int k = (int)((x - (long)nq * 4 - ntok) / 2), r = late[k]; late[k] = late[--nlate];
            h = vf_mix(h, 2000003 + r);
            make_ready(r);
        }
    }
    if (!case_failed) {
        for (int r = 0; r < N; r++) {
            int er = (r == root) ? 0 : 1;
            if (recvcnt[r] != er) { fail("bcast:missing", "rank %d received %d notifications, expected %d", r, recvcnt[r], er); break; }
            if (cbcnt[r] != 1) { fail(cbcnt[r] ? "callback:twice" : "callback:missing", "rank %d ran %d termination callbacks (notified %d times, extra actions %d)", r, cbcnt[r], recvcnt[r], extra[r]); break; }
        }
    }
    for (int r = 0; r < N; r++) {
        if (case_failed) { ftp[r] = NULL; continue; }   /* unknown state: abandon */
        cur = r; MOD(r)->unmonitor_taskpool(ftp[r]);
        parsec_taskpool_unregister(ftp[r]);
    }
    free(late); free(tok);
    if (case_failed) return 1;
    T_cases++; T_delayed += delayed; T_unreg += unreg; T_deferred += deferred; if (N > T_maxN) T_maxN = N;
    if (N > 64) T_large++; else T_small++;
    if (T_forwarded > forwarded0) {
        T_nontrivial++;
        if (nhashes == caphashes) { caphashes = caphashes ? caphashes * 2 : 4096; hashes = realloc(hashes, caphashes * sizeof *hashes); }
        hashes[nhashes++] = h;
    }
    return 0;
}

static int cmp_u64(const void *a, const void *b) { uint64_t x = *(const uint64_t *)a, y = *(const uint64_t *)b; return x < y ? -1 : x > y; }
static void on_abort(int sig) { (void)sig; fprintf(stderr, "\nC12 abort context: N=%d root=%d case_seed=%llu cur=%d\n", N, ROOT, (unsigned long long)case_seed, cur); fflush(stderr); }

int main(int argc, char **argv) {
    int prov; MPI_Init_thread(&argc, &argv, MPI_THREAD_SERIALIZED, &prov);
    int nlo = (int)vf_arg_ll(argc, argv, "--nlo", 1), nhi = (int)vf_arg_ll(argc, argv, "--nhi", 0);
    int reps = (int)vf_arg_ll(argc, argv, "--reps", 1);
    long sampled = vf_arg_ll(argc, argv, "--sampled", 0); int roots = (int)vf_arg_ll(argc, argv, "--roots", 16);
    int smin = (int)vf_arg_ll(argc, argv, "--smin", 65), smax = (int)vf_arg_ll(argc, argv, "--smax", NMAX);
    uint64_t seed = (uint64_t)vf_arg_ll(argc, argv, "--seed", 1);
    const char *hashfile = vf_arg(argc, argv, "--hashfile", NULL);
    if (nhi > NMAX || smax > NMAX) { fprintf(stderr, "N too large\n"); return 2; }
    cpu_set_t cpus; sched_getaffinity(0, sizeof cpus, &cpus);
    int pargc = 1; char *pargv_[2] = {argv[0], NULL}; char **pargv = pargv_;
    parsec_context_t *real = parsec_init(1, &pargc, &pargv);
    if (!real) { fprintf(stderr, "parsec_init failed\n"); return 2; }
    sched_setaffinity(0, sizeof cpus, &cpus);
    struct sigaction sa; memset(&sa, 0, sizeof sa); sa.sa_handler = on_abort; sa.sa_flags = SA_RESETHAND; sigaction(SIGABRT, &sa, NULL);
    parsec_ce.send_am = my_send;
    vf_heartbeat_start();
    long exhaustive_cases = 0, sampled_cases = 0; int nsmp = 3;
    for (int n = nlo; n <= nhi && vf_nviolations < 6; n++)
        for (int root = 0; root < n && vf_nviolations < 6; root++)
            for (int k = 0; k < reps; k++) { run_case(n, root, vf_mix(seed, ((uint64_t)n << 20) + ((uint64_t)root << 4) + k) >> 1); exhaustive_cases++; VF_TICK(); }
    vf_rng_t sr; vf_rng_seed(&sr, seed, 99);
    for (long i = 0; i < sampled && vf_nviolations < 6; i++) {
        int n = smin + (int)vf_randn(&sr, smax - smin + 1);
        if (vf_chance(&sr, 150)) { int p = 7 + vf_randn(&sr, 6); n = (1 << p) + (int)vf_randn(&sr, 3) - 1; if (n > smax) n = smax; if (n < smin) n = smin; }  /* powers of two +-1 */
        for (int j = 0; j < roots && vf_nviolations < 6; j++) {
            int root = j == 0 ? 0 : j == 1 ? n - 1 : (int)vf_randn(&sr, n);
            int rcf = run_case(n, root, vf_rand(&sr) >> 1); sampled_cases++; VF_TICK();
            if (!rcf && nsmp > 0 && j == 2) { nsmp--; vf_out("{\"type\":\"sample\",\"N\":%d,\"root\":%d,\"notifications\":%d,\"first_receivers_senders\":\"%d<-%d %d<-%d %d<-%d\"}", n, root, n - 1,
                                                          (root + 1) % n, sender_of[(root + 1) % n], (root + 2) % n, sender_of[(root + 2) % n], (root + n - 1) % n, sender_of[(root + n - 1) % n]); }
        }
    }
    vf_heartbeat_stop();
    if (nhashes) qsort(hashes, nhashes, sizeof *hashes, cmp_u64);
    long distinct = 0; for (long i = 0; i < nhashes; i++) if (i == 0 || hashes[i] != hashes[i - 1]) hashes[distinct++] = hashes[i];
    if (hashfile) { FILE *f = fopen(hashfile, "wb"); if (f) { if (distinct) fwrite(hashes, sizeof *hashes, distinct, f); fclose(f); } }
    vf_out("{\"type\":\"summary\",\"cases\":%ld,\"exhaustive_cases\":%ld,\"sampled_cases\":%ld,\"nlo\":%d,\"nhi\":%d,\"nontrivial\":%ld,\"distinct_nontrivial\":%ld,"
           "\"notifications\":%ld,\"forwarded_by_non_root\":%ld,\"delayed_not_ready\":%ld,\"delayed_unregistered\":%ld,\"deferred_by_pending_actions\":%ld,"
           "\"extra_pending_actions\":%ld,\"maxN\":%ld,\"cases_N_le_64\":%ld,\"cases_N_gt_64\":%ld,\"violations\":%d}",
           T_cases, exhaustive_cases, sampled_cases, nlo, nhi, T_nontrivial, distinct, T_msgs, T_forwarded, T_delayed, T_unreg, T_deferred, T_extra, T_maxN, T_small, T_large, vf_nviolations);
    fflush(stdout);
    (void)witness;
    _exit(vf_nviolations ? 1 : 0);
}
