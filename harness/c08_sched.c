/* C08 / C09: direct drive of the installed scheduler module on the real execution streams created by parsec_init.
 *
 *  --mode conserve (C08): S harness threads adopt the S execution streams of the (single) virtual process and call
 *      module.schedule / module.select directly, the way the runtime does:
 *        - a thread schedules on its own stream (any distance: the AGAIN path uses distance+1),
 *        - or on stream 0 of the vp (what __parsec_schedule_vp does for every thread when it does not keep work local),
 *        - an extra thread without a scheduling stream emulates the communication thread pushing to stream 0,
 *        - select is only ever called by the thread that adopted the stream.
 *      Tasks live in a type-stable pool (never freed: several modules read the priority of a task they no longer own),
 *      carry a valid task_class and are identified by locals[0] (rnd and the runtime's AGAIN path rewrite priorities).
 *      Monitor: a state word per task (0 free / 1 inside the scheduler), set to 1 BEFORE the schedule call and CAS'ed
 *      1->0 when a select returns it: a task returned twice between two schedules, or returned without having been
 *      scheduled, fails the CAS.  Each round ends with a quiescent sweep: main calls select on every stream in turn
 *      (no concurrency: a NULL is then conclusive); a full sweep of NULLs while tasks are still marked 1 = lost tasks.
 *
 *  --mode order (C09): one stream, no concurrency; random schedule(ring, distance) / select sequences are replayed
 *      against a reference model (ap: highest priority first, ties in scheduling order; spq: smallest distance first,
 *      then as ap; ip: lowest priority first).  The operation lists of the first sequences are printed so that the
 *      python driver re-checks them with its own model.
 */
#include "parsec/parsec_config.h"
#include "parsec/parsec_internal.h"
#include "parsec/runtime.h"
#include "parsec/execution_stream.h"
#include "parsec/mca/sched/sched.h"
#include "parsec/scheduling.h"
#include "parsec/class/list_item.h"
#include "kit.h"
#include <mpi.h>

extern parsec_sched_module_t *parsec_current_scheduler;


/* start-up ticker: MPI_Init + parsec_init (hwloc discovery, thread creation) can take minutes on a loaded box and are not
 * the code under test; keep the driver's stall detector quiet until the monitored phase begins (bounded: 15 minutes) */
static volatile int vf_init_phase = 0; static pthread_t vf_init_thread;
static void *vf_init_tick(void *a) { (void)a; for (int k = 0; vf_init_phase && k < 9000; k++) { usleep(100000); VF_TICK(); } return NULL; }
static void vf_init_begin(void) { vf_heartbeat_start(); vf_init_phase = 1; pthread_create(&vf_init_thread, NULL, vf_init_tick, NULL); }
static void vf_init_end(void) { vf_init_phase = 0; pthread_join(vf_init_thread, NULL); }

#define MAXS 16
#define MAXRING 64
#define MAINIDX (MAXS + 1)     /* bookkeeping slot of the main thread (quiescent sweep) */
typedef struct { parsec_task_t t; char pad[64]; } slot_t;

static parsec_context_t *ctx;
static parsec_execution_stream_t *ES[MAXS + 2];
static parsec_task_class_t tc_norm, tc_high;
static parsec_taskpool_t *tp;
static slot_t *pool; static int npool;
static const char *sched_name = "?";
static int S;
static uint64_t seed;

static inline int task_id(parsec_task_t *t) { return (int)(((char *)t - (char *)pool) / (long)sizeof(slot_t)); }
static inline int task_ok(parsec_task_t *t) {
    if ((char *)t < (char *)pool || (char *)t >= (char *)(pool + npool)) return 0;
    return (((char *)t - (char *)pool) % (long)sizeof(slot_t)) == 0;
}

static void setup_common(int argc, char **argv, int nstreams, int ntasks)
{
    int prov; MPI_Init_thread(&argc, &argv, MPI_THREAD_SERIALIZED, &prov);
    cpu_set_t cpus; int have_cpus = (0 == sched_getaffinity(0, sizeof cpus, &cpus));
    setenv("PARSEC_MCA_mca_sched", sched_name, 1);
    int pargc = 1; char *pargv_s[2] = {argv[0], NULL}; char **pargv = pargv_s;
    ctx = parsec_init(nstreams, &pargc, &pargv);
    if (!ctx) { fprintf(stderr, "parsec_init failed\n"); exit(2); }
    if (have_cpus) sched_setaffinity(0, sizeof cpus, &cpus);   /* parsec_init pinned us to one core; threads would inherit it */
    vf_init_end();
    if (NULL == parsec_current_scheduler || strcmp(parsec_current_scheduler->component->base_version.mca_component_name, sched_name)) {
        fprintf(stderr, "scheduler %s not installed (got %s)\n", sched_name, parsec_current_scheduler ? parsec_current_scheduler->component->base_version.mca_component_name : "none");
        exit(2);
    }
    if (ctx->nb_vp != 1 || ctx->virtual_processes[0]->nb_cores != nstreams) { fprintf(stderr, "unexpected vp layout: %d vps, %d cores\n", ctx->nb_vp, ctx->virtual_processes[0]->nb_cores); exit(2); }
    for (int i = 0; i < nstreams; i++) ES[i] = ctx->virtual_processes[0]->execution_streams[i];
    memset(&tc_norm, 0, sizeof tc_norm); tc_norm.name = "T"; tc_norm.nb_flows = 2; tc_norm.task_class_type = PARSEC_TASK_CLASS_TYPE_PTG; tc_norm.task_class_id = 0;
    tc_high = tc_norm; tc_high.name = "H"; tc_high.flags = PARSEC_HIGH_PRIORITY_TASK; tc_high.task_class_id = 1;
    tp = PARSEC_OBJ_NEW(parsec_taskpool_t);
    npool = ntasks;
    if (posix_memalign((void **)&pool, 128, sizeof(slot_t) * (size_t)npool)) exit(2);
    memset(pool, 0, sizeof(slot_t) * (size_t)npool);
    for (int i = 0; i < npool; i++) {
        parsec_task_t *t = &pool[i].t;
        PARSEC_OBJ_CONSTRUCT(t, parsec_task_t);
        t->taskpool = tp; t->task_class = &tc_norm; t->locals[0].value = i; t->status = PARSEC_TASK_STATUS_HOOK;
        PARSEC_LIST_ITEM_SINGLETON(t);
    }
}

/* ================================================================== C08: conservation */
typedef struct { uint8_t thread, target, ringlen; int8_t dist; int32_t round; } sinfo_t;
static volatile int32_t *state;          /* 0 free, 1 inside the scheduler */
static sinfo_t *sinfo;
static volatile int64_t g_scheduled, g_selected;
static int *freestk[MAXS + 2]; static int nfree[MAXS + 2];
static vf_spinbar_t bar;
static volatile int stop_all;
static long round_no;
static int ops_per_round, maxring, foreign_pm, dist_pm, prio_shape, with_comm, unsorted_pm;
/* per thread statistics (merged by main between rounds) */
typedef struct { long sched_calls, sched_tasks, sel_ok, sel_null, cross, foreign_calls, dist_calls, dist_out_pos; int maxring, max_dist_out; long selected_round; char pad[64]; } tstat_t;
static tstat_t ts[MAXS + 2];
static volatile int viol_flag;

static void report_dup(int tid, parsec_task_t *t, int32_t was, int d)
{
    int id = task_id(t); sinfo_t si = sinfo[id];
    char key[96];
    if (was == 0) {
        snprintf(key, sizeof key, "%s:selected-twice", sched_name);
        vf_violation(key, "round %ld: select on stream %d (distance out %d) returned task %d which is not inside the scheduler (already returned since its last schedule: thread %d -> stream %d, ring of %d, distance %d, round %d); streams=%d",
                     round_no, tid, d, id, si.thread, si.target, si.ringlen, si.dist, si.round, S);
    }
    viol_flag = 1;
}

static int pick_priority(vf_rng_t *rng, int k)
{
    switch (prio_shape) {
    case 1: return 5;                                  /* all equal */
    case 2: return k;                                  /* strictly increasing along the ring */
    case 3: return (int)vf_randn(rng, 4);              /* many ties */
    default: return (int)vf_randn(rng, 1000) - 200;    /* random, some negative */
    }
}

static void do_schedule(int tid, vf_rng_t *rng)
{
    int n = 1 + (int)vf_randn(rng, (uint32_t)maxring);
    if (vf_chance(rng, 400)) n = 1 + (int)vf_randn(rng, 3);
    if (n > nfree[tid]) n = nfree[tid];
    if (n <= 0) return;
    int target = tid, dist = 0;
    if (tid == S) target = 0;                                              /* communication thread: stream 0, distance 0 */
    else {
        if (vf_chance(rng, (uint32_t)foreign_pm)) target = 0;
        if (vf_chance(rng, (uint32_t)dist_pm)) { dist = 1 + (int)vf_randn(rng, 3); if (vf_chance(rng, 100)) dist = S + 1 + (int)vf_randn(rng, 3); }
    }
    int sorted = !vf_chance(rng, (uint32_t)unsorted_pm);
    int high = vf_chance(rng, 100);
    parsec_list_item_t *ring = NULL;
    uintptr_t fake_data = 0x1000 + 64 * (uintptr_t)vf_randn(rng, 8);
    for (int k = 0; k < n; k++) {
        int id = freestk[tid][--nfree[tid]];
        parsec_task_t *t = &pool[id].t;
        t->priority = pick_priority(rng, k);
        t->task_class = high ? &tc_high : &tc_norm;
        /* consecutive tasks sharing an input are grouped in one heap by ltq */
        if (vf_chance(rng, 350)) fake_data = 0x1000 + 64 * (uintptr_t)vf_randn(rng, 64);
        t->data[0].data_in = (parsec_data_copy_t *)fake_data; t->data[1].data_in = (parsec_data_copy_t *)(uintptr_t)(0x100000 + 64 * (uintptr_t)id);   /* never dereferenced */
        sinfo[id] = (sinfo_t){(uint8_t)tid, (uint8_t)target, (uint8_t)n, (int8_t)dist, (int32_t)round_no};
        if (!__sync_bool_compare_and_swap(&state[id], 0, 1)) { vf_violation("harness:free-task-not-free", "task %d on the free list of thread %d is marked scheduled", id, tid); viol_flag = 1; }
        PARSEC_LIST_ITEM_SINGLETON(t);
        if (sorted) ring = parsec_list_item_ring_push_sorted(ring, &t->super, parsec_execution_context_priority_comparator);
        else if (!ring) ring = &t->super; else parsec_list_item_ring_push(ring, &t->super);
    }
    __atomic_fetch_add(&g_scheduled, n, __ATOMIC_SEQ_CST);
    ts[tid].sched_calls++; ts[tid].sched_tasks += n; if (n > ts[tid].maxring) ts[tid].maxring = n;
    if (target != tid) ts[tid].foreign_calls++;
    if (dist) ts[tid].dist_calls++;
    parsec_current_scheduler->module.schedule(ES[target], (parsec_task_t *)ring, dist);
    VF_TICK();
}

static int do_select(int tid, int as_stream)
{
    int32_t d = 0;
    parsec_task_t *t = parsec_current_scheduler->module.select(ES[as_stream], &d);
    if (!t) { ts[tid].sel_null++; return 0; }
    if (!task_ok(t)) { char key[96]; snprintf(key, sizeof key, "%s:select-returned-foreign-pointer", sched_name); vf_violation(key, "round %ld: select on stream %d returned %p which is not a task handed to the scheduler", round_no, as_stream, (void *)t); viol_flag = 1; return 0; }
    int id = task_id(t);
    if (!__sync_bool_compare_and_swap(&state[id], 1, 0)) { report_dup(as_stream, t, 0, d); return 0; }
    if (t->locals[0].value != id) { char key[96]; snprintf(key, sizeof key, "%s:task-content-changed", sched_name); vf_violation(key, "round %ld: task %d came back with locals[0]=%d", round_no, id, t->locals[0].value); viol_flag = 1; }
    __atomic_fetch_add(&g_selected, 1, __ATOMIC_SEQ_CST);
    ts[tid].sel_ok++; ts[tid].selected_round++;
    if (sinfo[id].thread != tid) ts[tid].cross++;
    if (d > 0) ts[tid].dist_out_pos++;
    if (d > ts[tid].max_dist_out) ts[tid].max_dist_out = d;
    freestk[tid][nfree[tid]++] = id;
    VF_TICK();
    return 1;
}

static void conserve_worker(int tid, int nt, void *arg)
{
    (void)nt; (void)arg;
    if (tid < S) parsec_set_my_execution_stream(ES[tid]);
    vf_rng_t rng;
    for (;;) {
        vf_spinbar_wait(&bar);                         /* round start */
        if (stop_all) return;
        vf_rng_seed(&rng, seed + (uint64_t)round_no * 0x9E3779B1ULL, (uint64_t)tid + 1);
        ts[tid].selected_round = 0;
        /* phase 1: mixed produce / consume */
        for (int k = 0; k < ops_per_round && !viol_flag; k++) {
            if (tid == S) { if (nfree[tid] > 0) do_schedule(tid, &rng); else break; if (vf_chance(&rng, 300)) sched_yield(); continue; }
            if (nfree[tid] > 0 && vf_chance(&rng, 450)) do_schedule(tid, &rng); else do_select(tid, tid);
        }
        vf_spinbar_wait(&bar);                         /* producers have stopped */
        /* phase 2: concurrent drain, bounded by consecutive misses */
        if (tid < S) { int miss = 0; while (miss < 40 && !viol_flag && g_selected < g_scheduled) { if (do_select(tid, tid)) miss = 0; else miss++; } }
        vf_spinbar_wait(&bar);                         /* quiescent: main sweeps */
        vf_spinbar_wait(&bar);                         /* round end */
    }
}

static uint64_t *sigset; static size_t sigcap = 1 << 20, nsig;
static int sig_add(uint64_t s) { if (!s) s = 1; size_t i = (size_t)(s % sigcap); while (sigset[i]) { if (sigset[i] == s) return 0; i = (i + 1) % sigcap; } if (nsig * 2 < sigcap) { sigset[i] = s; nsig++; } return 1; }

static int run_conserve(int argc, char **argv)
{
    S = (int)vf_arg_ll(argc, argv, "--streams", 4); if (S < 1) S = 1; if (S > MAXS) S = MAXS;
    long rounds = vf_arg_ll(argc, argv, "--rounds", 20);
    int per = (int)vf_arg_ll(argc, argv, "--tasks-per-thread", 200);
    ops_per_round = (int)vf_arg_ll(argc, argv, "--ops", 400);
    maxring = (int)vf_arg_ll(argc, argv, "--maxring", 64); if (maxring > MAXRING) maxring = MAXRING; if (maxring < 1) maxring = 1;
    foreign_pm = (int)vf_arg_ll(argc, argv, "--foreign", 150);
    dist_pm = (int)vf_arg_ll(argc, argv, "--dist", 150);
    prio_shape = (int)vf_arg_ll(argc, argv, "--prio", 0);
    with_comm = (int)vf_arg_ll(argc, argv, "--comm", 1);
    unsorted_pm = (int)vf_arg_ll(argc, argv, "--unsorted", 100);
    int nthreads = S + (with_comm ? 1 : 0);
    setup_common(argc, argv, S, per * nthreads);
    int pm = (int)vf_arg_ll(argc, argv, "--yield", 0);
    vf_yield_config(seed, pm, (int)vf_arg_ll(argc, argv, "--yield-us", 0),
                    (1ULL << PARSEC_VERIF_SITE_HBBUFFER) | (1ULL << PARSEC_VERIF_SITE_MAXHEAP) | (1ULL << PARSEC_VERIF_SITE_LIFO) | (1ULL << PARSEC_VERIF_SITE_LIST));
    state = calloc((size_t)npool, sizeof(int32_t)); sinfo = calloc((size_t)npool, sizeof(sinfo_t));
    for (int t = 0; t <= MAINIDX; t++) { freestk[t] = malloc(sizeof(int) * (size_t)npool); nfree[t] = 0; }
    sigset = calloc(sigcap, sizeof(uint64_t));
    vf_spinbar_init(&bar, nthreads + 1);
    pthread_t th[MAXS + 2]; vf_team_ctx_t cx[MAXS + 2]; pthread_barrier_t pb; pthread_barrier_init(&pb, NULL, (unsigned)nthreads);
    for (int i = 0; i < nthreads; i++) { cx[i] = (vf_team_ctx_t){conserve_worker, NULL, i < S ? i : S, nthreads, &pb}; pthread_create(&th[i], NULL, vf_team_tramp, &cx[i]); }
    long n_rounds = 0, n_nontrivial = 0, n_distinct = 0, sweep_found = 0, sweep_calls = 0, phase2_left = 0;
    for (round_no = 0; round_no < rounds && !vf_nviolations; round_no++) {
        /* deal all tasks (all free at this point) to the threads */
        for (int t = 0; t <= MAINIDX; t++) nfree[t] = 0;
        for (int i = 0; i < npool; i++) { int t = i % nthreads; freestk[t == S ? S : t][nfree[t == S ? S : t]++] = i; }
        g_scheduled = 0; g_selected = 0;
        vf_spinbar_wait(&bar); vf_spinbar_wait(&bar); vf_spinbar_wait(&bar);
        /* phase 3: quiescent sweep over all streams; nothing else runs, so a NULL is conclusive for that stream */
        phase2_left += (long)(g_scheduled - g_selected);
        int nulls = 0, s = 0;
        while (nulls < S && !viol_flag) { sweep_calls++; if (do_select(MAINIDX, s)) { nulls = 0; sweep_found++; } else nulls++; s = (s + 1) % S; }
        /* tasks found by the sweep sit on main's free list; they are re-dealt next round */
        nfree[MAINIDX] = 0;
        if (!viol_flag && g_selected != g_scheduled) {
            char key[96], ids[400]; int p = 0, lost = 0;
            for (int i = 0; i < npool; i++) if (state[i] == 1) { if (lost < 8) p += snprintf(ids + p, sizeof ids - p, "%d(thread %d->stream %d ring %d dist %d) ", i, sinfo[i].thread, sinfo[i].target, sinfo[i].ringlen, sinfo[i].dist); lost++; }
            snprintf(key, sizeof key, "%s:task-lost", sched_name);
            vf_violation(key, "round %ld: %lld tasks scheduled, %lld selected; after a quiescent sweep of all %d streams %d tasks are still inside the scheduler and unreachable: %s",
                         round_no, (long long)g_scheduled, (long long)g_selected, S, lost, ids);
            viol_flag = 1;
        }
        if (!viol_flag) {
            n_rounds++;
            long cross = 0; uint64_t sig = vf_mix(0x8, (uint64_t)S * 131 + (uint64_t)prio_shape);
            for (const char *c = sched_name; *c; c++) sig = vf_mix(sig, (uint64_t)*c);
            sig = vf_mix(sig, (uint64_t)round_no + seed * 1000003ULL);
            for (int t = 0; t < S; t++) { sig = vf_mix(sig, (uint64_t)ts[t].selected_round); }
            for (int t = 0; t < S; t++) cross += ts[t].cross;
            static long last_cross = 0;
            int nontrivial = (S > 1) ? (cross > last_cross) : (g_scheduled >= 3);
            last_cross = cross;
            if (nontrivial) { n_nontrivial++; if (sig_add(sig)) n_distinct++; }
        }
        vf_spinbar_wait(&bar);
    }
    stop_all = 1; vf_spinbar_wait(&bar);
    for (int i = 0; i < nthreads; i++) pthread_join(th[i], NULL);
    tstat_t a; memset(&a, 0, sizeof a);
    for (int t = 0; t <= MAINIDX; t++) { a.sched_calls += ts[t].sched_calls; a.sched_tasks += ts[t].sched_tasks; a.sel_ok += ts[t].sel_ok; a.sel_null += ts[t].sel_null; a.cross += ts[t].cross;
        a.foreign_calls += ts[t].foreign_calls; a.dist_calls += ts[t].dist_calls; a.dist_out_pos += ts[t].dist_out_pos; if (ts[t].maxring > a.maxring) a.maxring = ts[t].maxring; if (ts[t].max_dist_out > a.max_dist_out) a.max_dist_out = ts[t].max_dist_out; }
    vf_out("{\"type\":\"summary\",\"mode\":\"conserve\",\"sched\":\"%s\",\"streams\":%d,\"vps\":%d,\"comm_thread\":%d,\"rounds\":%ld,\"nontrivial_rounds\":%ld,\"distinct_rounds\":%ld,"
           "\"schedule_calls\":%ld,\"tasks_scheduled\":%ld,\"tasks_selected\":%ld,\"select_null\":%ld,\"cross_stream_selects\":%ld,\"foreign_schedules\":%ld,\"comm_schedules\":%ld,"
           "\"distance_schedules\":%ld,\"select_distance_positive\":%ld,\"max_select_distance\":%d,\"max_ring\":%d,\"left_after_concurrent_drain\":%ld,\"sweep_selects\":%ld,\"sweep_found\":%ld,"
           "\"yield_hits\":%llu,\"prio_shape\":%d}",
           sched_name, S, ctx->nb_vp, with_comm, n_rounds, n_nontrivial, n_distinct, a.sched_calls, a.sched_tasks, a.sel_ok, a.sel_null, a.cross, a.foreign_calls, ts[S].sched_calls,
           a.dist_calls, a.dist_out_pos, a.max_dist_out, a.maxring, phase2_left, sweep_calls, sweep_found,
           (unsigned long long)(vf_yield_hits(PARSEC_VERIF_SITE_HBBUFFER) + vf_yield_hits(PARSEC_VERIF_SITE_MAXHEAP) + vf_yield_hits(PARSEC_VERIF_SITE_LIFO) + vf_yield_hits(PARSEC_VERIF_SITE_LIST)), prio_shape);
    return vf_nviolations ? 1 : 0;
}

/* ================================================================== C09: priority order, single stream */
typedef struct { int id, prio, dist; long seq; } pend_t;
static pend_t *pend; static int npend;

static int model_pick(int kind /*0 ap, 1 ip, 2 spq*/)
{
    int b = -1;
    for (int i = 0; i < npend; i++) {
        if (b < 0) { b = i; continue; }
        pend_t *x = &pend[i], *y = &pend[b];
        if (kind == 1) { if (x->prio < y->prio) b = i; continue; }
        if (kind == 2 && x->dist != y->dist) { if (x->dist < y->dist) b = i; continue; }
        if (x->prio > y->prio || (x->prio == y->prio && x->seq < y->seq)) b = i;
    }
    return b;
}

static int run_order(int argc, char **argv)
{
    long nseq = vf_arg_ll(argc, argv, "--sequences", 300);
    int maxlen = (int)vf_arg_ll(argc, argv, "--maxlen", 400);
    int dump = (int)vf_arg_ll(argc, argv, "--dump", 12);
    int ip_dist_pm = (int)vf_arg_ll(argc, argv, "--ip-distance", 0);   /* weight of distance>0 schedules for ip */
    int kind = !strcmp(sched_name, "ap") ? 0 : !strcmp(sched_name, "ip") ? 1 : !strcmp(sched_name, "spq") ? 2 : -1;
    if (kind < 0) { fprintf(stderr, "order mode is for ap, ip, spq\n"); return 2; }
    S = 1;
    setup_common(argc, argv, 1, 1024);
    pend = malloc(sizeof(pend_t) * (size_t)npool);
    int *freel = malloc(sizeof(int) * (size_t)npool); int nf = 0;
    sigset = calloc(sigcap, sizeof(uint64_t));
    vf_rng_t rng; vf_rng_seed(&rng, seed, 31337);
    long n_ok = 0, n_ops = 0, n_selects = 0, n_ties = 0, n_dist = 0, n_distinct = 0, n_unsorted = 0, n_null = 0, n_dist_decisive = 0, n_ip_dist = 0;
    char *buf = malloc(1 << 16);
    for (long q = 0; q < nseq && !vf_nviolations; q++) {
        int len = 10 + (int)vf_randn(&rng, (uint32_t)(maxlen - 9));
        if (vf_chance(&rng, 400)) len = 10 + (int)vf_randn(&rng, 30);
        int prio_range = vf_chance(&rng, 600) ? 1 + (int)vf_randn(&rng, 5) : 1000;       /* many ties most of the time */
        int sel_pm = 350 + (int)vf_randn(&rng, 300);
        int use_dist = (kind == 2) ? vf_chance(&rng, 800) : (kind == 1 ? vf_chance(&rng, (uint32_t)ip_dist_pm) : vf_chance(&rng, 500));
        npend = 0; nf = 0; for (int i = npool - 1; i >= 0; i--) freel[nf++] = i;
        long seqno = 0; uint64_t sig = vf_mix(0x9, (uint64_t)kind); int p = 0; int doprint = q < dump; int structural = 0;
        int had_ip_dist = 0;
        for (int op = 0; op < len + 2000; op++) {
            int draining = (op >= len);
            if (draining && npend == 0) break;
            if (!draining && nf > 0 && !vf_chance(&rng, (uint32_t)sel_pm)) {
                int n = 1 + (int)vf_randn(&rng, 8); if (vf_chance(&rng, 150)) n = 1 + (int)vf_randn(&rng, 40); if (n > nf) n = nf;
                int dist = 0; if (use_dist && vf_chance(&rng, 450)) dist = 1 + (int)vf_randn(&rng, 3);
                int sorted = !vf_chance(&rng, 300);
                parsec_list_item_t *ring = NULL; int ids[MAXRING], pr[MAXRING];
                if (n > MAXRING) n = MAXRING;
                for (int k = 0; k < n; k++) {
                    int id = freel[--nf]; parsec_task_t *t = &pool[id].t;
                    t->priority = (int)vf_randn(&rng, (uint32_t)prio_range) - (prio_range > 10 ? 100 : 0);
                    t->task_class = &tc_norm; PARSEC_LIST_ITEM_SINGLETON(t);
                    if (sorted) ring = parsec_list_item_ring_push_sorted(ring, &t->super, parsec_execution_context_priority_comparator);
                    else if (!ring) ring = &t->super; else parsec_list_item_ring_push(ring, &t->super);
                }
                /* the scheduling order is the ring order starting at the pointer handed to schedule */
                int k = 0; parsec_list_item_t *it = ring;
                do { parsec_task_t *t = (parsec_task_t *)it; ids[k] = task_id(t); pr[k] = t->priority; k++; it = (parsec_list_item_t *)it->list_next; } while (it != ring);
                for (int j = 0; j < k; j++) pend[npend++] = (pend_t){ids[j], pr[j], dist, seqno++};
                if (!sorted) n_unsorted++;
                if (dist) { n_dist++; if (kind == 1) { n_ip_dist++; had_ip_dist = 1; } }
                if (doprint && p < 60000) { p += snprintf(buf + p, (1 << 16) - p, "S%d:", dist); for (int j = 0; j < k; j++) p += snprintf(buf + p, (1 << 16) - p, "%d/%d%s", ids[j], pr[j], j + 1 < k ? "," : ""); p += snprintf(buf + p, (1 << 16) - p, ";"); }
                sig = vf_mix(sig, (uint64_t)k * 7 + (uint64_t)dist); for (int j = 0; j < k; j++) sig = vf_mix(sig, (uint64_t)(pr[j] + 1000));
                parsec_current_scheduler->module.schedule(ES[0], (parsec_task_t *)ring, dist);
                n_ops++; structural++;
            } else {
                int32_t d = -1; parsec_task_t *t = parsec_current_scheduler->module.select(ES[0], &d);
                n_ops++; n_selects++;
                int got = t ? (task_ok(t) ? task_id(t) : -2) : -1;
                if (doprint && p < 60000) p += snprintf(buf + p, (1 << 16) - p, "P%d;", got);
                sig = vf_mix(sig, 0x77);
                int b = model_pick(kind);
                char key[96];
                if (b < 0) {
                    if (got != -1) { snprintf(key, sizeof key, "%s:select-from-empty", sched_name); vf_violation(key, "sequence %ld op %d: select returned task %d although nothing is pending", q, op, got); }
                    else n_null++;
                } else if (got < 0) {
                    snprintf(key, sizeof key, "%s:select-null-while-pending", sched_name); vf_violation(key, "sequence %ld op %d: select returned %s while %d tasks are pending (single stream, no concurrency)", q, op, got == -1 ? "NULL" : "a foreign pointer", npend);
                } else {
                    int gi = -1; for (int i = 0; i < npend; i++) if (pend[i].id == got) { gi = i; break; }
                    if (gi < 0) { snprintf(key, sizeof key, "%s:select-not-pending", sched_name); vf_violation(key, "sequence %ld op %d: select returned task %d which is not pending (returned twice?)", q, op, got); }
                    else {
                        pend_t g = pend[gi], m = pend[b];
                        int ties = 0; for (int i = 0; i < npend; i++) if (i != b && pend[i].prio == m.prio && (kind != 2 || pend[i].dist == m.dist)) ties++;
                        if (ties) n_ties++;
                        if (kind == 2) { int otherd = 0; for (int i = 0; i < npend; i++) if (pend[i].dist != m.dist) otherd = 1; if (otherd) n_dist_decisive++; }
                        if (kind == 1) {
                            if (g.prio != m.prio) { snprintf(key, sizeof key, "ip:not-lowest-priority%s", had_ip_dist ? ":after-distance-schedule" : ""); vf_violation(key, "sequence %ld op %d: ip returned task %d (priority %d, scheduled at distance %d) while task %d with priority %d is pending", q, op, g.id, g.prio, g.dist, m.id, m.prio); }
                        } else if (kind == 2 && g.dist != m.dist) {
                            snprintf(key, sizeof key, "spq:larger-distance-first"); vf_violation(key, "sequence %ld op %d: spq returned task %d stored at distance %d while task %d is pending at distance %d", q, op, g.id, g.dist, m.id, m.dist);
                        } else if (g.prio != m.prio) {
                            snprintf(key, sizeof key, "%s:not-highest-priority", sched_name); vf_violation(key, "sequence %ld op %d: returned task %d priority %d while task %d priority %d is pending%s", q, op, g.id, g.prio, m.id, m.prio, kind == 2 ? " at the same distance" : "");
                        } else if (g.id != m.id) {
                            snprintf(key, sizeof key, "%s:tie-not-in-scheduling-order", sched_name); vf_violation(key, "sequence %ld op %d: among priority %d returned task %d (scheduling order #%ld) before task %d (#%ld)", q, op, g.prio, g.id, g.seq, m.id, m.seq);
                        }
                        pend[gi] = pend[--npend]; freel[nf++] = got; structural++;
                    }
                }
                if (vf_nviolations) break;
            }
        }
        if (doprint || vf_nviolations) vf_out("{\"type\":\"sequence\",\"sched\":\"%s\",\"n\":%ld,\"complete\":%d,\"ops\":\"%s\"}", sched_name, q, (p < 60000 && !vf_nviolations && doprint) ? 1 : 0, doprint ? buf : "");
        if (vf_nviolations) break;
        if (npend != 0) { char key[96]; snprintf(key, sizeof key, "%s:not-drained", sched_name); vf_violation(key, "sequence %ld: %d tasks still pending after 2000 extra selects", q, npend); break; }
        n_ok++; if (structural >= 3 && sig_add(sig)) n_distinct++;
        VF_TICK();
    }
    vf_out("{\"type\":\"summary\",\"mode\":\"order\",\"sched\":\"%s\",\"sequences\":%ld,\"distinct_sequences\":%ld,\"ops\":%ld,\"selects\":%ld,\"selects_with_ties\":%ld,\"select_null_on_empty\":%ld,"
           "\"distance_schedules\":%ld,\"selects_decided_by_distance\":%ld,\"unsorted_rings\":%ld,\"ip_distance_schedules\":%ld}",
           sched_name, n_ok, n_distinct, n_ops, n_selects, n_ties, n_null, n_dist, n_dist_decisive, n_unsorted, n_ip_dist);
    return vf_nviolations ? 1 : 0;
}

int main(int argc, char **argv)
{
    const char *mode = vf_arg(argc, argv, "--mode", "conserve");
    sched_name = vf_arg(argc, argv, "--sched", "lfq");
    seed = (uint64_t)vf_arg_ll(argc, argv, "--seed", 1);
    vf_init_begin();
    int rc = !strcmp(mode, "order") ? run_order(argc, argv) : run_conserve(argc, argv);
    vf_heartbeat_stop();
    fflush(stdout);
    _exit(rc);
}
