/* C32: the concurrent hash table is a linearizable map across resizes.
 * Modes:
 *   hist    many short concurrent histories on a fresh table (1..3 initial bits, max_collisions_hint 1/2/16, colliding
 *           test-owned hash functions, pre-inserted ballast so that several table generations exist).  Operations:
 *           insert / find / remove with their locked spellings and the runtime's idiom lock_bucket + nolock_* (also the
 *           _handle variants), incl. insert-if-absent by several writers on shared keys.  Every key's sub-history is
 *           searched for a linearization (WGL) against a register-with-presence model (a map with unique keys is
 *           linearizable iff every key's sub-history is).  At quiescence: for_all visits exactly the items the final
 *           finds return, once each (before and after the finds migrated them); drain; for_all visits nothing; fini.
 *   stress  epochs of long runs on a fresh growing table: owner-state consistency of every result, conservation and
 *           for_all at the end of each epoch.
 * Legal client behaviour only: a key is inserted with the plain insert only by its single owner while it knows the key
 * absent; shared keys are inserted only with find-then-insert under the bucket lock; returned items are never
 * dereferenced by a thread that does not own them (results are compared as pointers). */
#include "parsec/parsec_config.h"
#include "parsec/class/parsec_hash_table.h"
#include "kit.h"

#define MAXT 16
#define MAXOPS 64
#define MAXKEYS 64
typedef struct { parsec_hash_table_item_t hi; int idx; int spare; char pad[24]; } item_t;

static parsec_hash_table_t ht;
static item_t *pool; static int npool;
static uint64_t hmod;                       /* 0: identity-like hash, else few distinct hash values */
static uint64_t hfn(parsec_key_t k, void *d) { (void)d; uint64_t x = (uint64_t)k; return hmod ? (x % hmod) * 0x9E3779B97F4A7C15ULL + 7 : x * 0xD6E8FEB86659FD93ULL; }
static int heq(parsec_key_t a, parsec_key_t b, void *d) { (void)d; return a == b; }
static char *hpr(char *b, size_t n, parsec_key_t k, void *d) { (void)d; snprintf(b, n, "%lu", (unsigned long)k); return b; }
static parsec_key_fn_t kfn = { .key_equal = heq, .key_print = hpr, .key_hash = hfn };

static void table_open(int bits, int hint, int maxbits) {
    PARSEC_OBJ_CONSTRUCT(&ht, parsec_hash_table_t);
    parsec_hash_table_init(&ht, offsetof(item_t, hi), bits, kfn, NULL);
    ht.max_collisions_hint = hint;          /* = MCA parsec_hash_table_max_collisions_hint, set per table */
    ht.max_table_nb_bits = maxbits;         /* = MCA parsec_hash_table_max_table_nb_bits */
}
static int table_levels(void) { int n = 0; for (parsec_hash_table_head_t *h = ht.rw_hash; h; h = h->next) n++; return n; }
static inline int idx_of(void *p) {
    if (!p) return -1;
    if ((char *)p < (char *)pool || (char *)p >= (char *)(pool + npool) || ((char *)p - (char *)pool) % sizeof(item_t)) return -2;
    return (int)((item_t *)p - pool);
}

enum { O_INS, O_FIND, O_REM, O_PIA };
static const char *opname[] = {"insert", "find", "remove", "insert_if_absent"};
typedef struct { int16_t tid, type, key, val, res, variant; uint64_t inv, resp; } op_t;

/* ---- the three spellings of each operation ---- */
static inline void *do_find(parsec_key_t k, int variant) {
    void *r; parsec_key_handle_t kh;
    switch (variant % 3) {
    case 0: return parsec_hash_table_find(&ht, k);
    case 1: parsec_hash_table_lock_bucket(&ht, k); r = parsec_hash_table_nolock_find(&ht, k); parsec_hash_table_unlock_bucket(&ht, k); return r;
    default: parsec_hash_table_lock_bucket_handle(&ht, k, &kh); r = parsec_hash_table_nolock_find_handle(&ht, &kh); parsec_hash_table_unlock_bucket_handle(&ht, &kh); return r;
    }
}
static inline void *do_remove(parsec_key_t k, int variant) {
    void *r; parsec_key_handle_t kh;
    switch (variant % 3) {
    case 0: return parsec_hash_table_remove(&ht, k);
    case 1: parsec_hash_table_lock_bucket(&ht, k); r = parsec_hash_table_nolock_remove(&ht, k); parsec_hash_table_unlock_bucket(&ht, k); return r;
    default: parsec_hash_table_lock_bucket_handle(&ht, k, &kh); r = parsec_hash_table_nolock_remove_handle(&ht, &kh); parsec_hash_table_unlock_bucket_handle(&ht, &kh); return r;
    }
}
static inline void do_insert(item_t *it, int variant) {
    parsec_key_handle_t kh; parsec_key_t k = it->hi.key;
    switch (variant % 3) {
    case 0: parsec_hash_table_insert(&ht, &it->hi); return;
    case 1: parsec_hash_table_lock_bucket(&ht, k); parsec_hash_table_nolock_insert(&ht, &it->hi); parsec_hash_table_unlock_bucket(&ht, k); return;
    default: parsec_hash_table_lock_bucket_handle(&ht, k, &kh); parsec_hash_table_nolock_insert_handle(&ht, &kh, &it->hi); parsec_hash_table_unlock_bucket_handle(&ht, &kh); return;
    }
}
/* the runtime's insert-if-absent idiom; returns the item already there, or NULL when ours went in */
static inline void *do_pia(item_t *it, int variant) {
    void *r; parsec_key_handle_t kh; parsec_key_t k = it->hi.key;
    if (variant & 1) { parsec_hash_table_lock_bucket_handle(&ht, k, &kh); r = parsec_hash_table_nolock_find_handle(&ht, &kh); if (!r) parsec_hash_table_nolock_insert_handle(&ht, &kh, &it->hi); parsec_hash_table_unlock_bucket_handle(&ht, &kh); }
    else { parsec_hash_table_lock_bucket(&ht, k); r = parsec_hash_table_nolock_find(&ht, k); if (!r) parsec_hash_table_nolock_insert(&ht, &it->hi); parsec_hash_table_unlock_bucket(&ht, k); }
    return r;
}

/* =================================================================== history mode */
typedef struct {
    int nthreads, ops_per_thread, nown, nshared, nballast; uint64_t seed;
    vf_spinbar_t bar; volatile int stop; volatile long hist_no;
    op_t log[MAXT][MAXOPS]; int nlog[MAXT];
    int own_present[MAXKEYS];                /* written only by the owner thread */
    int stash[MAXT][32]; int nstash[MAXT];   /* free items for shared keys */
} hist_t;
static hist_t G;
/* key numbering (keys start at 1): 1..nown owner keys (owner = key % threads), then shared keys, then ballast keys
 * (pre-inserted by the main thread before the threads start, then owned by thread key % threads) */
#define KEY_SHARED0 (G.nown + 1)
#define KEY_BALLAST0 (G.nown + G.nshared + 1)
#define NKEYS (G.nown + G.nshared + G.nballast)
#define ITEM_OF_KEY(k) ((k) <= G.nown ? (k) : (k) - G.nshared)      /* owner and ballast keys have one fixed item */

static void hist_worker(int tid, int nt, void *arg) {
    (void)arg; vf_rng_t rng;
    for (;;) {
        vf_spinbar_wait(&G.bar);
        if (G.stop) return;
        vf_rng_seed(&rng, G.seed + (uint64_t)G.hist_no * 1315423911ULL, tid + 1);
        int n = 0;
        for (int k = 0; k < G.ops_per_thread; k++) {
            op_t *o = &G.log[tid][n]; uint32_t d = vf_randn(&rng, 100); int variant = (int)vf_randn(&rng, 6);
            o->tid = (int16_t)tid; o->val = -1; o->res = -1; o->variant = (int16_t)variant;
            if (d < 30) {                                   /* my owner keys: insert when absent, else remove or find */
                /* my keys: the plain owner keys and my share of the pre-inserted (ballast) keys, which still sit in older tables */
                int mine[MAXKEYS], nm = 0; for (int q = 1; q <= NKEYS; q++) if ((q <= G.nown || q >= KEY_BALLAST0) && q % nt == tid) mine[nm++] = q;
                if (!nm) { d = 90; goto other; }
                int key = mine[vf_randn(&rng, (uint32_t)nm)]; item_t *it = &pool[ITEM_OF_KEY(key)]; o->key = (int16_t)key;
                if (!G.own_present[key]) { it->hi.key = (parsec_key_t)key; o->type = O_INS; o->val = (int16_t)it->idx; o->inv = vf_stamp(); do_insert(it, variant); o->resp = vf_stamp(); G.own_present[key] = 1; }
                else if (vf_randn(&rng, 3)) { o->type = O_REM; o->inv = vf_stamp(); void *r = do_remove((parsec_key_t)key, variant); o->resp = vf_stamp(); o->res = (int16_t)idx_of(r); G.own_present[key] = 0; }
                else { o->type = O_FIND; o->inv = vf_stamp(); void *r = do_find((parsec_key_t)key, variant); o->resp = vf_stamp(); o->res = (int16_t)idx_of(r); }
            } else if (d < 70 && G.nshared) {               /* shared keys: insert-if-absent or remove, by anybody */
                int key = KEY_SHARED0 + (int)vf_randn(&rng, (uint32_t)G.nshared); o->key = (int16_t)key;
                if (G.nstash[tid] && vf_randn(&rng, 5) < 3) {
                    item_t *it = &pool[G.stash[tid][G.nstash[tid] - 1]]; it->hi.key = (parsec_key_t)key;
                    o->type = O_PIA; o->val = (int16_t)it->idx; o->inv = vf_stamp(); void *r = do_pia(it, variant); o->resp = vf_stamp(); o->res = (int16_t)idx_of(r);
                    if (!r) G.nstash[tid]--;                /* ours went in */
                } else {
                    o->type = O_REM; o->inv = vf_stamp(); void *r = do_remove((parsec_key_t)key, variant); o->resp = vf_stamp(); o->res = (int16_t)idx_of(r);
                    if (o->res >= 0 && G.nstash[tid] < 32) G.stash[tid][G.nstash[tid]++] = o->res;     /* we own it now */
                }
            } else { other:;                                 /* find on any key, also ballast living in old tables */
                int key = 1 + (int)vf_randn(&rng, (uint32_t)NKEYS); o->key = (int16_t)key;
                o->type = O_FIND; o->inv = vf_stamp(); void *r = do_find((parsec_key_t)key, variant); o->resp = vf_stamp(); o->res = (int16_t)idx_of(r);
            }
            n++; VF_TICK();
        }
        G.nlog[tid] = n;
        vf_spinbar_wait(&G.bar);
    }
}

/* ---- per-key WGL against a register with presence ---- */
static op_t *KH[64]; static int KN;
static uint64_t kmemo[4096]; static int kmemo_n;    /* (mask,state) pairs seen */
static long wgl_nodes, wgl_budget = 3000000; static int wgl_over;
static int kseen(uint64_t mask, int st) {
    uint64_t h = vf_mix(mask, (uint64_t)(st + 2)) | 1; unsigned i = (unsigned)(h % 4096);
    for (int probe = 0; probe < 4096; probe++, i = (i + 1) % 4096) { if (!kmemo[i]) { if (kmemo_n < 3000) { kmemo[i] = h; kmemo_n++; } return 0; } if (kmemo[i] == h) return 1; }
    return 0;
}
static int kwgl(uint64_t mask, int st) {
    if (mask == (KN == 64 ? ~0ULL : ((1ULL << KN) - 1))) return 1;
    if (++wgl_nodes > wgl_budget) { wgl_over = 1; return 1; }
    if (kseen(mask, st)) return 0;
    uint64_t minresp = ~0ULL;
    for (int i = 0; i < KN; i++) if (!(mask >> i & 1) && KH[i]->resp < minresp) minresp = KH[i]->resp;
    for (int i = 0; i < KN; i++) {
        if ((mask >> i & 1) || KH[i]->inv > minresp) continue;
        op_t *o = KH[i]; int ns = st, ok = 0;
        switch (o->type) {
        case O_INS: ok = (st == -1); ns = o->val; break;
        case O_FIND: ok = (st == o->res); break;
        case O_REM: ok = (st == o->res); ns = -1; break;
        case O_PIA: if (st == -1) { ok = (o->res == -1); ns = o->val; } else ok = (o->res == st); break;
        }
        if (ok && kwgl(mask | (1ULL << i), ns)) return 1;
    }
    return 0;
}

static uint64_t *sigset; static size_t sigcap, nsig;
static int sig_add(uint64_t s) {
    if (!s) s = 1;
    size_t i = (size_t)(s % sigcap);
    while (sigset[i]) { if (sigset[i] == s) return 0; i = (i + 1) % sigcap; }
    if (nsig * 2 < sigcap) { sigset[i] = s; nsig++; }
    return 1;
}
static int visited[4096]; static int nvisit_bad;
static void visit_cb(void *item, void *d) { (void)d; int i = idx_of(item); if (i < 0) nvisit_bad++; else if (++visited[i] > 100000) {
    vf_violation("ht:for_all:endless", "for_all visited item %d more than 100000 times on a quiescent table (cycle in a bucket chain)", i); fflush(stdout); _exit(1); } }

static op_t HALL[MAXT * MAXOPS + 4 * MAXKEYS]; static int HALLN;
static void print_key_history(const char *why, int key) {
    char buf[4096]; int p = 0;
    for (int i = 0; i < KN && p < 3800; i++) { op_t *o = KH[i];
        p += snprintf(buf + p, sizeof buf - p, "[t%d %s/%d", o->tid, opname[o->type], o->variant);
        if (o->val >= 0) p += snprintf(buf + p, sizeof buf - p, " item%d", o->val);
        if (o->type != O_INS) p += snprintf(buf + p, sizeof buf - p, "->%d", o->res);
        p += snprintf(buf + p, sizeof buf - p, " @%llu-%llu] ", (unsigned long long)o->inv, (unsigned long long)o->resp); }
    vf_out("{\"type\":\"history\",\"why\":\"%s\",\"key\":%d,\"ops\":\"%s\"}", why, key, buf);
}
static int cmp_inv_p(const void *a, const void *b) { uint64_t x = (*(op_t *const *)a)->inv, y = (*(op_t *const *)b)->inv; return x < y ? -1 : x > y; }

static op_t *main_op(int type, int key) { op_t *o = &HALL[HALLN++]; o->tid = 99; o->type = (int16_t)type; o->key = (int16_t)key; o->val = -1; o->res = -1; o->variant = 0; return o; }

static int run_hist(int argc, char **argv) {
    long nhist = vf_arg_ll(argc, argv, "--histories", 500);
    G.nthreads = (int)vf_arg_ll(argc, argv, "--threads", 4); if (G.nthreads > MAXT) G.nthreads = MAXT;
    int full_ops = (int)vf_arg_ll(argc, argv, "--ops", 10); if (full_ops > MAXOPS) full_ops = MAXOPS;
    G.seed = (uint64_t)vf_arg_ll(argc, argv, "--seed", 1);
    npool = 256; if (posix_memalign((void **)&pool, 64, sizeof(item_t) * (size_t)npool)) return 2;
    memset(pool, 0, sizeof(item_t) * (size_t)npool); for (int i = 0; i < npool; i++) pool[i].idx = i;
    sigcap = 1 << 20; sigset = calloc(sigcap, sizeof(uint64_t));
    vf_spinbar_init(&G.bar, G.nthreads + 1);
    pthread_t th[MAXT]; vf_team_ctx_t cx[MAXT]; pthread_barrier_t pb; pthread_barrier_init(&pb, NULL, (unsigned)G.nthreads);
    for (int i = 0; i < G.nthreads; i++) { cx[i] = (vf_team_ctx_t){hist_worker, NULL, i, G.nthreads, &pb}; pthread_create(&th[i], NULL, vf_team_tramp, &cx[i]); }
    long ok = 0, bad = 0, overlapped = 0, withresize = 0, nontrivial = 0, distinct = 0, totops = 0, samples = 0, resizes = 0, maxlevels = 0, keyhist = 0, keyconc = 0, pia_lost = 0, found_old = 0;
    long by_hint[3] = {0}, by_res[4] = {0}, inconclusive = 0;
    vf_rng_t mr; vf_rng_seed(&mr, G.seed, 999);
    for (long h = 0; h < nhist && !vf_nviolations; h++) {
        G.hist_no = h;
        int bits = 1 + (int)vf_randn(&mr, 10) / 6, hint = (int[]){1, 1, 2, 2, 16}[vf_randn(&mr, 5)], maxbits = 5 + (int)vf_randn(&mr, 6);
        hmod = (uint64_t[]){0, 0, 1, 2, 3, 7}[vf_randn(&mr, 6)];
        G.ops_per_thread = 3 + (int)vf_randn(&mr, (uint32_t)full_ops - 2);
        G.nown = 2 + (int)vf_randn(&mr, 6); G.nshared = (int)vf_randn(&mr, 4); G.nballast = (hint == 16 ? 20 : 0) + (int)vf_randn(&mr, 14);
        /* item index ranges: 1..nown owner items, then ballast items, then stash items */
        int nxt = G.nown + 1; HALLN = 0;
        memset(G.own_present, 0, sizeof G.own_present);
        table_open(bits, hint, maxbits);
        for (int b = 0; b < G.nballast; b++) { int key = KEY_BALLAST0 + b; item_t *it = &pool[nxt++]; G.own_present[key] = 1; it->hi.key = (parsec_key_t)key; op_t *o = main_op(O_INS, key); o->val = (int16_t)it->idx; o->inv = vf_stamp(); do_insert(it, b); o->resp = vf_stamp(); }
        int per = G.nshared ? 3 : 0; for (int t = 0; t < G.nthreads; t++) { G.nstash[t] = 0; for (int q = 0; q < per; q++) G.stash[t][G.nstash[t]++] = nxt++; }
        int items_used = nxt, levels0 = table_levels(), bits0 = (int)ht.rw_hash->nb_bits;
        vf_spinbar_wait(&G.bar); vf_spinbar_wait(&G.bar);
        for (int t = 0; t < G.nthreads; t++) for (int k = 0; k < G.nlog[t]; k++) HALL[HALLN++] = G.log[t][k];
        int lv = table_levels(), nb = (int)ht.rw_hash->nb_bits; if (lv > maxlevels) maxlevels = lv;
        /* quiescent: for_all before the finds, the finds (recorded), for_all after, drain (recorded), for_all, fini */
        memset(visited, 0, sizeof visited); nvisit_bad = 0; parsec_hash_table_for_all(&ht, visit_cb, NULL);
        int before[256]; memcpy(before, visited, sizeof before);
        int present[MAXKEYS + 1]; int npresent = 0;
        for (int key = 1; key <= NKEYS; key++) { op_t *o = main_op(O_FIND, key); o->inv = vf_stamp(); void *r = parsec_hash_table_find(&ht, (parsec_key_t)key); o->resp = vf_stamp(); o->res = (int16_t)idx_of(r); present[key] = o->res; if (o->res >= 0) npresent++; }
        memset(visited, 0, sizeof visited); parsec_hash_table_for_all(&ht, visit_cb, NULL);
        for (int key = 1; key <= NKEYS && !vf_nviolations; key++) if (present[key] >= 0) { op_t *o = main_op(O_REM, key); o->inv = vf_stamp(); void *r = parsec_hash_table_remove(&ht, (parsec_key_t)key); o->resp = vf_stamp(); o->res = (int16_t)idx_of(r); }
        int after_drain[256]; memset(after_drain, 0, sizeof after_drain);
        if (!vf_nviolations) { int keep[256]; memcpy(keep, visited, sizeof keep); memset(visited, 0, sizeof visited); parsec_hash_table_for_all(&ht, visit_cb, NULL); memcpy(after_drain, visited, sizeof after_drain); memcpy(visited, keep, sizeof keep); }
        totops += HALLN;
        /* results must be items (or NULL) */
        for (int i = 0; i < HALLN && !vf_nviolations; i++) if (HALL[i].res == -2 || HALL[i].res >= items_used) vf_violation("ht:returned-garbage", "history %ld: %s(key %d) returned a pointer that is not an item in use", h, opname[HALL[i].type], HALL[i].key);
        /* per-key linearizability */
        int hist_ok = 1, anyov = 0;
        for (int key = 1; key <= NKEYS && !vf_nviolations; key++) {
            KN = 0; for (int i = 0; i < HALLN && KN < 64; i++) if (HALL[i].key == key) KH[KN++] = &HALL[i];
            if (KN >= 64) continue;
            qsort(KH, (size_t)KN, sizeof(KH[0]), cmp_inv_p);
            int conc = 0; for (int i = 0; i < KN && !conc; i++) for (int j = 0; j < KN; j++) if (KH[i]->tid != KH[j]->tid && KH[i]->inv < KH[j]->resp && KH[j]->inv < KH[i]->resp) { conc = 1; break; }
            keyhist++; keyconc += conc;
            memset(kmemo, 0, sizeof kmemo); kmemo_n = 0; wgl_nodes = 0; wgl_over = 0;
            int lin = kwgl(0, -1); if (wgl_over) { inconclusive++; continue; }
            if (!lin) {
                hist_ok = 0; const char *cls = key < KEY_SHARED0 ? "owner-key" : key < KEY_BALLAST0 ? "shared-key" : "ballast-key";
                /* name the kind of witness: a present key not found / not removed, or anything else */
                const char *kind = "not-linearizable";
                for (int i = 0; i < KN; i++) if ((KH[i]->type == O_FIND || KH[i]->type == O_REM) && KH[i]->res == -1) { int insb = 0, remb = 0; for (int j = 0; j < KN; j++) { if ((KH[j]->type == O_INS || (KH[j]->type == O_PIA && KH[j]->res == -1)) && KH[j]->resp < KH[i]->inv) insb++; if (KH[j]->type == O_REM && KH[j]->res >= 0 && KH[j]->inv < KH[i]->resp) remb++; }
                        if (insb > remb) { kind = KH[i]->type == O_FIND ? "present-key-not-found" : "present-key-not-removed"; break; } }
                char kkey[96]; snprintf(kkey, sizeof kkey, "ht:%s:%s", cls, kind);
                vf_violation(kkey, "history %ld key %d (%d ops; table bits %d->%d, %d levels, hint %d, hash mod %llu): no linearization against a map with unique keys", h, key, KN, bits0, nb, lv, hint, (unsigned long long)hmod);
                print_key_history(kind, key);
            }
        }
        for (int pass = 0; pass < 2 && !vf_nviolations; pass++) {
            int *v = pass ? visited : before; int expect[256]; memset(expect, 0, sizeof expect);
            for (int key = 1; key <= NKEYS; key++) if (present[key] >= 0 && present[key] < 256) expect[present[key]]++;
            for (int i = 0; i < 256 && !vf_nviolations; i++) {
                if (v[i] > 1) vf_violation("ht:for_all:visited-twice", "history %ld: for_all on the quiescent table (%s the final finds) visited item %d %d times", h, pass ? "after" : "before", i, v[i]);
                else if (v[i] == 1 && !expect[i]) vf_violation("ht:for_all:visited-absent", "history %ld: for_all visited item %d which no find returns", h, i);
                else if (v[i] == 0 && expect[i]) vf_violation("ht:for_all:missed", "history %ld: for_all (%s the final finds) did not visit item %d which find returns (levels %d, bits %d)", h, pass ? "after" : "before", i, lv, nb);
            }
        }
        if (nvisit_bad && !vf_nviolations) vf_violation("ht:for_all:garbage", "history %ld: for_all passed %d pointers that are not items", h, nvisit_bad);
        if (!vf_nviolations) for (int i = 0; i < 256; i++) if (after_drain[i]) { vf_violation("ht:for_all:visited-after-drain", "history %ld: item %d still visited after every key was removed", h, i); break; }
        if (!vf_nviolations) PARSEC_OBJ_DESTRUCT(&ht);
        for (int i = 0; i < HALLN && !anyov; i++) for (int j = 0; j < HALLN; j++) if (HALL[i].tid != HALL[j].tid && HALL[i].tid != 99 && HALL[j].tid != 99 && HALL[i].inv < HALL[j].resp && HALL[j].inv < HALL[i].resp) { anyov = 1; break; }
        if (vf_nviolations) { bad++; break; }
        ok += hist_ok; overlapped += anyov; int rz = nb - bits; resizes += rz; if (rz) withresize++;
        by_hint[hint == 1 ? 0 : hint == 2 ? 1 : 2]++; by_res[rz > 3 ? 3 : rz]++;
        for (int i = 0; i < HALLN; i++) { if (HALL[i].type == O_PIA && HALL[i].res >= 0) pia_lost++; if (HALL[i].tid != 99 && HALL[i].type == O_FIND && HALL[i].res >= 0 && HALL[i].key >= KEY_BALLAST0) found_old++; }
        (void)levels0;
        if (anyov && rz) { nontrivial++;
            uint64_t sig = vf_mix(0x32, (uint64_t)(bits * 1000 + hint * 10 + (int)hmod)); op_t *ord[MAXT * MAXOPS + 4 * MAXKEYS]; for (int i = 0; i < HALLN; i++) ord[i] = &HALL[i]; qsort(ord, (size_t)HALLN, sizeof(ord[0]), cmp_inv_p);
            for (int i = 0; i < HALLN; i++) sig = vf_mix(sig, (uint64_t)(ord[i]->tid * 4096 + ord[i]->type * 1024 + ord[i]->key * 8 + (ord[i]->res >= 0)) ^ (ord[i]->resp > (i + 1 < HALLN ? ord[i + 1]->inv : ~0ULL) ? 0x8000000 : 0));
            if (sig_add(sig)) distinct++;
            if (samples < 3 && G.nshared) { int key = KEY_SHARED0; KN = 0; for (int i = 0; i < HALLN && KN < 64; i++) if (HALL[i].key == key) KH[KN++] = &HALL[i]; if (KN >= 5) { qsort(KH, (size_t)KN, sizeof(KH[0]), cmp_inv_p); samples++; print_key_history("sample", key); } } }
    }
    G.stop = 1; vf_spinbar_wait(&G.bar);
    for (int i = 0; i < G.nthreads; i++) pthread_join(th[i], NULL);
    vf_out("{\"type\":\"summary\",\"mode\":\"hist\",\"histories\":%ld,\"linearizable\":%ld,\"overlapped\":%ld,\"with_resize\":%ld,\"nontrivial\":%ld,\"distinct\":%ld,\"ops\":%ld,\"resizes\":%ld,\"max_levels\":%ld,"
           "\"key_histories\":%ld,\"key_histories_concurrent\":%ld,\"insert_if_absent_found_other\":%ld,\"finds_of_ballast_hit\":%ld,\"hint1\":%ld,\"hint2\":%ld,\"hint16\":%ld,\"resize0\":%ld,\"resize1\":%ld,\"resize2\":%ld,\"resize3plus\":%ld,\"inconclusive_keys\":%ld,\"threads\":%d,\"yield_hits\":%llu}",
           ok + bad, ok, overlapped, withresize, nontrivial, distinct, totops, resizes, maxlevels, keyhist, keyconc, pia_lost, found_old, by_hint[0], by_hint[1], by_hint[2], by_res[0], by_res[1], by_res[2], by_res[3], inconclusive, G.nthreads,
           (unsigned long long)vf_yield_hits(PARSEC_VERIF_SITE_HASH_TABLE));
    return vf_nviolations ? 1 : 0;
}

/* =================================================================== stress mode */
typedef struct {
    int nthreads, kpt, nshared; long rounds; uint64_t seed;
    vf_spinbar_t bar; volatile int stop; volatile long epoch;
    volatile long ops, finds_other, shared_in, shared_out;
    int8_t *in;                               /* in[t*kpt+i]: owner's view of its key */
    int *perm; int waves;
} stress_t;
static stress_t S;
/* keys: owner keys 1..T*kpt (item idx = key), shared keys T*kpt+1 .. +nshared; shared items: per thread stash */
static void stress_worker(int tid, int nt, void *arg) {
    (void)arg; vf_rng_t rng; int stash[64], nst = 0; long n = 0, fo = 0, sin = 0, sout = 0;
    int base = nt * S.kpt + S.nshared + 1 + tid * 8;
    for (;;) {
        vf_spinbar_wait(&S.bar);
        if (S.stop) break;
        vf_rng_seed(&rng, S.seed + (uint64_t)S.epoch * 7919, tid + 300);
        nst = 0; for (int q = 0; q < 8; q++) stash[nst++] = base + q;
        /* wave: every thread inserts all its keys (the table grows through its generations), then every thread removes all
         * its keys at the same time while looking up keys of the others: most of these operations work on older tables */
        {
            int *perm = S.perm + tid * S.kpt;
            for (int ph = 0; ph < 2 && S.waves; ph++) {
                for (int i = 0; i < S.kpt; i++) perm[i] = i;
                for (int i = S.kpt - 1; i > 0; i--) { int j = (int)vf_randn(&rng, (uint32_t)i + 1), t = perm[i]; perm[i] = perm[j]; perm[j] = t; }
                for (int q = 0; q < S.kpt && !vf_nviolations; q++) {
                    int i = perm[q], key = tid * S.kpt + i + 1, variant = (int)vf_randn(&rng, 6); item_t *e = &pool[key]; int8_t *in = &S.in[tid * S.kpt + i];
                    if (vf_randn(&rng, 3) == 0) { int o = (int)vf_randn(&rng, (uint32_t)nt), k2 = o * S.kpt + (int)vf_randn(&rng, (uint32_t)S.kpt) + 1; void *qq = do_find((parsec_key_t)k2, variant); fo++;
                        if (qq && qq != &pool[k2]) { vf_violation("ht:stress:find-returned-other-item", "find(key %d) returned an item that is not the item of that key", k2); break; } }
                    if (ph == 0) { if (!*in) { e->hi.key = (parsec_key_t)key; do_insert(e, variant); *in = 1; } }
                    else if (*in) { void *p = do_remove((parsec_key_t)key, variant); *in = 0;
                        if (p != e) { vf_violation(p ? "ht:stress:remove-returned-other-item" : "ht:stress:present-key-not-removed", "wave: thread %d removing its present key %d got %s (table bits %u, %d levels)", tid, key, p ? "another pointer" : "NULL", ht.rw_hash->nb_bits, table_levels()); break; } }
                    n++; if ((n & 255) == 0) VF_TICK();
                }
                vf_spinbar_wait(&S.bar);
            }
        }
        for (long r = 0; r < S.rounds && !vf_nviolations; r++) {
            uint32_t d = vf_randn(&rng, 100); int variant = (int)vf_randn(&rng, 6);
            if (d < 70) {
                int i = (int)vf_randn(&rng, (uint32_t)S.kpt), key = tid * S.kpt + i + 1; item_t *e = &pool[key]; int8_t *in = &S.in[tid * S.kpt + i];
                uint32_t act = vf_randn(&rng, 3);
                if (act == 0 && !*in) { e->hi.key = (parsec_key_t)key; do_insert(e, variant); *in = 1; }
                else if (act == 1 && *in) { void *p = do_remove((parsec_key_t)key, variant); *in = 0;
                    if (p != e) { vf_violation(p ? "ht:stress:remove-returned-other-item" : "ht:stress:present-key-not-removed", "thread %d removing its present key %d got %s (table bits %u, %d levels)", tid, key, p ? "another pointer" : "NULL", ht.rw_hash->nb_bits, table_levels()); break; } }
                else { void *p = do_find((parsec_key_t)key, variant);
                    if ((p == e) != (*in != 0) || (p && p != e)) { vf_violation(*in ? "ht:stress:present-key-not-found" : "ht:stress:absent-key-found", "thread %d looked up its own key %d (%s) and got %s (table bits %u, %d levels)", tid, key, *in ? "present" : "absent", p ? (p == e ? "its item" : "another pointer") : "NULL", ht.rw_hash->nb_bits, table_levels()); break; } }
            } else if (d < 85) {                            /* somebody else's key: NULL or exactly that key's item */
                int o = (int)vf_randn(&rng, (uint32_t)nt), key = o * S.kpt + (int)vf_randn(&rng, (uint32_t)S.kpt) + 1;
                void *q = do_find((parsec_key_t)key, variant); fo++;
                if (q && q != &pool[key]) { vf_violation("ht:stress:find-returned-other-item", "find(key %d) returned an item that is not the item of that key", key); break; }
            } else if (S.nshared) {
                int key = nt * S.kpt + 1 + (int)vf_randn(&rng, (uint32_t)S.nshared);
                if (nst && (d & 1)) { item_t *it = &pool[stash[nst - 1]]; it->hi.key = (parsec_key_t)key; void *q = do_pia(it, variant); if (!q) { nst--; sin++; } else if (idx_of(q) < nt * S.kpt + S.nshared + 1) { vf_violation("ht:stress:shared-find-returned-other-item", "insert-if-absent on shared key %d found a pointer that is not a shared item", key); break; } }
                else { void *q = do_remove((parsec_key_t)key, variant); if (q) { int ix = idx_of(q); if (ix < nt * S.kpt + S.nshared + 1) { vf_violation("ht:stress:shared-remove-returned-other-item", "remove of shared key %d returned a pointer that is not a shared item", key); break; } sout++; if (nst < 64) stash[nst++] = ix; } }
            }
            n++; if ((n & 1023) == 0) VF_TICK();
        }
        /* give the shared items we still hold back to nobody: they are simply not in the table */
        vf_spinbar_wait(&S.bar);
    }
    __sync_fetch_and_add(&S.ops, n); __sync_fetch_and_add(&S.finds_other, fo); __sync_fetch_and_add(&S.shared_in, sin); __sync_fetch_and_add(&S.shared_out, sout);
}
static int run_stress(int argc, char **argv) {
    S.nthreads = (int)vf_arg_ll(argc, argv, "--threads", 8); if (S.nthreads > MAXT) S.nthreads = MAXT;
    S.kpt = (int)vf_arg_ll(argc, argv, "--keys", 128); S.nshared = (int)vf_arg_ll(argc, argv, "--shared", 8);
    S.rounds = vf_arg_ll(argc, argv, "--rounds", 20000); long epochs = vf_arg_ll(argc, argv, "--epochs", 4); S.seed = (uint64_t)vf_arg_ll(argc, argv, "--seed", 1);
    int hint = (int)vf_arg_ll(argc, argv, "--hint", 1), maxbits = (int)vf_arg_ll(argc, argv, "--maxbits", 12); hmod = (uint64_t)vf_arg_ll(argc, argv, "--hmod", 0);
    npool = S.nthreads * S.kpt + S.nshared + 1 + S.nthreads * 8; if (npool > 4096) return 2;
    if (posix_memalign((void **)&pool, 64, sizeof(item_t) * (size_t)npool)) return 2; memset(pool, 0, sizeof(item_t) * (size_t)npool); for (int i = 0; i < npool; i++) pool[i].idx = i;
    S.in = calloc((size_t)(S.nthreads * S.kpt), 1); S.perm = calloc((size_t)(S.nthreads * S.kpt), sizeof(int)); S.waves = (int)vf_arg_ll(argc, argv, "--waves", 1);
    vf_spinbar_init(&S.bar, S.nthreads + 1);
    pthread_t th[MAXT]; vf_team_ctx_t cx[MAXT]; pthread_barrier_t pb; pthread_barrier_init(&pb, NULL, (unsigned)S.nthreads);
    for (int i = 0; i < S.nthreads; i++) { cx[i] = (vf_team_ctx_t){stress_worker, NULL, i, S.nthreads, &pb}; pthread_create(&th[i], NULL, vf_team_tramp, &cx[i]); }
    long resizes = 0, maxlevels = 0, done = 0, levels_after_grow = 0;
    for (long ep = 0; ep < epochs && !vf_nviolations; ep++) {
        S.epoch = ep; memset(S.in, 0, (size_t)(S.nthreads * S.kpt));
        int bits = 1 + (int)(ep % 3); table_open(bits, hint, maxbits);
        vf_spinbar_wait(&S.bar);
        if (S.waves) { vf_spinbar_wait(&S.bar); int l2 = table_levels(); if (l2 > maxlevels) maxlevels = l2; levels_after_grow += l2; vf_spinbar_wait(&S.bar); }
        vf_spinbar_wait(&S.bar);
        if (vf_nviolations) break;
        int lv = table_levels(); if (lv > maxlevels) maxlevels = lv; resizes += (int)ht.rw_hash->nb_bits - bits;
        memset(visited, 0, sizeof visited); nvisit_bad = 0; parsec_hash_table_for_all(&ht, visit_cb, NULL);
        int first_shared = S.nthreads * S.kpt + 1, nsh = 0;
        for (int key = 1; key < first_shared && !vf_nviolations; key++) { int in = S.in[key - 1];
            if (visited[key] != in) vf_violation(visited[key] > in ? (in ? "ht:for_all:visited-twice" : "ht:for_all:visited-absent") : "ht:for_all:missed", "epoch %ld: for_all visited the item of key %d %d times, its owner has it %s (bits %u, %d levels)", ep, key, visited[key], in ? "present" : "absent", ht.rw_hash->nb_bits, lv); }
        for (int i = first_shared; i < npool && !vf_nviolations; i++) { if (visited[i] > 1) vf_violation("ht:for_all:visited-twice", "epoch %ld: shared item %d visited %d times", ep, i, visited[i]); nsh += visited[i]; }
        /* drain: every key the owners hold, then the shared keys; afterwards the table must be empty */
        for (int key = 1; key < first_shared && !vf_nviolations; key++) if (S.in[key - 1]) { void *p = parsec_hash_table_remove(&ht, (parsec_key_t)key); if (p != &pool[key]) vf_violation("ht:stress:present-key-not-removed", "epoch %ld: quiescent remove of present key %d returned %s", ep, key, p ? "another pointer" : "NULL"); }
        int drained = 0; for (int k = 0; k < S.nshared && !vf_nviolations; k++) { void *p = parsec_hash_table_remove(&ht, (parsec_key_t)(first_shared + k)); if (p) drained++; }
        if (!vf_nviolations && drained != nsh) vf_violation("ht:stress:shared-conservation", "epoch %ld: for_all saw %d shared items, the drain removed %d", ep, nsh, drained);
        if (!vf_nviolations) { memset(visited, 0, sizeof visited); parsec_hash_table_for_all(&ht, visit_cb, NULL); for (int i = 0; i < npool; i++) if (visited[i]) { vf_violation("ht:for_all:visited-after-drain", "epoch %ld: item %d still visited after the drain", ep, i); break; } }
        if (!vf_nviolations) PARSEC_OBJ_DESTRUCT(&ht);
        done++;
    }
    S.stop = 1; vf_spinbar_wait(&S.bar);
    for (int i = 0; i < S.nthreads; i++) pthread_join(th[i], NULL);
    vf_out("{\"type\":\"summary\",\"mode\":\"stress\",\"epochs\":%ld,\"ops\":%ld,\"finds_other\":%ld,\"shared_inserted\":%ld,\"shared_removed\":%ld,\"resizes\":%ld,\"max_levels\":%ld,\"generations_after_grow_sum\":%ld,\"threads\":%d,\"hint\":%d,\"yield_hits\":%llu}",
           done, S.ops, S.finds_other, S.shared_in, S.shared_out, resizes, maxlevels, levels_after_grow, S.nthreads, hint, (unsigned long long)vf_yield_hits(PARSEC_VERIF_SITE_HASH_TABLE));
    return vf_nviolations ? 1 : 0;
}

int main(int argc, char **argv) {
    const char *mode = vf_arg(argc, argv, "--mode", "hist");
    vf_yield_config((uint64_t)vf_arg_ll(argc, argv, "--seed", 1), (int)vf_arg_ll(argc, argv, "--yield", 0), (int)vf_arg_ll(argc, argv, "--yield-us", 0), 1ULL << PARSEC_VERIF_SITE_HASH_TABLE);
    vf_heartbeat_start();
    int rc = !strcmp(mode, "stress") ? run_stress(argc, argv) : run_hist(argc, argv);
    vf_heartbeat_stop();
    return rc;
}
