/* C37: taskpool identifiers resolve to the registered taskpool.
 * Modes:  hist   - sequential random reserve/register/unregister/lookup/sync histories against a reference map
 *                  (one fresh registry per process; histories continue each other so the array crosses
 *                  several doublings; every lookup is judged, periodic full scans after growth)
 *         conc   - 2..16 threads reserving/registering/looking up/unregistering concurrently
 *         mpi    - R ranks with different prior histories call parsec_taskpool_sync_ids and compare the
 *                  identifier of the next reservation (ids gathered by the harness)
 *         probe0 - parsec_taskpool_lookup(0) on a registry that has never seen a reservation (DESIGN 6.10)
 */
#include "parsec/parsec_config.h"
#include "parsec/parsec_internal.h"
#include "parsec/runtime.h"
#include <mpi.h>
#include "kit.h"

/* ---------------------------------------------------------------- reference map */
enum { ST_RESERVED = 1, ST_REGISTERED = 2, ST_UNREGISTERED = 3 };
typedef struct { uint32_t id; int st; parsec_taskpool_t *tp; } ent_t;
static ent_t *ents; static size_t nents, capents;
/* open-addressing index id -> slot in ents (+1) */
static uint32_t *idx; static size_t idxcap;

static void idx_grow(void) {
    size_t nc = idxcap ? idxcap * 2 : 1024; uint32_t *n = calloc(nc, sizeof(uint32_t));
    for (size_t i = 0; i < nents; i++) { size_t h = (size_t)(vf_mix(ents[i].id, 17) % nc); while (n[h]) h = (h + 1) % nc; n[h] = (uint32_t)i + 1; }
    free(idx); idx = n; idxcap = nc;
}
static ent_t *model_find(uint32_t id) {
    if (!idxcap) return NULL;
    size_t h = (size_t)(vf_mix(id, 17) % idxcap);
    while (idx[h]) { if (ents[idx[h] - 1].id == id) return &ents[idx[h] - 1]; h = (h + 1) % idxcap; }
    return NULL;
}
static ent_t *model_add(uint32_t id, parsec_taskpool_t *tp) {
    if (nents == capents) { capents = capents ? capents * 2 : 256; ents = realloc(ents, capents * sizeof(ent_t)); }
    if ((nents + 1) * 2 > idxcap) idx_grow();
    ents[nents] = (ent_t){id, ST_RESERVED, tp};
    size_t h = (size_t)(vf_mix(id, 17) % idxcap); while (idx[h]) h = (h + 1) % idxcap; idx[h] = (uint32_t)nents + 1;
    return &ents[nents++];
}
static parsec_taskpool_t *model_expect(uint32_t id) { ent_t *e = model_find(id); return (e && e->st == ST_REGISTERED) ? e->tp : NULL; }

static long n_lookups, n_lookup_hit, n_lookup_miss, n_reserve, n_register, n_unregister, n_sync, n_scan, n_lookup0;
static uint32_t max_id;
static int doublings_crossed;

static const char *cat_name[] = {"registered", "reserved-only", "unregistered", "never-issued", "far-beyond", "id0"};
static void check_lookup(uint32_t id, int cat, const char *ctxs) {
    parsec_taskpool_t *want = model_expect(id);
    parsec_taskpool_t *got = parsec_taskpool_lookup(id);
    n_lookups++; if (want) n_lookup_hit++; else n_lookup_miss++;
    if (got == want) return;
    if (id == 0 && NULL == model_find(0)) {   /* id 0 is never handed out: must be "not registered" */
        vf_violation("lookup:id0", "%s: lookup(0) returned %p instead of NULL after %ld reservations (slot 0 of the registry is never initialised)", ctxs, (void *)got, n_reserve);
        return;
    }
    if (want == NULL)
        vf_violation("lookup:stale-or-foreign", "%s: lookup(%u) [%s] returned %p, reference says not registered (pos=%u)", ctxs, id, cat_name[cat], (void *)got, max_id);
    else if (got == NULL)
        vf_violation("lookup:registered-not-found", "%s: lookup(%u) [%s] returned NULL, reference says %p is registered (newest id=%u)", ctxs, id, cat_name[cat], (void *)want, max_id);
    else
        vf_violation("lookup:wrong-taskpool", "%s: lookup(%u) returned %p, reference says %p", ctxs, id, (void *)got, (void *)want);
}
static int ilog2u(uint32_t v) { int l = 0; while (v >>= 1) l++; return l; }

static ent_t *do_reserve(const char *ctxs) {
    parsec_taskpool_t *tp = PARSEC_OBJ_NEW(parsec_taskpool_t);
    int id = parsec_taskpool_reserve_id(tp);
    n_reserve++;
    if ((uint32_t)id != tp->taskpool_id) vf_violation("reserve:id-mismatch", "%s: reserve returned %d but taskpool_id=%u", ctxs, id, tp->taskpool_id);
    ent_t *old = model_find((uint32_t)id);
    if (old && old->st != ST_UNREGISTERED) { vf_violation("reserve:duplicate-id", "%s: reserve returned id %d which is still %s", ctxs, id, old->st == ST_RESERVED ? "reserved" : "registered"); return NULL; }
    if (old) { old->st = ST_RESERVED; old->tp = tp; return old; }
    if ((uint32_t)id > max_id) { if (max_id && ilog2u((uint32_t)id) != ilog2u(max_id)) doublings_crossed++; max_id = (uint32_t)id; }
    return model_add((uint32_t)id, tp);
}
static void full_scan(const char *ctxs) {
    n_scan++;
    for (size_t i = 0; i < nents && !vf_nviolations; i++) check_lookup(ents[i].id, ents[i].st - 1, ctxs);
    for (uint32_t k = 1; k <= 3; k++) check_lookup(max_id + k, 3, ctxs);
}

/* ---------------------------------------------------------------- hist mode */
static int run_hist(int argc, char **argv) {
    uint64_t seed = (uint64_t)vf_arg_ll(argc, argv, "--seed", 1);
    long nh = vf_arg_ll(argc, argv, "--histories", 20);
    int maxops = (int)vf_arg_ll(argc, argv, "--ops", 40);
    int id0_permille = (int)vf_arg_ll(argc, argv, "--id0", 0);     /* weight of the lookup(0) probe after a reservation */
    int burst_permille = (int)vf_arg_ll(argc, argv, "--burst", 60); /* chance of a burst of reservations (growth) */
    vf_rng_t rng; vf_rng_seed(&rng, seed, 7);
    long distinct = 0, nontrivial = 0; uint64_t *sigs = calloc((size_t)nh + 1, sizeof(uint64_t));
    char sample[700]; int printed = 0;
    /* fresh registry: lookups of ids >= 1 must say "not registered" and must not touch the NULL array */
    check_lookup(1, 3, "fresh"); check_lookup(7, 3, "fresh"); check_lookup(0x7fffffffu, 4, "fresh"); check_lookup(0xffffffffu, 4, "fresh");
    parsec_taskpool_sync_ids_context((intptr_t)MPI_COMM_WORLD); n_sync++;   /* MPI not initialised: must be the identity */
    check_lookup(1, 3, "fresh+sync");
    for (long h = 0; h < nh && !vf_nviolations; h++) {
        int nops = 3 + vf_randn(&rng, maxops - 2); uint64_t sig = 0x51; int changed = 0; int sp = 0; sample[0] = 0;
        char hx[32]; snprintf(hx, sizeof hx, "history %ld", h);
        for (int k = 0; k < nops && !vf_nviolations; k++) {
            int t = vf_randn(&rng, 1000); int code;
            if (vf_chance(&rng, burst_permille)) {           /* burst: cross one or more doublings, then scan everything */
                int n = 1 + vf_randn(&rng, (uint32_t)(max_id < 64 ? 70 : max_id < 4096 ? max_id + 10 : 200));
                for (int j = 0; j < n; j++) { ent_t *e = do_reserve(hx); if (e && vf_chance(&rng, 500)) { parsec_taskpool_register(e->tp); e->st = ST_REGISTERED; n_register++; } }
                full_scan(hx); code = 9; changed = 1;
            } else if (t < 250 || nents == 0) {
                ent_t *e = do_reserve(hx); code = 1; changed = 1;
                if (e) check_lookup(e->id, 1, hx);           /* reserved only: must not resolve yet */
            } else if (t < 450) {                            /* register a reserved one (prefer recent) */
                ent_t *e = NULL; for (int tr = 0; tr < 8 && !e; tr++) { ent_t *c = &ents[nents - 1 - vf_randn(&rng, (uint32_t)(nents < 12 ? nents : 12))]; if (c->st == ST_RESERVED) e = c; }
                if (!e) { code = 0; } else { int r = parsec_taskpool_register(e->tp); n_register++; e->st = ST_REGISTERED; code = 2; changed = 1;
                    if ((uint32_t)r != e->id) vf_violation("register:id-mismatch", "%s: register returned %d for id %u", hx, r, e->id);
                    check_lookup(e->id, 0, hx); }
            } else if (t < 600) {                            /* unregister a registered one */
                ent_t *e = NULL; for (int tr = 0; tr < 8 && !e; tr++) { ent_t *c = &ents[vf_randn(&rng, (uint32_t)nents)]; if (c->st == ST_REGISTERED) e = c; }
                if (!e) { code = 0; } else { parsec_taskpool_unregister(e->tp); n_unregister++; e->st = ST_UNREGISTERED; code = 3; changed = 1;
                    check_lookup(e->id, 2, hx); PARSEC_OBJ_RELEASE(e->tp); e->tp = NULL; }
            } else if (t < 640) {
                parsec_taskpool_sync_ids(); n_sync++; code = 4;   /* no MPI here: identity; everything must still resolve */
                check_lookup(max_id, 0, hx); check_lookup(max_id + 1, 3, hx);
            } else {                                         /* lookups of every category */
                int c = vf_randn(&rng, 100);
                if (id0_permille && vf_chance(&rng, id0_permille) && n_lookup0 < 2) { n_lookup0++; check_lookup(0, 5, hx); code = 8; }
                else if (c < 55) { ent_t *e = &ents[vf_randn(&rng, (uint32_t)nents)]; check_lookup(e->id, e->st - 1, hx); code = 5; }
                else if (c < 70) { check_lookup(max_id, 0, hx); code = 5; }                 /* the newest id: the bound of the lookup test */
                else if (c < 90) { check_lookup(max_id + 1 + vf_randn(&rng, 4), 3, hx); code = 6; }
                else { check_lookup(vf_chance(&rng, 500) ? 0x7fffffffu - vf_randn(&rng, 3) : 0xffffffffu - vf_randn(&rng, 3), 4, hx); code = 7; }
            }
            sig = vf_mix(sig, (uint64_t)code);
            if (sp < 600) sp += snprintf(sample + sp, sizeof sample - sp, "%c", "-RGUSlnfzB"[code]);
            VF_TICK();
        }
        full_scan(hx);
        if (changed && nops >= 3) { nontrivial++; int dup = 0; for (long i = 0; i < distinct; i++) if (sigs[i] == sig) { dup = 1; break; } if (!dup) sigs[distinct++] = sig; }
        if (printed < 2 && changed) { printed++; vf_out("{\"type\":\"sample\",\"history\":\"%s\",\"legend\":\"R reserve G register U unregister S sync l lookup-known n lookup-next f lookup-far z lookup-0 B burst+scan\",\"max_id\":%u}", sample, max_id); }
    }
    vf_out("{\"type\":\"summary\",\"mode\":\"hist\",\"histories\":%ld,\"nontrivial\":%ld,\"distinct\":%ld,\"lookups\":%ld,\"lookup_hit\":%ld,\"lookup_miss\":%ld,"
           "\"reserves\":%ld,\"registers\":%ld,\"unregisters\":%ld,\"syncs\":%ld,\"scans\":%ld,\"lookup0\":%ld,\"max_id\":%u,\"doublings\":%d}",
           nh, nontrivial, distinct, n_lookups, n_lookup_hit, n_lookup_miss, n_reserve, n_register, n_unregister, n_sync, n_scan, n_lookup0, max_id, doublings_crossed);
    return vf_nviolations ? 1 : 0;
}

/* ---------------------------------------------------------------- conc mode */
#define MAXT 16
typedef struct { int rounds, per; uint64_t seed; vf_spinbar_t bar; uint32_t *ids[MAXT]; long nids[MAXT]; volatile long lookups, overlapped_rounds; uint64_t first_stamp[MAXT], last_stamp[MAXT]; } conc_t;
static conc_t C;
static void conc_worker(int tid, int nt, void *arg) {
    (void)arg; vf_rng_t rng; vf_rng_seed(&rng, C.seed, 100 + tid);
    parsec_taskpool_t **mine = calloc((size_t)C.per, sizeof(void *)); long lk = 0;
    for (int r = 0; r < C.rounds && !vf_nviolations; r++) {
        vf_spinbar_wait(&C.bar);
        C.first_stamp[tid] = vf_stamp();
        for (int k = 0; k < C.per; k++) {
            parsec_taskpool_t *tp = PARSEC_OBJ_NEW(parsec_taskpool_t); mine[k] = tp;
            int id = parsec_taskpool_reserve_id(tp);
            C.ids[tid][C.nids[tid]++] = (uint32_t)id;
            if (parsec_taskpool_lookup((uint32_t)id) != NULL) vf_violation("conc:reserved-resolves", "thread %d: id %d resolves before registration", tid, id);
            lk++;
            if (vf_chance(&rng, 700)) {
                parsec_taskpool_register(tp);
                parsec_taskpool_t *g = parsec_taskpool_lookup((uint32_t)id); lk++;
                if (g != tp) vf_violation("conc:registered-not-found", "thread %d: lookup(%d) returned %p while %p is registered (other threads reserving concurrently)", tid, id, (void *)g, (void *)tp);
            } else { mine[k] = NULL; PARSEC_OBJ_RELEASE(tp); }
            if (vf_chance(&rng, 100)) sched_yield();
            VF_TICK();
        }
        C.last_stamp[tid] = vf_stamp();
        /* re-check all of mine after everybody grew the array, then unregister */
        for (int k = 0; k < C.per; k++) if (mine[k]) {
            parsec_taskpool_t *g = parsec_taskpool_lookup(mine[k]->taskpool_id); lk++;
            if (g != mine[k]) vf_violation("conc:registered-not-found", "thread %d: lookup(%u) returned %p, registered %p (after concurrent growth)", tid, mine[k]->taskpool_id, (void *)g, (void *)mine[k]);
            parsec_taskpool_unregister(mine[k]);
            if (parsec_taskpool_lookup(mine[k]->taskpool_id) != NULL) vf_violation("conc:unregistered-resolves", "thread %d: id %u resolves after unregister", tid, mine[k]->taskpool_id);
            lk++; PARSEC_OBJ_RELEASE(mine[k]); mine[k] = NULL;
        }
        vf_spinbar_wait(&C.bar);
        if (tid == 0) { int ov = 0; for (int a = 0; a < nt && !ov; a++) for (int b = 0; b < nt; b++) if (a != b && C.first_stamp[a] < C.last_stamp[b] && C.first_stamp[b] < C.last_stamp[a]) { ov = 1; break; } if (ov) C.overlapped_rounds++; }
    }
    __sync_fetch_and_add(&C.lookups, lk); free(mine);
}
static int cmp_u32(const void *a, const void *b) { uint32_t x = *(const uint32_t *)a, y = *(const uint32_t *)b; return x < y ? -1 : x > y; }
static int run_conc(int argc, char **argv) {
    int nt = (int)vf_arg_ll(argc, argv, "--threads", 8); if (nt > MAXT) nt = MAXT;
    C.rounds = (int)vf_arg_ll(argc, argv, "--rounds", 20); C.per = (int)vf_arg_ll(argc, argv, "--per", 50);
    C.seed = (uint64_t)vf_arg_ll(argc, argv, "--seed", 1);
    vf_spinbar_init(&C.bar, nt);
    for (int t = 0; t < nt; t++) C.ids[t] = calloc((size_t)C.rounds * C.per, sizeof(uint32_t));
    vf_team_run(nt, conc_worker, NULL);
    long tot = 0; for (int t = 0; t < nt; t++) tot += C.nids[t];
    uint32_t *all = calloc((size_t)tot + 1, sizeof(uint32_t)); long p = 0;
    for (int t = 0; t < nt; t++) for (long i = 0; i < C.nids[t]; i++) all[p++] = C.ids[t][i];
    qsort(all, (size_t)tot, sizeof(uint32_t), cmp_u32);
    long dup = 0; for (long i = 1; i < tot; i++) if (all[i] == all[i - 1]) { if (!dup) vf_violation("conc:duplicate-id", "id %u was handed to two concurrent reservations (%ld reservations by %d threads)", all[i], tot, nt); dup++; }
    /* interleaving witness: how many adjacent ids (in id order) belong to different threads */
    long switches = 0; { uint8_t *own = calloc((size_t)(tot ? all[tot - 1] : 0) + 2, 1); for (int t = 0; t < nt; t++) for (long i = 0; i < C.nids[t]; i++) own[C.ids[t][i]] = (uint8_t)(t + 1);
        for (long i = 1; i < tot; i++) if (own[all[i]] != own[all[i - 1]]) switches++; free(own); }
    vf_out("{\"type\":\"summary\",\"mode\":\"conc\",\"threads\":%d,\"rounds\":%d,\"overlapped_rounds\":%ld,\"reservations\":%ld,\"lookups\":%ld,\"duplicates\":%ld,\"max_id\":%u,\"owner_switches\":%ld}",
           nt, C.rounds, C.overlapped_rounds, tot, C.lookups, dup, tot ? all[tot - 1] : 0, switches);
    return vf_nviolations ? 1 : 0;
}

/* ---------------------------------------------------------------- mpi mode */
static int run_mpi(int argc, char **argv) {
    int prov, rank, size; MPI_Init_thread(&argc, &argv, MPI_THREAD_SERIALIZED, &prov);
    MPI_Comm_rank(MPI_COMM_WORLD, &rank); MPI_Comm_size(MPI_COMM_WORLD, &size);
    uint64_t seed = (uint64_t)vf_arg_ll(argc, argv, "--seed", 1);
    int rounds = (int)vf_arg_ll(argc, argv, "--rounds", 4);
    int maxprior = (int)vf_arg_ll(argc, argv, "--maxprior", 300);
    int with_init = vf_has_flag(argc, argv, "--parsec-init");
    parsec_context_t *pctx = NULL;
    if (with_init) { int pargc = 0; char **pargv = NULL; pctx = parsec_init(1, &pargc, &pargv); if (!pctx) { fprintf(stderr, "parsec_init failed\n"); MPI_Abort(MPI_COMM_WORLD, 2); } }
    vf_rng_t rng; vf_rng_seed(&rng, seed, 1000 + rank);        /* per-rank stream: different prior histories */
    vf_rng_t common; vf_rng_seed(&common, seed, 5);            /* same on all ranks: shapes of the rounds */
    int *gather = calloc((size_t)size * 3, sizeof(int)); char line[900]; int lp = 0; long agree = 0, spread_rounds = 0;
    for (int r = 0; r < rounds; r++) {
        int shape = vf_randn(&common, 6); int heavy = (int)vf_randn(&common, (uint32_t)size);
        int prior;
        switch (shape) {           /* who is ahead: one rank far ahead, everybody random, nobody, one rank idle */
        case 0: prior = (rank == heavy) ? maxprior / 2 + (int)vf_randn(&rng, (uint32_t)maxprior / 2 + 1) : (int)vf_randn(&rng, 3); break;
        case 1: prior = (int)vf_randn(&rng, (uint32_t)maxprior + 1); break;
        case 2: prior = 0; break;
        case 3: prior = (rank == heavy) ? 0 : 1 + (int)vf_randn(&rng, 40); break;
        default: {   /* one rank stops exactly on a power of two (a growth boundary of the registry), the others lag far behind */
            uint32_t t = 2; while (t <= max_id) t <<= 1;
            if (shape == 5 && t < 4096) t <<= 1;
            prior = (rank == heavy) ? (int)(t - max_id) : 0; break; }
        }
        for (int k = 0; k < prior; k++) { ent_t *e = do_reserve("mpi-prior"); if (e && vf_chance(&rng, 600)) { parsec_taskpool_register(e->tp); e->st = ST_REGISTERED; n_register++; }
            if (e && e->st == ST_REGISTERED && vf_chance(&rng, 200)) { parsec_taskpool_unregister(e->tp); e->st = ST_UNREGISTERED; n_unregister++; } }
        uint32_t before = max_id;
        parsec_taskpool_sync_ids(); n_sync++;
        {   /* between the synchronisation and this rank's next reservation: ids up to the global maximum that were never issued
             * HERE must not resolve (and must not fault) — the registry of a lagging rank has just been extended */
            int lb = (int)before, gmax = 0; MPI_Allreduce(&lb, &gmax, 1, MPI_INT, MPI_MAX, MPI_COMM_WORLD);
            for (int x = gmax - 2; x <= gmax + 1; x++) if (x > (int)before && x >= 0) check_lookup((uint32_t)x, 3, "mpi-after-sync-before-reserve");
        }
        ent_t *e = do_reserve("mpi-after-sync");
        int mine[3] = { e ? (int)e->id : -1, (int)before, prior };
        MPI_Allgather(mine, 3, MPI_INT, gather, 3, MPI_INT, MPI_COMM_WORLD);
        int same = 1, maxbefore = 0, minbefore = 0x7fffffff;
        for (int q = 0; q < size; q++) { if (gather[3 * q] != gather[0]) same = 0; if (gather[3 * q + 1] > maxbefore) maxbefore = gather[3 * q + 1]; if (gather[3 * q + 1] < minbefore) minbefore = gather[3 * q + 1]; }
        if (maxbefore != minbefore) spread_rounds++;
        if (!same && rank == 0) {
            char b[400]; int bp = 0; for (int q = 0; q < size && bp < 360; q++) bp += snprintf(b + bp, sizeof b - bp, "rank%d:id=%d(newest-before=%d) ", q, gather[3 * q], gather[3 * q + 1]);
            vf_violation("sync:next-id-differs", "round %d on %d ranks: next reservation after sync differs: %s", r, size, b);
        }
        if (same) agree++;
        /* (a collision of the common id with a live local id is caught by do_reserve's duplicate test on that rank) */
        if (e) { parsec_taskpool_register(e->tp); e->st = ST_REGISTERED; n_register++; check_lookup(e->id, 0, "mpi-after-sync"); }
        full_scan("mpi-after-sync");                          /* everything registered before the jump still resolves */
        /* ids skipped by the jump were never issued here: must not resolve */
        if (e && e->id > before + 1) {
            uint32_t lo = before + 1, hi = e->id - 1;                       /* the skipped range [lo, hi] */
            for (uint32_t x = lo; x <= hi && x < lo + 5; x++) check_lookup(x, 3, "mpi-skipped");
            for (uint32_t x = hi; x >= lo && x + 3 > hi; x--) check_lookup(x, 3, "mpi-skipped");
            for (uint32_t p2 = 1; p2 && p2 <= hi; p2 <<= 1)                 /* around every power of two: the growth boundaries */
                for (uint32_t x = p2 > 1 ? p2 - 1 : p2; x <= p2 + 1; x++) if (x >= lo && x <= hi) check_lookup(x, 3, "mpi-skipped");
            for (int k = 0; k < 8; k++) check_lookup(lo + vf_randn(&rng, hi - lo + 1), 3, "mpi-skipped");
        }
        if (rank == 0 && lp < 800) lp += snprintf(line + lp, sizeof line - lp, "[r%d shape%d before=%d..%d next=%d] ", r, shape, minbefore, maxbefore, gather[0]);
        VF_TICK();
    }
    long nv = vf_nviolations, anyv = 0; MPI_Allreduce(&nv, &anyv, 1, MPI_LONG, MPI_SUM, MPI_COMM_WORLD);
    if (rank == 0)
        vf_out("{\"type\":\"summary\",\"mode\":\"mpi\",\"ranks\":%d,\"rounds\":%d,\"agree\":%ld,\"spread_rounds\":%ld,\"max_id\":%u,\"reserves_rank0\":%ld,\"lookups_rank0\":%ld,\"parsec_init\":%d,\"violations_all_ranks\":%ld,\"trace\":\"%s\"}",
               size, rounds, agree, spread_rounds, max_id, n_reserve, n_lookups, with_init, anyv, line);
    /* unregister what is left so that parsec_fini sees a quiet registry */
    for (size_t i = 0; i < nents; i++) if (ents[i].st == ST_REGISTERED) { parsec_taskpool_unregister(ents[i].tp); ents[i].st = ST_UNREGISTERED; }
    if (pctx) parsec_fini(&pctx);
    MPI_Finalize();
    return 0;   /* violations travel on stdout; mpiexec exit codes are not trusted */
}

/* ---------------------------------------------------------------- probe0 */
static int run_probe0(void) {
    vf_out("{\"type\":\"probe\",\"stage\":\"start\"}");
    parsec_taskpool_t *a = parsec_taskpool_lookup(1);
    vf_out("{\"type\":\"probe\",\"stage\":\"lookup1\",\"null\":%d}", a == NULL);
    if (a != NULL) vf_violation("lookup:stale-or-foreign", "fresh registry: lookup(1) returned %p", (void *)a);
    vf_out("{\"type\":\"probe\",\"stage\":\"before-lookup0\"}");
    parsec_taskpool_t *z = parsec_taskpool_lookup(0);      /* DESIGN 6.10: the bound test passes for 0 while the array is NULL */
    vf_out("{\"type\":\"probe\",\"stage\":\"after-lookup0\",\"null\":%d}", z == NULL);
    if (z != NULL) vf_violation("lookup:id0", "fresh registry: lookup(0) returned %p instead of NULL", (void *)z);
    vf_out("{\"type\":\"summary\",\"mode\":\"probe0\",\"survived\":1}");
    return vf_nviolations ? 1 : 0;
}

int main(int argc, char **argv) {
    const char *mode = vf_arg(argc, argv, "--mode", "hist");
    if (!strcmp(mode, "mpi")) return run_mpi(argc, argv);
    if (!strcmp(mode, "probe0")) return run_probe0();
    vf_heartbeat_start();
    int rc = !strcmp(mode, "conc") ? run_conc(argc, argv) : run_hist(argc, argv);
    vf_heartbeat_stop();
    return rc;
}
