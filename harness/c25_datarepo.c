/* C25: data repository entries are reclaimed exactly when unused.
 * Real repositories (data_repo_create_nothreadsafe) on the per-stream mempools of execution streams adopted
 * after parsec_init.  Legal-use discipline = the runtime's own: a creator calls lookup_and_create, later
 * addto_usage_limit(k) once; exactly k uses belong to it and may happen any time after its create returned
 * (before or after the announcement); uses are performed only by holders of such a dependency token.
 * Modes:  stress - T threads, few keys, 1..3 creators per key racing with the consumers, generations follow
 *                  each other on the same key; oracles evaluated by the reclaiming thread (REPO_RECLAIM event),
 *                  by every consumer before its use, and at the quiescent point after every round
 *         enum   - every interleaving (as a sequential schedule) of 1..3 create/addto pairs and their uses,
 *                  judged after every step against the statement (findable <=> some creator holds it or
 *                  announced uses outstanding)
 * A generation is identified by a record the first creator hangs on entry->generator (a field the repository
 * itself only clears on creation). */
#include "parsec/parsec_config.h"
#include "parsec/parsec_internal.h"
#include "parsec/runtime.h"
#include "parsec/datarepo.h"
#include "parsec/mempool.h"
#include "parsec/execution_stream.h"
#include "parsec/class/parsec_hash_table.h"
#include <mpi.h>
#include "kit.h"

#define MAXT 16
#define MAXKEYS 16
#define MAXC 3
#define MAXK 4
#define TOMB ((void *)(uintptr_t)0xDEADDEADDEADULL)

typedef struct gen_s gen_t;
typedef struct {
    int key_i, idx, thread, k, addto_after, tok0;
    volatile uint64_t join_stamp, addto_start, addto_done;
    data_repo_entry_t *volatile e; gen_t *volatile g; void *payload;
    int state, published;
} crole_t;
typedef struct { int creator, consumer; volatile int ready, done; volatile uint64_t use_start, use_done; } token_t;
struct gen_s { uint64_t key; volatile int njoined; crole_t *volatile joined[2 * MAXC + 2]; volatile int reclaimed; volatile uint64_t reclaim_stamp; volatile int reclaimer; };

static parsec_context_t *pctx;
static parsec_execution_stream_t *ES[MAXT];
static __thread int tl_tid = -1;

typedef struct {
    data_repo_t *repo; int nbdata, nthreads, nkeys, rounds; uint64_t seed; vf_spinbar_t bar;
    uint64_t keys[MAXKEYS];
    crole_t cr[MAXKEYS * MAXC]; int ncr;
    token_t tok[MAXKEYS * MAXC * MAXK]; int ntok;
    gen_t gens[MAXKEYS * MAXC + 1]; volatile int ngens;
    /* totals */
    volatile long creates, joins, new_gens, uses, uses_before_announce, reclaims, reclaim_by_use, reclaim_by_addto, lookups, shared_gens, multi_gen_keys, overlapped_rounds;
    uint64_t first[MAXT], last[MAXT];
    long reclaimer_hist[MAXT];
} S_t;
static S_t S;
static volatile int in_addto[MAXT];   /* which call the thread is in when the reclaim event fires */

/* ------------------------------------------------------------------ reclaim event (runs on the reclaiming thread) */
static void on_event(int kind, const void *ptr, int64_t a, int64_t b) {
    if (kind != PARSEC_VERIF_EV_REPO_RECLAIM) return;
    data_repo_entry_t *e = (data_repo_entry_t *)ptr; (void)a;
    uint64_t r = vf_stamp();
    void *gp = e->generator;
    __atomic_add_fetch(&S.reclaims, 1, __ATOMIC_RELAXED);
    if (tl_tid >= 0) { if (in_addto[tl_tid]) __atomic_add_fetch(&S.reclaim_by_addto, 1, __ATOMIC_RELAXED); else __atomic_add_fetch(&S.reclaim_by_use, 1, __ATOMIC_RELAXED); }
    if (gp == TOMB) { vf_violation("repo:reclaimed-twice", "entry %p (key %lld) is reclaimed a second time without having been created again", (void *)e, (long long)b); return; }
    if (gp == NULL) { vf_violation("repo:reclaimed-while-retained", "entry %p (key %lld) reclaimed before its creator had returned from lookup_and_create+setup (retained must still be > 0)", (void *)e, (long long)b); e->generator = TOMB; return; }
    gen_t *g = (gen_t *)gp;
    if (g < S.gens || g >= S.gens + MAXKEYS * MAXC + 1) { vf_violation("repo:reclaim-foreign", "reclaim event for entry %p with unknown generation record %p", (void *)e, gp); return; }
    if ((uint64_t)b != g->key || (uint64_t)e->ht_item.key != g->key) vf_violation("repo:reclaim-wrong-key", "reclaim event key %lld, entry key %lld, generation key %llu", (long long)b, (long long)e->ht_item.key, (unsigned long long)g->key);
    int n = __atomic_add_fetch(&g->reclaimed, 1, __ATOMIC_SEQ_CST);
    if (n > 1) vf_violation("repo:reclaimed-twice", "generation of key %llu reclaimed %d times", (unsigned long long)g->key, n);
    g->reclaim_stamp = r; g->reclaimer = tl_tid;
    /* premature? a creator that joined before r and has not started its announcement still holds the entry;
     * a use belonging to this generation that has not started yet is still outstanding */
    int nj = g->njoined; if (nj > 2 * MAXC + 2) nj = 2 * MAXC + 2;
    for (int i = 0; i < nj; i++) { crole_t *c = g->joined[i]; if (!c) continue;
        uint64_t as = c->addto_start, js = c->join_stamp;
        if (js && js < r && as == 0)
            vf_violation("repo:reclaimed-while-retained", "key %llu reclaimed by thread %d (%s) while creator %d of thread %d still holds it: created @%llu, not yet announced at reclaim @%llu; usagecnt=%d usagelmt=%d retained=%d",
                         (unsigned long long)g->key, tl_tid, tl_tid >= 0 && in_addto[tl_tid] ? "addto_usage_limit" : "used_once", c->idx, c->thread, (unsigned long long)js, (unsigned long long)r, e->usagecnt, e->usagelmt, e->retained);
        for (int u = 0; u < c->k; u++) { token_t *t = &S.tok[c->tok0 + u];
            if (js && js < r && t->use_start == 0 && as && c->addto_done && c->addto_done < r)
                vf_violation("repo:reclaimed-before-announced-uses", "key %llu reclaimed @%llu while use %d of creator %d (limit %d announced @%llu) has not happened", (unsigned long long)g->key, (unsigned long long)r, u, c->idx, c->k, (unsigned long long)c->addto_done); }
    }
    e->generator = TOMB;
}

/* ------------------------------------------------------------------ helpers shared by both modes */
static gen_t *join_generation(crole_t *c, data_repo_entry_t *e, uint64_t key) {
    gen_t *g = (gen_t *)__atomic_load_n(&e->generator, __ATOMIC_SEQ_CST);
    if (g == NULL) {
        gen_t *mine = &S.gens[__atomic_fetch_add(&S.ngens, 1, __ATOMIC_SEQ_CST)];
        mine->key = key; void *exp = NULL;
        if (__atomic_compare_exchange_n(&e->generator, &exp, (void *)mine, 0, __ATOMIC_SEQ_CST, __ATOMIC_SEQ_CST)) { g = mine; __atomic_add_fetch(&S.new_gens, 1, __ATOMIC_RELAXED); }
        else g = (gen_t *)exp;
    }
    if (g == (gen_t *)TOMB) { vf_violation("repo:create-returned-reclaimed-entry", "lookup_and_create(key %llu) returned entry %p that has been reclaimed and not re-initialised", (unsigned long long)key, (void *)e); return NULL; }
    if (g < S.gens || g >= S.gens + MAXKEYS * MAXC + 1) { vf_violation("repo:generator-corrupt", "entry %p of key %llu carries generator %p", (void *)e, (unsigned long long)key, (void *)g); return NULL; }
    if (g->key != key) { vf_violation("repo:create-wrong-entry", "lookup_and_create(key %llu) returned an entry of key %llu", (unsigned long long)key, (unsigned long long)g->key); return NULL; }
    int slot = __atomic_fetch_add(&g->njoined, 1, __ATOMIC_SEQ_CST);
    if (slot < 2 * MAXC + 2) g->joined[slot] = c;
    if (slot == 1) __atomic_add_fetch(&S.shared_gens, 1, __ATOMIC_RELAXED);
    c->g = g; c->e = e;
    __atomic_store_n(&c->join_stamp, vf_stamp(), __ATOMIC_SEQ_CST);
    return g;
}
static void do_create(crole_t *c, int tid) {
    uint64_t key = S.keys[c->key_i];
    data_repo_entry_t *e = data_repo_lookup_entry_and_create(ES[tid], S.repo, (parsec_key_t)key);
    __atomic_add_fetch(&S.creates, 1, __ATOMIC_RELAXED);
    if (!e) { vf_violation("repo:create-null", "lookup_and_create(key %llu) returned NULL", (unsigned long long)key); c->state = 2; return; }
    if ((uint64_t)e->ht_item.key != key) vf_violation("repo:create-wrong-entry", "lookup_and_create(key %llu) returned an entry with key %llu", (unsigned long long)key, (unsigned long long)e->ht_item.key);
    if (!join_generation(c, e, key)) { c->state = 2; return; }
    e->data[c->idx] = (struct parsec_data_copy_s *)c->payload;      /* like a producer depositing its output */
    data_repo_entry_t *le = data_repo_lookup_entry(S.repo, (parsec_key_t)key); __atomic_add_fetch(&S.lookups, 1, __ATOMIC_RELAXED);
    if (le != e) vf_violation("repo:not-findable-while-retained", "creator %d holds entry %p of key %llu but lookup returns %p", c->idx, (void *)e, (unsigned long long)key, (void *)le);
    c->state = 1;
}
static void do_addto(crole_t *c, int tid) {
    uint64_t key = S.keys[c->key_i];
    data_repo_entry_t *le = data_repo_lookup_entry(S.repo, (parsec_key_t)key); __atomic_add_fetch(&S.lookups, 1, __ATOMIC_RELAXED);
    if (le != c->e) vf_violation("repo:not-findable-while-retained", "creator %d holds entry %p of key %llu (about to announce %d uses) but lookup returns %p", c->idx, (void *)c->e, (unsigned long long)key, c->k, (void *)le);
    else if (le->data[c->idx] != (struct parsec_data_copy_s *)c->payload || le->generator != (void *)c->g)
        vf_violation("repo:entry-content-lost", "entry %p of key %llu held by creator %d lost its content (data %p expected %p, generation %p expected %p)", (void *)le, (unsigned long long)key, c->idx, (void *)le->data[c->idx], c->payload, le->generator, (void *)c->g);
    if (tid >= 0) in_addto[tid] = 1;
    __atomic_store_n(&c->addto_start, vf_stamp(), __ATOMIC_SEQ_CST);
    data_repo_entry_addto_usage_limit(S.repo, (parsec_key_t)key, (uint32_t)c->k);
    __atomic_store_n(&c->addto_done, vf_stamp(), __ATOMIC_SEQ_CST);
    if (tid >= 0) in_addto[tid] = 0;
}
static void do_use(token_t *t, int tid) {
    crole_t *c = &S.cr[t->creator]; uint64_t key = S.keys[c->key_i]; (void)tid;
    data_repo_entry_t *le = data_repo_lookup_entry(S.repo, (parsec_key_t)key); __atomic_add_fetch(&S.lookups, 1, __ATOMIC_RELAXED);
    if (le == NULL) vf_violation("repo:not-findable-while-in-use", "key %llu: a consumer holding an outstanding use of creator %d (limit %s) finds no entry", (unsigned long long)key, c->idx, c->addto_done ? "announced" : "not announced yet");
    else if (le != c->e || le->generator != (void *)c->g) vf_violation("repo:entry-replaced-while-in-use", "key %llu: consumer with an outstanding use finds entry %p generation %p, its dependency is on entry %p generation %p", (unsigned long long)key, (void *)le, le->generator, (void *)c->e, (void *)c->g);
    else if (le->data[c->idx] != (struct parsec_data_copy_s *)c->payload) vf_violation("repo:entry-content-lost", "key %llu: slot %d holds %p, producer stored %p", (unsigned long long)key, c->idx, (void *)le->data[c->idx], c->payload);
    if (!c->addto_start) __atomic_add_fetch(&S.uses_before_announce, 1, __ATOMIC_RELAXED);
    __atomic_store_n(&t->use_start, vf_stamp(), __ATOMIC_SEQ_CST);
    data_repo_entry_used_once(S.repo, (parsec_key_t)key);
    __atomic_store_n(&t->use_done, vf_stamp(), __ATOMIC_SEQ_CST);
    __atomic_add_fetch(&S.uses, 1, __ATOMIC_RELAXED);
}
/* quiescent verdicts for the plan that just ran */
static void check_quiescent(const char *what) {
    for (int k = 0; k < S.nkeys; k++) {
        data_repo_entry_t *le = data_repo_lookup_entry(S.repo, (parsec_key_t)S.keys[k]);
        if (le) vf_violation("repo:not-reclaimed", "%s: all creators announced and all announced uses happened, entry of key %llu still present (usagecnt=%d usagelmt=%d retained=%d)", what, (unsigned long long)S.keys[k], le->usagecnt, le->usagelmt, le->retained);
    }
    int gens_of_key[MAXKEYS] = {0};
    for (int i = 0; i < S.ngens; i++) { gen_t *g = &S.gens[i]; if (!g->njoined) continue;      /* record lost the CAS: unused */
        for (int k = 0; k < S.nkeys; k++) if (S.keys[k] == g->key) gens_of_key[k]++;
        if (g->reclaimed == 0) vf_violation("repo:not-reclaimed", "%s: generation of key %llu (%d creators) never reclaimed", what, (unsigned long long)g->key, g->njoined);
        S.reclaimer_hist[g->reclaimer >= 0 && g->reclaimer < MAXT ? g->reclaimer : 0]++;
    }
    for (int k = 0; k < S.nkeys; k++) if (gens_of_key[k] > 1) S.multi_gen_keys++;
    for (int i = 0; i < S.ncr; i++) { crole_t *c = &S.cr[i]; gen_t *g = c->g; if (!g || !g->reclaim_stamp) continue;
        if (c->addto_start > g->reclaim_stamp) vf_violation("repo:reclaimed-while-retained", "%s: key %llu reclaimed @%llu, creator %d announced its uses only @%llu", what, (unsigned long long)g->key, (unsigned long long)g->reclaim_stamp, c->idx, (unsigned long long)c->addto_start);
        for (int u = 0; u < c->k; u++) { token_t *t = &S.tok[c->tok0 + u]; if (t->use_start > g->reclaim_stamp) vf_violation("repo:reclaimed-before-announced-uses", "%s: key %llu reclaimed @%llu, a use of creator %d started @%llu", what, (unsigned long long)g->key, (unsigned long long)g->reclaim_stamp, c->idx, (unsigned long long)t->use_start); }
    }
}
/* conservation of the per-stream mempools: every entry ever allocated is back, once */
static long mempool_missing;   /* informative: entries allocated from a stream's mempool and not back at quiescence */
static long mempool_walk(int nes) {
    mempool_missing = 0;
    long total = 0;
    for (int t = 0; t < nes; t++) { parsec_thread_mempool_t *mp = ES[t]->datarepo_mempools[S.nbdata]; long n = 0, lim = 2L * mp->nb_elt + 16; data_repo_entry_t *e, *chain = NULL;
        while ((e = (data_repo_entry_t *)parsec_lifo_pop(&mp->mempool)) != NULL && n < lim) {
            if (e->usagecnt == (int32_t)0x5EE25EE2) { vf_violation("repo:entry-twice-in-mempool", "entry %p met twice in the mempool of stream %d (double reclamation)", (void *)e, t); break; }
            if (e->data_repo_mempool_owner != mp) vf_violation("repo:entry-in-wrong-mempool", "entry %p owned by %p found in mempool of stream %d", (void *)e, (void *)e->data_repo_mempool_owner, t);
            e->usagecnt = (int32_t)0x5EE25EE2; e->data_repo_next_item.list_next = (parsec_list_item_t *)chain; chain = e; n++; }
        /* more entries than were ever allocated = an entry returned twice; fewer = a leak, which the statement of C25 does not cover: counted only */
        if (n > (long)mp->nb_elt) vf_violation("repo:mempool-conservation", "stream %d allocated %u repository entries, %ld are in its mempool at quiescence (an entry was returned twice)", t, mp->nb_elt, n);
        else if (n < (long)mp->nb_elt) mempool_missing += (long)mp->nb_elt - n;
        while (chain) { data_repo_entry_t *nx = (data_repo_entry_t *)chain->data_repo_next_item.list_next; chain->usagecnt = 0; parsec_lifo_push(&mp->mempool, &chain->data_repo_next_item); chain = nx; }
        total += n; }
    return total;
}

/* ------------------------------------------------------------------ stress mode */
static void plan_round(vf_rng_t *rng, int round, uint64_t keybase) {
    int nt = S.nthreads; S.ncr = 0; S.ntok = 0; S.ngens = 0; memset(S.gens, 0, sizeof S.gens);
    for (int k = 0; k < S.nkeys; k++) {
        S.keys[k] = keybase + (uint64_t)(vf_chance(rng, 500) ? k : k * 4096 + round);    /* dense keys (same buckets) or spread */
        for (int q = 0; q < k; q++) if (S.keys[q] == S.keys[k]) S.keys[k] += 77777;
        int nc = 1 + (int)vf_randn(rng, MAXC);
        for (int i = 0; i < nc; i++) { crole_t *c = &S.cr[S.ncr]; memset(c, 0, sizeof *c);
            c->key_i = k; c->idx = i; c->thread = (int)vf_randn(rng, (uint32_t)nt); c->k = (int)vf_randn(rng, MAXK + 1);
            c->addto_after = (int)vf_randn(rng, (uint32_t)c->k + 1); c->tok0 = S.ntok; c->payload = (void *)(uintptr_t)(0xDA7A0000ULL + ((uint64_t)round << 24) + (uint64_t)S.ncr * 16 + 8);
            for (int u = 0; u < c->k; u++) { token_t *t = &S.tok[S.ntok++]; memset(t, 0, sizeof *t); t->creator = S.ncr; t->consumer = (int)vf_randn(rng, (uint32_t)nt); }
            S.ncr++; }
    }
}
static void stress_worker(int tid, int nt, void *arg) {
    (void)arg; vf_rng_t rng; vf_rng_seed(&rng, S.seed, 40 + tid); tl_tid = tid;
    parsec_set_my_execution_stream(ES[tid]);
    for (int r = 0; r < S.rounds; r++) {               /* never leave early: the barriers are shared with thread 0 */
        vf_spinbar_wait(&S.bar);                      /* plan published by thread 0 */
        S.first[tid] = vf_stamp();
        int pending = 1, idle = 0;
        while (pending && vf_nviolations < 6) {
            pending = 0; int acted = 0;
            int start = (int)vf_randn(&rng, (uint32_t)(S.ncr ? S.ncr : 1));
            for (int q = 0; q < S.ncr; q++) { crole_t *c = &S.cr[(start + q) % S.ncr]; if (c->thread != tid || c->state == 2) continue;
                pending = 1;
                if (vf_chance(&rng, 400)) continue;                                  /* not now */
                if (c->state == 0) { do_create(c, tid); acted = 1; continue; }
                /* created: publish the next token, or announce the limit when its moment has come */
                if (c->published == c->addto_after && !c->addto_start) { do_addto(c, tid); acted = 1; if (c->published == c->k) c->state = 2; continue; }
                if (c->published < c->k) { token_t *t = &S.tok[c->tok0 + c->published]; __atomic_store_n(&t->ready, 1, __ATOMIC_RELEASE); c->published++; acted = 1;
                    if (c->published == c->k && c->addto_start) c->state = 2; }
            }
            start = (int)vf_randn(&rng, (uint32_t)(S.ntok ? S.ntok : 1));
            for (int q = 0; q < S.ntok; q++) { token_t *t = &S.tok[(start + q) % S.ntok]; if (t->consumer != tid || t->done) continue;
                pending = 1;
                if (!__atomic_load_n(&t->ready, __ATOMIC_ACQUIRE) || vf_chance(&rng, 300)) continue;
                do_use(t, tid); t->done = 1; acted = 1; }
            if (acted) { idle = 0; VF_TICK(); } else if (++idle > 20) { sched_yield(); }
        }
        S.last[tid] = vf_stamp();
        vf_spinbar_wait(&S.bar);                      /* quiescent */
        vf_spinbar_wait(&S.bar);                      /* thread 0 judged and planned the next round */
    }
    (void)nt;
}
static uint64_t *sigset; static size_t sigcap, nsig;
static int sig_add(uint64_t s) { if (!s) s = 1; size_t i = (size_t)(s % sigcap); while (sigset[i]) { if (sigset[i] == s) return 0; i = (i + 1) % sigcap; } if (nsig * 2 < sigcap) { sigset[i] = s; nsig++; } return 1; }

static int run_stress(int argc, char **argv) {
    int nt = S.nthreads; long cases = vf_arg_ll(argc, argv, "--cases", 4); int rounds = (int)vf_arg_ll(argc, argv, "--rounds", 200);
    vf_rng_t rng; vf_rng_seed(&rng, S.seed, 2);
    long generations = 0, nontrivial = 0, distinct = 0, rounds_total = 0, entries = 0; int printed = 0;
    for (long cs = 0; cs < cases && !vf_nviolations; cs++) {
        static const int nbd[] = {3, 4, 6}, hints[] = {1, 2, 16, 4096};
        S.nbdata = nbd[vf_randn(&rng, 3)]; S.nkeys = vf_chance(&rng, 300) ? 1 + (int)vf_randn(&rng, 3) : 4 + (int)vf_randn(&rng, 9);   /* 1..3 (everybody on the same keys) or 4..12 */ S.rounds = rounds;
        S.repo = data_repo_create_nothreadsafe((unsigned)hints[vf_randn(&rng, 4)], parsec_hash_table_generic_key_fn, NULL, (unsigned)S.nbdata);
        vf_spinbar_init(&S.bar, nt + 1);
        pthread_t th[MAXT]; vf_team_ctx_t cx[MAXT]; pthread_barrier_t pb; pthread_barrier_init(&pb, NULL, nt);
        plan_round(&rng, 0, (uint64_t)cs * 1000003ULL);
        for (int i = 0; i < nt; i++) { cx[i] = (vf_team_ctx_t){stress_worker, NULL, i, nt, &pb}; pthread_create(&th[i], NULL, vf_team_tramp, &cx[i]); }
        for (int r = 0; r < rounds; r++) {
            vf_spinbar_wait(&S.bar);     /* go */
            vf_spinbar_wait(&S.bar);     /* quiescent */
            if (vf_nviolations < 6) {
                check_quiescent("after a round");
                int ov = 0; for (int a = 0; a < nt && !ov; a++) for (int b = 0; b < nt; b++) if (a != b && S.first[a] < S.last[b] && S.first[b] < S.last[a]) { ov = 1; break; }
                uint64_t sig = 0x25; int ng = 0;
                for (int i = 0; i < S.ngens; i++) if (S.gens[i].njoined) { ng++; sig = vf_mix(sig, (uint64_t)S.gens[i].njoined * 64 + (uint64_t)(S.gens[i].reclaimer + 1)); }
                for (int i = 0; i < S.ncr; i++) sig = vf_mix(sig, (uint64_t)S.cr[i].k * 8 + (uint64_t)S.cr[i].idx + ((uint64_t)S.cr[i].thread << 8));
                generations += ng; rounds_total++;
                if (ov && S.ncr >= 2) { S.overlapped_rounds++; nontrivial++; if (sig_add(sig)) distinct++; }
                if (printed < 2 && ov && S.ncr >= 3 && ng >= 2) { printed++; char b[900]; int bp = 0;
                    for (int i = 0; i < S.ncr && bp < 800; i++) bp += snprintf(b + bp, sizeof b - bp, "[key%d creator%d thread%d k=%d announce-after-%d-tokens gen%d created@%llu announced@%llu] ", S.cr[i].key_i, S.cr[i].idx, S.cr[i].thread, S.cr[i].k, S.cr[i].addto_after,
                                                                         S.cr[i].g ? (int)(S.cr[i].g - S.gens) : -1, (unsigned long long)S.cr[i].join_stamp, (unsigned long long)S.cr[i].addto_start);
                    vf_out("{\"type\":\"sample\",\"threads\":%d,\"keys\":%d,\"generations\":%d,\"plan\":\"%s\"}", nt, S.nkeys, ng, b); }
            }
            if ((r & 31) == 31 && !vf_nviolations) mempool_walk(nt);
            plan_round(&rng, r + 1, (uint64_t)cs * 1000003ULL);
            vf_spinbar_wait(&S.bar);     /* next */
        }
        for (int i = 0; i < nt; i++) pthread_join(th[i], NULL);
        if (!vf_nviolations) entries = mempool_walk(nt);
        data_repo_destroy_nothreadsafe(S.repo);
    }
    char w[256]; int wp = 0; for (int t = 0; t < nt; t++) wp += snprintf(w + wp, sizeof w - wp, "%s%ld", t ? "," : "", S.reclaimer_hist[t]);
    vf_out("{\"type\":\"summary\",\"mode\":\"stress\",\"threads\":%d,\"rounds\":%ld,\"nontrivial\":%ld,\"distinct\":%ld,\"generations\":%ld,\"creates\":%ld,\"new_generations\":%ld,\"shared_generations\":%ld,"
           "\"keys_with_several_generations\":%ld,\"uses\":%ld,\"uses_before_announce\":%ld,\"reclaims\":%ld,\"reclaim_in_used_once\":%ld,\"reclaim_in_addto\":%ld,\"lookups\":%ld,\"mempool_entries\":%ld,"
           "\"mempool_entries_missing\":%ld,\"reclaimer\":[%s],\"yield_datarepo\":%llu,\"yield_hash\":%llu}",
           nt, rounds_total, nontrivial, distinct, generations, S.creates, S.new_gens, S.shared_gens, S.multi_gen_keys, S.uses, S.uses_before_announce, S.reclaims, S.reclaim_by_use, S.reclaim_by_addto, S.lookups, entries, mempool_missing, w,
           (unsigned long long)vf_yield_hits(PARSEC_VERIF_SITE_DATAREPO), (unsigned long long)vf_yield_hits(PARSEC_VERIF_SITE_HASH_TABLE));
    return vf_nviolations ? 1 : 0;
}

/* ------------------------------------------------------------------ enum mode: all sequential schedules */
/* operation codes per creator i: 0 = create, 1 = addto, 2.. = uses */
static int E_C, E_k[MAXC], E_nops, E_sched[MAXC * (2 + MAXK)][2];
static long E_schedules, E_steps, E_distinct_gens[4];
static int E_done_ops[MAXC][2 + MAXK];
static void exec_schedule(void) {
    /* fresh plan on a fresh key */
    static uint64_t keyctr = 1; S.nkeys = 1; S.keys[0] = 0xE0000000ULL + keyctr++; S.ncr = 0; S.ntok = 0; S.ngens = 0; memset(S.gens, 0, sizeof(gen_t) * (MAXC + 1));
    for (int i = 0; i < E_C; i++) { crole_t *c = &S.cr[S.ncr]; memset(c, 0, sizeof *c); c->key_i = 0; c->idx = i; c->thread = 0; c->k = E_k[i]; c->tok0 = S.ntok; c->payload = (void *)(uintptr_t)(0xE7000000ULL + (uint64_t)i * 16 + 8);
        for (int u = 0; u < c->k; u++) { token_t *t = &S.tok[S.ntok++]; memset(t, 0, sizeof *t); t->creator = S.ncr; } S.ncr++; }
    long reclaims0 = S.reclaims; int holders = 0, announced = 0, recorded = 0, exists_expected = 0, gens = 0;
    for (int s = 0; s < E_nops && !vf_nviolations; s++) {
        int i = E_sched[s][0], op = E_sched[s][1]; crole_t *c = &S.cr[i]; tl_tid = i % S.nthreads;
        if (op == 0) { if (!exists_expected) { gens++; announced = recorded = 0; } do_create(c, i % S.nthreads); holders++; }
        else if (op == 1) { do_addto(c, i % S.nthreads); holders--; announced += c->k; }
        else { do_use(&S.tok[c->tok0 + op - 2], i % S.nthreads); recorded++; }
        /* the statement, evaluated after every step */
        exists_expected = holders > 0 || recorded < announced;
        /* uses recorded before their announcement belong to a creator that still holds the entry: holders > 0 covers them */
        data_repo_entry_t *le = data_repo_lookup_entry(S.repo, (parsec_key_t)S.keys[0]);
        if (exists_expected && !le) vf_violation("repo:enum:reclaimed-early", "schedule %ld step %d (creator %d op %d): %d holders, %d/%d uses, but the entry is gone", E_schedules, s, i, op, holders, recorded, announced);
        if (!exists_expected && le) vf_violation("repo:enum:not-reclaimed", "schedule %ld step %d (creator %d op %d): nobody holds it and all %d announced uses happened, entry still present", E_schedules, s, i, op, announced);
        if (S.reclaims - reclaims0 != gens - (exists_expected ? 1 : 0)) vf_violation("repo:enum:reclaim-count", "schedule %ld step %d: %ld reclaim events for %d generations (%s)", E_schedules, s, S.reclaims - reclaims0, gens, exists_expected ? "one live" : "none live");
        E_steps++;
    }
    if (!vf_nviolations) check_quiescent("end of schedule");
    E_distinct_gens[gens < 4 ? gens : 3]++; E_schedules++;
    if ((E_schedules & 255) == 0) VF_TICK();
}
static void enum_rec(int depth) {
    if (vf_nviolations) return;
    if (depth == E_nops) { exec_schedule(); return; }
    for (int i = 0; i < E_C; i++) {
        int nop = 2 + E_k[i];
        for (int op = 0; op < nop; op++) { if (E_done_ops[i][op]) continue;
            if (op > 0 && !E_done_ops[i][0]) continue;                 /* create first */
            if (op > 2 && !E_done_ops[i][op - 1]) continue;            /* uses of one creator are interchangeable: fix their order */
            E_done_ops[i][op] = 1; E_sched[depth][0] = i; E_sched[depth][1] = op;
            enum_rec(depth + 1);
            E_done_ops[i][op] = 0; }
    }
}
static int run_enum(int argc, char **argv) {
    int maxops = (int)vf_arg_ll(argc, argv, "--maxops", 9), maxk = (int)vf_arg_ll(argc, argv, "--maxk", 2);
    S.nbdata = 3; S.repo = data_repo_create_nothreadsafe(4, parsec_hash_table_generic_key_fn, NULL, 3);
    long configs = 0;
    for (E_C = 1; E_C <= MAXC; E_C++) {
        int kk[MAXC] = {0, 0, 0};
        for (;;) {
            int tot = 0; for (int i = 0; i < E_C; i++) tot += 2 + kk[i];
            if (tot <= maxops) { for (int i = 0; i < E_C; i++) E_k[i] = kk[i]; E_nops = tot; memset(E_done_ops, 0, sizeof E_done_ops); configs++; enum_rec(0); }
            int p = 0; while (p < E_C && ++kk[p] > maxk) kk[p++] = 0; if (p == E_C) break;
        }
    }
    long entries = vf_nviolations ? 0 : mempool_walk(S.nthreads);
    data_repo_destroy_nothreadsafe(S.repo);
    vf_out("{\"type\":\"sample\",\"enum\":\"creators 1..%d, uses per creator 0..%d, at most %d operations per schedule; per-creator order create < addto, create < use_j\"}", MAXC, maxk, maxops);
    vf_out("{\"type\":\"summary\",\"mode\":\"enum\",\"configs\":%ld,\"schedules\":%ld,\"steps\":%ld,\"schedules_1_generation\":%ld,\"schedules_2_generations\":%ld,\"schedules_3_generations\":%ld,\"reclaims\":%ld,\"mempool_entries\":%ld}",
           configs, E_schedules, E_steps, E_distinct_gens[1], E_distinct_gens[2], E_distinct_gens[3], S.reclaims, entries);
    return vf_nviolations ? 1 : 0;
}

int main(int argc, char **argv) {
    const char *mode = vf_arg(argc, argv, "--mode", "stress");
    S.nthreads = (int)vf_arg_ll(argc, argv, "--threads", 4); if (S.nthreads > MAXT) S.nthreads = MAXT; if (S.nthreads < 1) S.nthreads = 1;
    S.seed = (uint64_t)vf_arg_ll(argc, argv, "--seed", 1);
    int prov; MPI_Init_thread(&argc, &argv, MPI_THREAD_SERIALIZED, &prov);
    cpu_set_t cpus; sched_getaffinity(0, sizeof cpus, &cpus);
    int pargc = 0; char **pargv = NULL; pctx = parsec_init(S.nthreads, &pargc, &pargv);
    sched_setaffinity(0, sizeof cpus, &cpus);      /* parsec_init binds the caller to one core; the team must not inherit that */
    if (!pctx) { fprintf(stderr, "parsec_init failed\n"); return 2; }
    /* adopt the execution streams: the runtime's workers stay parked on the context barrier (the context is never started) */
    int n = 0; for (int v = 0; v < pctx->nb_vp && n < S.nthreads; v++) for (int c = 0; c < pctx->virtual_processes[v]->nb_cores && n < S.nthreads; c++) ES[n++] = pctx->virtual_processes[v]->execution_streams[c];
    if (n < S.nthreads) { fprintf(stderr, "only %d execution streams\n", n); return 2; }
    sigcap = 1 << 20; sigset = calloc(sigcap, sizeof(uint64_t));
    parsec_verif_event_cb = on_event;
    vf_yield_config(S.seed, (int)vf_arg_ll(argc, argv, "--yield", 0), (int)vf_arg_ll(argc, argv, "--yield-us", 0), (1ULL << PARSEC_VERIF_SITE_DATAREPO) | (1ULL << PARSEC_VERIF_SITE_HASH_TABLE));
    vf_heartbeat_start();
    int rc = !strcmp(mode, "enum") ? run_enum(argc, argv) : run_stress(argc, argv);
    vf_heartbeat_stop();
    vf_yield_config(0, 0, 0, 0); parsec_verif_event_cb = NULL;
    parsec_fini(&pctx); MPI_Finalize();
    return rc;
}
