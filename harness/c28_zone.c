/* C28: the zone allocator is a correct best-fit allocator.
 * The real zone_malloc / zone_free / zone_in_use of libparsec are driven against a shadow unit map.
 * Oracles after EVERY operation (sequential modes):
 *   - a returned address lies inside the zone, is unit aligned, the whole request fits, no unit is live twice
 *   - NULL only when the shadow has no free run of enough units (and never a block for a request larger than the zone)
 *   - best fit: the free run the block was carved from is a smallest sufficient one
 *   - zone_in_use == live units * unit size
 *   - segment walk (what zone_in_use / zone_debug walk): segments tile the zone, FULL segments are exactly the live
 *     allocations, EMPTY segments are exactly the maximal free runs of the shadow (so adjacent free runs were merged)
 *   - free index (the rbtree of chunk lists that zone_debug prints): holds exactly the maximal free runs, keyed by size
 *   - payload: every live block carries a pattern that is verified when it is freed (independent overlap evidence)
 * Modes: random (seeded histories, zones 1..64 units, a few larger), enum (every malloc/free sequence up to --len on a
 * zone of --units units), stress (threads sharing one zone: ownership map, payload pattern, quiescent accounting). */
#include "parsec/parsec_config.h"
#include "parsec/utils/zone_malloc.h"
#include "parsec/class/parsec_rbtree.h"
#include "parsec/class/list.h"
#include "kit.h"

#define MAXU 4096
/* replica of the private node type of zone_malloc.c (pinned tree); only used to read the free index */
typedef struct { parsec_rbtree_node_t super; parsec_list_t list; int nb_units; } zchunk_t;

static zone_malloc_t *Z; static char *base; static int U; static size_t unit;
static int own[MAXU];                /* shadow: 0 free, else allocation id */
typedef struct { void *p; int u0, units; size_t bytes; } alloc_t;
static alloc_t *al; static int nal, al_cap, nlive;

enum { O_MALLOC, O_FREE };
typedef struct { unsigned char op; int a; long long sz; int res; } lop_t;
static lop_t *olog; static int nolog, olog_cap;
static long cov_malloc_ok, cov_malloc_null, cov_free, cov_split, cov_exact, cov_merge_prev, cov_merge_next, cov_merge_both, cov_merge_none, cov_zero, cov_oversize, cov_ops, cov_walks, cov_full_zone, cov_maxlive, cov_oversize_granted;

static void log_op(int op, int a, long long sz, int res) {
    if (nolog == olog_cap) { olog_cap = olog_cap ? olog_cap * 2 : 1024; olog = realloc(olog, olog_cap * sizeof(lop_t)); }
    olog[nolog++] = (lop_t){(unsigned char)op, a, sz, res};
}
static void print_history(const char *why) {
    char buf[3600]; int p = 0; int from = nolog > 100 ? nolog - 100 : 0;
    p += snprintf(buf + p, sizeof buf - p, "zone of %d units of %zu bytes; ops(%d, last %d shown; m(bytes)=first unit or -1, f(first unit)): ", U, unit, nolog, nolog - from);
    for (int i = from; i < nolog && p < 3500; i++) {
        if (olog[i].op == O_MALLOC) p += snprintf(buf + p, sizeof buf - p, "m(%lld)=%d ", olog[i].sz, olog[i].res);
        else p += snprintf(buf + p, sizeof buf - p, "f(%d) ", olog[i].a);
    }
    vf_out("{\"type\":\"history\",\"why\":\"%s\",\"ops\":\"%s\"}", why, buf);
}

/* ------------------------------------------------------------------ structure checks */
static int tree_bad; static unsigned char tree_free_at[MAXU]; static int tree_runs;
static void tree_cb(parsec_rbtree_node_t *node, void *d) {
    (void)d; zchunk_t *fl = (zchunk_t *)node; int n = 0;
    if (tree_bad) return;
    for (parsec_list_item_t *it = PARSEC_LIST_ITERATOR_FIRST(&fl->list); it != PARSEC_LIST_ITERATOR_END(&fl->list); it = PARSEC_LIST_ITERATOR_NEXT(it)) {
        segment_t *s = (segment_t *)it; long tid = s - Z->segments;
        if (++n > U + 1) { vf_violation("zone:free-index", "chunk list for %d units does not terminate", fl->nb_units); tree_bad = 1; return; }
        if (tid < 0 || tid >= U) { vf_violation("zone:free-index", "chunk list for %d units holds a pointer outside the segment table", fl->nb_units); tree_bad = 1; return; }
        if (s->nb_units != fl->nb_units) { vf_violation("zone:free-index", "free segment at unit %ld has %d units but is filed under key %d", tid, s->nb_units, fl->nb_units); tree_bad = 1; return; }
        if (tree_free_at[tid]) { vf_violation("zone:free-index", "free segment at unit %ld is filed twice", tid); tree_bad = 1; return; }
        tree_free_at[tid] = 1; tree_runs++;
    }
    if (n == 0) { vf_violation("zone:free-index", "the free index keeps an empty chunk list under key %d", fl->nb_units); tree_bad = 1; }
}

static int check_state(const char *after) {
    cov_walks++;
    /* accounting */
    size_t live_units = 0; for (int i = 0; i < U; i++) live_units += own[i] != 0;
    size_t iu = zone_in_use(Z);
    if (iu != live_units * unit) { vf_violation("zone:in-use", "after %s: zone_in_use reports %zu bytes, live allocations sum to %zu", after, iu, live_units * unit); return 0; }
    /* segment walk */
    int tid = 0, prev_empty = 0, steps = 0;
    while (tid < U) {
        segment_t *s = &Z->segments[tid];
        if (++steps > U + 1 || s->nb_units <= 0 || tid + s->nb_units > U) { vf_violation("zone:segments", "after %s: segment at unit %d has %d units (zone has %d)", after, tid, s->nb_units, U); return 0; }
        if (s->status == SEGMENT_FULL) {
            int id = own[tid];
            if (!id || al[id].u0 != tid || al[id].units != s->nb_units) { vf_violation("zone:segments", "after %s: full segment [%d,+%d) is not a live allocation of the shadow", after, tid, s->nb_units); return 0; }
            prev_empty = 0;
        } else if (s->status == SEGMENT_EMPTY) {
            for (int k = 0; k < s->nb_units; k++) if (own[tid + k]) { vf_violation("zone:segments", "after %s: empty segment [%d,+%d) covers live unit %d", after, tid, s->nb_units, tid + k); return 0; }
            if (prev_empty) { vf_violation("zone:free:not-merged", "after %s: two adjacent free segments meet at unit %d (free runs must be merged)", after, tid); return 0; }
            prev_empty = 1;
        } else { vf_violation("zone:segments", "after %s: segment at unit %d has status %d", after, tid, s->status); return 0; }
        tid += s->nb_units;
    }
    /* free index == maximal free runs of the shadow */
    memset(tree_free_at, 0, (size_t)U); tree_bad = 0; tree_runs = 0;
    parsec_rbtree_foreach(&Z->rbtree, tree_cb, NULL);
    if (tree_bad) return 0;
    int runs = 0;
    for (int a = 0; a < U;) {
        if (own[a]) { a++; continue; }
        int b = a; while (b < U && !own[b]) b++;
        runs++;
        if (!tree_free_at[a] || Z->segments[a].nb_units != b - a) { vf_violation("zone:free-index", "after %s: free run [%d,+%d) of the shadow is not in the free index", after, a, b - a); return 0; }
        a = b;
    }
    if (runs != tree_runs) { vf_violation("zone:free-index", "after %s: the free index holds %d runs, the shadow has %d", after, tree_runs, runs); return 0; }
    return 1;
}

static void zone_reset(int units, size_t usz) {
    if (Z) { zone_malloc_fini(&Z); }
    U = units; unit = usz;
    base = realloc(base, (size_t)U * unit + 16);
    Z = zone_malloc_init(base, U, unit);
    memset(own, 0, sizeof(int) * (size_t)U); nal = 0; nlive = 0; nolog = 0;
}
static int new_id(void) { if (nal + 2 > al_cap) { al_cap = al_cap ? al_cap * 2 : 1024; al = realloc(al, sizeof(alloc_t) * al_cap); } return ++nal; }

static int checks_on = 1, probe_hit;
/* one judged malloc; returns 0 after a violation. *changed tells whether the state changed */
static int do_malloc(size_t bytes, int *changed) {
    size_t need = bytes / unit + (bytes % unit != 0);     /* computed without overflow */
    int best = 0, run = 0, can = 0;
    for (int i = 0; i <= U; i++) { if (i < U && !own[i]) run++; else { if (need && (size_t)run >= need) { can = 1; if (!best || run < best) best = run; } run = 0; } }
    void *p = zone_malloc(Z, bytes); cov_ops++;
    if (changed) *changed = 0;
    if (bytes == 0) {                    /* not judged: a zero-size request may legitimately give NULL */
        cov_zero++; log_op(O_MALLOC, 0, 0, p ? 0 : -1);
        if (p) { zone_free(Z, p); }
        return 1;
    }
    long off = p ? (long)((char *)p - base) : -1;
    log_op(O_MALLOC, 0, (long long)bytes, p ? (int)(off / (long)unit) : -1);
    if (need > (size_t)U) cov_oversize++;
    if (!p) {
        cov_malloc_null++;
        if (can) { vf_violation("zone:malloc:null-with-room", "request of %zu units failed although a free run of %d units exists", need, best); return 0; }
        return !checks_on || check_state("failed malloc");
    }
    if (!can && need > (size_t)0x7fffffff) {
        /* probe that can continue: the allocator granted (int)need units; report (routed through known findings by the driver), give the block back */
        static int reported;
        if (!reported++) vf_out("{\"type\":\"violation\",\"key\":\"zone:malloc:oversize-granted:unit-count-exceeds-int\",\"text\":\"request of %zu bytes = %zu units on a zone of %d units of %zu bytes returned a block at offset %ld instead of NULL\"}", bytes, need, U, unit, off);
        cov_oversize_granted++;
        zone_free(Z, p); probe_hit = 1;         /* the caller ends this history after the probe */
        return !checks_on || check_state("oversize request");
    }
    if (!can) {
        if (need > (size_t)U) vf_violation("zone:malloc:oversize-granted", "request of %zu bytes = %zu units on a zone of %d units returned a block at offset %ld", bytes, need, U, off);
        else vf_violation("zone:malloc:no-room-granted", "request of %zu units granted at unit %ld although the largest free run is shorter", need, off / (long)unit);
        return 0;
    }
    if (off < 0 || (size_t)off % unit || (size_t)off / unit + need > (size_t)U) { vf_violation("zone:malloc:address", "block for %zu units at byte offset %ld is outside the zone or not unit aligned", need, off); return 0; }
    int u0 = (int)((size_t)off / unit);
    for (size_t k = 0; k < need; k++) if (own[u0 + k]) { vf_violation("zone:malloc:overlap", "block [%d,+%zu) overlaps live allocation %d at unit %d", u0, need, own[u0 + k], (int)(u0 + k)); return 0; }
    int a = u0; while (a > 0 && !own[a - 1]) a--; int b = u0; while (b < U && !own[b]) b++;
    if (b - a != best) { vf_violation("zone:malloc:not-best-fit", "request of %zu units carved from a free run of %d units while a run of %d exists", need, b - a, best); return 0; }
    if ((size_t)(b - a) == need) cov_exact++; else cov_split++;
    if (need == (size_t)U) cov_full_zone++;
    int id = new_id(); al[id] = (alloc_t){p, u0, (int)need, bytes};
    for (size_t k = 0; k < need; k++) own[u0 + k] = id;
    memset(p, 0x40 + (id & 0x3f), bytes);
    nlive++; if (nlive > cov_maxlive) cov_maxlive = nlive; cov_malloc_ok++;
    if (changed) *changed = 1;
    return !checks_on || check_state("malloc");
}
static int do_free(int id) {
    alloc_t *x = &al[id];
    for (size_t k = 0; k < x->bytes; k++) if (((unsigned char *)x->p)[k] != (unsigned char)(0x40 + (id & 0x3f))) { vf_violation("zone:payload", "block at unit %d lost its pattern at byte %zu before being freed (another block overlaps it)", x->u0, k); return 0; }
    int pf = x->u0 > 0 && !own[x->u0 - 1], nf = x->u0 + x->units < U && !own[x->u0 + x->units];
    if (pf && nf) cov_merge_both++; else if (pf) cov_merge_prev++; else if (nf) cov_merge_next++; else cov_merge_none++;
    log_op(O_FREE, x->u0, 0, 0);
    zone_free(Z, x->p); cov_ops++; cov_free++;
    for (int k = 0; k < x->units; k++) own[x->u0 + k] = 0;
    x->p = NULL; nlive--;
    return !checks_on || check_state("free");
}

static uint64_t *sigset; static size_t sigcap, nsig;
static int sig_add(uint64_t s) {
    if (!s) s = 1;
    size_t i = (size_t)(s % sigcap);
    while (sigset[i]) { if (sigset[i] == s) return 0; i = (i + 1) % sigcap; }
    if (nsig * 2 < sigcap) { sigset[i] = s; nsig++; }
    return 1;
}
static uint64_t hist_sig(void) {
    uint64_t h = vf_mix(0x28, (uint64_t)U * 131 + unit);
    for (int i = 0; i < nolog; i++) h = vf_mix(h, (uint64_t)olog[i].op + 2 * (uint64_t)olog[i].a + 8192 * (uint64_t)olog[i].sz);
    return h;
}
static int pick_live(vf_rng_t *r) { int k = 1 + (int)vf_randn(r, nal); for (int t = 0; t < nal; t++) { if (al[k].p) return k; k = k % nal + 1; } return 0; }

/* ------------------------------------------------------------------ random histories */
static int run_random(int argc, char **argv) {
    long nh = vf_arg_ll(argc, argv, "--histories", 1000); int maxlen = (int)vf_arg_ll(argc, argv, "--maxlen", 2000);
    uint64_t seed = (uint64_t)vf_arg_ll(argc, argv, "--seed", 1); int probe_oversize = (int)vf_arg_ll(argc, argv, "--oversize-permille", 10);
    static const size_t units_sz[] = {1, 8, 64, 100, 512, 4096};
    long done = 0, distinct = 0, nontrivial = 0, samples = 0;
    for (long h = 0; h < nh && !vf_nviolations; h++) {
        vf_rng_t r; vf_rng_seed(&r, seed, (uint64_t)h + 1);
        int units = vf_chance(&r, 40) ? 65 + (int)vf_randn(&r, 960) : 1 + (int)vf_randn(&r, vf_chance(&r, 400) ? 16 : 64);
        size_t usz = units_sz[vf_randn(&r, units > 256 ? 4 : 6)];
        zone_reset(units, usz);
        int len = vf_chance(&r, 20) ? maxlen : (vf_chance(&r, 300) ? 1 + (int)vf_randn(&r, maxlen) : 1 + (int)vf_randn(&r, 80));
        int maxreq = 1 + (int)vf_randn(&r, U);        /* per-history request scale: small requests fragment, large ones fail */
        int ok = check_state("init"), changes = 0;
        for (int k = 0; k < len && ok; k++) {
            int phase = (k * 4 / len) & 3; int pm = phase == 0 ? 75 : phase == 2 ? 30 : 50;
            if (nlive == 0 || (int)vf_randn(&r, 100) < pm) {
                size_t bytes; int c = 0;
                if (vf_chance(&r, 15)) bytes = 0;
                else if (vf_chance(&r, (uint32_t)probe_oversize)) {      /* requests beyond the zone, up to sizes whose unit count does not fit an int */
                    int w = (int)vf_randn(&r, 4);
                    bytes = w == 0 ? (size_t)U * unit + 1 : w <= 2 ? ((size_t)U + 1 + vf_randn(&r, 1000)) * unit : (((size_t)(1 + vf_randn(&r, 3)) << 32) + 1 + vf_randn(&r, (uint32_t)U)) * unit;   /* w==3: unit count needs more than 32 bits (its low 32 bits are a small positive number) */
                } else { size_t un = 1 + vf_randn(&r, vf_chance(&r, 100) ? (uint32_t)U : (uint32_t)maxreq); bytes = un * unit - vf_randn(&r, (uint32_t)unit); }
                ok = do_malloc(bytes, &c); changes += c;
                if (probe_hit) { probe_hit = 0; break; }
            } else { ok = do_free(pick_live(&r)); changes++; }
            if ((k & 63) == 0) VF_TICK();
        }
        /* free everything in random order, then the whole zone must be one free run again */
        while (ok && nlive) ok = do_free(pick_live(&r));
        if (ok) { int c; ok = do_malloc((size_t)U * unit, &c); if (ok && !c) { vf_violation("zone:free:not-merged", "after freeing every block a request for the whole zone (%d units) fails", U); ok = 0; } if (ok) ok = do_free(nal); }
        if (!ok) { print_history("violation"); break; }
        done++;
        if (nolog >= 3 && changes) { nontrivial++; if (sig_add(hist_sig())) distinct++; if (samples < 2 && nolog < 30) { samples++; print_history("sample"); } }
        VF_TICK();
    }
    vf_out("{\"type\":\"summary\",\"mode\":\"random\",\"histories\":%ld,\"nontrivial\":%ld,\"distinct\":%ld,\"ops\":%ld,\"walks\":%ld,\"malloc_ok\":%ld,\"malloc_null\":%ld,\"free\":%ld,"
           "\"split\":%ld,\"exact_fit\":%ld,\"merge_prev\":%ld,\"merge_next\":%ld,\"merge_both\":%ld,\"merge_none\":%ld,\"zero_size\":%ld,\"oversize\":%ld,\"whole_zone\":%ld,\"max_live\":%ld,\"oversize_granted\":%ld}",
           done, nontrivial, distinct, cov_ops, cov_walks, cov_malloc_ok, cov_malloc_null, cov_free, cov_split, cov_exact, cov_merge_prev, cov_merge_next, cov_merge_both, cov_merge_none, cov_zero, cov_oversize, cov_full_zone, cov_maxlive, cov_oversize_granted);
    return vf_nviolations ? 1 : 0;
}

/* ------------------------------------------------------------------ enumerator: every malloc/free sequence up to --len */
typedef struct { unsigned char op; short a; } eop_t;   /* malloc: a = units; free: a = index (creation order) of a live allocation */
static eop_t epath[40]; static long enum_nodes, enum_leaves, enum_budget; static int enum_len, enum_trunc, enum_units; static size_t enum_unit;
static int replay(int depth, int *last_changed) {
    zone_reset(enum_units, enum_unit);
    for (int k = 0; k < depth; k++) {
        int ok, c = 1; checks_on = (k == depth - 1);
        if (epath[k].op == O_MALLOC) ok = do_malloc((size_t)epath[k].a * unit - (epath[k].a & 1 ? unit / 2 : 0), &c); else ok = do_free(epath[k].a);
        if (!ok) { checks_on = 1; return 0; }
        if (last_changed) *last_changed = c;
    }
    checks_on = 1; return 1;
}
static int explore(int depth) {
    if (vf_nviolations) return 0;
    if (depth == enum_len) { enum_leaves++; return 1; }
    eop_t cand[64]; int nc = 0;
    for (int u = 1; u <= U && nc < 40; u++) cand[nc++] = (eop_t){O_MALLOC, (short)u};
    for (int id = 1; id <= nal && nc < 64; id++) if (al[id].p) cand[nc++] = (eop_t){O_FREE, (short)id};
    for (int c = 0; c < nc; c++) {
        if (enum_nodes >= enum_budget) { enum_trunc = 1; return 1; }
        epath[depth] = cand[c]; enum_nodes++; int ch = 1;
        if (!replay(depth + 1, &ch)) { print_history("violation"); return 0; }
        if ((enum_nodes & 255) == 0) VF_TICK();
        if (nolog >= 3) sig_add(hist_sig());
        if (ch && !explore(depth + 1)) return 0;     /* a failed malloc leaves the parent's state: its subtree is the siblings' */
    }
    return 1;
}
static int run_enum(int argc, char **argv) {
    enum_units = (int)vf_arg_ll(argc, argv, "--units", 4); enum_len = (int)vf_arg_ll(argc, argv, "--len", 6); enum_budget = vf_arg_ll(argc, argv, "--budget", 50000000);
    enum_unit = (size_t)vf_arg_ll(argc, argv, "--unit", 64);
    if (enum_units > 32) enum_units = 32; if (enum_len > 38) enum_len = 38;
    zone_reset(enum_units, enum_unit); explore(0);
    vf_out("{\"type\":\"summary\",\"mode\":\"enum\",\"units\":%d,\"len\":%d,\"sequences\":%ld,\"full_length\":%ld,\"distinct\":%zu,\"truncated\":%d,\"walks\":%ld,\"malloc_ok\":%ld,\"malloc_null\":%ld,\"free\":%ld,"
           "\"split\":%ld,\"exact_fit\":%ld,\"merge_prev\":%ld,\"merge_next\":%ld,\"merge_both\":%ld,\"merge_none\":%ld}",
           enum_units, enum_len, enum_nodes, enum_leaves, nsig, enum_trunc, cov_walks, cov_malloc_ok, cov_malloc_null, cov_free, cov_split, cov_exact, cov_merge_prev, cov_merge_next, cov_merge_both, cov_merge_none);
    return vf_nviolations ? 1 : 0;
}

/* ------------------------------------------------------------------ multi-threaded stress: ownership + payload + quiescent accounting */
typedef struct { long rounds; uint64_t seed; int maxreq; volatile long ops, nulls, mallocs; vf_spinbar_t bar; int phases; } stress_t;
static stress_t S; static volatile int sown[MAXU];
/* barrier that gives up as soon as any thread reported a violation (the run ends then) */
static void bar_wait(void) {
    int s = S.bar.sense;
    if (__atomic_add_fetch(&S.bar.count, 1, __ATOMIC_SEQ_CST) == S.bar.n) { S.bar.count = 0; __atomic_store_n(&S.bar.sense, !s, __ATOMIC_SEQ_CST); }
    else { int k = 0; while (__atomic_load_n(&S.bar.sense, __ATOMIC_SEQ_CST) == s && !vf_nviolations) if (++k > 200) sched_yield(); }
}
static void stress_worker(int tid, int nt, void *arg) {
    (void)arg; vf_rng_t r; vf_rng_seed(&r, S.seed, (uint64_t)tid + 50);
    struct { void *p; int u0, units; size_t bytes; } mine[64]; int nm = 0; long n = 0, nulls = 0, ma = 0; int tag = tid + 1;
    for (int ph = 0; ph < S.phases && !vf_nviolations; ph++) {
        for (long k = 0; k < S.rounds && !vf_nviolations; k++) {
            if (nm < 64 && (nm == 0 || vf_chance(&r, 520))) {
                size_t un = 1 + vf_randn(&r, (uint32_t)S.maxreq), bytes = un * unit - vf_randn(&r, (uint32_t)unit);
                void *p = zone_malloc(Z, bytes); n++;
                if (!p) { nulls++; continue; }
                long off = (char *)p - base;
                if (off < 0 || (size_t)off % unit || (size_t)off / unit + un > (size_t)U) { vf_violation("zone:malloc:address", "stress: block for %zu units at byte offset %ld is outside the zone or unaligned", un, off); goto out; }
                int u0 = (int)((size_t)off / unit);
                for (size_t q = 0; q < un; q++) { int o = __sync_val_compare_and_swap(&sown[u0 + q], 0, tag); if (o) { vf_violation("zone:malloc:overlap", "stress: unit %d handed to thread %d while thread %d still holds it", (int)(u0 + q), tid, o - 1); goto out; } }
                memset(p, tag, bytes);
                mine[nm].p = p; mine[nm].u0 = u0; mine[nm].units = (int)un; mine[nm].bytes = bytes; nm++; ma++;
            } else {
                int i = (int)vf_randn(&r, (uint32_t)nm);
                for (size_t q = 0; q < mine[i].bytes; q++) if (((unsigned char *)mine[i].p)[q] != (unsigned char)tag) { vf_violation("zone:payload", "stress: block at unit %d of thread %d was overwritten at byte %zu", mine[i].u0, tid, q); goto out; }
                for (int q = 0; q < mine[i].units; q++) sown[mine[i].u0 + q] = 0;     /* shadow released BEFORE the real free: only more permissive */
                __sync_synchronize();
                zone_free(Z, mine[i].p); n++;
                mine[i] = mine[--nm];
            }
            if ((n & 255) == 0) VF_TICK();
        }
        /* quiescent point: everybody stops, thread 0 compares the accounting */
        bar_wait();
        if (tid == 0 && !vf_nviolations) {
            size_t live = 0; for (int i = 0; i < U; i++) live += sown[i] != 0;
            size_t iu = zone_in_use(Z);
            if (iu != live * unit) vf_violation("zone:in-use", "stress: at a quiescent point zone_in_use reports %zu bytes, the threads hold %zu", iu, live * unit);
        }
        bar_wait();
    }
    if (!vf_nviolations) for (int i = 0; i < nm; i++) { for (int q = 0; q < mine[i].units; q++) sown[mine[i].u0 + q] = 0; zone_free(Z, mine[i].p); n++; }
out:
    __sync_fetch_and_add(&S.ops, n); __sync_fetch_and_add(&S.nulls, nulls); __sync_fetch_and_add(&S.mallocs, ma); (void)nt;
}
static int run_stress(int argc, char **argv) {
    int nt = (int)vf_arg_ll(argc, argv, "--threads", 8); S.rounds = vf_arg_ll(argc, argv, "--rounds", 20000); S.phases = (int)vf_arg_ll(argc, argv, "--phases", 5);
    S.seed = (uint64_t)vf_arg_ll(argc, argv, "--seed", 1); int units = (int)vf_arg_ll(argc, argv, "--units", 256); S.maxreq = (int)vf_arg_ll(argc, argv, "--maxreq", 8);
    if (units > MAXU) units = MAXU;
    zone_reset(units, (size_t)vf_arg_ll(argc, argv, "--unit", 64));
    vf_spinbar_init(&S.bar, nt);
    vf_team_run(nt, stress_worker, NULL);
    if (!vf_nviolations) {
        if (zone_in_use(Z) != 0) vf_violation("zone:in-use", "stress: after every block was freed zone_in_use reports %zu bytes", zone_in_use(Z));
        else { int c = 0; if (!do_malloc((size_t)U * unit, &c)) print_history("violation"); else if (!c) vf_violation("zone:free:not-merged", "stress: after every block was freed a request for the whole zone fails"); }
    }
    vf_out("{\"type\":\"summary\",\"mode\":\"stress\",\"threads\":%d,\"units\":%d,\"ops\":%ld,\"mallocs\":%ld,\"nulls\":%ld,\"phases\":%d}", nt, U, S.ops, S.mallocs, S.nulls, S.phases);
    return vf_nviolations ? 1 : 0;
}

/* one request whose unit count, cut to 32 bits, is NEGATIVE (same root cause as the finding above; kept in its own process
 * because the unchanged allocator then walks outside its segment table) */
static int run_probe_huge(int argc, char **argv) {
    int units = (int)vf_arg_ll(argc, argv, "--units", 32); size_t usz = (size_t)vf_arg_ll(argc, argv, "--unit", 8);
    zone_reset(units, usz);
    int c; int ok = do_malloc(3 * unit, &c);
    size_t bytes = (((size_t)1 << 32) - 5) * unit;      /* 2^32-5 units: (int) gives -5 */
    void *p = ok ? zone_malloc(Z, bytes) : NULL;
    if (p) vf_violation("zone:malloc:oversize-granted:unit-count-exceeds-int", "request of %zu bytes = %zu units on a zone of %d units returned %p instead of NULL", bytes, bytes / unit, U, p);
    else if (ok && !check_state("huge request")) ok = 0;
    vf_out("{\"type\":\"summary\",\"mode\":\"probe-huge\",\"granted\":%d}", p != NULL);
    return vf_nviolations ? 1 : 0;
}

int main(int argc, char **argv) {
    const char *mode = vf_arg(argc, argv, "--mode", "random");
    sigcap = (size_t)vf_arg_ll(argc, argv, "--sigcap", 1 << 21); sigset = calloc(sigcap, sizeof(uint64_t));
    vf_heartbeat_start();
    int rc = !strcmp(mode, "probe-huge") ? run_probe_huge(argc, argv) : !strcmp(mode, "enum") ? run_enum(argc, argv) : !strcmp(mode, "stress") ? run_stress(argc, argv) : run_random(argc, argv);
    vf_heartbeat_stop();
    return rc;
}
