/* C27: arenas and thread memory pools never hand out a block twice.
 * Modes:  arena   - T threads allocate/release data copies from real arenas (parsec_arena_get_new_copy /
 *                   PARSEC_DATA_COPY_RELEASE) built with random element size, alignment, allocation limit and
 *                   cache limit (both given to parsec_arena_construct_ex in BYTES); ownership tags live in the
 *                   blocks, the arena's allocator callbacks are the harness's (ground truth for "cached");
 *                   T == 1 is the sequential variant where the cache limit is judged after every operation
 *         mempool - parsec_thread_mempool_allocate from the owner thread, free from any thread, conservation
 *                   walk of every per-thread LIFO at quiescence
 * Shadow counters are kept in the permissive direction: `live` is raised after a successful allocation and
 * lowered before the release call, so live(shadow) <= live(real) at every instant. */
#include "parsec/parsec_config.h"
#include "parsec/parsec_internal.h"
#include "parsec/runtime.h"
#include "parsec/arena.h"
#include "parsec/data_internal.h"
#include "parsec/mempool.h"
#include "parsec/class/lifo.h"
#include <mpi.h>
#include <limits.h>
#include <malloc.h>
#include "kit.h"

#define MAXT 16
#define MAXHOLD 64
#define TAG_FREE  0xF4EEF4EEF4EEF4EEULL
#define TAG_FRESH 0xF5F5F5F5F5F5F5F5ULL
#define TAG_SEEN  0x5EE25EE25EE25EE2ULL

static volatile long hard_violations;          /* everything except the known cache-limit finding stops the run */
#define HARD(key, ...) do { vf_violation(key, __VA_ARGS__); __atomic_add_fetch(&hard_violations, 1, __ATOMIC_SEQ_CST); } while (0)

/* ------------------------------------------------------------------ allocator callbacks (ground truth) */
static volatile long cb_mallocs, cb_frees, cb_bytes;
static __thread int tl_fresh;                  /* set when the arena called the allocator inside the current request */
static __thread vf_rng_t *tl_rng;
typedef struct { uint64_t size; uint64_t magic; } ahdr_t;   /* 16 bytes, placed right before the block */
#define AMAGIC 0xA11C0DE5A11C0DE5ULL
static void *h_malloc(size_t size) {
    /* vary the alignment of the raw block (8 or 16 modulo 16) so that the arena's own alignment code is exercised */
    size_t pad = (tl_rng && vf_randn(tl_rng, 2)) ? 8 : 0;
    char *raw = malloc(pad + sizeof(ahdr_t) + size);
    if (!raw) return NULL;
    ahdr_t *h = (ahdr_t *)(raw + pad); h->size = size; h->magic = AMAGIC ^ pad;
    memset(h + 1, 0xF5, size);
    __atomic_add_fetch(&cb_mallocs, 1, __ATOMIC_SEQ_CST); __atomic_add_fetch(&cb_bytes, (long)size, __ATOMIC_RELAXED);
    tl_fresh = 1;
    return h + 1;
}
/* The arena returns chunks to the system while other threads may still be inside parsec_lifo_pop with a stale
 * pointer to them (optimistic read of item->list_next).  By default the harness keeps returned chunks in a bounded
 * FIFO quarantine (type-stable for the duration that matters) so that this known hazard does not end the run at
 * its first occurrence; --real-free 1 hands them to free() at once (ASan then sees the stale read). */
static int real_free = 0;
#define QCAP 8192
static pthread_mutex_t q_mtx = PTHREAD_MUTEX_INITIALIZER;
static struct { void *raw; size_t bytes; } q_ring[QCAP]; static size_t q_head, q_n, q_bytes;
static void q_flush(size_t keep_n, size_t keep_bytes) {
    while (q_n > keep_n || q_bytes > keep_bytes) { free(q_ring[q_head].raw); q_bytes -= q_ring[q_head].bytes; q_head = (q_head + 1) % QCAP; q_n--; }
}
static void h_free(void *p) {
    ahdr_t *h = (ahdr_t *)p - 1; size_t pad = (size_t)(h->magic ^ AMAGIC);
    if (pad != 0 && pad != 8) { HARD("arena:free-of-foreign-pointer", "data_free called with %p which the allocator callback never returned (or returned twice)", p); return; }
    h->magic = 0;
    __atomic_add_fetch(&cb_frees, 1, __ATOMIC_SEQ_CST);
    if (real_free) { free((char *)h - pad); return; }
    pthread_mutex_lock(&q_mtx);
    q_flush(QCAP - 1, (size_t)48 << 20);
    size_t t = (q_head + q_n) % QCAP; q_ring[t].raw = (char *)h - pad; q_ring[t].bytes = h->size + 32; q_n++; q_bytes += h->size + 32;
    pthread_mutex_unlock(&q_mtx);
}

/* ------------------------------------------------------------------ arena mode */
typedef struct { parsec_data_copy_t *copy; uint64_t tag; size_t bytes; int count; } held_t;
typedef struct {
    parsec_arena_t *ar; size_t elem, align; long L, C;     /* limits in elements, -1 = unlimited */
    int nthreads, rounds, ops, hold, pmulti;
    uint64_t seed; vf_spinbar_t bar;
    volatile long live;                                     /* shadow: elements handed out and not yet being released */
    volatile long live_chunks;                              /* same in chunks (one per allocation) */
    volatile long max_live_seen, allocs, fresh, cached_hits, refusals, refusals_below_limit, multi, releases, overshoot_max, quiesc;
    volatile long overlapped_rounds; uint64_t first[MAXT], last[MAXT];
    uint64_t sig;
} acase_t;
static acase_t A;
static int cache_limit_reported;

static inline uint64_t mk_tag(int tid, uint64_t serial) { return 0x7000000000000000ULL | ((uint64_t)(tid + 1) << 48) | (serial & 0xffffffffffffULL); }
static int tag_is_owner(uint64_t t) { return (t >> 60) == 7; }

static void fill_block(unsigned char *d, size_t n, uint64_t tag) {
    unsigned char b = (unsigned char)(tag * 131 + 7);
    if (n <= 8) return;
    if (n <= 520) memset(d + 8, b, n - 8);
    else { memset(d + 8, b, 128); memset(d + n - 64, b, 64); }
}
static int check_block(unsigned char *d, size_t n, uint64_t tag) {
    unsigned char b = (unsigned char)(tag * 131 + 7);
    if (n <= 8) return 1;
    if (n <= 520) { for (size_t i = 8; i < n; i++) if (d[i] != b) return 0; }
    else { for (size_t i = 8; i < 136; i++) if (d[i] != b) return 0; for (size_t i = n - 64; i < n; i++) if (d[i] != b) return 0; }
    return 1;
}

static int arena_alloc(int tid, held_t *h, int count, uint64_t serial) {
    tl_fresh = 0;
    parsec_data_copy_t *c = parsec_arena_get_new_copy(A.ar, (size_t)count, 0, PARSEC_DATATYPE_NULL);
    if (!c) {
        __atomic_add_fetch(&A.refusals, 1, __ATOMIC_RELAXED);
        if (A.nthreads == 1 && (A.L < 0 || A.live + count <= A.L)) A.refusals_below_limit++;   /* informative only */
        return 0;
    }
    parsec_arena_chunk_t *ch = c->arena_chunk;
    unsigned char *d = (unsigned char *)c->device_private;
    size_t n = A.elem * (size_t)count;
    if (!ch || !d) { HARD("arena:null-block", "allocation of %d x %zu returned a copy without memory", count, A.elem); return 0; }
    if (ch->origin != A.ar || (int)ch->count != count || ch->data != (void *)d)
        HARD("arena:chunk-header", "chunk %p: origin %p (arena %p) count %u (asked %d) data %p (copy has %p)", (void *)ch, (void *)ch->origin, (void *)A.ar, ch->count, count, ch->data, (void *)d);
    if (((uintptr_t)d) % A.align) HARD("arena:misaligned", "block %p of arena(elem %zu, align %zu) is not aligned as requested", (void *)d, A.elem, A.align);
    ahdr_t *hd = (ahdr_t *)ch - 1;
    if ((hd->magic ^ AMAGIC) > 8) HARD("arena:foreign-chunk", "chunk %p was not obtained from the arena's allocator callback", (void *)ch);
    else if (d < (unsigned char *)(ch + 1) || d + n > (unsigned char *)ch + hd->size)
        HARD("arena:too-small", "block %p + %zu bytes (count %d x elem %zu) does not fit the chunk %p of %llu bytes", (void *)d, n, count, A.elem, (void *)ch, (unsigned long long)hd->size);
    h->tag = mk_tag(tid, serial);
    uint64_t old = __atomic_exchange_n((uint64_t *)d, h->tag, __ATOMIC_SEQ_CST);
    if (old != TAG_FREE && old != TAG_FRESH) {
        if (tag_is_owner(old)) HARD("arena:block-owned-twice", "block %p handed to thread %d while thread %d still owns it (tag %llx, %s chunk)", (void *)d, tid, (int)((old >> 48) & 0xfff) - 1, (unsigned long long)old, tl_fresh ? "fresh" : "cached");
        else HARD("arena:block-corrupt", "block %p handed out with tag %llx (neither free nor fresh)", (void *)d, (unsigned long long)old);
    }
    if (tl_fresh != (old == TAG_FRESH) && (old == TAG_FREE || old == TAG_FRESH))
        HARD("arena:cache-fresh-mismatch", "block %p: allocator callback %s but the block carries the %s tag", (void *)d, tl_fresh ? "ran" : "did not run", old == TAG_FRESH ? "fresh" : "released");
    fill_block(d, n, h->tag);
    h->copy = c; h->bytes = n; h->count = count;
    __atomic_add_fetch(&A.live_chunks, 1, __ATOMIC_SEQ_CST);
    long lv = __atomic_add_fetch(&A.live, count, __ATOMIC_SEQ_CST);
    if (A.L >= 0 && lv > A.L) HARD("arena:max-used-exceeded", "%ld elements are live at once in an arena limited to %ld (elem %zu, %d threads, request of %d, %s)", lv, A.L, A.elem, A.nthreads, count, count > 1 ? "multi-count path" : "single");
    long m = A.max_live_seen; while (lv > m && !__atomic_compare_exchange_n(&A.max_live_seen, &m, lv, 0, __ATOMIC_SEQ_CST, __ATOMIC_SEQ_CST)) ;
    __atomic_add_fetch(&A.allocs, 1, __ATOMIC_RELAXED);
    if (tl_fresh) __atomic_add_fetch(&A.fresh, 1, __ATOMIC_RELAXED); else __atomic_add_fetch(&A.cached_hits, 1, __ATOMIC_RELAXED);
    if (count > 1) __atomic_add_fetch(&A.multi, 1, __ATOMIC_RELAXED);
    return 1;
}
static void arena_release(int tid, held_t *h) {
    unsigned char *d = (unsigned char *)h->copy->device_private;
    if (!check_block(d, h->bytes, h->tag)) HARD("arena:block-scribbled", "payload of block %p owned by thread %d changed while it was live (second owner or overlap)", (void *)d, tid);
    __atomic_sub_fetch(&A.live, h->count, __ATOMIC_SEQ_CST);          /* before the call: shadow <= real */
    __atomic_sub_fetch(&A.live_chunks, 1, __ATOMIC_SEQ_CST);
    uint64_t old = __atomic_exchange_n((uint64_t *)d, TAG_FREE, __ATOMIC_SEQ_CST);
    if (old != h->tag) HARD("arena:block-owned-twice", "owner tag of block %p (thread %d) was replaced by %llx while live", (void *)d, tid, (unsigned long long)old);
    parsec_data_copy_t *c = h->copy; h->copy = NULL;
    PARSEC_DATA_COPY_RELEASE(c);
    __atomic_add_fetch(&A.releases, 1, __ATOMIC_RELAXED);
}
static void cache_check(const char *when) {
    long cached = cb_mallocs - cb_frees - A.live_chunks;   /* exact at quiescence (the shadow is exact then) */
    A.quiesc++;
    if (A.C >= 0 && cached > A.C) {
        if (cached - A.C > A.overshoot_max) A.overshoot_max = cached - A.C;
        if (A.nthreads > 1) {
            if (!cache_limit_reported) { cache_limit_reported = 1;
                vf_violation("arena:cache-limit:concurrent-release", "%s: %ld released blocks are cached by an arena whose cache limit is %ld (elem %zu, %d threads; arena->released=%d max_released=%d): the test released<max_released and the increment are separate", when, cached, A.C, A.elem, A.nthreads, A.ar->released, A.ar->max_released); }
        } else HARD("arena:cache-limit:sequential", "%s: %ld released blocks cached, cache limit %ld (elem %zu, single thread)", when, cached, A.C, A.elem);
    }
    if (cached < 0) HARD("arena:double-free", "%s: allocator saw %ld mallocs and %ld frees with %ld chunks live", when, cb_mallocs, cb_frees, A.live_chunks);
}

static void arena_worker(int tid, int nt, void *arg) {
    (void)arg; vf_rng_t rng; vf_rng_seed(&rng, A.seed, 50 + tid); tl_rng = &rng;
    held_t held[MAXHOLD]; int nh = 0; uint64_t serial = 0;
    memset(held, 0, sizeof held);
    for (int r = 0; r < A.rounds && !hard_violations; r++) {
        if (nt > 1) vf_spinbar_wait(&A.bar);
        A.first[tid] = vf_stamp();
        int greedy = vf_chance(&rng, 300);            /* saturation phase: allocate until refused, hold, then release */
        for (int k = 0; k < A.ops && !hard_violations; k++) {
            int want_alloc = nh < A.hold && (nh == 0 || vf_chance(&rng, greedy ? 850 : 520));
            if (want_alloc) {
                int count = vf_chance(&rng, A.pmulti) ? 2 + (int)vf_randn(&rng, 3) : 1;
                if (arena_alloc(tid, &held[nh], count, ++serial)) nh++;
                else if (greedy && nh) { if (vf_chance(&rng, 300)) sched_yield(); arena_release(tid, &held[--nh]); }
            } else if (nh) {
                int i = (int)vf_randn(&rng, (uint32_t)nh);
                arena_release(tid, &held[i]); held[i] = held[--nh];
            }
            if (nt == 1) cache_check("after an operation");
            if ((k & 63) == 0) VF_TICK();
        }
        A.last[tid] = vf_stamp();
        if (nt > 1) vf_spinbar_wait(&A.bar);           /* everybody stopped allocating: release together (the racy moment) */
        while (nh) { arena_release(tid, &held[--nh]); if (nt == 1) cache_check("after an operation"); }
        if (nt > 1) vf_spinbar_wait(&A.bar);
        if (tid == 0) {
            cache_check("at quiescence");
            int ov = 0; for (int a = 0; a < nt && !ov; a++) for (int b = 0; b < nt; b++) if (a != b && A.first[a] < A.last[b] && A.first[b] < A.last[a]) { ov = 1; break; }
            if (ov) A.overlapped_rounds++;
        }
    }
    tl_rng = NULL;
}

static long pick(vf_rng_t *r, const long *v, int n) { return v[vf_randn(r, (uint32_t)n)]; }

static int run_arena(int argc, char **argv) {
    uint64_t seed = (uint64_t)vf_arg_ll(argc, argv, "--seed", 1);
    int ncases = (int)vf_arg_ll(argc, argv, "--cases", 10);
    int nt = (int)vf_arg_ll(argc, argv, "--threads", 4); if (nt > MAXT) nt = MAXT;
    int rounds = (int)vf_arg_ll(argc, argv, "--rounds", 10), ops = (int)vf_arg_ll(argc, argv, "--ops", 200);
    int tight = (int)vf_arg_ll(argc, argv, "--tightcache", 0);   /* permille of cases with a cache limit below the concurrent release volume */
    int ycycle = vf_has_flag(argc, argv, "--yield-cycle");       /* cases alternate: no delays / yields / yields+sleeps */
    int ypm = (int)vf_arg_ll(argc, argv, "--yield", 0), yus = (int)vf_arg_ll(argc, argv, "--yield-us", 0);
    int bigelem = vf_has_flag(argc, argv, "--bigelem");
    real_free = (int)vf_arg_ll(argc, argv, "--real-free", 0);
    vf_rng_t rng; vf_rng_seed(&rng, seed, 3);
    long tot_ops = 0, tot_allocs = 0, tot_fresh = 0, tot_cached = 0, tot_ref = 0, tot_ref_below = 0, tot_multi = 0, tot_quiesc = 0, tot_ov = 0, tot_rounds = 0, over_cases = 0, over_max = 0, nontrivial = 0, distinct = 0, tight_cases = 0;
    uint64_t *sigs = calloc((size_t)ncases + 1, sizeof(uint64_t)); int printed = 0;
    static const long aligns[] = {8, 16, 64}, Ls[] = {1, 2, 5, -1, -1, -2}, Cs[] = {0, -1, -2, -2, -3};
    for (int cs = 0; cs < ncases && !hard_violations; cs++) {
        memset(&A, 0, sizeof A);
        A.nthreads = nt; A.rounds = rounds; A.ops = ops; A.seed = seed * 7919 + (uint64_t)cs;
        A.elem = 8 + (vf_chance(&rng, 300) ? vf_randn(&rng, 40) : vf_chance(&rng, 500) ? vf_randn(&rng, 700) : vf_randn(&rng, 9000));
        if (bigelem) A.elem = 65536 + vf_randn(&rng, 65536);
        if (ycycle) { static const int yc[3][2] = {{0, 0}, {150, 0}, {300, 20}}; ypm = yc[cs % 3][0]; yus = yc[cs % 3][1]; }
        vf_yield_config(seed + (uint64_t)cs, nt > 1 ? ypm : 0, yus, (1ULL << PARSEC_VERIF_SITE_ARENA) | (1ULL << PARSEC_VERIF_SITE_LIFO));
        A.align = (size_t)pick(&rng, aligns, 3);
        A.hold = 1 + (int)vf_randn(&rng, nt > 8 ? 6 : 12);
        A.pmulti = vf_chance(&rng, 500) ? 0 : 50 + (int)vf_randn(&rng, 250);
        long cap = (long)nt * A.hold * 4;                /* more than can ever be live at once (counts <= 4) */
        long L = pick(&rng, Ls, 6); if (L == -2) L = 3 + (long)vf_randn(&rng, (uint32_t)(nt * A.hold));
        long C = pick(&rng, Cs, 5); if (C == -2) C = cap; if (C == -3) C = 0;
        int is_tight = nt > 1 && vf_chance(&rng, tight);
        if (is_tight) { static const long tc[] = {1, 2, 5}; C = pick(&rng, tc, 3); tight_cases++; }
        else if (nt == 1 && vf_chance(&rng, 600)) { static const long tc[] = {1, 2, 5}; C = pick(&rng, tc, 3); }   /* sequential: judged exactly */
        A.L = L; A.C = C;
        /* limits are passed in BYTES; add a fraction of an element to check the division */
        size_t Lb = L < 0 ? SIZE_MAX : (size_t)L * A.elem + vf_randn(&rng, (uint32_t)A.elem);
        size_t Cb = C < 0 ? SIZE_MAX : (size_t)C * A.elem + vf_randn(&rng, (uint32_t)A.elem);
        A.ar = PARSEC_OBJ_NEW(parsec_arena_t);
        if (PARSEC_SUCCESS != parsec_arena_construct_ex(A.ar, A.elem, A.align, Lb, Cb)) { HARD("arena:construct", "construct_ex(elem %zu, align %zu) failed", A.elem, A.align); break; }
        if ((L >= 0 && A.ar->max_used != L) || (L < 0 && A.ar->max_used != INT32_MAX) || (C >= 0 && A.ar->max_released != C) || (C < 0 && A.ar->max_released != INT32_MAX))
            HARD("arena:limits-in-bytes", "construct_ex(elem %zu, max_alloc %zu B, max_cached %zu B) gave max_used=%d max_released=%d, expected %ld / %ld elements", A.elem, Lb, Cb, A.ar->max_used, A.ar->max_released, L, C);
        A.ar->data_malloc = h_malloc; A.ar->data_free = h_free;
        long m0 = cb_mallocs, f0 = cb_frees;
        cb_mallocs = cb_frees = 0;
        vf_spinbar_init(&A.bar, nt);
        if (nt == 1) arena_worker(0, 1, NULL); else vf_team_run(nt, arena_worker, NULL);
        long cached_end = cb_mallocs - cb_frees;
        if (A.ar->max_released != INT32_MAX && A.ar->released != cached_end && !hard_violations) A.sig ^= 1; /* informative: counter vs content */
        vf_yield_config(0, 0, 0, 0);
        PARSEC_OBJ_RELEASE(A.ar);                        /* destructor returns the cached chunks through data_free */
        pthread_mutex_lock(&q_mtx); q_flush(0, 0); pthread_mutex_unlock(&q_mtx);
        if (cb_mallocs != cb_frees && !hard_violations)
            HARD("arena:chunks-not-returned", "arena destroyed: allocator saw %ld mallocs but %ld frees (elem %zu L %ld C %ld)", cb_mallocs, cb_frees, A.elem, L, C);
        cb_mallocs += m0; cb_frees += f0;
        tot_ops += A.allocs + A.releases + A.refusals; tot_allocs += A.allocs; tot_fresh += A.fresh; tot_cached += A.cached_hits; tot_ref += A.refusals;
        tot_ref_below += A.refusals_below_limit; tot_multi += A.multi; tot_quiesc += A.quiesc; tot_ov += A.overlapped_rounds; tot_rounds += rounds;
        if (A.overshoot_max) { over_cases++; if (A.overshoot_max > over_max) over_max = A.overshoot_max; }
        int nontriv = (nt == 1) ? (A.allocs >= 3 && A.cached_hits + A.refusals > 0) : (A.overlapped_rounds > 0);
        uint64_t sig = vf_mix(vf_mix(vf_mix(A.elem, A.align), (uint64_t)(L + 7) * 1000 + (uint64_t)(C + 7)), vf_mix((uint64_t)A.fresh * 65536 + (uint64_t)A.refusals, (uint64_t)A.cached_hits));
        if (nontriv) { nontrivial++; int dup = 0; for (long i = 0; i < distinct; i++) if (sigs[i] == sig) dup = 1; if (!dup) sigs[distinct++] = sig; }
        if (printed < 2 && nontriv) { printed++;
            vf_out("{\"type\":\"sample\",\"case\":\"threads %d elem %zu align %zu max_used %ld max_cached %ld hold %d multi_permille %d tight %d\",\"allocs\":%ld,\"from_cache\":%ld,\"fresh\":%ld,\"refusals\":%ld,\"multi\":%ld,\"max_live\":%ld,\"overlapped_rounds\":%ld,\"cache_overshoot\":%ld}",
                   nt, A.elem, A.align, L, C, A.hold, A.pmulti, is_tight, A.allocs, A.cached_hits, A.fresh, A.refusals, A.multi, A.max_live_seen, A.overlapped_rounds, A.overshoot_max); }
    }
    vf_out("{\"type\":\"summary\",\"mode\":\"arena\",\"threads\":%d,\"cases\":%d,\"nontrivial\":%ld,\"distinct\":%ld,\"ops\":%ld,\"allocs\":%ld,\"fresh\":%ld,\"from_cache\":%ld,\"refusals\":%ld,"
           "\"refusals_below_limit_sequential\":%ld,\"multi\":%ld,\"quiescent_checks\":%ld,\"rounds\":%ld,\"overlapped_rounds\":%ld,\"tight_cases\":%ld,\"cache_overshoot_cases\":%ld,\"cache_overshoot_max\":%ld,"
           "\"yield_arena\":%llu,\"yield_lifo\":%llu}",
           nt, ncases, nontrivial, distinct, tot_ops, tot_allocs, tot_fresh, tot_cached, tot_ref, tot_ref_below, tot_multi, tot_quiesc, tot_rounds, tot_ov, tight_cases, over_cases, over_max,
           (unsigned long long)vf_yield_hits(PARSEC_VERIF_SITE_ARENA), (unsigned long long)vf_yield_hits(PARSEC_VERIF_SITE_LIFO));
    return hard_violations ? 1 : 0;
}

/* ------------------------------------------------------------------ mempool mode */
typedef struct melt_s { parsec_list_item_t item; parsec_thread_mempool_t *owner; volatile uint64_t tag; int home; char payload[8]; } melt_t;
#define MBOX 256
typedef struct {
    parsec_mempool_t mp; int nthreads, rounds, ops, hold; uint64_t seed; size_t elt_size; int with_class;
    vf_spinbar_t bar;
    melt_t *volatile box[MAXT][MBOX];              /* mailboxes: slot CASed from NULL by the sender, taken by the receiver */
    volatile long allocs, fresh, recycled, frees_local, frees_remote, sent, overlapped_rounds; uint64_t first[MAXT], last[MAXT];
} mcase_t;
static mcase_t M;

static void mp_free_checked(int tid, melt_t *e, uint64_t mytag, int via_parent) {
    uint64_t old = __atomic_exchange_n(&e->tag, TAG_FREE, __ATOMIC_SEQ_CST);
    if (old != mytag) HARD("mempool:element-owned-twice", "element %p freed by thread %d carries tag %llx instead of its owner tag %llx", (void *)e, tid, (unsigned long long)old, (unsigned long long)mytag);
    if (e->owner != &M.mp.thread_mempools[e->home]) HARD("mempool:owner-field", "element %p allocated from pool %d has owner field %p", (void *)e, e->home, (void *)e->owner);
    if (via_parent) parsec_mempool_free(&M.mp, e); else parsec_thread_mempool_free(e->owner, e);
    if (e->home == tid) __atomic_add_fetch(&M.frees_local, 1, __ATOMIC_RELAXED); else __atomic_add_fetch(&M.frees_remote, 1, __ATOMIC_RELAXED);
}
static void mp_worker(int tid, int nt, void *arg) {
    (void)arg; vf_rng_t rng; vf_rng_seed(&rng, M.seed, 300 + tid);
    parsec_thread_mempool_t *mine = &M.mp.thread_mempools[tid];
    struct { melt_t *e; uint64_t tag; } held[MAXHOLD]; int nh = 0; uint64_t serial = 0;
    for (int r = 0; r < M.rounds && !hard_violations; r++) {
        vf_spinbar_wait(&M.bar);
        M.first[tid] = vf_stamp();
        for (int k = 0; k < M.ops && !hard_violations; k++) {
            int t = (int)vf_randn(&rng, 100);
            /* take what other threads sent me: I become the owner and will free it (to ITS pool) */
            if ((k & 7) == 0) for (int s = 0; s < MBOX && nh < M.hold; s++) { melt_t *e = M.box[tid][s]; if (e && __sync_bool_compare_and_swap(&M.box[tid][s], e, NULL)) {
                    uint64_t nt_ = mk_tag(tid, ++serial), old = __atomic_exchange_n(&e->tag, nt_, __ATOMIC_SEQ_CST);
                    if (!tag_is_owner(old)) HARD("mempool:element-owned-twice", "element %p arrived in a mailbox with tag %llx", (void *)e, (unsigned long long)old);
                    held[nh].e = e; held[nh].tag = nt_; nh++; } }
            if (t < 50 && nh < M.hold) {
                uint32_t before = mine->nb_elt;
                melt_t *e = (melt_t *)parsec_thread_mempool_allocate(mine);       /* only the owner thread allocates from its pool */
                int fresh = mine->nb_elt != before;
                if (!e) { HARD("mempool:null", "thread mempool returned NULL"); break; }
                if (e->owner != mine) HARD("mempool:owner-field", "element %p from pool %d has owner field %p (expected %p)", (void *)e, tid, (void *)e->owner, (void *)mine);
                uint64_t tg = mk_tag(tid, ++serial);
                if (fresh) { e->home = tid; e->tag = tg; __atomic_add_fetch(&M.fresh, 1, __ATOMIC_RELAXED); }
                else { uint64_t old = __atomic_exchange_n(&e->tag, tg, __ATOMIC_SEQ_CST);
                    if (old != TAG_FREE) { if (tag_is_owner(old)) HARD("mempool:element-owned-twice", "element %p handed to thread %d while thread %d still owns it", (void *)e, tid, (int)((old >> 48) & 0xfff) - 1); else HARD("mempool:element-corrupt", "recycled element %p carries tag %llx", (void *)e, (unsigned long long)old); }
                    if (e->home != tid) HARD("mempool:foreign-element", "pool %d handed out element %p that pool %d allocated", tid, (void *)e, e->home);
                    __atomic_add_fetch(&M.recycled, 1, __ATOMIC_RELAXED); }
                memset(e->payload, (int)(tg & 0xff), M.elt_size - offsetof(melt_t, payload));
                held[nh].e = e; held[nh].tag = tg; nh++; __atomic_add_fetch(&M.allocs, 1, __ATOMIC_RELAXED);
            } else if (t < 75 && nh) {                               /* free (own or foreign element) */
                int i = (int)vf_randn(&rng, (uint32_t)nh);
                mp_free_checked(tid, held[i].e, held[i].tag, (int)vf_randn(&rng, 2)); held[i] = held[--nh];
            } else if (nh && nt > 1) {                               /* hand over to another thread */
                int i = (int)vf_randn(&rng, (uint32_t)nh), to = (int)vf_randn(&rng, (uint32_t)nt); if (to == tid) to = (to + 1) % nt;
                int s = (int)vf_randn(&rng, MBOX);
                if (__sync_bool_compare_and_swap(&M.box[to][s], NULL, held[i].e)) { held[i] = held[--nh]; __atomic_add_fetch(&M.sent, 1, __ATOMIC_RELAXED); }
            }
            if ((k & 63) == 0) VF_TICK();
        }
        M.last[tid] = vf_stamp();
        vf_spinbar_wait(&M.bar);
        for (int s = 0; s < MBOX; s++) { melt_t *e = M.box[tid][s]; if (e) { M.box[tid][s] = NULL; uint64_t old = e->tag; mp_free_checked(tid, e, old, 1); } }
        while (nh) { nh--; mp_free_checked(tid, held[nh].e, held[nh].tag, nh & 1); }
        vf_spinbar_wait(&M.bar);
        if (tid == 0) {
            int ov = 0; for (int a = 0; a < nt && !ov; a++) for (int b = 0; b < nt; b++) if (a != b && M.first[a] < M.last[b] && M.first[b] < M.last[a]) { ov = 1; break; }
            if (ov) M.overlapped_rounds++;
            /* conservation walk: every pool holds exactly the elements it allocated, each once */
            for (int p = 0; p < nt && !hard_violations; p++) {
                parsec_thread_mempool_t *tp = &M.mp.thread_mempools[p]; long n = 0, lim = 2L * tp->nb_elt + 16; melt_t *e, *chain = NULL;
                while ((e = (melt_t *)parsec_lifo_pop(&tp->mempool)) != NULL && n < lim) {
                    uint64_t old = __atomic_exchange_n(&e->tag, TAG_SEEN, __ATOMIC_SEQ_CST);
                    if (old == TAG_SEEN) { HARD("mempool:element-twice-in-lifo", "element %p met twice while walking pool %d", (void *)e, p); break; }
                    if (old != TAG_FREE) HARD("mempool:live-element-in-lifo", "pool %d holds element %p with tag %llx (not released)", p, (void *)e, (unsigned long long)old);
                    if (e->home != p || e->owner != tp) HARD("mempool:wrong-pool", "element %p allocated by pool %d (owner field %p) found in pool %d", (void *)e, e->home, (void *)e->owner, p);
                    e->item.list_next = (parsec_list_item_t *)chain; chain = e; n++;
                }
                if (n != (long)tp->nb_elt && !hard_violations) HARD("mempool:conservation", "pool %d allocated %u elements, %ld are back in its LIFO at quiescence", p, tp->nb_elt, n);
                while (chain) { melt_t *nx = (melt_t *)chain->item.list_next; chain->tag = TAG_FREE; parsec_lifo_push(&tp->mempool, &chain->item); chain = nx; }
            }
        }
        vf_spinbar_wait(&M.bar);
    }
}
static int run_mempool(int argc, char **argv) {
    uint64_t seed = (uint64_t)vf_arg_ll(argc, argv, "--seed", 1);
    int ncases = (int)vf_arg_ll(argc, argv, "--cases", 6);
    int nt = (int)vf_arg_ll(argc, argv, "--threads", 4); if (nt > MAXT) nt = MAXT;
    int rounds = (int)vf_arg_ll(argc, argv, "--rounds", 10), ops = (int)vf_arg_ll(argc, argv, "--ops", 300);
    vf_rng_t rng; vf_rng_seed(&rng, seed, 4);
    long tot_allocs = 0, tot_fresh = 0, tot_rec = 0, tot_fl = 0, tot_fr = 0, tot_sent = 0, tot_ov = 0, nontrivial = 0, distinct = 0; uint64_t *sigs = calloc((size_t)ncases + 1, sizeof(uint64_t)); int printed = 0;
    for (int cs = 0; cs < ncases && !hard_violations; cs++) {
        memset(&M, 0, sizeof M);
        M.nthreads = nt; M.rounds = rounds; M.ops = ops; M.seed = seed * 104729 + (uint64_t)cs; M.hold = 2 + (int)vf_randn(&rng, 30);
        M.elt_size = sizeof(melt_t) + vf_randn(&rng, 400); M.with_class = (int)vf_randn(&rng, 2);
        if (vf_has_flag(argc, argv, "--yield-cycle")) vf_yield_config(seed + (uint64_t)cs, (cs & 1) ? 200 : 0, (cs % 4 == 3) ? 20 : 0, (1ULL << PARSEC_VERIF_SITE_LIFO) | (1ULL << PARSEC_VERIF_SITE_MEMPOOL));
        parsec_mempool_construct(&M.mp, M.with_class ? PARSEC_OBJ_CLASS(parsec_list_item_t) : NULL, M.elt_size, offsetof(melt_t, owner), (unsigned)nt);
        vf_spinbar_init(&M.bar, nt);
        vf_team_run(nt, mp_worker, NULL);
        uint64_t created = 0; for (int p = 0; p < nt; p++) created += M.mp.thread_mempools[p].nb_elt;
        uint64_t rep = parsec_mempool_destruct(&M.mp);
        if (rep != created || (long)created != M.fresh) HARD("mempool:usage-count", "mempool_destruct reports %llu elements, pools counted %llu, harness saw %ld fresh elements", (unsigned long long)rep, (unsigned long long)created, M.fresh);
        tot_allocs += M.allocs; tot_fresh += M.fresh; tot_rec += M.recycled; tot_fl += M.frees_local; tot_fr += M.frees_remote; tot_sent += M.sent; tot_ov += M.overlapped_rounds;
        int nontriv = M.overlapped_rounds > 0 && M.frees_remote > 0 && M.recycled > 0;
        uint64_t sig = vf_mix(vf_mix(M.elt_size, (uint64_t)M.hold * 2 + (uint64_t)M.with_class), vf_mix((uint64_t)M.fresh, (uint64_t)M.frees_remote));
        if (nontriv) { nontrivial++; int dup = 0; for (long i = 0; i < distinct; i++) if (sigs[i] == sig) dup = 1; if (!dup) sigs[distinct++] = sig; }
        if (printed < 1 && nontriv) { printed++; vf_out("{\"type\":\"sample\",\"case\":\"mempool threads %d elt_size %zu obj_class %d hold %d\",\"allocs\":%ld,\"fresh\":%ld,\"recycled\":%ld,\"freed_by_owner_thread\":%ld,\"freed_by_other_thread\":%ld,\"handed_over\":%ld}",
                                                        nt, M.elt_size, M.with_class, M.hold, M.allocs, M.fresh, M.recycled, M.frees_local, M.frees_remote, M.sent); }
    }
    vf_out("{\"type\":\"summary\",\"mode\":\"mempool\",\"threads\":%d,\"cases\":%d,\"nontrivial\":%ld,\"distinct\":%ld,\"allocs\":%ld,\"fresh\":%ld,\"recycled\":%ld,\"frees_local\":%ld,\"frees_remote\":%ld,\"handed_over\":%ld,\"overlapped_rounds\":%ld,\"walks\":%ld,\"yield_lifo\":%llu}",
           nt, ncases, nontrivial, distinct, tot_allocs, tot_fresh, tot_rec, tot_fl, tot_fr, tot_sent, tot_ov, (long)ncases * rounds, (unsigned long long)vf_yield_hits(PARSEC_VERIF_SITE_LIFO));
    return hard_violations ? 1 : 0;
}

int main(int argc, char **argv) {
    const char *mode = vf_arg(argc, argv, "--mode", "arena");
    int pm = (int)vf_arg_ll(argc, argv, "--yield", 0), rc;
    if (!strcmp(mode, "mempool")) {                 /* pure library code: no runtime needed */
        vf_yield_config((uint64_t)vf_arg_ll(argc, argv, "--seed", 1), pm, (int)vf_arg_ll(argc, argv, "--yield-us", 0), (1ULL << PARSEC_VERIF_SITE_LIFO) | (1ULL << PARSEC_VERIF_SITE_MEMPOOL));
        vf_heartbeat_start(); rc = run_mempool(argc, argv); vf_heartbeat_stop();
        return rc;
    }
    if (vf_has_flag(argc, argv, "--bigelem")) mallopt(M_MMAP_THRESHOLD, 60000);   /* fixed threshold: big chunks are mmap'ed and unmapped on free */
    /* data copies need the runtime (size of parsec_data_t depends on the device count) */
    int prov; MPI_Init_thread(&argc, &argv, MPI_THREAD_SERIALIZED, &prov);
    cpu_set_t cpus; sched_getaffinity(0, sizeof cpus, &cpus);
    int pargc = 0; char **pargv = NULL; parsec_context_t *pctx = parsec_init(1, &pargc, &pargv);
    sched_setaffinity(0, sizeof cpus, &cpus);      /* parsec_init binds the caller to one core; the team must not inherit that */
    if (!pctx) { fprintf(stderr, "parsec_init failed\n"); return 2; }
    vf_yield_config((uint64_t)vf_arg_ll(argc, argv, "--seed", 1), pm, (int)vf_arg_ll(argc, argv, "--yield-us", 0), (1ULL << PARSEC_VERIF_SITE_ARENA) | (1ULL << PARSEC_VERIF_SITE_LIFO));
    vf_heartbeat_start(); rc = run_arena(argc, argv); vf_heartbeat_stop();
    vf_yield_config(0, 0, 0, 0);
    parsec_fini(&pctx); MPI_Finalize();
    return rc;
}
