/* C36: the red-black tree keeps order and balance.
 * The real parsec_rbtree_* functions of libparsec are driven with generated operation sequences; after EVERY
 * operation the harness walks the whole structure (BST order, colours, black height, parent links, nil sentinel),
 * compares the in-order node sequence with a reference sorted set (node identity, not only keys) and asks every
 * find / find_or_larger query of the key domain.
 * Modes:  random - seeded random histories (insert/remove/update/find, duplicates attempted), domains 1..64
 *         enum   - every sequence of state-changing operations up to --len over --keys keys (DFS with replay)
 *         perm   - every insertion order x every removal order of --n keys
 * Client discipline = the only in-tree user (zone_malloc.c): keys are unique (find before insert); a separate
 * low-weight "dup" flavour inserts equal keys and then only demands the non-strict BST + red-black invariants. */
#include "parsec/parsec_config.h"
#include "parsec/class/parsec_rbtree.h"
#include "parsec/constants.h"
#include <limits.h>
#include "kit.h"

#define MAXD 64
#define MAXN 256          /* node pool (dup flavour may hold several nodes per key) */
typedef struct { parsec_rbtree_node_t super; int key; int id; int in_tree; } node_t;

#define L(n) ((parsec_rbtree_node_t *)(n)->super.list_prev)
#define R(n) ((parsec_rbtree_node_t *)(n)->super.list_next)
#define KEY(n) (((node_t *)(n))->key)

static parsec_rbtree_t tree;
static node_t pool[MAXN]; static int pool_free[MAXN], npool_free;
static int D; static int keyval[MAXD]; static node_t *present[MAXD];   /* reference model: domain index -> node */
static int dupmode; static int ndup_nodes;

/* operation log of the current history (for witnesses and hashing) */
enum { O_INS, O_REM, O_UPD, O_DUPATT, O_DUPINS, O_REMDUP };
static const char *oname[] = {"ins", "rem", "upd", "find-before-ins", "ins-equal-key", "rem-equal-key"};
typedef struct { unsigned char op, a, b; signed char rc; } lop_t;
static lop_t *olog; static int nolog, olog_cap;
static long cov_ins, cov_rem, cov_upd_inplace, cov_upd_move, cov_upd_exists, cov_upd_self, cov_dup_att, cov_dup_ins, cov_queries, cov_walks, cov_maxnodes, cov_ops;
static long cov_del_two_children, cov_del_black, cov_root_changes;

static void log_op(int op, int a, int b, int rc) {
    if (nolog == olog_cap) { olog_cap = olog_cap ? olog_cap * 2 : 1024; olog = realloc(olog, olog_cap * sizeof(lop_t)); }
    olog[nolog++] = (lop_t){(unsigned char)op, (unsigned char)a, (unsigned char)b, (signed char)rc};
}
static void print_history(const char *why) {
    char buf[3600]; int p = 0; int from = nolog > 120 ? nolog - 120 : 0;
    p += snprintf(buf + p, sizeof buf - p, "D=%d dup=%d keys=[", D, dupmode);
    for (int i = 0; i < D && p < 700; i++) p += snprintf(buf + p, sizeof buf - p, "%d%s", keyval[i], i + 1 < D ? "," : "");
    p += snprintf(buf + p, sizeof buf - p, "] ops(%d, last %d shown): ", nolog, nolog - from);
    for (int i = from; i < nolog && p < 3500; i++) {
        if (olog[i].op == O_UPD) p += snprintf(buf + p, sizeof buf - p, "upd(%d->%d)=%d ", keyval[olog[i].a], keyval[olog[i].b], olog[i].rc);
        else p += snprintf(buf + p, sizeof buf - p, "%s(%d) ", oname[olog[i].op], keyval[olog[i].a]);
    }
    vf_out("{\"type\":\"history\",\"why\":\"%s\",\"ops\":\"%s\"}", why, buf);
}

/* ------------------------------------------------------------------ structure walk */
static parsec_rbtree_node_t *inord[MAXN + 2]; static int ninord; static int walk_bad;
static uint64_t shape_hash;
#define FAIL(key, ...) do { if (!walk_bad) { vf_violation(key, __VA_ARGS__); walk_bad = 1; } } while (0)

/* returns black height of the subtree (counting nil as 1), -1 after a failure */
static int walk(parsec_rbtree_node_t *n, parsec_rbtree_node_t *parent, int depth, int total) {
    if (walk_bad) return -1;
    if (n == NULL) { FAIL("rbtree:null-child", "a child pointer is NULL instead of the nil sentinel (depth %d)", depth); return -1; }
    if (n == tree.nil) { shape_hash = vf_mix(shape_hash, 0x11); return 1; }
    if (depth > 64) { FAIL("rbtree:too-deep", "path longer than 64 nodes with %d stored nodes (cycle or degenerate tree)", total); return -1; }
    if (ninord > total) { FAIL("rbtree:extra-nodes", "walk visits more than the %d stored nodes (cycle or stale node)", total); return -1; }
    if ((node_t *)n < pool || (node_t *)n >= pool + MAXN) { FAIL("rbtree:foreign-node", "walk reached a pointer that is not a client node"); return -1; }
    if (n->parent != parent) { FAIL("rbtree:parent-link", "node key %d: parent link does not point to the node that holds it as a child", KEY(n)); return -1; }
    if (n->color != PARSEC_RBTREE_RED && n->color != PARSEC_RBTREE_BLACK) { FAIL("rbtree:colour-invalid", "node key %d has colour %d", KEY(n), (int)n->color); return -1; }
    shape_hash = vf_mix(shape_hash, 0x22 + (n->color == PARSEC_RBTREE_RED) + 4 * (uint64_t)((node_t *)n - pool));
    int lh = walk(L(n), n, depth + 1, total);
    if (walk_bad) return -1;
    inord[ninord++] = n;
    int rh = walk(R(n), n, depth + 1, total);
    if (walk_bad) return -1;
    if (n->color == PARSEC_RBTREE_RED) {
        if ((L(n) != tree.nil && L(n)->color == PARSEC_RBTREE_RED) || (R(n) != tree.nil && R(n)->color == PARSEC_RBTREE_RED)) {
            FAIL("rbtree:red-red", "red node key %d has a red child", KEY(n)); return -1; }
    }
    if (lh != rh) { FAIL("rbtree:black-height", "node key %d: black height %d on the left, %d on the right", KEY(n), lh, rh); return -1; }
    return lh + (n->color == PARSEC_RBTREE_BLACK);
}

static int count_stored(void) { int c = ndup_nodes; for (int i = 0; i < D; i++) c += present[i] != NULL; return c; }

/* full check after an operation; returns 0 when a violation was reported */
static int check_tree(const char *after) {
    int total = count_stored();
    walk_bad = 0; ninord = 0; shape_hash = 0x5151; cov_walks++;
    if (total > cov_maxnodes) cov_maxnodes = total;
    if (tree.nil != &tree.nil_element) { FAIL("rbtree:nil-sentinel", "after %s: tree->nil no longer points to the tree's sentinel", after); return 0; }
    if (tree.nil->color != PARSEC_RBTREE_BLACK) { FAIL("rbtree:nil-sentinel", "after %s: the nil sentinel is not black", after); return 0; }
    if (tree.root == NULL) { FAIL("rbtree:null-child", "after %s: root is NULL", after); return 0; }
    if (tree.root != tree.nil && tree.root->color != PARSEC_RBTREE_BLACK) { FAIL("rbtree:root-red", "after %s: the root (key %d) is red", after, KEY(tree.root)); return 0; }
    walk(tree.root, tree.nil, 0, total);
    if (walk_bad) return 0;
    if (ninord != total) { FAIL("rbtree:node-lost", "after %s: walk finds %d nodes, %d are stored", after, ninord, total); return 0; }
    for (int i = 1; i < ninord; i++) {
        int a = KEY(inord[i - 1]), b = KEY(inord[i]);
        if (a > b || (!dupmode && a == b)) { FAIL("rbtree:bst-order", "after %s: in-order walk has key %d before key %d", after, a, b); return 0; }
    }
    if (!dupmode) {   /* node identity against the reference set */
        int j = 0;
        for (int i = 0; i < D; i++) if (present[i]) {
            if (inord[j] != &present[i]->super) { FAIL("rbtree:content", "after %s: in-order position %d holds key %d, reference has key %d there", after, j, KEY(inord[j]), keyval[i]); return 0; }
            if (present[i]->key != keyval[i]) { FAIL("rbtree:key-changed", "after %s: stored node for key %d now carries key %d", after, keyval[i], present[i]->key); return 0; }
            j++;
        }
    }
    return 1;
}

/* every query of the domain: exact find and find_or_larger, on keys and on the values around them */
static int check_queries(const char *after) {
    if (dupmode) {   /* only: find hits iff a node with that key is stored */
        for (int i = 0; i < D; i++) {
            parsec_rbtree_node_t *f = parsec_rbtree_find(&tree, keyval[i]); cov_queries++;
            int stored = 0; for (int j = 0; j < ninord; j++) stored += KEY(inord[j]) == keyval[i];
            if ((f != NULL) != (stored > 0) || (f && KEY(f) != keyval[i])) { vf_violation("rbtree:find", "after %s: find(%d) %s but %d nodes carry that key", after, keyval[i], f ? "hit" : "missed", stored); return 0; }
        }
        return 1;
    }
    for (int i = 0; i < D; i++) {
        int qs[3]; int nq = 0; qs[nq++] = keyval[i];
        if (keyval[i] > INT_MIN && (i == 0 || keyval[i - 1] < keyval[i] - 1)) qs[nq++] = keyval[i] - 1;
        if (i == D - 1 && keyval[i] < INT_MAX) qs[nq++] = keyval[i] + 1;
        for (int k = 0; k < nq; k++) {
            int q = qs[k]; node_t *exact = NULL, *larger = NULL;
            for (int j = 0; j < D; j++) if (present[j]) { if (keyval[j] == q) exact = present[j]; if (keyval[j] >= q && !larger) larger = present[j]; }
            parsec_rbtree_node_t *f = parsec_rbtree_find(&tree, q), *g = parsec_rbtree_find_or_larger(&tree, q); cov_queries += 2;
            if (f != (exact ? &exact->super : NULL)) { vf_violation("rbtree:find", "after %s: find(%d) returned %s (key %d), reference says %s", after, q, f ? "a node" : "NULL", f ? KEY(f) : 0, exact ? "stored" : "absent"); return 0; }
            if (g != (larger ? &larger->super : NULL)) { vf_violation("rbtree:find-or-larger", "after %s: find_or_larger(%d) returned %s (key %d), smallest stored key not below is %s %d", after, q, g ? "node" : "NULL", g ? KEY(g) : 0, larger ? "" : "none", larger ? larger->key : 0); return 0; }
        }
    }
    return 1;
}

/* ------------------------------------------------------------------ operations (each returns 0 after a violation) */
static node_t *node_alloc(int key) { node_t *n = &pool[pool_free[--npool_free]]; n->key = key; n->in_tree = 1; return n; }
static void node_release(node_t *n) { n->in_tree = 0; pool_free[npool_free++] = (int)(n - pool); }

static int changed;   /* did the history change the structure */
static int checks_on = 1;   /* enum mode: prefix operations were checked when they were the last one */
#define CHECK(what) (!checks_on || (check_tree(what) && check_queries(what)))
static int do_insert(int i) {
    if (present[i]) {                      /* duplicate attempted: the client looks the key up first */
        parsec_rbtree_node_t *f = parsec_rbtree_find(&tree, keyval[i]); cov_dup_att++; log_op(O_DUPATT, i, 0, 0);
        if (dupmode ? (f == NULL || KEY(f) != keyval[i]) : (f != &present[i]->super)) { vf_violation("rbtree:find", "find(%d) before a duplicate insert did not return the stored node", keyval[i]); return 0; }
        return 1;
    }
    if (npool_free == 0) return 1;
    parsec_rbtree_node_t *oroot = tree.root;
    node_t *n = node_alloc(keyval[i]); parsec_rbtree_insert(&tree, &n->super); present[i] = n; cov_ins++; changed = 1; log_op(O_INS, i, 0, 0);
    if (tree.root != oroot) cov_root_changes++;
    return CHECK("insert");
}
static int do_remove(int i) {
    if (!present[i]) return 1;
    node_t *n = present[i];
    if (L(&n->super) != tree.nil && R(&n->super) != tree.nil) cov_del_two_children++;
    if (n->super.color == PARSEC_RBTREE_BLACK) cov_del_black++;
    parsec_rbtree_node_t *oroot = tree.root;
    parsec_rbtree_remove(&tree, &n->super); present[i] = NULL; node_release(n); cov_rem++; changed = 1; log_op(O_REM, i, 0, 0);
    if (tree.root != oroot) cov_root_changes++;
    return CHECK("remove");
}
static int do_update(int i, int j) {
    if (!present[i]) return 1;
    node_t *n = present[i];
    uint64_t sh0 = 0; if (checks_on) { check_tree("pre-update"); sh0 = shape_hash; }      /* shape before (the tree was valid after the previous op) */
    int rc = parsec_rbtree_update_node(&tree, &n->super, keyval[j]); log_op(O_UPD, i, j, rc);
    if (j == i) {
        cov_upd_self++;
        if (rc != PARSEC_SUCCESS) { vf_violation("rbtree:update:result", "update_node(key %d -> same key) returned %d, the key belongs to no other node", keyval[i], rc); return 0; }
    } else if (present[j]) {
        cov_upd_exists++;
        if (rc != PARSEC_ERR_EXISTS) { vf_violation("rbtree:update:result", "update_node(key %d -> %d) returned %d although another node carries the new key", keyval[i], keyval[j], rc); return 0; }
    } else {
        if (rc != PARSEC_SUCCESS) { vf_violation("rbtree:update:result", "update_node(key %d -> %d) returned %d although no node carries the new key", keyval[i], keyval[j], rc); return 0; }
        present[j] = n; present[i] = NULL; changed = 1;
        /* the tree wrote the key through comp_offset; check_tree verifies it (key-changed) */
    }
    if (!checks_on) return 1;
    if (!check_tree("update_node")) return 0;
    if (rc == PARSEC_SUCCESS && j != i) { if (shape_hash == sh0) cov_upd_inplace++; else cov_upd_move++; }
    else if (shape_hash != sh0) { vf_violation("rbtree:update:changed-on-noop", "update_node(key %d -> %d) returned %d but the tree shape changed", keyval[i], keyval[j], rc); return 0; }
    return check_queries("update_node");
}
/* dup flavour */
static node_t *dupnodes[MAXN];
static int do_dup_insert(int i) {
    if (npool_free == 0) return 1;
    node_t *n = node_alloc(keyval[i]); parsec_rbtree_insert(&tree, &n->super); dupnodes[ndup_nodes++] = n; cov_dup_ins++; changed = 1; log_op(O_DUPINS, i, 0, 0);
    return check_tree("insert-equal-key") && check_queries("insert-equal-key");
}
static int do_dup_remove(int k) {
    node_t *n = dupnodes[k]; int i = 0; for (; i < D; i++) if (keyval[i] == n->key) break;
    parsec_rbtree_remove(&tree, &n->super); dupnodes[k] = dupnodes[--ndup_nodes]; node_release(n); cov_rem++; changed = 1; log_op(O_REMDUP, i < D ? i : 0, 0, 0);
    return check_tree("remove-equal-key") && check_queries("remove-equal-key");
}

static void reset_tree(void) {
    if (tree.nil) parsec_rbtree_fini(&tree);
    parsec_rbtree_init(&tree, offsetof(node_t, key));
    npool_free = 0; for (int i = MAXN - 1; i >= 0; i--) { pool[i].in_tree = 0; pool_free[npool_free++] = i; }
    memset(present, 0, sizeof present); ndup_nodes = 0; nolog = 0; changed = 0;
}

/* distinct-sequence set */
static uint64_t *sigset; static size_t sigcap, nsig;
static int sig_add(uint64_t s) {
    if (!s) s = 1;
    size_t i = (size_t)(s % sigcap);
    while (sigset[i]) { if (sigset[i] == s) return 0; i = (i + 1) % sigcap; }
    if (nsig * 2 < sigcap) { sigset[i] = s; nsig++; }
    return 1;
}
static uint64_t hist_sig(void) {
    uint64_t h = vf_mix(0x36, (uint64_t)D * 2 + dupmode);
    for (int i = 0; i < D; i++) h = vf_mix(h, (uint64_t)(uint32_t)keyval[i]);
    for (int i = 0; i < nolog; i++) h = vf_mix(h, olog[i].op * 65536 + olog[i].a * 256 + olog[i].b);
    return h;
}

static void gen_keys(vf_rng_t *r) {
    int mode = vf_randn(r, 10);
    if (mode < 4) { int base = (int)vf_randn(r, 200) - 100; for (int i = 0; i < D; i++) keyval[i] = base + i; }                 /* dense */
    else if (mode < 8) { long v = -(long)vf_randn(r, 100000); for (int i = 0; i < D; i++) { v += 1 + vf_randn(r, mode < 6 ? 3 : 5000); keyval[i] = (int)v; } }
    else { long v = (long)INT_MIN; for (int i = 0; i < D; i++) { keyval[i] = (int)v; v += 1 + vf_randn(r, 1000); }             /* extremes: INT_MIN .. and .. INT_MAX */
           if (D > 1) keyval[D - 1] = INT_MAX; if (D > 2) keyval[D - 2] = INT_MAX - 1; }
}

/* ------------------------------------------------------------------ random mode */
static int run_random(int argc, char **argv) {
    long nh = vf_arg_ll(argc, argv, "--histories", 1000); int maxlen = (int)vf_arg_ll(argc, argv, "--maxlen", 2000);
    uint64_t seed = (uint64_t)vf_arg_ll(argc, argv, "--seed", 1);
    long done = 0, distinct = 0, nontrivial = 0, samples = 0, dup_hist = 0;
    for (long h = 0; h < nh && !vf_nviolations; h++) {
        vf_rng_t r; vf_rng_seed(&r, seed, (uint64_t)h + 1);
        D = 1 + (int)vf_randn(&r, vf_chance(&r, 300) ? 8 : MAXD);
        dupmode = vf_chance(&r, 80);
        gen_keys(&r); reset_tree();
        int len = vf_chance(&r, 30) ? maxlen : (vf_chance(&r, 300) ? 1 + (int)vf_randn(&r, maxlen) : 1 + (int)vf_randn(&r, 60));
        /* phases bias the mix so that trees fill up, drain, and churn */
        int ok = check_tree("init");
        for (int k = 0; k < len && ok; k++) {
            int phase = (k * 4 / (len ? len : 1)) & 3; int pins = phase == 0 ? 70 : phase == 2 ? 15 : 35, prem = phase == 0 ? 10 : phase == 2 ? 60 : 30;
            int t = (int)vf_randn(&r, 100), i = (int)vf_randn(&r, D), j = (int)vf_randn(&r, D);
            if (dupmode) {
                if (t < pins) ok = vf_chance(&r, 500) ? do_dup_insert(i) : do_insert(i);
                else if (t < pins + prem) { if (ndup_nodes && vf_chance(&r, 500)) ok = do_dup_remove((int)vf_randn(&r, ndup_nodes)); else ok = do_remove(i); }
                else ok = check_queries("query");
            } else {
                if (t < pins) ok = do_insert(i);
                else if (t < pins + prem) ok = do_remove(i);
                else { if (vf_chance(&r, 500)) { /* neighbouring key: the in-place / move boundary */ j = i + (int)vf_randn(&r, 5) - 2; if (j < 0) j = 0; if (j >= D) j = D - 1; } ok = do_update(i, j); }
            }
            cov_ops++; if ((k & 63) == 0) VF_TICK();
        }
        /* drain completely (every removal checked) in random order */
        for (int k = 0; k < 4 * MAXD && ok && count_stored(); k++) {
            if (ndup_nodes) ok = do_dup_remove((int)vf_randn(&r, ndup_nodes));
            else { int i = (int)vf_randn(&r, D); while (!present[i]) i = (i + 1) % D; ok = do_remove(i); }
        }
        if (!ok) { print_history("violation"); break; }
        done++; dup_hist += dupmode;
        if (nolog >= 3 && changed) { nontrivial++; if (sig_add(hist_sig())) distinct++; if (samples < 2 && nolog < 40) { samples++; print_history("sample"); } }
        VF_TICK();
    }
    vf_out("{\"type\":\"summary\",\"mode\":\"random\",\"histories\":%ld,\"nontrivial\":%ld,\"distinct\":%ld,\"ops\":%ld,\"walks\":%ld,\"queries\":%ld,\"max_nodes\":%ld,"
           "\"ins\":%ld,\"rem\":%ld,\"rem_two_children\":%ld,\"rem_black\":%ld,\"upd_inplace\":%ld,\"upd_move\":%ld,\"upd_exists\":%ld,\"upd_self\":%ld,\"dup_attempts\":%ld,\"equal_key_inserts\":%ld,\"equal_key_histories\":%ld,\"root_changes\":%ld}",
           done, nontrivial, distinct, cov_ops, cov_walks, cov_queries, cov_maxnodes, cov_ins, cov_rem, cov_del_two_children, cov_del_black, cov_upd_inplace, cov_upd_move, cov_upd_exists, cov_upd_self, cov_dup_att, cov_dup_ins, dup_hist, cov_root_changes);
    return vf_nviolations ? 1 : 0;
}

/* ------------------------------------------------------------------ enumerator: all sequences of state-changing ops */
typedef struct { unsigned char op, a, b; } eop_t;
static eop_t epath[32]; static long enum_nodes, enum_leaves, enum_budget; static int enum_len, enum_trunc;
static int replay(int depth) {   /* rebuild the tree by replaying epath[0..depth-1]; only the last op is followed by the full check of queries */
    reset_tree();
    for (int k = 0; k < depth; k++) {
        int ok; checks_on = (k == depth - 1);
        if (epath[k].op == O_INS) ok = do_insert(epath[k].a); else if (epath[k].op == O_REM) ok = do_remove(epath[k].a); else ok = do_update(epath[k].a, epath[k].b);
        if (!ok) { checks_on = 1; return 0; }
    }
    checks_on = 1;
    return 1;
}
static int explore(int depth) {
    if (vf_nviolations) return 0;
    if (depth == enum_len) { enum_leaves++; return 1; }
    /* candidate ops at this state (model state == present[] after replay of the prefix) */
    eop_t cand[8 * 8 + 8]; int nc = 0; unsigned char pres[8];
    for (int i = 0; i < D; i++) pres[i] = present[i] != NULL;
    for (int i = 0; i < D; i++) cand[nc++] = (eop_t){pres[i] ? O_REM : O_INS, (unsigned char)i, 0};
    for (int i = 0; i < D; i++) if (pres[i]) for (int j = 0; j < D; j++) cand[nc++] = (eop_t){O_UPD, (unsigned char)i, (unsigned char)j};
    for (int c = 0; c < nc; c++) {
        if (enum_nodes >= enum_budget) { enum_trunc = 1; return 1; }
        epath[depth] = cand[c]; enum_nodes++;
        if (!replay(depth + 1)) { print_history("violation"); return 0; }
        if ((enum_nodes & 255) == 0) VF_TICK();
        if (nolog >= 3 && changed) sig_add(hist_sig());
        int nochange = cand[c].op == O_UPD && (cand[c].a == cand[c].b || pres[cand[c].b]);
        if (!nochange && !explore(depth + 1)) return 0;   /* a no-change op leaves the state of the parent: its subtree is the siblings' */
    }
    return 1;
}
static int run_enum(int argc, char **argv) {
    D = (int)vf_arg_ll(argc, argv, "--keys", 4); enum_len = (int)vf_arg_ll(argc, argv, "--len", 6); enum_budget = vf_arg_ll(argc, argv, "--budget", 50000000);
    int spread = (int)vf_arg_ll(argc, argv, "--spread", 1); dupmode = 0;
    if (D > 8) D = 8; if (enum_len > 30) enum_len = 30;
    for (int i = 0; i < D; i++) keyval[i] = (i - D / 2) * spread;
    reset_tree(); explore(0);
    vf_out("{\"type\":\"summary\",\"mode\":\"enum\",\"keys\":%d,\"len\":%d,\"sequences\":%ld,\"full_length\":%ld,\"distinct\":%zu,\"truncated\":%d,\"walks\":%ld,\"queries\":%ld,"
           "\"upd_inplace\":%ld,\"upd_move\":%ld,\"upd_exists\":%ld,\"rem_two_children\":%ld,\"rem_black\":%ld}",
           D, enum_len, enum_nodes, enum_leaves, nsig, enum_trunc, cov_walks, cov_queries, cov_upd_inplace, cov_upd_move, cov_upd_exists, cov_del_two_children, cov_del_black);
    return vf_nviolations ? 1 : 0;
}

/* ------------------------------------------------------------------ perm: all insertion orders x all removal orders */
static int next_perm(int *a, int n) {
    int i = n - 2; while (i >= 0 && a[i] > a[i + 1]) i--;
    if (i < 0) return 0;
    int j = n - 1; while (a[j] < a[i]) j--;
    int t = a[i]; a[i] = a[j]; a[j] = t;
    for (int l = i + 1, r = n - 1; l < r; l++, r--) { t = a[l]; a[l] = a[r]; a[r] = t; }
    return 1;
}
static int run_perm(int argc, char **argv) {
    int n = (int)vf_arg_ll(argc, argv, "--n", 5); long budget = vf_arg_ll(argc, argv, "--budget", 100000000); long stride = vf_arg_ll(argc, argv, "--stride", 1);
    uint64_t seed = (uint64_t)vf_arg_ll(argc, argv, "--seed", 1);
    if (n > 9) n = 9; D = n; dupmode = 0; for (int i = 0; i < n; i++) keyval[i] = 10 * i - 7;
    int ins[16], rem[16]; long seqs = 0, skipped = 0; int trunc = 0; uint64_t shapes_seen = 0;
    for (int i = 0; i < n; i++) ins[i] = i;
    vf_rng_t r; vf_rng_seed(&r, seed, 77);
    do {
        for (int i = 0; i < n; i++) rem[i] = i;
        do {
            if (stride > 1 && vf_randn(&r, (uint32_t)stride) != 0) { skipped++; continue; }   /* sampled box (seeded) when stride > 1 */
            if (seqs >= budget) { trunc = 1; break; }
            reset_tree(); int ok = 1;
            for (int i = 0; i < n && ok; i++) ok = do_insert(ins[i]);
            for (int i = 0; i < n && ok; i++) ok = do_remove(rem[i]);
            if (!ok) { print_history("violation"); goto out; }
            seqs++; sig_add(hist_sig()); if ((seqs & 63) == 0) VF_TICK();
        } while (next_perm(rem, n));
        if (trunc) break;
    } while (next_perm(ins, n));
out:
    (void)shapes_seen;
    vf_out("{\"type\":\"summary\",\"mode\":\"perm\",\"n\":%d,\"sequences\":%ld,\"skipped_by_sampling\":%ld,\"distinct\":%zu,\"truncated\":%d,\"walks\":%ld,\"queries\":%ld,\"rem_two_children\":%ld,\"rem_black\":%ld}",
           n, seqs, skipped, nsig, trunc, cov_walks, cov_queries, cov_del_two_children, cov_del_black);
    return vf_nviolations ? 1 : 0;
}

int main(int argc, char **argv) {
    const char *mode = vf_arg(argc, argv, "--mode", "random");
    for (int i = 0; i < MAXN; i++) { PARSEC_OBJ_CONSTRUCT(&pool[i].super, parsec_rbtree_node_t); pool[i].id = i; }
    sigcap = (size_t)vf_arg_ll(argc, argv, "--sigcap", 1 << 21); sigset = calloc(sigcap, sizeof(uint64_t));
    vf_heartbeat_start();
    int rc = !strcmp(mode, "enum") ? run_enum(argc, argv) : !strcmp(mode, "perm") ? run_perm(argc, argv) : run_random(argc, argv);
    vf_heartbeat_stop();
    return rc;
}
