/* C29: futures complete once and deliver one value.
 * kinds:  base      - 1..3 racing setters (distinct values), blocking getters, is_ready pollers, optional callback
 *         countable - n sets by several threads, pollers; ready exactly after the n-th set, callback once
 *         datacopy  - get_or_trigger by 1..16 threads with 1..4 requested shapes (test-owned cb_match / nested set-up),
 *                     fulfilment inside the trigger callback or later by the triggering thread, cleanup at release
 * Futures are processed in batches; inside a batch every future has a small arrival gate so that the operations of
 * all participating threads start together (most futures) or run free (the rest).  All results carry logical stamps
 * (one atomic counter); the per-future oracles are evaluated at the quiescent point after the batch. */
#include "parsec/parsec_config.h"
#include "parsec/class/parsec_future.h"
#include "parsec/class/list.h"
#include "kit.h"

#define MAXT 16
#define BATCH 128
#define NSHAPE 4
enum { R_IDLE = 0, R_SET, R_GET, R_POLL, R_REQ };

typedef struct { int role; void *val; int shape; int nsets; uint64_t inv, resp; void *res; uint64_t last_false_inv, first_true_resp; uint64_t inv2, resp2; long retries; } rec_t;
typedef struct spec_s { int shape; int f; volatile int cleaned; volatile int triggered; volatile int setup; void *copy; struct spec_s *next; void *fut; } spec_t;
typedef struct { int shape, f; uint64_t serial; } copy_t;

typedef struct {
    int kind, nthreads; uint64_t seed; long nfut; int yield_pm;
    vf_spinbar_t bar;
    /* per batch */
    parsec_base_future_t *fut[BATCH];
    rec_t rec[BATCH][MAXT];
    volatile int gate[BATCH]; int participants[BATCH]; int gated[BATCH];
    volatile int cb_count[BATCH]; void *volatile cb_val[BATCH]; volatile uint64_t cb_stamp[BATCH];
    int with_cb[BATCH]; int n[BATCH]; int async[BATCH]; int nshapes[BATCH];
    volatile int sets_done[BATCH];
    spec_t *specs[BATCH]; pthread_mutex_t spec_mtx;
    volatile int trig[BATCH][NSHAPE], setup[BATCH][NSHAPE];
    int batch_n; volatile int stop;
    /* totals */
    long futures, ops, overlapped, distinct, cb_runs, polls_false, polls_true, get_waited, retries_null, nested_created, triggers, async_sets, winners[MAXT], multi_setter, samples;
} G_t;
static G_t G;
static __thread int tl_tid;
static __thread struct { parsec_base_future_t *fut; copy_t *copy; } tl_pending[8]; static __thread int tl_npending;

static inline void small_delay(vf_rng_t *r) { int k = (int)vf_randn(r, 4); if (k == 0) return; if (k == 1) { sched_yield(); return; } for (volatile int i = 0, n = (int)vf_randn(r, 300); i < n; i++) ; }
static inline void gate_wait(int f) {
    if (!G.gated[f]) return;
    __atomic_add_fetch(&G.gate[f], 1, __ATOMIC_SEQ_CST);
    int k = 0; while (__atomic_load_n(&G.gate[f], __ATOMIC_SEQ_CST) < G.participants[f]) if (++k > 100) { sched_yield(); }
}
static int fidx(parsec_base_future_t *fu) { for (int i = 0; i < G.batch_n; i++) if (G.fut[i] == fu) return i; return -1; }

/* ------------------------------------------------------------------ base / countable callbacks */
static void cb_simple(parsec_base_future_t *fu, ...) {
    int f = fidx(fu); if (f < 0) { vf_violation("future:callback-foreign", "completion callback called with unknown future %p", (void *)fu); return; }
    G.cb_val[f] = fu->tracked_data; G.cb_stamp[f] = vf_stamp();
    __atomic_add_fetch(&G.cb_count[f], 1, __ATOMIC_SEQ_CST);
}

/* ------------------------------------------------------------------ datacopy callbacks */
static spec_t *new_spec(int f, int shape) {
    spec_t *s = calloc(1, sizeof *s); s->shape = shape; s->f = f;
    pthread_mutex_lock(&G.spec_mtx); s->next = G.specs[f]; G.specs[f] = s; pthread_mutex_unlock(&G.spec_mtx);
    return s;
}
static uint64_t copy_serial;
static void cb_dc_fulfill(parsec_base_future_t *fu, ...) {
    va_list ap; va_start(ap, fu); void **din = va_arg(ap, void **); void *es = va_arg(ap, void *); void *task = va_arg(ap, void *); va_end(ap);
    spec_t *s = (spec_t *)*din; int f = s->f;
    if (s->fut != (void *)fu) vf_violation("datacopy:callback-args", "trigger callback got future %p but its input data belongs to %p", (void *)fu, s->fut);
    if (((uintptr_t)es >> 32) != 0xE5 || (int)((uintptr_t)task & 0xffff) != f) vf_violation("datacopy:callback-args", "trigger callback received es=%p task=%p (future %d)", es, task, f);
    int k = __atomic_add_fetch(&s->triggered, 1, __ATOMIC_SEQ_CST);
    __atomic_add_fetch(&G.trig[f][s->shape], 1, __ATOMIC_SEQ_CST);
    if (k > 1) { vf_violation("datacopy:triggered-twice", "trigger callback of one future ran %d times (shape %d, %s, %d threads)", k, s->shape, ((parsec_datacopy_future_t *)fu)->nested_enable ? "root" : "nested", G.nthreads); return; }
    copy_t *c = malloc(sizeof *c); c->shape = s->shape; c->f = f; c->serial = __atomic_add_fetch(&copy_serial, 1, __ATOMIC_RELAXED); s->copy = c;
    if (G.async[f] && tl_npending < 8) { tl_pending[tl_npending].fut = fu; tl_pending[tl_npending].copy = c; tl_npending++; }   /* fulfilled later by this thread */
    else parsec_future_set(fu, c);
}
static int cb_dc_match(parsec_base_future_t *fu, ...) {
    va_list ap; va_start(ap, fu); spec_t *t1 = va_arg(ap, spec_t *); int *t2 = va_arg(ap, int *); va_end(ap); (void)fu;
    return t1->shape == *t2;
}
static void cb_dc_cleanup(parsec_base_future_t *fu, ...) {
    spec_t *s = (spec_t *)((parsec_datacopy_future_t *)fu)->cb_match_data_in;
    int k = __atomic_add_fetch(&s->cleaned, 1, __ATOMIC_SEQ_CST);
    if (k > 1) vf_violation("datacopy:cleanup-twice", "cleanup callback ran %d times for one future (shape %d)", k, s->shape);
    if (s->copy && fu->tracked_data != s->copy) vf_violation("datacopy:cleanup-wrong-copy", "cleanup sees tracked data %p, the copy created for it is %p", fu->tracked_data, s->copy);
}
static void cb_dc_nested(parsec_base_future_t **out, ...) {
    va_list ap; va_start(ap, out); parsec_datacopy_future_t *root = va_arg(ap, parsec_datacopy_future_t *); int *req = va_arg(ap, int *); va_end(ap);
    spec_t *rs = (spec_t *)root->cb_match_data_in; int f = rs->f;
    int k = __atomic_add_fetch(&G.setup[f][*req], 1, __ATOMIC_SEQ_CST);
    if (k > 1) vf_violation("datacopy:shape-created-twice", "a second nested future was set up for requested shape %d of one root future (%d threads)", *req, G.nthreads);
    spec_t *s = new_spec(f, *req);
    parsec_datacopy_future_t *n = PARSEC_OBJ_NEW(parsec_datacopy_future_t); s->fut = n;
    parsec_future_init(n, cb_dc_fulfill, s, cb_dc_match, s, cb_dc_cleanup);
    *out = (parsec_base_future_t *)n;
}

/* ------------------------------------------------------------------ worker */
static void do_future(int tid, int f, vf_rng_t *rng) {
    rec_t *r = &G.rec[f][tid]; parsec_base_future_t *fu = G.fut[f];
    if (r->role == R_IDLE) return;
    gate_wait(f);
    small_delay(rng);
    switch (r->role) {
    case R_SET:
        r->inv = vf_stamp(); parsec_future_set(fu, r->val); r->resp = vf_stamp();
        if (r->nsets == 2) { small_delay(rng); r->inv2 = vf_stamp(); parsec_future_set(fu, r->val); r->resp2 = vf_stamp(); }
        __atomic_add_fetch(&G.sets_done[f], r->nsets, __ATOMIC_SEQ_CST);
        break;
    case R_GET:           /* base only: blocking get */
        r->inv = vf_stamp(); r->res = parsec_future_get(fu); r->resp = vf_stamp();
        break;
    case R_POLL: {        /* is_ready until true (bail out once every set has returned and it still says no), then get */
        long grace = 0;
        for (;;) {
            uint64_t i = vf_stamp_ctr;   /* plain load: every stamp <= i was handed out before this poll started (no RMW traffic from pollers) */
            int rd = parsec_future_is_ready(fu);
            if (rd) { r->first_true_resp = vf_stamp(); break; }
            r->last_false_inv = i; r->retries++;
            if (G.sets_done[f] >= G.n[f] && ++grace > 2000) break;
            if ((r->retries & 63) == 0) sched_yield();
        }
        if (r->first_true_resp) { r->inv = vf_stamp(); r->res = parsec_future_get(fu); r->resp = vf_stamp(); }
        break; }
    case R_REQ: {
        int want = r->shape; void *es = (void *)(((uintptr_t)0xE5 << 32) | (uintptr_t)tid), *task = (void *)(((uintptr_t)0x7A << 32) | (uintptr_t)f);
        r->inv = vf_stamp();
        for (;;) {
            void *d = (want < 0) ? parsec_future_get_or_trigger(fu, NULL, NULL, es, task)
                                 : parsec_future_get_or_trigger(fu, cb_dc_nested, &want, es, task);
            while (tl_npending) {       /* I ran a trigger callback in deferred mode: fulfil it now (the upper level sets exactly once) */
                tl_npending--; small_delay(rng); parsec_future_set(tl_pending[tl_npending].fut, tl_pending[tl_npending].copy);
                __atomic_add_fetch(&G.async_sets, 1, __ATOMIC_RELAXED);
            }
            if (d) { r->res = d; break; }
            r->retries++; if ((r->retries & 15) == 0) sched_yield();
            if ((r->retries & 0xfffff) == 0) VF_TICK();
        }
        r->resp = vf_stamp();
        break; }
    }
}
static void worker(int tid, int nt, void *arg) {
    (void)arg; (void)nt; vf_rng_t rng; vf_rng_seed(&rng, G.seed, 900 + tid); tl_tid = tid;
    for (;;) {
        vf_spinbar_wait(&G.bar);
        if (G.stop) return;
        for (int f = 0; f < G.batch_n; f++) { do_future(tid, f, &rng); VF_TICK(); }
        vf_spinbar_wait(&G.bar);
    }
}

/* ------------------------------------------------------------------ batch set-up and oracles */
static uint64_t *sigset; static size_t sigcap, nsig;
static int sig_add(uint64_t s) { if (!s) s = 1; size_t i = (size_t)(s % sigcap); while (sigset[i]) { if (sigset[i] == s) return 0; i = (i + 1) % sigcap; } if (nsig * 2 < sigcap) { sigset[i] = s; nsig++; } return 1; }

static void setup_batch(vf_rng_t *rng, long base) {
    int nt = G.nthreads;
    for (int f = 0; f < G.batch_n; f++) {
        memset(G.rec[f], 0, sizeof G.rec[f]); G.gate[f] = 0; G.cb_count[f] = 0; G.cb_val[f] = NULL; G.cb_stamp[f] = 0; G.sets_done[f] = 0; G.specs[f] = NULL;
        memset((void *)G.trig[f], 0, sizeof G.trig[f]); memset((void *)G.setup[f], 0, sizeof G.setup[f]);
        G.gated[f] = vf_chance(rng, nt <= 4 ? 750 : nt <= 8 ? 450 : 250);   /* arrival gates are costly when the box is oversubscribed */ G.with_cb[f] = vf_chance(rng, 800); G.participants[f] = 0; G.n[f] = 0;
        if (G.kind == 0) {                         /* base */
            int nset = 1 + (nt > 1 ? (int)vf_randn(rng, nt >= 3 ? 3 : 2) : 0), assigned = 0;
            int first = (int)vf_randn(rng, (uint32_t)nt);
            for (int k = 0; k < nt; k++) { int t = (first + k) % nt; rec_t *r = &G.rec[f][t];
                if (assigned < nset) { r->role = R_SET; r->nsets = 1; r->val = (void *)(uintptr_t)((((uint64_t)(base + f) + 1) << 8) | (uint64_t)(t + 1)); assigned++; }
                else { int c = (int)vf_randn(rng, 10); r->role = c < 4 ? R_GET : c < 8 ? R_POLL : R_IDLE; } }
            G.n[f] = nset;   /* for the pollers' bail-out: all setters returned */
            parsec_base_future_t *fu = PARSEC_OBJ_NEW(parsec_base_future_t); parsec_future_init(fu, G.with_cb[f] ? cb_simple : NULL); G.fut[f] = fu;
        } else if (G.kind == 1) {                  /* countable */
            int total = 0;
            for (int t = 0; t < nt; t++) { rec_t *r = &G.rec[f][t]; int c = (int)vf_randn(rng, 10);
                if (c < 5 || (t == nt - 1 && total == 0)) { r->role = R_SET; r->nsets = 1 + (int)vf_randn(rng, 2); r->val = (void *)(uintptr_t)(t + 1); total += r->nsets; }
                else r->role = c < 9 ? R_POLL : R_IDLE; }
            G.n[f] = total;
            parsec_countable_future_t *fu = PARSEC_OBJ_NEW(parsec_countable_future_t); parsec_future_init(fu, G.with_cb[f] ? cb_simple : NULL, total); G.fut[f] = (parsec_base_future_t *)fu;
        } else {                                   /* datacopy */
            G.nshapes[f] = 1 + (int)vf_randn(rng, NSHAPE); G.async[f] = vf_chance(rng, 400);
            int nested_off = vf_chance(rng, 200);    /* nobody asks for another shape: no nested futures */
            for (int t = 0; t < nt; t++) { rec_t *r = &G.rec[f][t]; if (nt > 2 && vf_chance(rng, 100)) { r->role = R_IDLE; continue; }
                r->role = R_REQ; int s = nested_off ? 0 : (int)vf_randn(rng, (uint32_t)G.nshapes[f]);
                r->shape = (s == 0 && vf_chance(rng, 500)) ? -1 : s; }   /* -1: no specification (root data) */
            spec_t *s = new_spec(f, 0);
            parsec_datacopy_future_t *fu = PARSEC_OBJ_NEW(parsec_datacopy_future_t); s->fut = fu;
            parsec_future_init(fu, cb_dc_fulfill, s, cb_dc_match, s, cb_dc_cleanup); G.fut[f] = (parsec_base_future_t *)fu;
        }
        for (int t = 0; t < nt; t++) if (G.rec[f][t].role != R_IDLE) G.participants[f]++;
    }
}

static const char *kname[] = {"base", "countable", "datacopy"};
static void check_batch(long base) {
    int nt = G.nthreads; char buf[1500];
    for (int f = 0; f < G.batch_n && vf_nviolations < 8; f++) {
        parsec_base_future_t *fu = G.fut[f]; rec_t *R = G.rec[f];
        uint64_t sig = (uint64_t)G.kind * 77 + 5; int overl = 0;
        for (int a = 0; a < nt && !overl; a++) for (int b = 0; b < nt; b++) if (a != b && R[a].role && R[b].role && R[a].inv && R[b].inv && R[a].inv < R[b].resp && R[b].inv < R[a].resp) { overl = 1; break; }
        int bp = 0; buf[0] = 0;
        for (int t = 0; t < nt && bp < 1300; t++) if (R[t].role) bp += snprintf(buf + bp, sizeof buf - bp, "[t%d %s%s @%llu-%llu ->%p] ", t,
                    R[t].role == R_SET ? (R[t].nsets == 2 ? "set,set" : "set") : R[t].role == R_GET ? "get" : R[t].role == R_POLL ? "poll+get" : "req", R[t].role == R_REQ ? (R[t].shape < 0 ? "(root)" : R[t].shape == 0 ? "(s0)" : R[t].shape == 1 ? "(s1)" : R[t].shape == 2 ? "(s2)" : "(s3)") : "",
                    (unsigned long long)R[t].inv, (unsigned long long)R[t].resp, R[t].res);
        if (G.kind == 0) {
            void *V = NULL; int winner = -1, nset = 0; uint64_t min_set_inv = ~0ULL;
            for (int t = 0; t < nt; t++) if (R[t].role == R_SET) { nset++; if (R[t].inv < min_set_inv) min_set_inv = R[t].inv; }
            if (nset > 1) G.multi_setter++;
            V = parsec_future_is_ready(fu) ? parsec_future_get(fu) : NULL;
            if (!parsec_future_is_ready(fu)) vf_violation("base:not-ready-after-set", "%d set calls returned but the future is not ready | %s", nset, buf);
            for (int t = 0; t < nt; t++) if (R[t].role == R_SET && R[t].val == V) winner = t;
            if (parsec_future_is_ready(fu) && winner < 0) vf_violation("base:value-not-from-a-set", "future holds %p which no set call passed | %s", V, buf);
            for (int t = 0; t < nt; t++) {
                if ((R[t].role == R_GET || R[t].role == R_POLL) && R[t].inv && R[t].res != V) vf_violation("base:readers-disagree", "get by thread %d returned %p, final value is %p (%d racing setters) | %s", t, R[t].res, V, nset, buf);
                if (R[t].role == R_GET && R[t].resp < min_set_inv) vf_violation("base:get-before-set", "blocking get returned before any set was invoked | %s", buf);
                if (R[t].role == R_POLL) {
                    if (R[t].first_true_resp && R[t].first_true_resp < min_set_inv) vf_violation("base:ready-before-set", "is_ready said yes before any set was invoked | %s", buf);
                    if (winner >= 0 && R[t].last_false_inv && R[winner].resp <= R[t].last_false_inv) vf_violation("base:not-ready-after-set", "is_ready said no (invoked @%llu) after the successful set had returned (@%llu) | %s", (unsigned long long)R[t].last_false_inv, (unsigned long long)R[winner].resp, buf);
                    G.polls_false += R[t].retries; if (R[t].first_true_resp) G.polls_true++;
                }
            }
            if (G.with_cb[f]) { if (G.cb_count[f] != 1) vf_violation("base:callback-count", "completion callback ran %d times for one base future (%d racing setters) | %s", G.cb_count[f], nset, buf);
                else if (G.cb_val[f] != V) vf_violation("base:callback-value", "callback saw %p, readers got %p | %s", G.cb_val[f], V, buf); G.cb_runs += G.cb_count[f]; }
            if (winner >= 0) { G.winners[winner]++; sig = vf_mix(sig, (uint64_t)winner); }
        } else if (G.kind == 1) {
            int n = G.n[f]; uint64_t invs[2 * MAXT], resps[2 * MAXT]; int ns = 0;
            for (int t = 0; t < nt; t++) if (R[t].role == R_SET) { invs[ns] = R[t].inv; resps[ns++] = R[t].resp; if (R[t].nsets == 2) { invs[ns] = R[t].inv2; resps[ns++] = R[t].resp2; } }
            uint64_t all_resp = 0; for (int i = 0; i < ns; i++) if (resps[i] > all_resp) all_resp = resps[i];
            if (!parsec_future_is_ready(fu)) vf_violation("countable:not-ready-after-n-sets", "all %d sets returned but the countable future is not ready | %s", n, buf);
            for (int t = 0; t < nt; t++) if (R[t].role == R_POLL) {
                if (R[t].first_true_resp) { int c = 0; for (int i = 0; i < ns; i++) if (invs[i] < R[t].first_true_resp) c++;
                    if (c < n) vf_violation("countable:ready-too-early", "is_ready said yes when only %d of %d sets had been invoked | %s", c, n, buf); G.polls_true++; }
                if (R[t].last_false_inv && all_resp <= R[t].last_false_inv) vf_violation("countable:not-ready-after-n-sets", "is_ready said no (invoked @%llu) after all %d sets had returned (@%llu) | %s", (unsigned long long)R[t].last_false_inv, n, (unsigned long long)all_resp, buf);
                G.polls_false += R[t].retries;
            }
            if (G.with_cb[f]) { if (G.cb_count[f] != 1) vf_violation("countable:callback-count", "completion callback ran %d times for a countable future of %d sets | %s", G.cb_count[f], n, buf); G.cb_runs += G.cb_count[f];
                if (G.cb_count[f] == 1) { int c = 0; for (int i = 0; i < ns; i++) if (invs[i] < G.cb_stamp[f]) c++; if (c < n) vf_violation("countable:ready-too-early", "callback ran when only %d of %d sets had been invoked | %s", c, n, buf);
                    /* which set completed it: the last one invoked before the callback */
                    uint64_t best = 0; int who = -1; for (int t = 0; t < nt; t++) if (R[t].role == R_SET) { uint64_t li = R[t].nsets == 2 ? R[t].inv2 : R[t].inv; if (li < G.cb_stamp[f] && li > best) { best = li; who = t; } } if (who >= 0) { G.winners[who]++; sig = vf_mix(sig, (uint64_t)who); } } }
            sig = vf_mix(sig, (uint64_t)n);
        } else {
            void *by_shape[NSHAPE] = {0}; int asked[NSHAPE] = {0};
            for (int t = 0; t < nt; t++) if (R[t].role == R_REQ) { int s = R[t].shape < 0 ? 0 : R[t].shape; asked[s]++; copy_t *c = (copy_t *)R[t].res;
                if (!c) { vf_violation("datacopy:no-result", "request by thread %d never returned data | %s", t, buf); continue; }
                if (c->shape != s || c->f != f) vf_violation("datacopy:wrong-shape", "thread %d asked for shape %d and got a copy of shape %d | %s", t, s, c->shape, buf);
                if (!by_shape[s]) by_shape[s] = c; else if (by_shape[s] != c) vf_violation("datacopy:requesters-disagree", "two requesters of shape %d got different copies %p and %p | %s", s, by_shape[s], (void *)c, buf);
                G.retries_null += R[t].retries; }
            for (int s = 0; s < NSHAPE; s++) {
                if (G.trig[f][s] > 1) vf_violation("datacopy:shape-fulfilled-twice", "fulfilment for shape %d ran %d times | %s", s, G.trig[f][s], buf);
                if (asked[s] && G.trig[f][s] < 1) vf_violation("datacopy:no-fulfilment", "shape %d was delivered without its fulfilment callback | %s", s, buf);
                if (G.setup[f][s] > 1) vf_violation("datacopy:shape-created-twice", "%d nested futures were set up for shape %d | %s", G.setup[f][s], s, buf);
                G.triggers += G.trig[f][s]; G.nested_created += G.setup[f][s]; sig = vf_mix(sig, (uint64_t)(asked[s] * 4 + G.trig[f][s]));
            }
            /* who ran the root trigger: the requester with the smallest invocation among those that overlap it is not observable; use the first responder */
            { uint64_t best = ~0ULL; int who = -1; for (int t = 0; t < nt; t++) if (R[t].role == R_REQ && R[t].resp < best) { best = R[t].resp; who = t; } if (who >= 0) { G.winners[who]++; sig = vf_mix(sig, (uint64_t)who); } }
            sig = vf_mix(sig, (uint64_t)G.async[f]);
        }
        for (int t = 0; t < nt; t++) sig = vf_mix(sig, (uint64_t)R[t].role * 8 + (uint64_t)(R[t].shape + 1));
        /* order of the responses = visible trace of the interleaving */
        { int ord[MAXT], no = 0; for (int t = 0; t < nt; t++) if (R[t].role && R[t].resp) ord[no++] = t; for (int i = 1; i < no; i++) { int j = i, x = ord[i]; while (j > 0 && R[ord[j - 1]].resp > R[x].resp) { ord[j] = ord[j - 1]; j--; } ord[j] = x; } for (int i = 0; i < no; i++) sig = vf_mix(sig, (uint64_t)ord[i]); }
        G.futures++; for (int t = 0; t < nt; t++) if (R[t].role) G.ops++;
        if (overl) { G.overlapped++; if (sig_add(sig)) G.distinct++; }
        if (overl && G.samples < 2 && G.participants[f] >= 2) { G.samples++; vf_out("{\"type\":\"sample\",\"kind\":\"%s\",\"threads\":%d,\"future\":%ld,\"ops\":\"%s\"}", kname[G.kind], nt, base + f, buf); }
        /* release: datacopy futures run their cleanup callbacks now */
        PARSEC_OBJ_RELEASE(fu);
        if (G.kind == 2) { spec_t *s = G.specs[f]; while (s) { spec_t *nx = s->next;
                if (s->cleaned != 1) vf_violation("datacopy:cleanup-count", "cleanup callback ran %d times for the %s future of shape %d | %s", s->cleaned, s->shape == 0 && s->fut == (void *)fu ? "root" : "nested", s->shape, buf);
                free(s->copy); free(s); s = nx; } }
    }
}

int main(int argc, char **argv) {
    const char *kind = vf_arg(argc, argv, "--kind", "base");
    G.kind = !strcmp(kind, "countable") ? 1 : !strcmp(kind, "datacopy") ? 2 : 0;
    G.nthreads = (int)vf_arg_ll(argc, argv, "--threads", 4); if (G.nthreads > MAXT) G.nthreads = MAXT; if (G.nthreads < 1) G.nthreads = 1;
    G.seed = (uint64_t)vf_arg_ll(argc, argv, "--seed", 1); G.nfut = vf_arg_ll(argc, argv, "--futures", 2000);
    int pm = (int)vf_arg_ll(argc, argv, "--yield", 0);
    vf_yield_config(G.seed, pm, (int)vf_arg_ll(argc, argv, "--yield-us", 0), 1ULL << PARSEC_VERIF_SITE_FUTURE);
    pthread_mutex_init(&G.spec_mtx, NULL);
    sigcap = 1 << 20; sigset = calloc(sigcap, sizeof(uint64_t));
    vf_spinbar_init(&G.bar, G.nthreads + 1);
    pthread_t th[MAXT]; vf_team_ctx_t cx[MAXT]; pthread_barrier_t pb; pthread_barrier_init(&pb, NULL, G.nthreads);
    for (int i = 0; i < G.nthreads; i++) { cx[i] = (vf_team_ctx_t){worker, NULL, i, G.nthreads, &pb}; pthread_create(&th[i], NULL, vf_team_tramp, &cx[i]); }
    vf_heartbeat_start();
    vf_rng_t rng; vf_rng_seed(&rng, G.seed, 11);
    for (long base = 0; base < G.nfut && !vf_nviolations; base += BATCH) {
        G.batch_n = (int)(G.nfut - base < BATCH ? G.nfut - base : BATCH);
        setup_batch(&rng, base);
        vf_spinbar_wait(&G.bar);    /* go */
        vf_spinbar_wait(&G.bar);    /* batch done: quiescent */
        check_batch(base);
    }
    G.stop = 1; vf_spinbar_wait(&G.bar);
    for (int i = 0; i < G.nthreads; i++) pthread_join(th[i], NULL);
    vf_heartbeat_stop();
    char w[256]; int wp = 0; for (int t = 0; t < G.nthreads; t++) wp += snprintf(w + wp, sizeof w - wp, "%s%ld", t ? "," : "", G.winners[t]);
    vf_out("{\"type\":\"summary\",\"kind\":\"%s\",\"threads\":%d,\"futures\":%ld,\"ops\":%ld,\"overlapped\":%ld,\"distinct_overlapped\":%ld,\"callbacks\":%ld,\"multi_setter\":%ld,"
           "\"polls_false\":%ld,\"polls_true\":%ld,\"null_retries\":%ld,\"nested_created\":%ld,\"triggers\":%ld,\"deferred_sets\":%ld,\"winners\":[%s],\"yield_hits\":%llu}",
           kname[G.kind], G.nthreads, G.futures, G.ops, G.overlapped, G.distinct, G.cb_runs, G.multi_setter, G.polls_false, G.polls_true, G.retries_null, G.nested_created, G.triggers, G.async_sets, w,
           (unsigned long long)vf_yield_hits(PARSEC_VERIF_SITE_FUTURE));
    return vf_nviolations ? 1 : 0;
}
