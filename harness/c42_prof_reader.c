/* C42 reader: opens the trace files of one job through /repo/tools/profiling/dbpreader.c (compiled into this binary,
 * optionally with the other buffer back-end: -DVF_PROF_INLINE_CFG -DVF_PROF_MMAP=0|1) and compares, per file and per
 * stream, what the reader API returns with what the writer harness recorded (expected-<rank>.txt):
 * header (rank, buffer size, hr id), dictionary (name, colour, info length, convertor, local index), global infos,
 * streams (hr id, number of events, infos), and every event in stream order (key, event id, taskpool id, flags, info
 * length, info bytes).  Timestamps are only required to be non-decreasing inside a stream.
 * usage: c42_prof_reader N expected-0.txt ... expected-(N-1).txt file-0.prof ... file-(N-1).prof */
#include "parsec/parsec_config.h"
#if defined(VF_PROF_INLINE_CFG)
#undef PARSEC_PROFILING_USE_MMAP
#if VF_PROF_MMAP
#define PARSEC_PROFILING_USE_MMAP 1
#endif
#endif
#include "tools/profiling/dbpreader.c"
#include "kit.h"

static inline uint8_t stream_byte(uint64_t key, size_t j) { return (uint8_t)(vf_mix(key, j >> 3) >> ((j & 7) * 8)); }

static char *rdline(FILE *f, char **buf, size_t *cap) {
    ssize_t n = getline(buf, cap, f);
    if (n <= 0) return NULL;
    if ((*buf)[n - 1] == '\n') (*buf)[n - 1] = 0;
    return *buf;
}

int main(int argc, char **argv) {
    if (argc < 4) { fprintf(stderr, "usage\n"); return 2; }
    int n = atoi(argv[1]);
    if (argc != 2 + 2 * n) { fprintf(stderr, "usage: N expected... files...\n"); return 2; }
    char **expn = argv + 2, **profn = argv + 2 + n;
    vf_heartbeat_start();
    dbp_multifile_reader_t *dbp = dbp_reader_open_files(n, profn);
    long files_ok = 0, streams = 0, events = 0, infos = 0, dict = 0, with_info = 0, info_bytes = 0, ginfos = 0;
    uint64_t shape = 0;
    if (!dbp) { vf_violation("reader:open", "dbp_reader_open_files returned NULL"); goto out; }
    if (dbp_reader_nb_files(dbp) != n) vf_violation("reader:files", "%d files given, the reader holds %d", n, dbp_reader_nb_files(dbp));
    if (dbp_reader_last_error(dbp) != 0) vf_violation("reader:error", "the reader reports error %d after opening", dbp_reader_last_error(dbp));

    for (int e = 0; e < n; e++) {
        FILE *f = fopen(expn[e], "r"); if (!f) { perror(expn[e]); return 2; }
        char *line = NULL; size_t cap = 0;
        if (!rdline(f, &line, &cap) || line[0] != 'R') { fprintf(stderr, "bad expected file %s\n", expn[e]); return 2; }
        int rank; long bsz; int off = 0; sscanf(line, "R %d %ld %n", &rank, &bsz, &off); char hrinfo[256]; snprintf(hrinfo, sizeof hrinfo, "%s", line + off);
        /* the file of this rank in the multi-file view */
        dbp_file_t *file = NULL;
        for (int i = 0; i < dbp_reader_nb_files(dbp); i++) { dbp_file_t *c = dbp_reader_get_file(dbp, i); if (dbp_file_error(c) == 0 && dbp_file_get_rank(c) == rank) { if (file) vf_violation("reader:rank-twice", "two files claim rank %d", rank); file = c; } }
        if (!file) { vf_violation("reader:file-missing", "no readable file for rank %d (%s) in the multi-file view", rank, profn[e]); fclose(f); continue; }
        files_ok++;
        if (strlen(hrinfo) == 127 && !strncmp(dbp_file_hr_id(file), hrinfo, 127) && dbp_file_hr_id(file)[127])
            vf_violation("format:max-length-string-unterminated", "rank %d: the 127-character hr id of the file header is stored without its terminating NUL", rank);
        else if (strcmp(dbp_file_hr_id(file), hrinfo)) vf_violation("header:hr-id", "rank %d: hr id read back differs", rank);
        if (event_buffer_size != bsz) vf_violation("header:buffer-size", "rank %d: buffer size %d read, %ld written", rank, event_buffer_size, bsz);

        int stream_seen[256]; memset(stream_seen, 0, sizeof stream_seen);
        int nthreads = dbp_file_nb_threads(file), expected_streams = 0, dcount = 0;
        dbp_thread_t *th = NULL; dbp_event_iterator_t *it = NULL; const dbp_event_t *ev = NULL; long idx = 0, expected_n = 0; int ti_seen = 0, ti_expected = 0, abandon = 0; char hr[256] = "";
        int gi_found[64]; memset(gi_found, 0, sizeof gi_found);
        while (rdline(f, &line, &cap)) {
            if (line[0] == 'D') {
                int id, klen; char col[16], name[80]; int o2 = 0; sscanf(line, "D %d %d %15s %79s %n", &id, &klen, col, name, &o2); const char *conv = line + o2;
                dcount++;
                if (id < 0 || id >= dbp_file_nb_dictionary_entries(file)) { vf_violation("dictionary:missing", "rank %d: dictionary entry %d (%s) is beyond the %d entries read", rank, id, name, dbp_file_nb_dictionary_entries(file)); continue; }
                dbp_dictionary_t *d = dbp_file_get_dictionary(file, id); dict++;
                /* the reader keeps names in a 64-byte array filled with strncpy(.., 64) */
                if (strlen(name) == 63 && !strncmp(dbp_dictionary_name(d), name, 63) && dbp_dictionary_name(d)[63])
                    vf_violation("format:max-length-string-unterminated", "rank %d: the 63-character name of dictionary entry %d is stored without its terminating NUL", rank, id);
                else if (strncmp(dbp_dictionary_name(d), name, 64)) vf_violation("dictionary:name", "rank %d: entry %d name '%.64s' read, '%s' written", rank, id, dbp_dictionary_name(d), name);
                if (dbp_dictionary_keylen(d) != klen) vf_violation("dictionary:info-length", "rank %d: entry %d (%s) info length %d read, %d written", rank, id, name, dbp_dictionary_keylen(d), klen);
                if (strcmp(dbp_dictionary_attributes(d), col)) vf_violation("dictionary:attributes", "rank %d: entry %d colour '%s' read, '%s' written", rank, id, dbp_dictionary_attributes(d), col);
                if (strcmp(dbp_dictionary_convertor(d), strcmp(conv, "-") ? conv : "")) vf_violation("dictionary:convertor", "rank %d: entry %d (%s) convertor differs (%zu bytes read, %zu written)", rank, id, name, strlen(dbp_dictionary_convertor(d)), strlen(conv));
            } else if (line[0] == 'G') {
                char key[80]; size_t vl; int o2 = 0; sscanf(line, "G %79s %zu %n", key, &vl, &o2); const char *val = line + o2;
                int found = 0;
                for (int i = 0; i < dbp_file_nb_infos(file); i++) { dbp_info_t *gi = dbp_file_get_info(file, i);
                    if (!strcmp(dbp_info_get_key(gi), key)) { found++;
                        if (strlen(dbp_info_get_value(gi)) != vl || memcmp(dbp_info_get_value(gi), val, vl)) {
                            size_t a = 0, rl = strlen(dbp_info_get_value(gi)); while (a < vl && a < rl && dbp_info_get_value(gi)[a] == val[a]) a++;
                            vf_violation("global-info:value", "rank %d: global info %s: %zu bytes read, %zu written, first difference at byte %zu (buffer payload %d bytes)", rank, key, rl, vl, a, event_avail_space); } } }
                if (found != 1) vf_violation("global-info:missing", "rank %d: global info %s found %d times (%d infos read)", rank, key, found, dbp_file_nb_infos(file));
                ginfos++;
            } else if (line[0] == 'T' || line[0] == 'Z') {
                /* close the previous stream */
                if (th && abandon) { dbp_iterator_delete(it); it = NULL; th = NULL; }
                if (th) {
                    if (ev) { long extra = 0; while (ev) { extra++; ev = dbp_iterator_next(it); } vf_violation("events:extra", "rank %d stream '%s': %ld events more than the %ld written", rank, hr, extra, expected_n); }
                    if (idx != expected_n) vf_violation("events:missing", "rank %d stream '%s': iteration ended after %ld of %ld events", rank, hr, idx, expected_n);
                    if (ti_seen != ti_expected) vf_violation("stream-info:missing", "rank %d stream '%s': %d of %d infos matched", rank, hr, ti_seen, ti_expected);
                    dbp_iterator_delete(it); it = NULL; th = NULL;
                }
                if (line[0] == 'Z') break;
                int o2 = 0; sscanf(line, "T %ld %d %n", &expected_n, &ti_expected, &o2); snprintf(hr, sizeof hr, "%s", line + o2);
                expected_streams++; idx = 0; ti_seen = 0; ev = NULL; abandon = 0;
                int found = -1;
                for (int t = 0; t < nthreads; t++) {       /* the reader keeps hr ids in a 128-byte array filled with strncpy(.., 128) */
                    const char *rh = dbp_thread_get_hr_id(dbp_file_get_thread(file, t));
                    int same = !strncmp(rh, hr, 128);
                    if (!same && strlen(hr) == 127 && !strncmp(rh, hr, 127)) { same = 1; vf_violation("format:max-length-string-unterminated", "rank %d: the 127-character hr id of a stream is stored without its terminating NUL", rank); }
                    if (same) { if (found >= 0) vf_violation("streams:twice", "rank %d: stream '%s' appears twice", rank, hr); found = t; }
                }
                if (found < 0) { vf_violation("streams:missing", "rank %d: stream '%s' (%ld events) is not in the file (%d streams read)", rank, hr, expected_n, nthreads); continue; }
                if (found < 256) stream_seen[found] = 1;
                th = dbp_file_get_thread(file, found); streams++;
                if (dbp_thread_nb_events(th) != expected_n) vf_violation("streams:nb-events", "rank %d stream '%s': header says %d events, %ld written", rank, hr, dbp_thread_nb_events(th), expected_n);
                if (dbp_thread_nb_infos(th) != ti_expected) vf_violation("stream-info:count", "rank %d stream '%s': %d infos read, %d written", rank, hr, dbp_thread_nb_infos(th), ti_expected);
                it = dbp_iterator_new_from_thread(th); ev = dbp_iterator_current(it);
                shape = vf_mix(shape, (uint64_t)expected_n);
            } else if (line[0] == 'I') {
                if (!th) continue;
                char key[80]; int o2 = 0; sscanf(line, "I %79s %n", key, &o2); const char *val = line + o2; int found = 0;
                for (int i = 0; i < dbp_thread_nb_infos(th); i++) { dbp_info_t *ti = dbp_thread_get_info(th, i); if (!strcmp(dbp_info_get_key(ti), key)) { found++; if (strcmp(dbp_info_get_value(ti), val)) vf_violation("stream-info:value", "rank %d stream '%s': info %s value differs", rank, hr, key); } }
                if (found == 1) ti_seen++; else vf_violation("stream-info:missing", "rank %d stream '%s': info %s found %d times", rank, hr, key, found);
                infos++;
            } else if (line[0] == 'E') {
                if (!th) continue;
                int key, flags, len; unsigned long long eid, skey; unsigned tp;
                sscanf(line, "E %d %llu %u %d %d %llu", &key, &eid, &tp, &flags, &len, &skey);
                if (abandon) continue;
                if (!ev) { idx++; continue; }          /* counted as missing when the stream is closed */
                VF_TICK(); events++;
                int bad = 0;
                if (dbp_event_get_key(ev) != key) { vf_violation("events:key", "rank %d stream '%s' event %ld: key %d read, %d written", rank, hr, idx, dbp_event_get_key(ev), key); bad = 1; }
                if (dbp_event_get_event_id(ev) != eid) { vf_violation("events:event-id", "rank %d stream '%s' event %ld: event id %llu read, %llu written", rank, hr, idx, (unsigned long long)dbp_event_get_event_id(ev), eid); bad = 1; }
                if (dbp_event_get_taskpool_id(ev) != tp) { vf_violation("events:taskpool-id", "rank %d stream '%s' event %ld: taskpool id %u read, %u written", rank, hr, idx, dbp_event_get_taskpool_id(ev), tp); bad = 1; }
                if (dbp_event_get_flags(ev) != flags) { vf_violation("events:flags", "rank %d stream '%s' event %ld: flags %d read, %d written", rank, hr, idx, dbp_event_get_flags(ev), flags); bad = 1; }
                if (!bad) {
                    int rl = dbp_event_info_len(ev, file);
                    if (rl != len) vf_violation("events:info-length", "rank %d stream '%s' event %ld (key %d): info length %d read, %d written", rank, hr, idx, key, rl, len);
                    else if (len) {
                        const uint8_t *p = (const uint8_t *)dbp_event_get_info(ev); with_info++; info_bytes += len;
                        if (!p) vf_violation("events:info-bytes", "rank %d stream '%s' event %ld: no info pointer for %d bytes", rank, hr, idx, len);
                        else for (int j = 0; j < len; j++) if (p[j] != stream_byte(skey, (size_t)j)) { vf_violation("events:info-bytes", "rank %d stream '%s' event %ld (key %d, %d bytes): info differs from byte %d on", rank, hr, idx, key, len, j); break; }
                    } else if (dbp_event_get_info(ev) != NULL) vf_violation("events:info-bytes", "rank %d stream '%s' event %ld: info pointer without HAS_INFO", rank, hr, idx);
                }
                idx++;
                if (bad) abandon = 1;                  /* the rest of this stream cannot be aligned any more */
                else ev = dbp_iterator_next(it);
            }
        }
        if (dcount != dbp_file_nb_dictionary_entries(file)) vf_violation("dictionary:count", "rank %d: %d dictionary entries read, %d written", rank, dbp_file_nb_dictionary_entries(file), dcount);
        for (int t = 0; t < nthreads && t < 256; t++) if (!stream_seen[t]) vf_violation("streams:extra", "rank %d: the file holds a stream '%.128s' with %d events that was never written", rank, dbp_thread_get_hr_id(dbp_file_get_thread(file, t)), dbp_thread_nb_events(dbp_file_get_thread(file, t)));
        (void)expected_streams;
        free(line); fclose(f);
    }
out:
    vf_heartbeat_stop();
    vf_out("{\"type\":\"summary\",\"files\":%ld,\"streams\":%ld,\"events\":%ld,\"events_with_info\":%ld,\"info_bytes\":%ld,\"dictionary_entries\":%ld,\"global_infos\":%ld,\"stream_infos\":%ld,\"shape\":\"%016llx\",\"violations\":%d}",
           files_ok, streams, events, with_info, info_bytes, dict, ginfos, infos, (unsigned long long)shape, vf_nviolations);
    return vf_nviolations ? 1 : 0;
}
